"""Run one call history of Date constructions / add_days in a FRESH interpreter (C13/C18):
usage: c13_hist.py "c:d:m:y a:n:d:m:y ..."  → prints `H r1|r2|...`"""
import os
import sys

sys.path.insert(0, os.path.dirname(os.path.abspath(__file__)))
import common as C

C.import_financepy()
from financepy.utils.date import Date
from financepy.utils.error import FinError

outs = []
for op in sys.argv[1].split():
    p = op.split(':')
    try:
        if p[0] == 'c':
            x = Date(int(p[1]), int(p[2]), int(p[3]))
            outs.append(f'{int(x.excel_dt)} {x.weekday}')
        else:
            # build the start date WITHOUT touching the table end: the model does the same (mkDate)
            x = Date(int(p[2]), int(p[3]), int(p[4]))
            r = x.add_days(int(p[1]))
            outs.append(f'{r.d} {r.m} {r.y}')
    except FinError:
        outs.append('E:FinError')
    except Exception as e:  # noqa: BLE001
        outs.append('E:' + type(e).__name__)
print('H ' + '|'.join(outs))
