"""C18 history runner.  Reads a JSON job on stdin, prints one line `J <json>` on stdout.

job = {"mode": "shared" | "fresh", "histories": [{"pool": {name: spec}, "ops": [op, ...]}, ...], "snap": bool}

 * shared: per history, the pool objects are constructed at first use and then SHARED by all later ops of the
   history (models, curves, products, calendars, input lists); process globals (date format, date table)
   evolve with the ops.  The date format is put back to the interpreter default at the start of a history
   (public API `set_date_format`), the date table cannot be shrunk and carries over (the harness re-runs a
   suspicious history alone in a fresh interpreter before reporting it).
 * fresh: EVERY op is evaluated on objects constructed afresh from the pool specs, date format at its
   default (or at the format the op names as its explicit argument, for printing ops).

With `snap`, shared mode also reports, per op, which attributes of the pool objects involved changed
(`effects`) — the observable side of the generated effect summaries.

A value spec is JSON: scalars, ["D",d,m,y], ["ref",name], ["E",EnumClass,member], ["A",[...]] (numpy array),
["L",[...]] (list), ["T",[...]] (tuple), ["new",Class,[args],{kw}].  An op is
{"o": receiver-name | null, "m": method or function name, "a": [args], "k": {kw}, "fmt": format-name?}.
"""
import contextlib
import hashlib
import io
import json
import os
import sys

sys.path.insert(0, os.path.dirname(os.path.abspath(__file__)))
import common as C  # noqa: E402

C.import_financepy()

import numpy as np  # noqa: E402
from enum import Enum  # noqa: E402

from financepy.utils import date as dmod  # noqa: E402
from financepy.utils.date import Date, DateFormatTypes, set_date_format  # noqa: E402
from financepy.utils.error import FinError  # noqa: E402
from financepy.utils.calendar import Calendar, CalendarTypes, BusDayAdjustTypes, DateGenRuleTypes  # noqa: E402
from financepy.utils.frequency import FrequencyTypes  # noqa: E402
from financepy.utils.day_count import DayCountTypes  # noqa: E402
from financepy.utils.schedule import Schedule  # noqa: E402
from financepy.utils.global_types import SwapTypes, OptionTypes, FinCapFloorTypes, FinExerciseTypes  # noqa: E402
from financepy.models.black_scholes import BlackScholes, BlackScholesTypes  # noqa: E402
from financepy.models.black import Black, BlackTypes  # noqa: E402
from financepy.models.hw_tree import HWTree, FinHWEuropeanCalcType  # noqa: E402
from financepy.models.bk_tree import BKTree  # noqa: E402
from financepy.models.bdt_tree import BDTTree  # noqa: E402
from financepy.models import black_scholes_analytic as bsa  # noqa: E402
from financepy.market.curves.discount_curve_flat import DiscountCurveFlat  # noqa: E402
from financepy.market.curves.discount_curve import DiscountCurve  # noqa: E402
from financepy.market.curves.interpolator import InterpTypes  # noqa: E402
from financepy.products.bonds.bond import Bond, YTMCalcType  # noqa: E402
from financepy.products.bonds.bond_callable import BondEmbeddedOption  # noqa: E402
from financepy.products.rates.swap_fixed_leg import SwapFixedLeg  # noqa: E402
from financepy.products.rates.swap_float_leg import SwapFloatLeg  # noqa: E402
from financepy.products.rates.ibor_swap import IborSwap  # noqa: E402
from financepy.products.rates.ibor_deposit import IborDeposit  # noqa: E402
from financepy.products.rates.ibor_fra import IborFRA  # noqa: E402
from financepy.products.rates.ibor_swaption import IborSwaption  # noqa: E402
from financepy.products.rates.ibor_cap_floor import IborCapFloor  # noqa: E402
from financepy.products.rates.ibor_single_curve import IborSingleCurve  # noqa: E402
from financepy.products.equity.equity_vanilla_option import EquityVanillaOption  # noqa: E402
from financepy.products.equity.equity_american_option import EquityAmericanOption  # noqa: E402
from financepy.products.fx.fx_vanilla_option import FXVanillaOption  # noqa: E402
from financepy.products.credit.cds import CDS  # noqa: E402
from financepy.products.credit.cds_curve import CDSCurve  # noqa: E402
from financepy.models.heston import Heston  # noqa: E402
from financepy.models.black_shifted import BlackShifted  # noqa: E402
from financepy.models.bachelier import Bachelier  # noqa: E402
from financepy.models.sabr import SABR  # noqa: E402
from financepy.models.sabr_shifted import SABRShifted  # noqa: E402
from financepy.products.bonds.bond_option import BondOption  # noqa: E402
from financepy.products.fx.fx_forward import FXForward  # noqa: E402
from financepy.products.fx.fx_barrier_option import FXBarrierOption, FinFXBarrierTypes  # noqa: E402
from financepy.products.fx.fx_digital_option import FXDigitalOption  # noqa: E402
from financepy.products.fx.fx_one_touch_option import FXOneTouchOption  # noqa: E402
from financepy.products.equity.equity_compound_option import EquityCompoundOption  # noqa: E402
from financepy.products.equity.equity_barrier_option import EquityBarrierOption  # noqa: E402
from financepy.products.equity.equity_digital_option import EquityDigitalOption, FinDigitalOptionTypes  # noqa: E402
from financepy.products.equity.equity_one_touch_option import EquityOneTouchOption  # noqa: E402
from financepy.products.equity.equity_chooser_option import EquityChooserOption  # noqa: E402
from financepy.utils.global_types import EquityBarrierTypes, TouchOptionTypes  # noqa: E402

CLS = {c.__name__: c for c in (
    Date, Calendar, Schedule, BlackScholes, Black, HWTree, BKTree, BDTTree, DiscountCurveFlat, DiscountCurve, Bond,
    BondEmbeddedOption, SwapFixedLeg, SwapFloatLeg, IborSwap, IborDeposit, IborFRA, IborSwaption, IborCapFloor,
    IborSingleCurve, EquityVanillaOption, EquityAmericanOption, FXVanillaOption, CDS, CDSCurve, Heston,
    BlackShifted, Bachelier, SABR, SABRShifted, BondOption, FXForward, FXBarrierOption, FXDigitalOption, FXOneTouchOption,
    EquityCompoundOption, EquityBarrierOption, EquityDigitalOption, EquityOneTouchOption, EquityChooserOption)}
ENUMS = {e.__name__: e for e in (
    DateFormatTypes, CalendarTypes, BusDayAdjustTypes, DateGenRuleTypes, FrequencyTypes, DayCountTypes, SwapTypes,
    OptionTypes, FinCapFloorTypes, FinExerciseTypes, BlackScholesTypes, BlackTypes, FinHWEuropeanCalcType, InterpTypes,
    YTMCalcType, FinFXBarrierTypes, FinDigitalOptionTypes, EquityBarrierTypes, TouchOptionTypes)}
DEFAULT_FMT = DateFormatTypes.UK_LONG


# ------------------------------------------------------------------------------------ functions (no receiver)
def f_date_new(d, m, y):
    x = Date(d, m, y)
    return [x.excel_dt, x.weekday, x.d, x.m, x.y]


def f_str(x):
    return str(x)


def f_cmp(a, b):
    return [a < b, a > b, a <= b, a >= b, a == b, a - b]


def f_ibor_curve(value_dt, depos, fras, swaps, interp, qdates):
    """construct a curve from SHARED instrument lists and query it"""
    c = IborSingleCurve(value_dt, depos, fras, swaps, interp)
    return [c.df(q) for q in qdates] + [len(c.used_deposits), len(c.used_swaps)]


def f_tree_build_query(model, t_mat, times, dfs, t_exp, strike, face, cpn_times, cpn_flows, ex):
    """the two-phase API of the tree models used the way every product uses it: build, then query"""
    model.build_tree(t_mat, times, dfs)
    return model.bond_option(t_exp, strike, face, cpn_times, cpn_flows, ex)


def f_bump_df(curve, size, qdates):
    """a bumped copy of a curve, queried (the way the rho calculations use bump)"""
    b = curve.bump(size)
    return [b.df(q) for q in qdates]


def f_attr(obj, name):
    return getattr(obj, name)


def f_len(x):
    return len(x)


FUNCS = {
    'date_new': f_date_new, 'str': f_str, 'cmp': f_cmp, 'ibor_curve': f_ibor_curve,
    'tree_build_query': f_tree_build_query, 'attr': f_attr, 'len': f_len, 'bump_df': f_bump_df,
    'set_date_format': set_date_format,
    'bs_value': bsa.bs_value, 'bs_delta': bsa.bs_delta, 'bs_gamma': bsa.bs_gamma, 'bs_vega': bsa.bs_vega,
    'bs_theta': bsa.bs_theta, 'bs_rho': bsa.bs_rho,
}


# ------------------------------------------------------------------------------------ canonical form
def canon(x, depth=0):
    if x is None or isinstance(x, (bool, str)):
        return x
    if isinstance(x, (np.bool_,)):
        return bool(x)
    if isinstance(x, (int, np.integer)):
        return int(x)
    if isinstance(x, (float, np.floating)):
        return 'f:' + float(x).hex()
    if isinstance(x, Date):
        return f'D:{x.d}-{x.m}-{x.y}:{float(x.excel_dt).hex()}'
    if isinstance(x, Enum):
        return f'E:{type(x).__name__}.{x.name}'
    if isinstance(x, np.ndarray):
        if x.dtype == object:
            return ['ndo', list(x.shape), [canon(v, depth + 1) for v in x.ravel().tolist()]]
        return ['nd', list(x.shape), [canon(v) for v in x.ravel().tolist()]]
    if isinstance(x, (list, tuple)):
        return [canon(v, depth + 1) for v in x]
    if isinstance(x, dict):
        return {str(k): canon(v, depth + 1) for k, v in sorted(x.items(), key=lambda kv: str(kv[0]))}
    if type(x).__name__ == 'DataFrame':
        return {'df': canon({c: list(x[c]) for c in x.columns}, depth + 1)}
    if hasattr(x, '__dict__'):
        if depth > 6:
            return 'O:' + type(x).__name__
        return {'__class__': type(x).__name__, **{k: canon(v, depth + 1) for k, v in sorted(vars(x).items())}}
    if callable(x):
        return 'C:' + getattr(x, '__name__', type(x).__name__)
    return 'R:' + type(x).__name__ + ':' + repr(x)[:60]


def digest(obj):
    """{attribute: digest of its canonical value}; for plain lists one pseudo-attribute"""
    def h(v):
        return hashlib.sha1(json.dumps(canon(v, 1), sort_keys=True).encode()).hexdigest()[:10]
    if hasattr(obj, '__dict__') and not isinstance(obj, Enum):
        return {k: h(v) for k, v in vars(obj).items()}
    if isinstance(obj, list):
        # an input list: its length, the identity of its elements and their scalar / date / enum attributes
        # (caches nested inside instruments are the instruments' own business)
        def flat(e):
            if hasattr(e, '__dict__') and not isinstance(e, (Enum, Date)):
                return [type(e).__name__, id(e)] + [[k, canon(v)] for k, v in sorted(vars(e).items())
                                                    if v is None or isinstance(v, (bool, int, float, str, Date, Enum))]
            return canon(e)
        return {'<value>': hashlib.sha1(json.dumps([flat(e) for e in obj], sort_keys=True).encode()).hexdigest()[:10]}
    return {'<value>': h(obj)}


def errkind(e):
    return 'E:FinError' if isinstance(e, FinError) else 'E:' + type(e).__name__


# ------------------------------------------------------------------------------------ building and calling
class World:
    def __init__(self, pool):
        self.pool = pool
        self.objs = {}

    def get(self, name):
        if name not in self.objs:
            self.objs[name] = self.ev(self.pool[name])
        return self.objs[name]

    def ev(self, s):
        if isinstance(s, list):
            if s and isinstance(s[0], str):
                t = s[0]
                if t == 'D':
                    return Date(s[1], s[2], s[3])
                if t == 'ref':
                    return self.get(s[1])
                if t == 'E':
                    return ENUMS[s[1]][s[2]]
                if t == 'A':
                    return np.array([self.ev(v) for v in s[1]], dtype=float)
                if t == 'L':
                    return [self.ev(v) for v in s[1]]
                if t == 'T':
                    return tuple(self.ev(v) for v in s[1])
                if t == 'new':
                    kw = s[3] if len(s) > 3 else {}
                    return CLS[s[1]](*[self.ev(v) for v in s[2]], **{k: self.ev(v) for k, v in kw.items()})
            raise ValueError(f'bad spec {s!r}')
        return s

    def refs(self, s, acc):
        """names of pool objects a spec mentions (transitively through the pool specs)"""
        if isinstance(s, list):
            if len(s) == 2 and s[0] == 'ref' and isinstance(s[1], str):
                if s[1] not in acc:
                    acc.append(s[1])
                    self.refs(self.pool[s[1]], acc)
            else:
                for v in s:
                    self.refs(v, acc)
        elif isinstance(s, dict):
            for v in s.values():
                self.refs(v, acc)
        return acc

    def call(self, op):
        sink = io.StringIO()
        try:
            with contextlib.redirect_stdout(sink):
                args = [self.ev(a) for a in op.get('a', [])]
                kw = {k: self.ev(v) for k, v in op.get('k', {}).items()}
                if op.get('o') is not None:
                    r = getattr(self.get(op['o']), op['m'])(*args, **kw)
                else:
                    r = FUNCS[op['m']](*args, **kw)
            return canon(r)
        except Exception as e:  # noqa: BLE001
            return errkind(e)


def involved(w, op):
    acc = []
    if op.get('o') is not None:
        w.refs(['ref', op['o']], acc)
    w.refs(op.get('a', []), acc)
    w.refs(op.get('k', {}), acc)
    return acc


def run_shared(job, emit=None):
    out, effects = [], []
    for hi, h in enumerate(job['histories']):
        if emit:
            emit(f'S {hi}')
        set_date_format(DEFAULT_FMT)
        w = World(h['pool'])
        res, eff = [], []
        for i, op in enumerate(h['ops']):
            if emit:
                emit(f'O {hi} {i}')
            if job.get('snap'):
                names = involved(w, op)
                try:
                    with contextlib.redirect_stdout(io.StringIO()):
                        for n in names:
                            w.get(n)
                    before = {n: digest(w.objs[n]) for n in names}
                except Exception:  # noqa: BLE001   construction fails: the call reports it
                    before = None
            res.append(w.call(op))
            if job.get('snap'):
                ch = {}
                if before is not None:
                    for n in names:
                        if n in w.objs:
                            a = digest(w.objs[n])
                            d = sorted(k for k in set(a) | set(before[n]) if a.get(k) != before[n].get(k))
                            if d:
                                ch[n] = d
                eff.append(ch)
        out.append(res)
        effects.append(eff)
        if emit:
            emit('H ' + json.dumps({'i': hi, 'r': res, 'e': eff}))
    set_date_format(DEFAULT_FMT)
    return {'results': out, 'effects': effects}


def run_fresh(job, emit=None):
    """every op on freshly built objects; histories and ops are evaluated in REVERSE order, so that whatever
    process-wide state the implementation keeps (module-level caches, the date table) has a different past here
    than in the shared run - a result that depends on it shows up as a difference"""
    out = [None] * len(job['histories'])
    for hi in range(len(job['histories']) - 1, -1, -1):
        h = job['histories'][hi]
        if emit:
            emit(f'S {hi}')
        res = [None] * len(h['ops'])
        for i in range(len(h['ops']) - 1, -1, -1):
            op = h['ops'][i]
            if emit:
                emit(f'O {hi} {i}')
            fm = op.get('fmt')
            set_date_format(DateFormatTypes[fm] if fm else DEFAULT_FMT)
            w = World(h['pool'])       # nothing is shared with any other op
            res[i] = w.call(op)
        out[hi] = res
        if emit:
            emit('H ' + json.dumps({'i': hi, 'r': res}))
    set_date_format(DEFAULT_FMT)
    return {'results': out}


def main():
    """progress protocol on stdout (flushed line by line, so that the parent knows where a dying worker was):
    `S <history>` history started, `O <history> <op>` call about to run, `H <json>` results of a finished history,
    `J <json>` normal end"""
    job = json.load(sys.stdin)
    real = sys.stdout

    def emit(line):
        real.write(line + '\n')
        real.flush()
    if job['mode'] == 'shared':
        run_shared(job, emit)
    else:
        run_fresh(job, emit)
    emit('J ' + json.dumps({'done': True, 'g_end_year': getattr(dmod, 'g_end_year', None)}))


if __name__ == '__main__':
    main()
