#!/venv/bin/python
"""./check <PROPERTY> [--tier quick|thorough] [--replay FILE]

exit 0: the property held on everything explored; 1: VIOLATION line printed; 2: infrastructure failure."""
import argparse
import importlib
import os
import sys
import traceback

HERE = os.path.dirname(os.path.abspath(__file__))
sys.path.insert(0, HERE)
import common  # noqa: E402


def main():
    ap = argparse.ArgumentParser()
    ap.add_argument('prop')
    ap.add_argument('--tier', default=os.environ.get('VERIF_TIER', 'quick'), choices=['quick', 'thorough'])
    ap.add_argument('--replay', default=None)
    a = ap.parse_args()
    try:
        seed = int(os.environ.get('VERIF_SEED', '0'))
    except ValueError:
        seed = 0
    prop = a.prop.upper()
    try:
        mod = importlib.import_module('props.' + prop.lower())
    except ImportError as e:
        print(f'no check for {prop}: {e}')
        return 2
    ctx = common.Ctx(prop, a.tier, seed)
    try:
        if a.replay:
            return mod.replay(ctx, a.replay)
        return mod.run(ctx)
    except Exception:
        traceback.print_exc()
        print(f'INFRASTRUCTURE-FAILURE property={prop} (not a violation)')
        return 2


if __name__ == '__main__':
    sys.exit(main())
