"""Shared machinery of the checks: source freeze, generation, Lean build + audit, the model
driver, violation / known-finding reporting, evidence.  See DESIGN.md §4."""
from __future__ import annotations

import fcntl
import hashlib
import json
import os
import random
import re
import shutil
import subprocess
import sys
import time

VERIF = os.path.dirname(os.path.dirname(os.path.abspath(__file__)))
REPO = os.environ.get('FINVERIF_REPO', '/repo')
# FINVERIF_WORK (used only by tools/seedtest.py): a private copy of the lean project / output dirs, so that
# a run against a patched scratch worktree does not share lean/FinVerif/Gen, evidence/ or replays/ with
# runs against /repo.  The registered checks never set it.
_WORK = os.environ.get('FINVERIF_WORK')
LEAN_DIR = os.path.join(_WORK or VERIF, 'lean')
CACHE = os.path.join(_WORK or VERIF, '.cache')
EVID = os.path.join(_WORK or VERIF, 'evidence')
REPLAYS = os.path.join(_WORK or VERIF, 'replays')
NUMBA_BASE = os.path.join(VERIF, '.cache', 'numba')   # keyed by source hash: safe to share
ALLOWED_AXIOMS = {'propext', 'Classical.choice', 'Quot.sound'}
FORBIDDEN = re.compile(r'\b(sorry|admit|native_decide|bv_decide|implemented_by|unsafe)\b|^\s*axiom\s|maxHeartbeats\s+0\b')

os.makedirs(CACHE, exist_ok=True)


# --------------------------------------------------------------------------- source freeze
def repo_hash() -> str:
    h = hashlib.sha256()
    root = os.path.join(REPO, 'financepy')
    for dp, dn, fn in sorted(os.walk(root)):
        dn[:] = sorted(d for d in dn if d != '__pycache__')
        for f in sorted(fn):
            if f.endswith('.py'):
                p = os.path.join(dp, f)
                h.update(p.encode())
                with open(p, 'rb') as fh:
                    h.update(fh.read())
    return h.hexdigest()[:16]


def setup_numba_cache() -> str:
    """Numba's on-disk cache is keyed per defining file only; an edit to a callee in another file
    would leave a stale compiled caller.  Key the whole cache by the hash of every source file."""
    hsh = repo_hash()
    base = NUMBA_BASE
    d = os.path.join(base, hsh)
    os.makedirs(d, exist_ok=True)
    os.environ['NUMBA_CACHE_DIR'] = d
    try:
        os.utime(d, None)
        olds = sorted((os.path.getmtime(os.path.join(base, x)), x) for x in os.listdir(base) if x != hsh)
        for _, x in olds[:-3]:
            shutil.rmtree(os.path.join(base, x), ignore_errors=True)
    except OSError:
        pass
    return hsh


def import_financepy():
    setup_numba_cache()
    if REPO not in sys.path:
        sys.path.insert(0, REPO)
    import financepy  # noqa: F401
    p = os.path.dirname(os.path.abspath(financepy.__file__))
    if not p.startswith(os.path.abspath(REPO)):
        raise RuntimeError(f'financepy imported from {p}, not from {REPO}')


# --------------------------------------------------------------------------- locking
class Lock:
    def __init__(self, name='lake'):
        self.path = os.path.join(CACHE, name + '.lock')

    def __enter__(self):
        self.f = open(self.path, 'w')
        fcntl.flock(self.f, fcntl.LOCK_EX)
        return self

    def __exit__(self, *a):
        fcntl.flock(self.f, fcntl.LOCK_UN)
        self.f.close()


# --------------------------------------------------------------------------- generation + build
def generate(modules):
    """Regenerate Gen/*.lean for `modules` from /repo.  Returns {module: status}."""
    cmd = [sys.executable, os.path.join(VERIF, 'tools', 'py2lean', 'gen.py')] + list(modules)
    env = dict(os.environ, FINVERIF_REPO=REPO, FINVERIF_LEAN_DIR=LEAN_DIR, FINVERIF_CACHE=CACHE)
    subprocess.run(cmd, env=env, capture_output=True, text=True)
    st = json.load(open(os.path.join(CACHE, 'gen_status.json')))
    return {m: st.get(m, {'ok': False, 'error': 'no status'}) for m in modules}


def theorem_index(relpath):
    """[(line, name)] of theorem declarations in a Lean file."""
    out = []
    with open(os.path.join(LEAN_DIR, relpath), encoding='utf-8') as f:
        for i, line in enumerate(f, 1):
            m = re.match(r'\s*(?:private\s+|protected\s+)?theorem\s+([A-Za-z0-9_.\']+)', line)
            if m:
                out.append((i, m.group(1)))
    return out


def lake_build(targets, timeout=3000):
    """Build Lean modules.  Returns (ok, log, failed) where failed = {module: [theorem names]}."""
    t0 = time.time()
    p = subprocess.run(['lake', 'build'] + list(targets), cwd=LEAN_DIR, capture_output=True, text=True,
                       timeout=timeout)
    log = p.stdout + p.stderr
    failed = {}
    for m in re.finditer(r'error: (FinVerif/[A-Za-z0-9_/]+\.lean):(\d+):\d+', log):
        rel, line = m.group(1), int(m.group(2))
        mod = rel[:-5].replace('/', '.')
        name = '?'
        try:
            for ln, nm in theorem_index(rel):
                if ln <= line:
                    name = nm
        except OSError:
            pass
        failed.setdefault(mod, [])
        if name not in failed[mod]:
            failed[mod].append(name)
    for m in re.finditer(r'^- (FinVerif\.[A-Za-z0-9_.]+)$', log, re.M):
        failed.setdefault(m.group(1), [])
    return p.returncode == 0, log, failed, time.time() - t0


def grep_forbidden(relpaths):
    hits = []
    for rel in relpaths:
        in_block = 0
        with open(os.path.join(LEAN_DIR, rel), encoding='utf-8') as f:
            for i, line in enumerate(f, 1):
                code = line
                # strip block and line comments (good enough for our own files)
                if in_block:
                    if '-/' in code:
                        code = code.split('-/', 1)[1]
                        in_block = 0
                    else:
                        continue
                while '/-' in code:
                    pre, post = code.split('/-', 1)
                    if '-/' in post:
                        code = pre + post.split('-/', 1)[1]
                    else:
                        code = pre
                        in_block = 1
                code = code.split('--', 1)[0]
                if FORBIDDEN.search(code):
                    hits.append(f'{rel}:{i}: {line.strip()}')
    return hits


def audit_axioms(prop_modules, tag):
    """`#print axioms` for every theorem of the given Props modules.  Returns {theorem: [axioms]}"""
    names = []
    for mod in prop_modules:
        rel = mod.replace('.', '/') + '.lean'
        ns = None
        with open(os.path.join(LEAN_DIR, rel), encoding='utf-8') as f:
            txt = f.read()
        m = re.search(r'^namespace\s+(\S+)', txt, re.M)
        ns = m.group(1) if m else ''
        for _, nm in theorem_index(rel):
            names.append((ns + '.' + nm) if ns else nm)
    adir = os.path.join(CACHE, 'audit')
    os.makedirs(adir, exist_ok=True)
    path = os.path.join(adir, f'Audit_{tag}.lean')
    with open(path, 'w') as f:
        for mod in prop_modules:
            f.write(f'import {mod}\n')
        for nm in names:
            f.write(f'#print axioms {nm}\n')
    p = subprocess.run(['lake', 'env', 'lean', path], cwd=LEAN_DIR, capture_output=True, text=True, timeout=1200)
    out = p.stdout + p.stderr
    res = {}
    for m in re.finditer(r"'([^']+)' depends on axioms: \[([^\]]*)\]", out, re.S):
        res[m.group(1)] = [a.strip() for a in m.group(2).replace('\n', ' ').split(',') if a.strip()]
    for m in re.finditer(r"'([^']+)' does not depend on any axioms", out):
        res[m.group(1)] = []
    missing = [n for n in names if n not in res]
    return res, missing, out


def run_driver(driver, lines, timeout=3000):
    """Pipe `lines` to `lake env lean --run FinVerif/Driver/<driver>.lean`; return the answers."""
    inp = '\n'.join(lines) + '\n'
    p = subprocess.run(['lake', 'env', 'lean', '--run', f'FinVerif/Driver/{driver}.lean'], cwd=LEAN_DIR,
                       input=inp, capture_output=True, text=True, timeout=timeout)
    outs = [l[2:] for l in p.stdout.split('\n') if l.startswith('R ')]
    if len(outs) != len(lines):
        raise DriverError(f'driver {driver}: {len(outs)} answers for {len(lines)} ops; rc={p.returncode}\n'
                          + p.stderr[-2000:] + p.stdout[-500:])
    return outs


class DriverError(Exception):
    pass


# --------------------------------------------------------------------------- PRNG
class Rng(random.Random):
    """All random choices of one check derive from VERIF_SEED through this one generator."""

    def __init__(self, seed, stream=''):
        super().__init__(int(hashlib.sha256(f'{seed}/{stream}'.encode()).hexdigest()[:16], 16))


# --------------------------------------------------------------------------- context / reporting
class Ctx:
    def __init__(self, prop, tier, seed):
        self.prop = prop
        self.tier = tier
        self.seed = seed
        self.t0 = time.time()
        self.violations = []       # unlisted
        self.known_hits = {}       # finding id -> count
        self.notes = []
        self.cov = {'evaluations': 0, 'distinct_nontrivial': 0, 'samples': [], 'components': {}}
        self.obligations = []      # theorem names
        self.discharged = []
        self.broken = []           # human-readable broken obligations / correspondences
        self.axioms = {}
        self.assumptions = []
        self.model_ok = True
        kf = os.path.join(VERIF, 'known_findings.json')
        self.known = [k for k in json.load(open(kf))['findings'] if k['property'] == prop] if os.path.exists(kf) else []
        self.known_ids = {k['id'] for k in self.known if k.get('status', 'open') == 'open'}

    def rng(self, stream=''):
        return Rng(self.seed, f'{self.prop}/{stream}')

    def quick(self):
        return self.tier == 'quick'

    def count(self, component, n, nontrivial=None, sample=None):
        c = self.cov['components'].setdefault(component, {'evaluations': 0, 'nontrivial': 0})
        c['evaluations'] += n
        c['nontrivial'] += n if nontrivial is None else nontrivial
        self.cov['evaluations'] += n
        self.cov['distinct_nontrivial'] += n if nontrivial is None else nontrivial
        if sample is not None and len(self.cov['samples']) < 12:
            self.cov['samples'].append({'component': component, 'case': sample})

    def violation(self, what, case, finding=None, clause=None):
        """Record a failing case.  `finding` is the id of the classifier that matches it (if any);
        it is excused only if that id is listed in known_findings.json."""
        if finding is not None and finding in self.known_ids:
            self.known_hits[finding] = self.known_hits.get(finding, 0) + 1
            return
        if len(self.violations) < 50:
            self.violations.append({'what': what, 'case': case, 'classifier': finding, 'clause': clause})

    def broke(self, what):
        self.broken.append(what)

    def elapsed(self):
        return time.time() - self.t0


def write_replay(ctx: Ctx, payload: dict) -> str:
    d = os.path.join(REPLAYS, ctx.prop)
    os.makedirs(d, exist_ok=True)
    s = json.dumps(payload, sort_keys=True, default=str)
    name = hashlib.sha256(s.encode()).hexdigest()[:12] + '.json'
    path = os.path.join(d, name)
    with open(path, 'w') as f:
        json.dump(payload, f, indent=1, sort_keys=True, default=str)
    return path


def finish(ctx: Ctx, level: str, checker_cmd: str, trusted_base: list, rule: str) -> int:
    """Print KNOWN-FINDING / VIOLATION lines, write the evidence file, return the exit code."""
    rc = 0
    for k in ctx.known:
        if k.get('status', 'open') != 'open':
            continue
        n = ctx.known_hits.get(k['id'], 0)
        if n > 0:
            print(f"KNOWN-FINDING: property={ctx.prop} {k['id']}: {k['what']} ({n} case(s) this run)")
        else:
            # a listed finding that no longer reproduces is stale; say so but do not fail
            print(f"NOTE: known finding {k['id']} did not reproduce on this run (stale entry or not exercised)")
    lines = []
    if ctx.violations:
        v = ctx.violations[0]
        path = write_replay(ctx, {'property': ctx.prop, 'kind': 'failing-input', 'seed': ctx.seed, 'tier': ctx.tier,
                                  'violation': v, 'all': ctx.violations[:20], 'broken': ctx.broken,
                                  'replay_cmd': f'./check {ctx.prop} --replay <this file>'})
        lines.append(f'VIOLATION property={ctx.prop} replay={os.path.relpath(path, _WORK or VERIF)}')
        rc = 1
    elif ctx.broken:
        path = write_replay(ctx, {'property': ctx.prop, 'kind': 'no-failing-input-found', 'seed': ctx.seed,
                                  'tier': ctx.tier, 'broken': ctx.broken,
                                  'note': 'a proof obligation or the model/implementation correspondence no longer '
                                          'checks; the search over model and implementation found no concrete '
                                          'failing input'})
        lines.append(f'VIOLATION property={ctx.prop} replay={os.path.relpath(path, _WORK or VERIF)} no-failing-input-found')
        rc = 1
    os.makedirs(EVID, exist_ok=True)
    cov = dict(ctx.cov)
    cov['rule'] = rule
    n_obl = len(ctx.obligations)
    n_dis = len(ctx.discharged)
    if level == 'proof':
        cov['obligations'] = n_obl
        cov['discharged'] = n_dis
        cov['checker_cmd'] = checker_cmd
        cov['trusted_base'] = trusted_base
        cov['theorems'] = ctx.discharged
        cov['axioms_used'] = sorted({a for v in ctx.axioms.values() for a in v})
    if not cov['samples']:
        cov['samples'] = [{'note': 'no case was explored on this run'}]
    cov['broken_obligations'] = ctx.broken
    cov['known_findings_hit'] = ctx.known_hits
    ev = {'property_id': ctx.prop, 'tier': ctx.tier, 'seed': ctx.seed, 'level': level, 'coverage': cov,
          'assumptions': ctx.assumptions, 'wall_s': round(ctx.elapsed(), 2),
          'violations': len(ctx.violations) + (1 if (ctx.broken and not ctx.violations) else 0)}
    tmp = os.path.join(EVID, f'{ctx.prop}.json.tmp')
    with open(tmp, 'w') as f:
        json.dump(ev, f, indent=1, default=str)
    os.replace(tmp, os.path.join(EVID, f'{ctx.prop}.json'))
    for n in ctx.notes:
        print('NOTE:', n)
    for ln in lines:
        print(ln)
    print(f'{ctx.prop} [{ctx.tier}] obligations {n_dis}/{n_obl} discharged; evaluations={ctx.cov["evaluations"]}; '
          f'violations={len(ctx.violations)}; known={sum(ctx.known_hits.values())}; {ctx.elapsed():.1f}s')
    return rc


def lean_stage(ctx: Ctx, gen_modules, prop_modules, driver_modules, extra_files=()):
    """Steps 2–4 of the pipeline: regenerate, build, grep, audit.  Sets ctx.obligations/discharged/broken.
    Returns (drivers_ok: bool)."""
    with Lock('lake'):
        st = generate(gen_modules) if gen_modules else {}
        for m, s in st.items():
            if not s.get('ok'):
                ctx.broke(f'translator: Gen/{m}.lean cannot be generated from the source: {s.get("error")}')
        targets = list(prop_modules) + list(driver_modules)
        ok, log, failed, secs = lake_build(targets)
        ctx.cov['lean_build_s'] = round(secs, 1)
        # per-module retry so that one broken module does not hide the state of the others
        mod_ok = {}
        if ok:
            mod_ok = {t: True for t in targets}
        else:
            for t in targets:
                o, l2, f2, _ = lake_build([t])
                mod_ok[t] = o
                if not o:
                    for k, v in f2.items():
                        failed.setdefault(k, [])
                        for x in v:
                            if x not in failed[k]:
                                failed[k].append(x)
            with open(os.path.join(CACHE, f'build_{ctx.prop}.log'), 'w') as f:
                f.write(log)
        for mod in prop_modules:
            rel = mod.replace('.', '/') + '.lean'
            names = [n for _, n in theorem_index(rel)]
            ctx.obligations += [f'{mod}:{n}' for n in names]
            if mod_ok.get(mod):
                ctx.discharged += [f'{mod}:{n}' for n in names]
            else:
                bad = failed.get(mod, [])
                deps = [k for k in failed if k != mod]
                ctx.broke(f'proof: {mod} no longer builds; failing declarations: {bad or "?"}'
                          + (f'; failing dependencies: {deps}' if deps else ''))
                # theorems before the first failing one in the same file are still checked by Lean,
                # but the module as a whole is not accepted: count none of them as discharged.
        good_props = [m for m in prop_modules if mod_ok.get(m)]
        files = [m.replace('.', '/') + '.lean' for m in prop_modules] + list(extra_files)
        hits = grep_forbidden(files)
        if hits:
            ctx.broke('audit: forbidden token in proof files: ' + '; '.join(hits[:5]))
        if good_props:
            res, missing, out = audit_axioms(good_props, ctx.prop)
            ctx.axioms = res
            for nm, ax in res.items():
                extra = set(ax) - ALLOWED_AXIOMS
                if extra:
                    ctx.broke(f'audit: {nm} depends on non-standard axioms {sorted(extra)}')
            if missing:
                ctx.broke(f'audit: #print axioms produced nothing for {missing[:5]}')
        # thorough tier: the toolchain's independent re-checker replays the compiled property modules through the kernel
        if good_props and not ctx.quick() and os.environ.get('FINVERIF_NO_LEANCHECKER') != '1':
            t0 = time.time()
            try:
                r = subprocess.run(['lake', 'env', 'leanchecker'] + good_props, cwd=LEAN_DIR, capture_output=True, text=True,
                                   timeout=1800)
                ctx.cov['leanchecker_s'] = round(time.time() - t0, 1)
                ctx.cov['leanchecker_modules'] = list(good_props)
                if r.returncode != 0:
                    ctx.broke('audit: leanchecker rejected the compiled property modules: ' + (r.stdout + r.stderr)[-300:])
            except subprocess.TimeoutExpired:
                ctx.notes.append('leanchecker did not finish within 1800 s (not counted as a failure)')
        drivers_ok = all(mod_ok.get(d) for d in driver_modules)
        if not drivers_ok:
            ctx.broke('model: the executable model (driver) no longer builds: '
                      + ', '.join(d for d in driver_modules if not mod_ok.get(d)))
        ctx.model_ok = drivers_ok
        return drivers_ok


TRUSTED_BASE_COMMON = [
    'Lean 4.33.0 kernel; Mathlib v4.33.0 as compiled; axioms allowed: propext, Classical.choice, Quot.sound (audited by #print axioms on every run)',
    'tools/py2lean translator: the emitted Lean means what the Python source means on the checked subset (also exercised by the correspondence)',
    'harness: generators, canonicalisation, tolerances; CPython/NumPy/Numba/SciPy as the execution platform of the implementation',
]
