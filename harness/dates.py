"""Date helpers for the harness: enumeration of the property's date domain and biased sampling."""
import datetime


def all_dates(y0, y1):
    """(d, m, y) for every civil date of years y0..y1 inclusive (via datetime: independent of FinancePy)."""
    d = datetime.date(y0, 1, 1)
    end = datetime.date(y1, 12, 31)
    one = datetime.timedelta(days=1)
    out = []
    while d <= end:
        out.append((d.day, d.month, d.year))
        d += one
    return out


def interesting_dates(rng, n, y0=1901, y1=2199):
    """Dates biased to month ends, 28/29 Feb, weekends, year ends, 20th of IMM months, century years."""
    out = []
    for _ in range(n):
        y = rng.choice([rng.randint(y0, y1), rng.randint(y0, y1), rng.choice([1900, 1904, 2000, 2096, 2100, 2104, 2199, 2200])])
        y = min(max(y, y0), y1)
        k = rng.random()
        if k < 0.2:
            m = rng.randint(1, 12)
            nd = (datetime.date(y + (m == 12), (m % 12) + 1, 1) - datetime.timedelta(days=1)).day
            d = nd - rng.choice([0, 0, 1])
        elif k < 0.3:
            m, d = 2, rng.choice([27, 28, 29])
        elif k < 0.4:
            m, d = rng.choice([(12, 31), (1, 1), (12, 30), (1, 2), (12, 25), (12, 26), (12, 27), (12, 28)])
        elif k < 0.5:
            m, d = rng.choice([3, 6, 9, 12]), rng.choice([19, 20, 21, 15, 16, 17])
        else:
            m, d = rng.randint(1, 12), rng.randint(1, 31)
        try:
            datetime.date(y, m, d)
        except ValueError:
            d = 28
        out.append((d, m, y))
    return out
