"""Run a line-protocol driver as a compiled `lean_exe` (target declared in lean/lakefile.toml).
The model files are Mathlib-free, so they link; native code is ~50x faster than `lean --run`
for array-heavy models.  Falls back to the interpreter if the executable cannot be built."""
import os
import subprocess
from concurrent.futures import ThreadPoolExecutor

import common as C

NPROC = int(os.environ.get('VERIF_JOBS', '0')) or min(8, os.cpu_count() or 4)


def build_exe(target):
    with C.Lock('lake'):
        p = subprocess.run(['lake', 'build', target], cwd=C.LEAN_DIR, capture_output=True, text=True, timeout=3000)
    path = os.path.join(C.LEAN_DIR, '.lake', 'build', 'bin', target)
    return path if p.returncode == 0 and os.path.exists(path) else None


def _run(path, lines, timeout):
    p = subprocess.run([path], input='\n'.join(lines) + '\n', capture_output=True, text=True, timeout=timeout)
    outs = [l[2:] for l in p.stdout.split('\n') if l.startswith('R ')]
    if len(outs) != len(lines):
        raise C.DriverError(f'{path}: {len(outs)} answers for {len(lines)} ops; rc={p.returncode}\n' + p.stderr[-2000:])
    return outs


def run(target, driver, lines, timeout=3000, par=True):
    """answers of the driver for `lines` (compiled executable `target`, else `lean --run` of `driver`)."""
    if not lines:
        return []
    path = build_exe(target)
    if path is None:
        return C.run_driver(driver, lines, timeout)
    if not par or len(lines) < 4 * NPROC:
        return _run(path, lines, timeout)
    k = NPROC
    chunks = [lines[i::k] for i in range(k)]
    with ThreadPoolExecutor(max_workers=k) as ex:
        outs = list(ex.map(lambda ch: _run(path, ch, timeout), chunks))
    res = [None] * len(lines)
    for j, o in enumerate(outs):
        res[j::k] = o
    return res
