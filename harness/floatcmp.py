"""Floats cross the line protocol as IEEE-754 bit patterns; comparison is by tolerance (DESIGN §3.3)."""
import math
import struct


def f2b(x: float) -> str:
    return str(struct.unpack('<Q', struct.pack('<d', float(x)))[0])


def b2f(s: str) -> float:
    return struct.unpack('<d', struct.pack('<Q', int(s)))[0]


def _real(x):
    """float(x) for real scalars (incl. numpy scalars / 0-d arrays); None for anything else (complex, str, None)."""
    try:
        if isinstance(x, complex) or (hasattr(x, 'imag') and getattr(x, 'imag') != 0):
            return None
        return float(x)
    except (TypeError, ValueError):
        return None


def close(a: float, b: float, rtol=1e-10, atol=1e-12) -> bool:
    a, b = _real(a), _real(b)
    if a is None or b is None:
        return False            # a non-real result never agrees with anything
    if math.isnan(a) or math.isnan(b):
        return math.isnan(a) and math.isnan(b)
    if math.isinf(a) or math.isinf(b):
        return a == b
    return abs(a - b) <= atol + rtol * max(abs(a), abs(b))
