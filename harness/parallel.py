"""Run the Lean line-protocol driver on many lines, split over several processes."""
import os
from concurrent.futures import ThreadPoolExecutor

import common as C

NPROC = int(os.environ.get('VERIF_JOBS', '0')) or min(16, os.cpu_count() or 4)


def driver_parallel(driver, lines, chunk=60000):
    if len(lines) <= chunk:
        return C.run_driver(driver, lines)
    chunks = [lines[i:i + chunk] for i in range(0, len(lines), chunk)]
    with ThreadPoolExecutor(max_workers=NPROC) as ex:
        outs = list(ex.map(lambda ch: C.run_driver(driver, ch), chunks))
    res = []
    for o in outs:
        res.extend(o)
    return res
