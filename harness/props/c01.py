"""C01 — bootstrapped rate curves reprice every calibration instrument.

Theorems: FinVerif/Props/C01.lean — deposit_knot_reprices (closed form), value_unchanged_by_later_knots (from C02's
interp_local), bootstrap_reprices_all (induction over the instrument list: solver postcondition at each step => every
instrument within tol on the FINAL curve), reprice_of_postcondition, bootstrap_df0, leap_deposit_not_repriced.
Tie: the implementation's knot vector is fed to the C02 interpolation model (Driver/C02) and compared on a dense grid;
closed-form deposit knots are recomputed from their formula.  Oracles (the executable property): every input
instrument reprices on the built curve, df(curve date) = 1, df finite > 0 on a dense grid."""
import io
import math
import os
import sys
import contextlib

sys.path.insert(0, os.path.dirname(os.path.dirname(os.path.abspath(__file__))))
import common as C  # noqa: E402
import dates as D   # noqa: E402
from floatcmp import f2b, b2f, close  # noqa: E402
from parallel import driver_parallel  # noqa: E402

PROPS = ['FinVerif.Props.C01']
DRIVERS = ['FinVerif.Driver.C02']
TOL = 1e-8          # value / notional, sequential bootstrap (newton tol 1e-10)
LS_TOL = 1e-6       # value / notional, global least-squares refit of the non-local interpolators
RULE = ('seeded quote sets (1..4 deposits, 0..3 FRAs incl. the overlap branch, 0..6 swaps, increasing maturities, rates '
        '-1 %..+12 %, spot 0 or 2 days, every fixed-leg frequency / day count used) on seeded valuation dates 2000-2036 '
        '(month ends, leap days, weekends), built with IborSingleCurve for EVERY InterpTypes member, with OISCurve and '
        'IborDualCurve for the bootstrap-suitable ones; one evaluation = one instrument repriced, one knot recomputed or '
        'one grid date compared with the model; all cases are distinct by construction; non-trivial = all.')


def quiet(f, *a, **k):
    with contextlib.redirect_stdout(io.StringIO()):
        return f(*a, **k)


def touches_leap(v, d):
    import calendar
    from financepy.utils.date import Date
    if d.excel_dt <= v.excel_dt:
        return False
    for y in range(v.y, d.y + 1):
        if calendar.isleap(y):
            lo = max(v.excel_dt, Date(1, 1, y).excel_dt)
            hi = min(d.excel_dt, Date(1, 1, y + 1).excel_dt)
            if hi > lo:
                return True
    return False


def run(ctx):
    drivers_ok = C.lean_stage(ctx, [], PROPS, DRIVERS, extra_files=['FinVerif/Model/C02.lean'])
    C.import_financepy()
    import numpy as np
    import warnings
    warnings.simplefilter('ignore')
    np.seterr(all='ignore')
    from financepy.utils.date import Date
    from financepy.utils.frequency import FrequencyTypes as F
    from financepy.utils.day_count import DayCountTypes as DCT, DayCount
    from financepy.utils.global_types import SwapTypes
    from financepy.utils.error import FinError
    from financepy.market.curves.interpolator import InterpTypes, Interpolator
    from financepy.products.rates.ibor_deposit import IborDeposit
    from financepy.products.rates.ibor_fra import IborFRA
    from financepy.products.rates.ibor_swap import IborSwap
    from financepy.products.rates.ois import OIS
    from financepy.products.rates.ibor_single_curve import IborSingleCurve
    from financepy.products.rates.ois_curve import OISCurve
    from financepy.products.rates.dual_curve import IborDualCurve
    Date(1, 1, 2199)
    rng = ctx.rng('main')
    local = [InterpTypes.FLAT_FWD_RATES, InterpTypes.LINEAR_FWD_RATES, InterpTypes.LINEAR_ZERO_RATES]
    hist = {}

    def tick(k):
        hist[k] = hist.get(k, 0) + 1

    def ds(d):
        return f'{d.d}-{d.m}-{d.y}'

    def yf(dc, a, b):
        return DayCount(dc).year_frac(a, b)[0]

    def dt_axis(v, d):
        """|t365 - tISDA| of date d: the time-axis gap of the leap-year defect"""
        return abs((d.excel_dt - v.excel_dt) / 365.0 - yf(DCT.ACT_ACT_ISDA, v, d))

    def quotes():
        d, m, y = D.interesting_dates(rng, 1, 2000, 2036)[0]
        v = Date(d, m, y)
        spot = rng.choice([0, 2])
        settle = v.add_weekdays(spot) if spot else v
        level = rng.uniform(-0.01, 0.10)
        amp = rng.uniform(-0.01, 0.025)   # par curve level + amp (1 - exp(-t/5)): admissible (positive forwards of moderate size)

        def rate(t):
            return max(-0.012, min(0.13, level + amp * (1.0 - math.exp(-t / 5.0)) + rng.uniform(-0.0008, 0.0008)))
        dcs = [DCT.ACT_360, DCT.ACT_365F, DCT.THIRTY_E_360, DCT.ACT_ACT_ISDA, DCT.THIRTY_360_BOND]
        depo_dc = rng.choice(dcs[:3])
        ten = ['1D', '1W', '2W', '1M', '2M', '3M', '6M', '9M', '12M']
        nd = rng.choice([1, 2, 3, 4])
        i0 = sorted(rng.sample(range(len(ten)), nd))
        depos = [IborDeposit(settle, ten[i], rate(0.3), depo_dc) for i in i0]
        # deposits may collide after business-day adjustment
        depos = [x for k, x in enumerate(depos) if k == 0 or x.maturity_dt > depos[k - 1].maturity_dt]
        last = depos[-1].maturity_dt
        fras = []
        nf = rng.choice([0, 0, 1, 2, 3])
        start = last.add_tenor('-1M') if (rng.random() < 0.4 and (last.excel_dt - settle.excel_dt) > 45) else last
        for _ in range(nf):
            if start.excel_dt < v.excel_dt:
                start = last
            f_ = IborFRA(start, '3M', rate(1.0), depo_dc)
            if f_.maturity_dt <= last:
                break
            fras.append(f_)
            last = f_.maturity_dt
            start = f_.maturity_dt
        sw_t = ['1Y', '2Y', '3Y', '4Y', '5Y', '7Y', '10Y', '15Y', '20Y', '30Y']
        ns = rng.choice([0, 1, 2, 3, 4, 6])
        fr = rng.choice([F.ANNUAL, F.SEMI_ANNUAL, F.QUARTERLY])
        sdc = rng.choice(dcs)
        swaps = []
        # market-like grid: a contiguous run of standard tenors (sparse grids such as 1Y then 30Y make the library's
        # secant search, started from the previous knot's df, diverge to NaN — observed, see notes/C01.md; not explored here)
        i_start = rng.choice([0, 0, 1])
        for i in range(i_start, min(len(sw_t), i_start + ns)):
            s_ = IborSwap(settle, sw_t[i], SwapTypes.PAY, rate(float(sw_t[i][:-1])), fr, sdc)
            if s_.fixed_leg.payment_dts[-1] > last:
                swaps.append(s_)
                last = s_.fixed_leg.payment_dts[-1]
        desc = {'valuation': ds(v), 'spot_days': spot, 'deposit_dc': depo_dc.name,
                'deposits': [[ds(x.start_dt), ds(x.maturity_dt), x.deposit_rate] for x in depos],
                'fras': [[ds(x.start_dt), ds(x.maturity_dt), x.fra_rate] for x in fras],
                'swaps': [[ds(x.effective_dt), ds(x.maturity_dt), x.fixed_leg.cpn] for x in swaps],
                'swap_freq': fr.name, 'swap_dc': sdc.name}
        return v, settle, depos, fras, swaps, desc, (fr, sdc)

    ops, impl, metas = [], [], []

    def check_curve(kind, curve, v, instr, desc, tol=TOL, blanket=None):
        """instr: list of (tag, object, value function -> value/notional - par)"""
        rate_scale = 0.15
        for tag, obj, fn, dts in instr:
            try:
                e = quiet(fn)
            except Exception as ex:  # noqa: BLE001
                ctx.violation(f'{kind}: valuing an input {tag} on the built curve raised', desc | {'instrument': tag, 'error': type(ex).__name__ + ': ' + str(ex)[:100]},
                              finding=blanket, clause='reprice-raises')
                continue
            ctx.count(f'{kind}/reprice-{tag}', 1)
            if not (abs(e) <= tol):
                gap = max(dt_axis(v, d) for d in dts)
                leap = any(touches_leap(v, d) for d in dts)
                finding = blanket
                # narrow: only closed-form knots (deposits / overlapping FRAs) can be hit; the span must touch a leap
                # year; magnitude bounded by rate_scale * time-axis gap (<= ~1.2e-4 for |rates| <= 15 %, gap <= 366/365-1)
                if blanket:
                    pass
                elif 'least-squares' in kind:
                    # global refit stops at scipy least_squares' default tolerances: repricing only to ~1e-5 of notional
                    if math.isfinite(e) and abs(e) <= 2e-4:
                        finding = 'C01/least-squares-refit-tolerance'
                elif leap and tag in ('deposit', 'fra') and math.isfinite(e) and abs(e) <= 2.0 * rate_scale * gap + 1e-12:
                    finding = 'C01/leap-time-axis'
                ctx.violation(f'{kind}: input {tag} does not reprice (value/notional off par by more than {tol})',
                              desc | {'instrument': tag, 'dates': [ds(d) for d in dts], 'error_over_notional': e, 'time_axis_gap': gap},
                              finding=finding, clause='reprice-' + tag)
        # df(curve date) = 1, df finite > 0 on a dense grid
        try:
            d0 = float(np.asarray(curve.df(v)).ravel()[0])
        except Exception as ex:  # noqa: BLE001
            d0 = 'E:' + type(ex).__name__
        if isinstance(d0, str) or abs(d0 - 1.0) > 1e-12:
            ctx.violation(f'{kind}: df(curve date) is not 1', desc | {'df': d0}, finding=blanket, clause='df-curve-date')
        lastd = max(d for _, _, _, dts in instr for d in dts)
        span = int(lastd.excel_dt - v.excel_dt)
        grid = sorted({0, 1, 2, 7, 30, 91, 182, 365, span, span + 1} | {rng.randint(0, span + 30) for _ in range(25)}
                      | {int(d.excel_dt - v.excel_dt) for _, _, _, dts in instr for d in dts})
        for k in grid:
            q = v.add_days(k)
            try:
                x = float(np.asarray(curve.df(q)).ravel()[0])
            except Exception as ex:  # noqa: BLE001
                x = 'E:' + type(ex).__name__
            if isinstance(x, str) or not (x > 0 and math.isfinite(x)):
                ctx.violation(f'{kind}: df on the grid is not a positive finite number', desc | {'query': ds(q), 'df': x},
                              finding=blanket, clause='positive-finite')
            elif curve._interp_type in local and not blanket:
                tq = yf(DCT.ACT_ACT_ISDA, v, q)
                ops.append('U %d %d %s %s %s' % (curve._interp_type.value, len(curve._times), ' '.join(map(f2b, curve._times)),
                                                 ' '.join(map(f2b, curve._dfs)), f2b(tq)))
                impl.append(x)
                metas.append(desc | {'curve': kind, 'query': ds(q)})
        ctx.count(f'{kind}/df-grid', len(grid))

    ncase = 10 if ctx.quick() else 120
    for case in range(ncase):
        v, settle, depos, fras, swaps, desc, (fr, sdc) = quotes()
        tick(f'quotes/depos={len(depos)} fras={len(fras)} swaps={len(swaps)}')
        # no swaps and the first deposit settles after the curve date: _validate_inputs adds its bridging synthetic deposit only
        # when swaps are present, so the bootstrap asks a one-knot curve for df(settlement) (out-of-bounds read, C02/single-knot-curve)
        blanket = 'C01/spot-lag-without-swaps' if (len(swaps) == 0 and depos[0].start_dt > v) else None
        its = list(InterpTypes) if (case % 2 == 0 or not ctx.quick()) else local + [InterpTypes.LINEAR_ONFWD_RATES]
        for it in its:
            d2 = desc | {'interp': it.name}
            try:
                curve = quiet(IborSingleCurve, v, depos, fras, swaps, it)
            except FinError as ex:
                tick('IborSingleCurve/rejected-by-validation: ' + str(getattr(ex, '_message', ex))[:40])
                continue
            except Exception as ex:  # noqa: BLE001
                ctx.violation('IborSingleCurve: bootstrap raised on an admissible quote set', d2 | {'error': type(ex).__name__ + ': ' + str(ex)[:120]},
                              finding=blanket, clause='build-raises')
                continue
            tick(f'IborSingleCurve/{it.name}')
            instr = [('deposit', x, (lambda x=x: x.value(v, curve) / x.notional - 1.0), [x.start_dt, x.maturity_dt]) for x in depos]
            instr += [('fra', x, (lambda x=x: x.value(v, curve) / x.notional), [x.start_dt, x.maturity_dt]) for x in fras]
            instr += [('swap', x, (lambda x=x: x.value(v, curve, curve, None) / x.fixed_leg.notional), [x.effective_dt] + list(x.fixed_leg.payment_dts))
                      for x in swaps]
            bootstrap = Interpolator.suitable_for_bootstrap(it)
            if not bootstrap:
                # non-local interpolators are refitted globally by least squares (ftol 1e-4 in rate terms): DESIGN gap
                instr = [(t, o, f, dts) for t, o, f, dts in instr]
            # non-local interpolators are refitted globally by least squares (ftol 1e-4 in rate terms, DESIGN gap): 1e-6
            check_curve('IborSingleCurve' if bootstrap else 'IborSingleCurve(least-squares)', curve, v, instr, d2,
                        tol=TOL if bootstrap else LS_TOL, blanket=blanket)
            # closed-form deposit knots as placed by the bootstrap: 1/(1 + alpha r) * df(settle)
            if bootstrap and not blanket:
                for k, x in enumerate(depos, start=1):
                    a = yf(x.dc_type, x.start_dt, x.maturity_dt)
                    exp_df = 1.0 / (1.0 + a * x.deposit_rate) * float(curve.df(x.start_dt)) if k == 1 else None
                    tk = (x.maturity_dt.excel_dt - v.excel_dt) / 365.0
                    if not close(curve._times[k], tk, rtol=0, atol=1e-15):
                        ctx.violation('deposit knot is not at (maturity - curve date)/365', d2 | {'knot': k, 'time': float(curve._times[k]), 'expected': tk},
                                      clause='knot-time')
                    ctx.count('IborSingleCurve/deposit-knot', 1)
        # OIS curve from the same quote shapes, dual curve on top of it (bootstrap-suitable interpolators)
        for it in (local if ctx.quick() else local + [InterpTypes.LINEAR_ONFWD_RATES]):
            d2 = desc | {'interp': it.name}
            oswaps = [OIS(settle, x.maturity_dt, SwapTypes.PAY, x.fixed_leg.cpn, fr, sdc) for x in swaps]
            if not (depos or oswaps):
                continue
            try:
                oc = quiet(OISCurve, v, depos, [], oswaps, it)
            except FinError as ex:
                tick('OISCurve/rejected-by-validation: ' + str(getattr(ex, '_message', ex))[:40])
                continue
            except Exception as ex:  # noqa: BLE001
                ctx.violation('OISCurve: bootstrap raised on an admissible quote set', d2 | {'error': type(ex).__name__ + ': ' + str(ex)[:120]}, finding=blanket, clause='build-raises')
                continue
            tick(f'OISCurve/{it.name}')
            instr = [('deposit', x, (lambda x=x: x.value(v, oc) / x.notional - 1.0), [x.start_dt, x.maturity_dt]) for x in depos]
            instr += [('swap', x, (lambda x=x: x.value(v, oc) / x.fixed_leg.notional), [x.effective_dt] + list(x.fixed_leg.payment_dts)) for x in oswaps]
            check_curve('OISCurve', oc, v, instr, d2, blanket=blanket)
            try:
                dc_ = quiet(IborDualCurve, v, oc, depos, fras, swaps, it)
            except FinError as ex:
                tick('IborDualCurve/rejected-by-validation: ' + str(getattr(ex, '_message', ex))[:40])
                continue
            except Exception as ex:  # noqa: BLE001
                ctx.violation('IborDualCurve: bootstrap raised on an admissible quote set', d2 | {'error': type(ex).__name__ + ': ' + str(ex)[:120]}, finding=blanket, clause='build-raises')
                continue
            tick(f'IborDualCurve/{it.name}')
            instr = [('deposit', x, (lambda x=x: x.value(v, dc_) / x.notional - 1.0), [x.start_dt, x.maturity_dt]) for x in depos]
            instr += [('fra', x, (lambda x=x: x.value(v, oc, dc_) / x.notional), [x.start_dt, x.maturity_dt]) for x in fras]
            instr += [('swap', x, (lambda x=x: x.value(v, oc, dc_, None) / x.fixed_leg.notional), [x.effective_dt] + list(x.fixed_leg.payment_dts)) for x in swaps]
            check_curve('IborDualCurve', dc_, v, instr, d2, blanket=blanket)
    # ---- the implementation's knot vectors through the C02 interpolation model
    if ops and drivers_ok:
        try:
            model = driver_parallel('C02', ops, chunk=20000)
            bad = 0
            for op, im, mo, me in zip(ops, impl, model, metas):
                if mo.startswith('E:') or not close(im, b2f(mo), rtol=1e-9, atol=0):
                    bad += 1
                    if bad <= 3:
                        ctx.broke(f'correspondence: built curve df differs from the interpolation model on {me} (model {mo if mo.startswith("E:") else b2f(mo)}, impl {im})')
            ctx.count('model/df-grid', len(ops), sample={'case': metas[len(ops) // 2], 'impl': impl[len(ops) // 2]})
        except C.DriverError as e:
            ctx.broke(f'model driver failed: {str(e)[:300]}')
    # ---- witness of the known finding (instance of Props.C01.leap_deposit_not_repriced)
    v = Date(1, 6, 2019)
    depo = IborDeposit(v, Date(1, 6, 2020), 3.0 / 97.0 / (366.0 / 360.0), DCT.ACT_360)
    cw = quiet(IborSingleCurve, v, [depo], [], [])
    e = depo.value(v, cw) / depo.notional - 1.0
    if abs(e) > TOL:
        ctx.violation('IborSingleCurve: input deposit does not reprice', {'valuation': '1-6-2019', 'deposits': [['1-6-2019', '1-6-2020', depo.deposit_rate]],
                                                                          'error_over_notional': e, 'witness': True},
                      finding='C01/leap-time-axis' if (touches_leap(v, depo.maturity_dt) and abs(e) <= 2 * 0.15 * dt_axis(v, depo.maturity_dt) + 1e-12) else None,
                      clause='reprice-deposit')
    ctx.count('witness', 1)
    ctx.cov['histogram'] = dict(sorted(hist.items()))
    ctx.assumptions += [
        'the root finder (scipy.optimize.newton, tol 1e-10) and the least-squares refit are parameters with a postcondition; '
        'convergence is not proved — the postcondition is evaluated on every instrument of every curve built (it IS the repricing oracle)',
        'instrument valuation (legs, schedules, day counts) is C06/C15/C16\'s subject; here it is the implementation\'s own',
        'interpolation is C02\'s model; locality (interp_local) is proved there for the three local kernels; LINEAR_ONFWD_RATES '
        'and the spline types are validated by the oracles only',
    ]
    return C.finish(ctx, 'proof', 'lake build FinVerif.Props.C01 && lake env lean .cache/audit/Audit_C01.lean',
                    C.TRUSTED_BASE_COMMON + ['Model/C02.lean interpolation model (tied by C02\'s and this check\'s correspondence)',
                                             'the abstraction Instr (value functional reading the curve on [0, maturity]) as a '
                                             'description of deposits, FRAs and swaps'], RULE)


def replay(ctx, path):
    import json
    rp = json.load(open(path))
    v = rp.get('violation')
    if not v:
        print('replay: no concrete input in this file:', rp.get('broken'))
        return 1
    C.import_financepy()
    import warnings
    warnings.simplefilter('ignore')
    from financepy.utils.date import Date
    from financepy.utils.frequency import FrequencyTypes as F
    from financepy.utils.day_count import DayCountTypes as DCT
    from financepy.utils.global_types import SwapTypes
    from financepy.market.curves.interpolator import InterpTypes
    from financepy.products.rates.ibor_deposit import IborDeposit
    from financepy.products.rates.ibor_fra import IborFRA
    from financepy.products.rates.ibor_swap import IborSwap
    from financepy.products.rates.ibor_single_curve import IborSingleCurve
    Date(1, 1, 2199)
    c = v['case']

    def Dd(s):
        d, m, y = map(int, s.split('-'))
        return Date(d, m, y)
    print('replay:', v['what'], '| clause', v.get('clause'))
    vd = Dd(c['valuation'])
    ddc = DCT[c.get('deposit_dc', 'ACT_360')]
    depos = [IborDeposit(Dd(a), Dd(b), r, ddc) for a, b, r in c.get('deposits', [])]
    fras = [IborFRA(Dd(a), Dd(b), r, ddc) for a, b, r in c.get('fras', [])]
    swaps = [IborSwap(Dd(a), Dd(b), SwapTypes.PAY, r, F[c.get('swap_freq', 'ANNUAL')], DCT[c.get('swap_dc', 'THIRTY_E_360')])
             for a, b, r in c.get('swaps', [])]
    curve = quiet(IborSingleCurve, vd, depos, fras, swaps, InterpTypes[c.get('interp', 'FLAT_FWD_RATES')])
    for x in depos:
        print(f'  deposit {x.maturity_dt}: value/notional - 1 = {x.value(vd, curve) / x.notional - 1.0:.3e}')
    for x in fras:
        print(f'  fra {x.maturity_dt}: value/notional = {x.value(vd, curve) / x.notional:.3e}')
    for x in swaps:
        print(f'  swap {x.maturity_dt}: value/notional = {x.value(vd, curve, curve, None) / x.fixed_leg.notional:.3e}')
    print(' recorded case:', json.dumps(c, default=str)[:1200])
    print(f'VIOLATION property=C01 replay={path}')
    return 1
