"""C01 — bootstrapped rate curves reprice every calibration instrument.

Theorems: FinVerif/Props/C01.lean — deposit_knot_reprices (closed form), value_unchanged_by_later_knots (from C02's
interp_local), bootstrap_reprices_all (induction over the instrument list: solver postcondition at each step => every
instrument within tol on the FINAL curve), reprice_of_postcondition, bootstrap_df0, leap_deposit_not_repriced.
Props/C01b (on the GENERATED IborDeposit._maturity_df/value, IborFRA.value/maturity_df, IborFuture.fra_rate/convexity):
knot repricing identities, value = 0 <=> curve rate = quote, root = closed form, rate-error bounds, sign / monotonicity.
Props/C01c (C06's swap model): value = N * annuity * (par - coupon), single-curve closed form, monotone objective, float leg
linear in the forwards.  Props/C01d/e (Model/C01.lean = the text of _build_curve_using_1d_solver): the deposit loop reprices
every deposit (no solver assumption), closed-form FRA step, flat-forward monotone in the last knot, unique swap root, knot
vector structure, df(curve date) = 1 and df > 0.
Tie: the implementation's knot vector is fed to the C02 interpolation model (Driver/C02) and compared on a dense grid;
the bootstrap of every curve built with a local interpolant is REPLAYED by Model/C01 (Driver/C01, op BOOT: knot times, the
closed-form knots, the branch each FRA took — observed by recording the calls of scipy's newton); the generated kernels and
the FRA / swap objectives are compared with the implementation on every instrument of those curves.  Oracles (the executable
property): every input instrument reprices on the built curve, df(curve date) = 1, df finite > 0 on a dense grid; the
implementation's own value / pv01 / swap_rate / market_rate satisfy the identities proved about the model."""
import copy
import io
import math
import os
import sys
import contextlib

sys.path.insert(0, os.path.dirname(os.path.dirname(os.path.abspath(__file__))))
import common as C  # noqa: E402
import dates as D   # noqa: E402
from floatcmp import f2b, b2f, close  # noqa: E402
from parallel import driver_parallel  # noqa: E402

PROPS = ['FinVerif.Props.C01', 'FinVerif.Props.C01b', 'FinVerif.Props.C01c', 'FinVerif.Props.C01d', 'FinVerif.Props.C01e',
         'FinVerif.Props.C01f', 'FinVerif.Props.C01g']
DRIVERS = ['FinVerif.Driver.C02', 'FinVerif.Driver.C01', 'FinVerif.Driver.C02Axis']
GEN = ['RatesF', 'RatesR', 'CurvesF', 'DateK', 'DayCount']   # CurvesF: imported by Driver/C02, which this check also builds
TOL = 1e-8          # value / notional, sequential bootstrap (newton tol 1e-10)
LS_TOL = 1e-6       # value / notional, global least-squares refit of the non-local interpolators
RULE = ('seeded quote sets in three regimes cycled per case (positive rates -1 %..+12 %; EUR-2021 style negative rates: deposits/FRAs/'
        'short swaps below zero so that knot dfs exceed 1; positive rates with a forced futures-style FRA strip), 1..4 deposits, '
        '0..4 FRAs in the shapes none / chain / first FRA overlapping the last deposit (closed-form branch) / strip (FRA k starts '
        '1..3 days before FRA k-1 matures), 0..8 swaps on a contiguous run of standard tenors, spot 0 or 2 days, conventions PER INSTRUMENT '
        '(20 % of the sets uniform as before; 60 % every deposit / FRA its own day count and every Ibor swap and OIS its own fixed day count, '
        'floating frequency and floating day count, with calendar / roll / date-generation rule / OIS payment lag drawn per curve; 20 % also '
        'fixed frequency, calendar, roll, date-generation rule and payment lag per instrument), on seeded valuation dates 2000-2036 (month '
        'ends, leap days, weekends); EVERY quote set is built '
        'with IborSingleCurve, OISCurve AND IborDualCurve (on a flat-forward OIS discount curve) for EVERY InterpTypes member; plus 17 '
        'fixed witness quote sets. One evaluation = one instrument repriced, one constructor checked for not modifying its inputs, one '
        'knot recomputed or one grid date compared with the model; all cases are distinct by construction; non-trivial = all. '
        'Re-use / re-build: after the ~30 builds of a quote set the SAME objects, and then the objects with changed quotes (in place / deep '
        'copies / the library shocker, emulated when it is not callable; futures strips through IborFuture.to_fra of re-used futures), are built '
        'again with all three classes and compared with curves from freshly constructed instruments (knots to 1e-12, repricing errors to 1e-11). '
        'Not explored (stated): sparse swap grids (1Y then 30Y), forward-starting deposits outside the fixed witness.')


def quiet(f, *a, **k):
    with contextlib.redirect_stdout(io.StringIO()):
        return f(*a, **k)


import timeaxis  # noqa: E402
from timeaxis import touches_leap  # noqa: E402,F401  (the ONE classifier predicate: mirror of Spec.touchesLeap, compared with Lean every run)
# wave 5: Props/C01w (settlement df of a deposit knot must be the built curve's own; knot and valuation must use one accrual factor)
from props.c01_w5 import W5_PROPS, W5_RULE  # noqa: E402
PROPS = PROPS + [m_ for m_ in W5_PROPS if m_ not in PROPS]
RULE = RULE + W5_RULE



def run(ctx):
    drivers_ok = C.lean_stage(ctx, GEN, PROPS, DRIVERS, extra_files=['FinVerif/Model/C02.lean', 'FinVerif/Model/C01.lean', 'FinVerif/Model/C01Onf.lean'])
    C.import_financepy()
    import numpy as np
    import warnings
    warnings.simplefilter('ignore')
    np.seterr(all='ignore')
    from financepy.utils.date import Date
    from financepy.utils.frequency import FrequencyTypes as F
    from financepy.utils.day_count import DayCountTypes as DCT, DayCount
    from financepy.utils.global_types import SwapTypes
    from financepy.utils.error import FinError
    from financepy.utils.calendar import CalendarTypes as CAL, BusDayAdjustTypes as BD, DateGenRuleTypes as DG
    from financepy.market.curves.interpolator import InterpTypes, Interpolator
    from financepy.products.rates.ibor_deposit import IborDeposit
    from financepy.products.rates.ibor_fra import IborFRA
    from financepy.products.rates.ibor_swap import IborSwap
    from financepy.products.rates.ois import OIS
    from financepy.products.rates.ibor_single_curve import IborSingleCurve
    from financepy.products.rates.ois_curve import OISCurve
    from financepy.products.rates.dual_curve import IborDualCurve
    Date(1, 1, 2199)
    rng = ctx.rng('main')
    crng = ctx.rng('conventions')     # per-instrument conventions and quote bumps: a stream of its own, so dates / rates of a seed stay as they were
    local = [InterpTypes.FLAT_FWD_RATES, InterpTypes.LINEAR_FWD_RATES, InterpTypes.LINEAR_ZERO_RATES]
    hist = {}

    def tick(k):
        hist[k] = hist.get(k, 0) + 1

    def ds(d):
        return f'{d.d}-{d.m}-{d.y}'

    def yf(dc, a, b):
        return DayCount(dc).year_frac(a, b)[0]

    def dt_axis(v, d):
        """|t365 - tISDA| of date d: the time-axis gap of the leap-year defect"""
        if d.excel_dt >= v.excel_dt:      # exact: theorem time_axis_gap (Props/C02f), leap-year days of [v, d) times (1/365 - 1/366)
            return float(timeaxis.axis_gap(v, d))
        return abs((d.excel_dt - v.excel_dt) / 365.0 - yf(DCT.ACT_ACT_ISDA, v, d))

    def mk_depo(a, r):
        return IborDeposit(a[0], a[1], r, a[2], 100.0, a[3], a[4])

    def mk_fra(a, r):
        return IborFRA(a[0], a[1], r, a[2], 100.0, True, a[3], a[4])

    def mk_swap(a, r):
        c = a[2]
        return IborSwap(a[0], a[1], SwapTypes.PAY, r, c['ffreq'], c['fdc'], 1000000.0, 0.0, c['lfreq'], c['ldc'], c['cal'], c['bd'], c['dg'])

    def mk_ois(a, r):
        c = a[2]
        return OIS(a[0], a[1], SwapTypes.PAY, r, c['ffreq'], c['fdc'], 1000000.0, c['lag'], 0.0, c['lfreq'], c['ldc'], c['cal'], c['bd'], c['dg'])

    def quotes(regime):
        d, m, y = D.interesting_dates(rng, 1, 2000, 2036)[0]
        v = Date(d, m, y)
        spot = rng.choice([0, 2])
        settle = v.add_weekdays(spot) if spot else v
        if regime == 'neg':
            # EUR-2021 style: deposits / FRAs / short swaps below zero (knot dfs above 1 out to several years), long end slightly positive
            level = rng.uniform(-0.0060, -0.0035)
            amp = rng.uniform(0.004, 0.012)
        else:
            level = rng.uniform(-0.01, 0.10)
            amp = rng.uniform(-0.01, 0.025)   # par curve level + amp (1 - exp(-t/5)): admissible (positive forwards of moderate size)

        def rate(t):
            return max(-0.012, min(0.13, level + amp * (1.0 - math.exp(-t / 5.0)) + rng.uniform(-0.0008, 0.0008) * (0.25 if regime == 'neg' else 1.0)))
        dcs = [DCT.ACT_360, DCT.ACT_365F, DCT.THIRTY_E_360, DCT.ACT_ACT_ISDA, DCT.THIRTY_360_BOND]
        depo_dc = rng.choice(dcs[:3])
        # conventions PER INSTRUMENT (the property quantifies over "all day-count/frequency/calendar conventions of the instruments"):
        #   uniform    one deposit/FRA day count, one fixed frequency / day count, class defaults elsewhere (the generator as it was)
        #   mixed      every deposit / FRA its own day count; every swap (Ibor AND OIS, independently) its own fixed day count, floating
        #              frequency and floating day count; calendar / roll / date-generation rule / OIS payment lag drawn once per curve
        #   mixed-all  additionally fixed frequency, calendar, roll, date-generation rule and OIS payment lag per instrument (IborSingleCurve /
        #              IborDualCurve reject swaps that are not on one coupon grid: counted as rejected-by-validation; OISCurve accepts them)
        cmode = crng.choice(['uniform', 'mixed', 'mixed', 'mixed', 'mixed-all'])
        cals = [CAL.WEEKEND, CAL.TARGET, CAL.UNITED_STATES, CAL.UNITED_KINGDOM]
        freqs = [F.ANNUAL, F.SEMI_ANNUAL, F.QUARTERLY]
        case_cal, case_bd, case_dg, case_lag = crng.choice(cals), crng.choice([BD.FOLLOWING, BD.MODIFIED_FOLLOWING]), \
            crng.choice([DG.BACKWARD, DG.BACKWARD, DG.FORWARD]), crng.choice([0, 0, 1, 2])

        def mm_conv():
            """(day count, calendar, roll) of a deposit / FRA"""
            if cmode == 'uniform':
                return (depo_dc, CAL.WEEKEND, BD.MODIFIED_FOLLOWING)
            if cmode == 'mixed':
                return (crng.choice(dcs[:4]), CAL.WEEKEND, BD.MODIFIED_FOLLOWING)
            return (crng.choice(dcs[:4]), crng.choice(cals), crng.choice([BD.FOLLOWING, BD.MODIFIED_FOLLOWING]))

        def swap_conv(is_ois):
            c = {'ffreq': fr, 'fdc': sdc, 'lfreq': F.ANNUAL if is_ois else F.QUARTERLY, 'ldc': DCT.THIRTY_E_360, 'cal': CAL.WEEKEND,
                 'bd': BD.FOLLOWING, 'dg': DG.BACKWARD, 'lag': 0}
            if cmode == 'uniform':
                return c
            c.update(fdc=crng.choice(dcs), lfreq=crng.choice(freqs), ldc=crng.choice(dcs), cal=case_cal, bd=case_bd, dg=case_dg,
                     lag=case_lag if is_ois else 0)
            if cmode == 'mixed-all':
                c.update(ffreq=crng.choice(freqs), cal=crng.choice(cals), bd=crng.choice([BD.FOLLOWING, BD.MODIFIED_FOLLOWING]),
                         dg=crng.choice([DG.BACKWARD, DG.BACKWARD, DG.FORWARD]), lag=crng.choice([0, 0, 1, 2]) if is_ois else 0)
            return c
        ten = ['1D', '1W', '2W', '1M', '2M', '3M', '6M', '9M', '12M']
        nd = rng.choice([1, 2, 3, 4])
        i0 = sorted(rng.sample(range(len(ten) - (3 if regime == 'strip' else 0)), nd))
        rec = {'deposits': [], 'fras': [], 'swaps': [], 'ois': []}      # constructor arguments: the SAME instrument can be made afresh with another quote
        depos = []
        for i in i0:
            a_ = (settle, ten[i]) + mm_conv()
            depos.append(mk_depo(a_, rate(0.3)))
            rec['deposits'].append(a_)
        # deposits may collide after business-day adjustment
        keep = [k for k, x in enumerate(depos) if k == 0 or x.maturity_dt > depos[k - 1].maturity_dt]
        depos, rec['deposits'] = [depos[k] for k in keep], [rec['deposits'][k] for k in keep]
        last = depos[-1].maturity_dt
        fras = []
        # FRA shapes: none / chain (each starts where the previous ends) / first FRA overlapping the last deposit (closed-form
        # branch) / futures-style strip (FRA k starts 1..3 days BEFORE FRA k-1 matures)
        shape = 'strip' if regime == 'strip' else rng.choice(['none', 'chain', 'chain', 'overlap-depo', 'strip', 'strip'])
        nf = 0 if shape == 'none' else rng.choice([1, 2, 3, 4]) if shape != 'strip' else rng.choice([2, 3, 4])
        if shape == 'overlap-depo' and (last.excel_dt - settle.excel_dt) > 45:
            start = last.add_tenor('-1M')
        elif shape == 'strip' and (last.excel_dt - settle.excel_dt) > 10 and rng.random() < 0.5:
            start = last.add_days(-rng.choice([1, 2, 3]))
        else:
            start = last
        for _ in range(nf):
            if start.excel_dt < settle.excel_dt:
                start = last
            a_ = (start, '3M') + mm_conv()
            f_ = mk_fra(a_, rate(1.0))
            if f_.maturity_dt <= last:
                break
            fras.append(f_)
            rec['fras'].append(a_)
            last = f_.maturity_dt
            start = f_.maturity_dt.add_days(-rng.choice([1, 2, 3])) if shape == 'strip' else f_.maturity_dt
        sw_t = ['1Y', '2Y', '3Y', '4Y', '5Y', '7Y', '10Y', '15Y', '20Y', '30Y']
        ns = rng.choice([0, 1, 2, 3, 4, 6]) if regime == 'pos' else rng.choice([2, 3, 4, 6, 8])
        fr = rng.choice([F.ANNUAL, F.SEMI_ANNUAL, F.QUARTERLY])
        sdc = rng.choice(dcs)
        swaps, sw_ten, oswaps = [], [], []
        # market-like grid: a contiguous run of standard tenors (sparse grids such as 1Y then 30Y make the library's
        # secant search, started from the previous knot's df, diverge to NaN — observed, see notes/C01.md; not explored here)
        i_start = rng.choice([0, 0, 1])
        while i_start < len(sw_t) - 1 and settle.add_tenor(sw_t[i_start]).excel_dt <= last.excel_dt + 5:
            i_start += 1
        for i in range(i_start, min(len(sw_t), i_start + ns)):
            a_ = (settle, sw_t[i], swap_conv(False))
            s_ = mk_swap(a_, rate(float(sw_t[i][:-1])))
            if s_.fixed_leg.payment_dts[-1] > last:
                swaps.append(s_)
                sw_ten.append(sw_t[i])
                rec['swaps'].append(a_)
                last = s_.fixed_leg.payment_dts[-1]
        # the OIS of the same tenors and quotes, with conventions of their own
        for t_, x in zip(sw_ten, swaps):
            a_ = (settle, t_, swap_conv(True))
            oswaps.append(mk_ois(a_, x.fixed_leg.cpn))
            rec['ois'].append(a_)

        def cname(c):
            return {k_: (v_ if isinstance(v_, int) else v_.name) for k_, v_ in c.items()}
        desc = {'valuation': ds(v), 'spot_days': spot, 'deposit_dc': depo_dc.name, 'regime': regime, 'fra_shape': shape, 'conventions': cmode,
                'deposits': [[ds(x.start_dt), ds(x.maturity_dt), x.deposit_rate, x.dc_type.name, a_[3].name, a_[4].name] for x, a_ in zip(depos, rec['deposits'])],
                'fras': [[ds(x.start_dt), ds(x.maturity_dt), x.fra_rate, x.dc_type.name, a_[3].name, a_[4].name] for x, a_ in zip(fras, rec['fras'])],
                'swaps': [[ds(x.effective_dt), ds(x.maturity_dt), x.fixed_leg.cpn, cname(a_[2])] for x, a_ in zip(swaps, rec['swaps'])],
                'ois': [[ds(x.effective_dt), ds(x.maturity_dt), x.fixed_leg.cpn, cname(a_[2])] for x, a_ in zip(oswaps, rec['ois'])],
                'swap_freq': fr.name, 'swap_dc': sdc.name}
        return v, settle, depos, fras, swaps, oswaps, rec, desc

    ops, impl, metas = [], [], []

    # ------------------------------------------------------------------ correspondence with Model/C01 + Gen/RatesF (Driver/C01)
    ops1 = []           # (op line, callback(answer))
    newton_log = []     # id(instrument) of every call of scipy's newton during the build in progress
    import scipy.optimize as _so
    _orig_newton = _so.newton

    def _newton_rec(func, *a, **k):
        try:
            newton_log.append(id(k['args'][-1]))
        except Exception:  # noqa: BLE001
            pass
        return _orig_newton(func, *a, **k)
    _so.newton = _newton_rec
    ISDA = DCT.ACT_ACT_ISDA

    def ser(d):
        return int(d.excel_dt)

    def fdf(c, d):
        return float(np.asarray(c.df(d)).ravel()[0])

    def tbl(c, dts):
        u = sorted({ser(d): d for d in dts}.items())
        return str(len(u)) + ' ' + ' '.join(f'{k_} {f2b(fdf(c, d))}' for k_, d in u)

    def model_cmp(what, me, impl_val, rtol, atol):
        def cb(o):
            if o.startswith('E:') or o == 'bad-op' or not close(b2f(o), impl_val, rtol=rtol, atol=atol):
                if len([b for b in ctx.broken if b.startswith('correspondence: ' + what)]) < 3:
                    ctx.broke(f'correspondence: {what}: model {o if (o.startswith("E:") or o == "bad-op") else b2f(o)} vs implementation {impl_val} on {me}')
        return cb

    # ------------------------------------------------------------------ LINEAR_ONFWD_RATES: Model/C01Onf vs Interpolator
    # Tolerances (derived): model and implementation compute the SAME forwards in the same operation order (ONFF: 1e-12 relative
    # covers the evaluation of the k=1 spline at its own knots) and integrate them exactly (FITPACK `splint` of a linear spline vs
    # the trapezoid sum): the two log-dfs differ by a few ulps of sum|f_k|(t_k - t_{k-1}) <= ~50 * 1.1e-16 * 10 for the rates and
    # spans generated here, so dfs agree to well below 1e-12 relative (measured worst 3e-14).
    from financepy.market.curves.interpolator import Interpolator as _Interp
    ONF_RTOL = 1e-12

    def knots_txt(ts_, ds_):
        return '%d %s %s' % (len(ts_), ' '.join(f2b(float(x_)) for x_ in ts_), ' '.join(f2b(float(x_)) for x_ in ds_))

    def onfs_op(fits, qs):
        return 'ONFS %d %s %d %s' % (len(fits), ' '.join(knots_txt(t_, d_) for t_, d_ in fits), len(qs), ' '.join(f2b(float(q_)) for q_ in qs))

    def impl_onf(fits):
        it_ = _Interp(InterpTypes.LINEAR_ONFWD_RATES)
        for t_, d_ in fits:
            it_.fit(np.array(t_, dtype=float) if len(t_) else [], np.array(d_, dtype=float) if len(d_) else [])
        return it_

    def impl_read(it_, q_):
        try:
            return float(np.asarray(quiet(it_.interpolate, float(q_))).ravel()[0])
        except FinError:
            return 'E:FinError'
        except Exception as ex_:  # noqa: BLE001
            return 'E:' + type(ex_).__name__

    def onf_tol(it_, tmax):
        """relative tolerance of a df read: both sides sum the same trapezoids of the fitted forwards (in a different order), each to a
        few ulps, so the log-dfs differ by at most ~16 eps * sum(max|r| dt) (+ the flat tail); 1e-12 floor.  For curves with sane
        forwards the sum is ~1 and the floor rules; zig-zagging fitted forwards (which the scheme produces) enlarge it."""
        fn_ = getattr(it_, '_interp_fn', None)
        if fn_ is None:
            return ONF_RTOL
        kn_ = [float(x_) for x_ in fn_.get_knots()]
        rt_ = [abs(float(x_)) for x_ in fn_(np.array(kn_))]
        tot = sum(max(rt_[k_ - 1], rt_[k_]) * (kn_[k_] - kn_[k_ - 1]) for k_ in range(1, len(kn_))) + rt_[-1] * max(0.0, tmax - kn_[-1])
        return ONF_RTOL + 16 * 2.2e-16 * tot

    def onf_tie(what, me, fits, qs, on_curve=None):
        """queue one ONFS op; compare every answer with a FRESH Interpolator put through the same fits; `on_curve(q index, model
        value)` lets the caller compare the model with the curve object's own reads."""
        it_ = impl_onf(fits)
        vals = [impl_read(it_, q_) for q_ in qs]
        rt_tol = onf_tol(it_, max([float(q_) for q_ in qs] + [0.0])) if fits else ONF_RTOL

        def cb(o):
            toks = o.split()
            if o == 'bad-op' or len(toks) != len(qs):
                ctx.broke(f'correspondence: {what}: driver answered {o[:80]!r} on {me}')
                return
            for j_, (a_, im_) in enumerate(zip(toks, vals)):
                mo_ = a_ if a_.startswith('E:') else b2f(a_)
                same = (mo_ == im_) if (isinstance(mo_, str) or isinstance(im_, str)) else close(mo_, im_, rtol=rt_tol, atol=0)
                if not same:
                    if len([b for b in ctx.broken if b.startswith('correspondence: ' + what)]) < 3:
                        ctx.broke(f'correspondence: {what}: model {mo_} vs Interpolator {im_} at t={qs[j_]!r} on {me}')
                elif on_curve is not None and not isinstance(mo_, str):
                    on_curve(j_, mo_)
            ctx.count('model/onfwd-reads', len(qs), sample={'case': me, 'query': float(qs[len(qs) // 2]), 'impl': vals[len(qs) // 2]})
        ops1.append((onfs_op(fits, qs), cb))
        return it_, vals

    def onf_spline_tie(what, me, ts_, ds_, it_):
        """the fitted forwards knot by knot: model `(onf_times, onf_rates)` vs the implementation's spline."""
        kn_ = [float(x_) for x_ in it_._interp_fn.get_knots()]
        rt_ = [float(x_) for x_ in it_._interp_fn(np.array(kn_))]

        def cb(o):
            toks = o.split()
            bad = o == 'bad-op' or not toks or int(toks[0]) != len(kn_) or len(toks) != 1 + 2 * len(kn_)
            if not bad:
                n_ = len(kn_)
                mt_, mr_ = [b2f(x_) for x_ in toks[1:1 + n_]], [b2f(x_) for x_ in toks[1 + n_:]]
                scale = max([abs(x_) for x_ in rt_] + [1e-300])
                bad = any(a_ != b_ for a_, b_ in zip(mt_, kn_)) or any(not close(a_, b_, rtol=1e-12, atol=1e-13 * scale) for a_, b_ in zip(mr_, rt_))
            if bad and len([b for b in ctx.broken if b.startswith('correspondence: ' + what)]) < 3:
                ctx.broke(f'correspondence: {what}: fitted overnight forwards differ: model {o[:120]} vs implementation knots {kn_} rates {rt_} on {me}')
            ctx.count('model/onfwd-forwards', len(kn_))
        ops1.append(('ONFF ' + knots_txt(ts_, ds_), cb))
        return kn_, rt_

    def onf_oracles(what, me, ts_, ds_, it_, rates_, lrng):
        """the theorems of Props/C01f read on the implementation: knots reproduced, df(0) = 1, df > 0, continuity at the knots,
        causality (a fit of the first i+1 knots answers the same up to knot i), all on a FRESH Interpolator."""
        n_ = len(ts_)
        tol_ = onf_tol(it_, ts_[-1])
        for k_, (t_, d_) in enumerate(zip(ts_, ds_)):
            x_ = impl_read(it_, t_)
            want = 1.0 if abs(t_) < 1e-12 else d_
            if isinstance(x_, str) or not close(x_, want, rtol=tol_, atol=0):
                ctx.violation(f'{what}: LINEAR_ONFWD_RATES does not return the knot df at the knot time', me | {'knot': k_, 't': t_, 'df': d_, 'got': x_},
                              clause='onfwd-knot-reproduced')
        x0 = impl_read(it_, 0.0)
        if x0 != 1.0:
            ctx.violation(f'{what}: LINEAR_ONFWD_RATES df(0) is not 1', me | {'got': x0}, clause='onfwd-df0')
        if n_ >= 2 and rates_:
            fmax = max(abs(r_) for r_ in rates_)
            for k_ in range(1, n_):
                h_ = 1e-9 * max(1.0, ts_[k_])
                lo_, mid_, hi_ = impl_read(it_, ts_[k_] - h_), impl_read(it_, ts_[k_]), impl_read(it_, ts_[k_] + h_)
                # |df(t +- h) / df(t) - 1| <= exp(max|f| h) - 1 (the forwards are bounded by the largest fitted rate in absolute value)
                bound = math.expm1(fmax * h_) * 1.01 + 1e-13
                if any(isinstance(z_, str) for z_ in (lo_, mid_, hi_)) or not mid_ > 0.0 or abs(lo_ / mid_ - 1.0) > bound or abs(hi_ / mid_ - 1.0) > bound:
                    ctx.violation(f'{what}: LINEAR_ONFWD_RATES jumps at a knot', me | {'knot': k_, 't': ts_[k_], 'left': lo_, 'at': mid_, 'right': hi_, 'bound': bound},
                                  clause='onfwd-continuity')
            # causality: the prefix fit answers the same on [0, t_i]
            for _ in range(3):
                i_ = lrng.randint(1, n_ - 1)
                pre = impl_onf([(ts_[:i_ + 1], ds_[:i_ + 1])])
                for q_ in [ts_[i_], ts_[i_ - 1], lrng.uniform(0.0, ts_[i_]), lrng.uniform(ts_[i_ - 1], ts_[i_])]:
                    a_, b_ = impl_read(pre, q_), impl_read(it_, q_)
                    if isinstance(a_, str) or isinstance(b_, str) or not close(a_, b_, rtol=tol_, atol=0):
                        ctx.violation(f'{what}: LINEAR_ONFWD_RATES value before knot {i_} depends on later knots', me | {'prefix_knots': i_ + 1, 't': q_, 'prefix_fit': a_, 'full_fit': b_},
                                      clause='onfwd-causal')
        ctx.count('oracle/onfwd', 2 * n_ + 12)

    def onfwd_curve_tie(kind, curve, v, desc, grid_q):
        """a bootstrapped LINEAR_ONFWD_RATES curve: its final knots through the model (reads, fitted forwards), the theorems as oracles,
        and the curve's OWN interpolator object against the model of a fit of the final knots (refit refreshed?)."""
        Tk = [float(x_) for x_ in curve._times]
        Dk = [float(x_) for x_ in curve._dfs]
        me = desc | {'curve': kind}
        qs = Tk + [tq_ for _, tq_, _ in grid_q]
        own = {len(Tk) + j_: (q_, x_) for j_, (q_, _, x_) in enumerate(grid_q)}
        flagged = []

        def on_curve(j_, mo_):
            if j_ in own and not flagged:
                q_, x_ = own[j_]
                if not close(x_, mo_, rtol=1e-10, atol=0):
                    flagged.append(1)
                    ud_, uf_, us_ = curve.used_deposits, curve.used_fras, curve.used_swaps
                    fnd = None
                    if not us_ and uf_:
                        f_ = uf_[-1]
                        old_ = (ud_[-1].maturity_dt.excel_dt - v.excel_dt) / 365.0 if ud_ else 0.0
                        ts__, tm__ = (f_.start_dt.excel_dt - v.excel_dt) / 365.0, (f_.maturity_dt.excel_dt - v.excel_dt) / 365.0
                        prev = impl_onf([(Tk[:-1], Dk[:-1])])
                        pv_ = impl_read(prev, qs[j_])
                        # the closed-form branch placed the LAST knot and the object still answers from the fit of the knots before it
                        if ts__ < old_ < tm__ and not isinstance(pv_, str) and close(pv_, x_, rtol=1e-12, atol=0):
                            fnd = 'C01/stale-fit-after-closed-form-last-knot'
                    ctx.violation(f'{kind}: the curve answers from an interpolator that was not refitted through its final knots (LINEAR_ONFWD_RATES)',
                                  me | {'query': ds(q_), 'curve_df': x_, 'refitted_df': mo_}, finding=fnd, clause='onfwd-refit')
        it_, _ = onf_tie('LINEAR_ONFWD_RATES curve reads', me, [(Tk, Dk)], qs, on_curve)
        if len(Tk) >= 2:
            _, rt_ = onf_spline_tie('LINEAR_ONFWD_RATES curve forwards', me, Tk, Dk, it_)
            onf_oracles(kind, me, Tk, Dk, it_, rt_, rng)

    def tie_curve(kind, curve, v, disc, deps_in, fras_in, swaps_in, desc, solved_ids):
        """Replay the bootstrap of `curve` in Model/C01 and compare; compare the generated kernels / objectives with the
        implementation on every input instrument; check the identities proved about the model on the implementation's own
        numbers (direct oracles).  `disc` is the discount curve of an IborDualCurve (None otherwise)."""
        m = curve._interp_type.value
        Tk = [float(x_) for x_ in curve._times]
        Dk = [float(x_) for x_ in curve._dfs]
        ud, uf, us = list(curve.used_deposits), list(curve.used_fras), list(curve.used_swaps)
        me = desc | {'curve': kind}
        if len(Tk) != 1 + len(ud) + len(uf) + len(us):
            ctx.violation(f'{kind}: number of knots is not 1 + number of used instruments', me | {'knots': len(Tk), 'used': [len(ud), len(uf), len(us)]},
                          clause='knot-count')
            return
        parts = ['BOOT', str(m), str(len(ud))]
        for x in ud:
            parts += [f2b(yf(ISDA, v, x.start_dt)), f2b((x.maturity_dt.excel_dt - v.excel_dt) / 365.0), f2b(yf(x.dc_type, x.start_dt, x.maturity_dt)),
                      f2b(x.deposit_rate)]
        parts.append(str(len(uf)))
        k = 1 + len(ud)
        for x in uf:
            parts += [f2b((x.start_dt.excel_dt - v.excel_dt) / 365.0), f2b((x.maturity_dt.excel_dt - v.excel_dt) / 365.0), f2b(yf(ISDA, v, x.start_dt)),
                      f2b(yf(x.dc_type, x.start_dt, x.maturity_dt)), f2b(x.fra_rate), f2b(Dk[k])]
            k += 1
        parts.append(str(len(us)))
        for x in us:
            parts += [f2b((x.fixed_leg.payment_dts[-1].excel_dt - v.excel_dt) / 365.0), f2b(Dk[k])]
            k += 1
        impl_flags = ['0' if id(x) in solved_ids else '1' for x in uf]
        n_closed = 1 + len(ud)

        def cb_boot(o, Tk=Tk, Dk=Dk, impl_flags=impl_flags, nf=len(uf), me=me):
            t = o.split()
            bad = None
            if o.startswith('E:') or o == 'bad-op' or len(t) < nf + 1 or len(t) != nf + 1 + 2 * int(t[nf]):
                bad = f'model answered `{o[:60]}`'
            else:
                n = int(t[nf])
                mt = [b2f(x_) for x_ in t[nf + 1:nf + 1 + n]]
                md = [b2f(x_) for x_ in t[nf + 1 + n:]]
                if t[:nf] != impl_flags:
                    bad = f'FRA branches (1 = closed form) model {t[:nf]} vs implementation {impl_flags} (newton calls recorded)'
                elif n != len(Tk) or any(not close(a_, b_, rtol=0, atol=1e-15) for a_, b_ in zip(mt, Tk)):
                    bad = f'knot times model {mt} vs implementation {Tk}'
                elif any(not close(a_, b_, rtol=1e-12, atol=0) for a_, b_ in zip(md, Dk)):
                    bad = f'knot dfs model {md} vs implementation {Dk}'
            if bad and len([b for b in ctx.broken if b.startswith('correspondence: bootstrap replay')]) < 3:
                ctx.broke(f'correspondence: bootstrap replay (Model/C01) differs from {kind}: {bad} on {me}')
        ops1.append((' '.join(parts), cb_boot))
        ctx.count('model/bootstrap-replay', 1, sample=(me | {'knots': len(Tk), 'closed_form_fras': impl_flags.count('1')}) if not ops1[:-1] else None)
        ctx.count('model/bootstrap-replay-closed-form-knots', n_closed - 1 + impl_flags.count('1'))
        dsc = disc if disc is not None else curve
        # ---- deposits: generated _maturity_df / value; identity value/N - 1 = acc (r - market_rate) dfM/dfS
        for x in deps_in:
            acc = yf(x.dc_type, x.start_dt, x.maturity_dt)
            dfS, dfM = fdf(curve, x.start_dt), fdf(curve, x.maturity_dt)
            ops1.append((f'DK {f2b(acc)} {f2b(x.deposit_rate)}', model_cmp('IborDeposit._maturity_df', me, x._maturity_df(), 1e-15, 0)))
            iv = float(x.value(v, curve))
            ops1.append((f'DV {ser(v)} {f2b(acc)} {f2b(dfS)} {f2b(dfM)} {f2b(x.deposit_rate)} {f2b(x.notional)} {ser(x.maturity_dt)}',
                         model_cmp('IborDeposit.value', me, iv, 1e-14, 0)))
            if acc == 0.0:
                # e.g. a 1D deposit 30th -> 31st under 30E/360: zero accrual; valuation_details divides by it (observed, notes/C01.md)
                tick('tie/zero-accrual-deposit')
                ctx.count('model/deposit-kernels', 2)
                continue
            mr = float(x.valuation_details(v, curve)['market_rate'])
            if not abs((iv / x.notional - 1.0) - acc * (x.deposit_rate - mr) * dfM / dfS) <= 1e-13:
                ctx.violation(f'{kind}: deposit value/notional - 1 is not acc x (quote - market_rate) x df(mat)/df(start)',
                              me | {'deposit': [ds(x.start_dt), ds(x.maturity_dt)], 'value_over_notional': iv / x.notional, 'market_rate': mr},
                              clause='deposit-rate-identity')
            ctx.count('model/deposit-kernels', 3)
        # ---- FRAs: generated value / maturity_df; the objective _g through the model's interpolation; rate identity
        for x in fras_in:
            acc = yf(x.dc_type, x.start_dt, x.maturity_dt)
            if acc == 0.0:
                tick('tie/zero-accrual-fra')      # IborFRA.value divides by the accrual: reported by the repricing oracle (reprice-raises)
                continue
            d1, d2 = fdf(curve, x.start_dt), fdf(curve, x.maturity_dt)
            dm, dv = fdf(dsc, x.maturity_dt), fdf(dsc, v)
            iv = float(x.value(v, dsc, curve))
            N_ = x.notional
            pay = 1 if x.pay_fixed_rate else 0
            ops1.append((f'FV {f2b(acc)} {f2b(d1)} {f2b(d2)} {f2b(dm)} {f2b(dv)} {f2b(x.fra_rate)} {f2b(N_)} {pay}',
                         model_cmp('IborFRA.value', me, iv, 1e-12, 1e-12 * abs(N_))))
            ops1.append((f'FK {f2b(d1)} {f2b(acc)} {f2b(x.fra_rate)}', model_cmp('IborFRA.maturity_df', me, float(x.maturity_df(curve)), 1e-15, 0)))
            if disc is None:
                ops1.append((f'FOBJ {m} {len(Tk)} {" ".join(map(f2b, Tk))} {" ".join(map(f2b, Dk))} {f2b(yf(ISDA, v, x.start_dt))} '
                             f'{f2b(yf(ISDA, v, x.maturity_dt))} {f2b(acc)} {f2b(x.fra_rate)} {f2b(N_)} {pay}',
                             model_cmp('FRA objective _g on the model curve', me, iv / N_, 0, 1e-12)))
            mr = float(x.valuation_details(v, dsc, curve)['market_rate'])
            sg = -1.0 if x.pay_fixed_rate else 1.0
            if not abs(iv / N_ - sg * acc * (mr - x.fra_rate) * dm / dv) <= 1e-13:
                ctx.violation(f'{kind}: FRA value/notional is not acc x (market_rate - quote) x df(mat)/df(value date)',
                              me | {'fra': [ds(x.start_dt), ds(x.maturity_dt)], 'value_over_notional': iv / N_, 'market_rate': mr},
                              clause='fra-rate-identity')
            ctx.count('model/fra-kernels', 4 if disc is None else 3)
        # ---- swaps: the objective _f on C06's model; value = N x annuity x (par - coupon) on the implementation's own numbers
        for x in swaps_in:
            fl, ll = x.fixed_leg, x.float_leg
            N_ = fl.notional
            is_ois = isinstance(x, OIS)
            iv = float(x.value(v, curve) if is_ois else x.value(v, dsc, curve, None))
            idc = DayCount(curve.dc_type)
            fper = ' '.join(f'{ser(a_)} {ser(b_)} {ser(p_)} {f2b(y_)}' for a_, b_, p_, y_ in zip(fl.start_accrued_dts, fl.end_accrued_dts, fl.payment_dts, fl.year_fracs))
            lper = ' '.join(f'{ser(a_)} {ser(b_)} {ser(p_)} {f2b(y_)} {f2b(idc.year_frac(a_, b_)[0])}'
                            for a_, b_, p_, y_ in zip(ll.start_accrued_dts, ll.end_accrued_dts, ll.payment_dts, ll.year_fracs))
            ddts = [v] + list(fl.payment_dts) + list(ll.payment_dts)
            idts = list(ll.start_accrued_dts) + list(ll.end_accrued_dts)
            ops1.append((f'SOBJ {1 if fl.leg_type == SwapTypes.PAY else 0} {f2b(fl.cpn)} {f2b(N_)} {f2b(ll.spread)} {ser(v)} '
                         f'{len(fl.payment_dts)} {fper} {len(ll.payment_dts)} {lper} {tbl(dsc if not is_ois else curve, ddts)} {tbl(curve, idts)}',
                         model_cmp('swap objective _f on C06\'s model', me, iv / N_, 0, 1e-12)))
            try:
                p01 = float(x.pv01(v, curve if is_ois else dsc))
                sr = float(x.swap_rate(v, curve) if is_ois else x.swap_rate(v, dsc, curve, None))
            except Exception as ex:  # noqa: BLE001
                ctx.violation(f'{kind}: pv01 / swap_rate of an input swap raised on the built curve', me | {'swap': ds(x.maturity_dt), 'error': type(ex).__name__},
                              clause='swap-rate-raises')
                continue
            sg = 1.0 if fl.leg_type == SwapTypes.PAY else -1.0
            if not abs(iv / N_ - sg * p01 * (sr - fl.cpn)) <= 1e-11:
                ctx.violation(f'{kind}: swap value/notional is not pv01 x (swap_rate - coupon)',
                              me | {'swap': ds(x.maturity_dt), 'value_over_notional': iv / N_, 'pv01': p01, 'swap_rate': sr, 'coupon': fl.cpn},
                              clause='swap-annuity-identity')
            if abs(iv / N_) <= TOL and not abs(sr - fl.cpn) <= TOL / p01 + 1e-12:
                ctx.violation(f'{kind}: a repriced input swap does not have swap_rate = its coupon to tol/pv01',
                              me | {'swap': ds(x.maturity_dt), 'swap_rate': sr, 'coupon': fl.cpn, 'pv01': p01}, clause='repriced-swap-rate')
            ctx.count('model/swap-objective', 3)

    def refit_value(curve, fn):
        """the instrument's error on the same knots with the interpolator fitted afresh (None if that raises)"""
        try:
            rc = copy.copy(curve)
            rc._interpolator = Interpolator(curve._interp_type)
            rc._interpolator.fit(rc._times, rc._dfs)
            return float(quiet(fn, rc))
        except Exception:  # noqa: BLE001
            return None

    def stale_fit_only(curve, fn, tol):
        rv = refit_value(curve, fn)
        return rv is not None and abs(rv) <= tol

    def check_curve(kind, curve, v, instr, desc, tol=TOL, blanket=None):
        """instr: list of (tag, object, value function -> value/notional - par)"""
        rate_scale = 0.15
        for j, (tag, obj, fn, dts) in enumerate(instr):
            try:
                e = quiet(fn, curve)
            except Exception as ex:  # noqa: BLE001
                ctx.violation(f'{kind}: valuing an input {tag} on the built curve raised', desc | {'instrument': tag, 'error': type(ex).__name__ + ': ' + str(ex)[:100]},
                              finding=blanket, clause='reprice-raises')
                continue
            ctx.count(f'{kind}/reprice-{tag}', 1)
            if not (abs(e) <= tol):
                gap = max(dt_axis(v, d) for d in dts)
                leap = any(touches_leap(v, d) for d in dts)
                finding = blanket
                off = len(curve._times) - 1 - len(instr)      # synthetic bridging deposit, if any
                kj = off + j + 1                              # this instrument's knot

                def part_curve(n, _c=curve):
                    pc = copy.copy(_c)
                    pc._times = np.array(_c._times[:n])
                    pc._dfs = np.array(_c._dfs[:n])
                    pc._interpolator = Interpolator(_c._interp_type)
                    pc._interpolator.fit(pc._times, pc._dfs)
                    return pc

                def closed_form_resid(at_knot_time=False):
                    """closed-form knots: df(start) read BEFORE the own knot was appended, df(maturity) after.
                    at_knot_time: the maturity is read at the knot's own time (maturity - curve date)/365 instead of through
                    df(date) (ACT/ACT ISDA time) - what is left is then NOT due to the time axis."""
                    a_ = yf(obj.dc_type, obj.start_dt, obj.maturity_dt)
                    r_ = obj.deposit_rate if tag == 'deposit' else obj.fra_rate
                    pc1 = part_curve(kj + 1)
                    dfm = pc1.df_t((obj.maturity_dt.excel_dt - v.excel_dt) / 365.0) if at_knot_time else pc1.df(obj.maturity_dt)
                    ratio = float(np.asarray(part_curve(kj).df(obj.start_dt)).ravel()[0]) / float(np.asarray(dfm).ravel()[0])
                    return abs(ratio - (1.0 + a_ * r_))
                # narrow: only closed-form knots (deposits / overlapping FRAs) can be hit; the span must touch a leap
                # year; magnitude bounded by rate_scale * time-axis gap (<= ~1.2e-4 for |rates| <= 15 %, gap <= 366/365-1)
                if blanket:
                    pass
                elif 'non-local sequential' in kind:
                    # OISCurve / IborDualCurve run the one-knot-at-a-time bootstrap for EVERY interpolation type; with a non-local
                    # interpolant each later knot moves the curve under the earlier instruments.  Excused only if the mechanism is
                    # exactly that: on the knot vector as it stood when this instrument's knot was placed (the later knots removed,
                    # the same interpolant refitted) the instrument DOES reprice to the root-finder tolerance; and the drift is small.
                    # drifts up to 5e-3 of notional: the placement check below is enough.  LARGER drifts (observed 6.8e-3 on a 2Y swap whose
                    # coupon dates lie in a two-year gap between knots, 1.8e-2 on a closed-form FRA whose own knot swings the spline under
                    # its start date) are excused only with the additional proof that the implementation's curve IS the interpolant fitted
                    # afresh through the final knots (same error to 1e-12): then placement-correct + fresh spline leave later knots acting
                    # through the non-local interpolant as the only mechanism.
                    def fresh_fit_same():
                        rv = refit_value(curve, fn)
                        return rv is not None and abs(rv - e) <= 1e-12
                    if 0 <= off and math.isfinite(e) and (abs(e) <= 5e-3 or fresh_fit_same()):
                        try:
                            incl = part_curve(kj + 1)
                            leap_size = abs(e) <= 2.0 * rate_scale * gap + 1e-12     # the size the time-axis defect alone can explain
                            if j < len(instr) - 1 and abs(quiet(fn, incl)) <= tol:
                                finding = 'C01/sequential-bootstrap-non-local-interp'
                            elif tag in ('deposit', 'fra') and kj >= 1:
                                # closed-form knots: df(start) was read BEFORE the instrument's own knot was appended, df(maturity)
                                # after; with a non-local interpolant the own knot already moves df(start)
                                resid = closed_form_resid()
                                if resid <= tol:
                                    finding = 'C01/sequential-bootstrap-non-local-interp'
                                elif leap and resid <= 2.0 * rate_scale * gap + 1e-12:
                                    finding = 'C01/leap-time-axis' if (leap_size or abs(e) <= 5e-3) else 'C01/sequential-bootstrap-non-local-interp'
                                elif leap and gap > 0.0 and closed_form_resid(at_knot_time=True) <= tol:
                                    # the same time-axis defect seen through a spline: the magnitude bound above assumes local
                                    # forwards within +-15 %, but the truncated spline's forward at its (then) last knot can be
                                    # larger (observed -33 %).  Mechanism verified instead of a magnitude: on the curve as it stood
                                    # right after the instrument's own knot was placed, read at the knot's OWN time, the closed form
                                    # holds to the root-finder tolerance - only the ISDA/365 time gap (and later knots) move it.
                                    finding = 'C01/leap-time-axis' if leap_size else 'C01/sequential-bootstrap-non-local-interp'
                        except Exception:  # noqa: BLE001
                            pass
                elif 'least-squares' in kind:
                    # global refit stops at scipy least_squares' default tolerances: repricing only to ~1e-5 of notional
                    if math.isfinite(e) and abs(e) <= 1e-4:
                        finding = 'C01/least-squares-refit-tolerance'
                    elif (math.isfinite(e) and leap and gap > 0.0 and tag in ('deposit', 'fra') and abs(e) <= 2.0 * rate_scale * gap + 1e-12):
                        # the two known defects together: the refit starts from the 1-d bootstrap, whose closed-form knots carry the
                        # leap-year time-axis error (up to ~2.7e-4 for a 12M deposit at 10 %), and - deposits being weighted by 1/days in
                        # its residual vector - stops without repairing it.  Excused only if (i) the size is what the time axis explains
                        # (the leap-time-axis bound) and (ii) with the maturity read at the knot's OWN time (maturity - curve date)/365 the
                        # instrument is within the least-squares-refit-tolerance bound (1e-4): nothing else is left.
                        try:
                            a_ = yf(obj.dc_type, obj.start_dt, obj.maturity_dt)
                            r_ = obj.deposit_rate if tag == 'deposit' else obj.fra_rate
                            ratio = (float(np.asarray(curve.df(obj.start_dt)).ravel()[0])
                                     / float(np.asarray(curve.df_t((obj.maturity_dt.excel_dt - v.excel_dt) / 365.0)).ravel()[0]))
                            if abs(ratio - (1.0 + a_ * r_)) <= 1e-4:
                                finding = 'C01/leap-time-axis'
                        except Exception:  # noqa: BLE001
                            pass
                elif (tag == 'fra' and curve._interp_type == InterpTypes.LINEAR_ONFWD_RATES and j == len(instr) - 1 and off >= 0
                      and math.isfinite(e) and abs(e) <= 2e-2
                      and (stale_fit_only(curve, fn, tol)
                           # ... or, when the FRA's dates touch a leap year, refitting leaves exactly the time-axis defect: what remains
                           # meets the leap-time-axis classifier AND the closed form holds at the knot's own time on the refitted curve
                           or (leap and gap > 0.0 and (lambda rv: rv is not None and abs(rv) <= 2.0 * rate_scale * gap + 1e-12)(refit_value(curve, fn))
                               and kj >= 1 and closed_form_resid(at_knot_time=True) <= tol))):
                    # the closed-form FRA branch appends its knot without refitting the interpolator; when that FRA is the LAST
                    # instrument nothing refits afterwards and LINEAR_ONFWD_RATES (the one bootstrap scheme that reads a fitted
                    # object) extrapolates over the FRA's own knot.  Excused only if refitting on the final knots repairs it.
                    finding = 'C01/stale-fit-after-closed-form-last-knot'
                elif (tag == 'deposit' and off >= 0 and kj >= 1 and math.isfinite(e) and abs(e) <= 2e-2
                      and (obj.start_dt.excel_dt - v.excel_dt) / 365.0 > float(curve._times[kj - 1]) + 1e-12
                      and closed_form_resid() <= tol):
                    # a deposit starting beyond the last knot: df(start) was extrapolated when the knot was computed and is
                    # re-interpolated (towards the deposit's own knot) afterwards
                    finding = 'C01/deposit-starting-beyond-last-knot'
                elif leap and tag in ('deposit', 'fra') and math.isfinite(e) and abs(e) <= 2.0 * rate_scale * gap + 1e-12:
                    finding = 'C01/leap-time-axis'
                ctx.violation(f'{kind}: input {tag} does not reprice (value/notional off par by more than {tol})',
                              desc | {'instrument': tag, 'dates': [ds(d) for d in dts], 'error_over_notional': e, 'time_axis_gap': gap},
                              finding=finding, clause='reprice-' + tag)
        # df(curve date) = 1, df finite > 0 on a dense grid
        try:
            d0 = float(np.asarray(curve.df(v)).ravel()[0])
        except Exception as ex:  # noqa: BLE001
            d0 = 'E:' + type(ex).__name__
        if isinstance(d0, str) or abs(d0 - 1.0) > 1e-12:
            ctx.violation(f'{kind}: df(curve date) is not 1', desc | {'df': d0}, finding=blanket, clause='df-curve-date')
        lastd = max(d for _, _, _, dts in instr for d in dts)
        span = int(lastd.excel_dt - v.excel_dt)
        grid = sorted({0, 1, 2, 7, 30, 91, 182, 365, span, span + 1} | {rng.randint(0, span + 30) for _ in range(25)}
                      | {int(d.excel_dt - v.excel_dt) for _, _, _, dts in instr for d in dts})
        onf_grid = []
        for k in grid:
            q = v.add_days(k)
            try:
                x = float(np.asarray(curve.df(q)).ravel()[0])
            except Exception as ex:  # noqa: BLE001
                x = 'E:' + type(ex).__name__
            if isinstance(x, str) or not (x > 0 and math.isfinite(x)):
                ctx.violation(f'{kind}: df on the grid is not a positive finite number', desc | {'query': ds(q), 'df': x},
                              finding=blanket, clause='positive-finite')
            elif curve._interp_type == InterpTypes.LINEAR_ONFWD_RATES and not blanket:
                onf_grid.append((q, yf(DCT.ACT_ACT_ISDA, v, q), x))
            elif curve._interp_type in local and not blanket:
                tq = yf(DCT.ACT_ACT_ISDA, v, q)
                ops.append('U %d %d %s %s %s' % (curve._interp_type.value, len(curve._times), ' '.join(map(f2b, curve._times)),
                                                 ' '.join(map(f2b, curve._dfs)), f2b(tq)))
                impl.append(x)
                metas.append(desc | {'curve': kind, 'query': ds(q)})
        ctx.count(f'{kind}/df-grid', len(grid))
        if onf_grid and drivers_ok:
            onfwd_curve_tie(kind, curve, v, desc, onf_grid)


    # ------------------------------------------------------------------ re-use / re-build oracles
    # "A curve bootstrapped from any admissible set ..." does not depend on what the instrument OBJECTS went through before: a curve
    # built from objects that were already used for other curves (other schemes / classes), or whose quotes were changed since (in place,
    # on deep copies, through the library's own shocker), must be the curve built from freshly constructed instruments with the same
    # quotes - same knots, and every instrument repriced exactly as there.
    def set_quote(x, r):
        if isinstance(x, IborDeposit):
            x.deposit_rate = r
        elif isinstance(x, IborFRA):
            x.fra_rate = r
        elif isinstance(x, IborSwap):
            x.set_fixed_rate(r)
        else:                                   # OIS has no set_fixed_rate: what IborSwap.set_fixed_rate does
            x.fixed_leg.cpn = r
            x.fixed_leg.generate_payments()

    def get_quote(x):
        return x.deposit_rate if isinstance(x, IborDeposit) else x.fra_rate if isinstance(x, IborFRA) else x.fixed_leg.cpn

    def build_all(v, dl, fl, sl, ol, it):
        """the three curve classes from the given objects; a refusal / raise is recorded by its kind (both sides must then agree)"""
        out = {}

        def attempt(f, *a):
            try:
                return quiet(f, *a)
            except FinError as ex:
                return 'FinError: ' + str(getattr(ex, '_message', ex))[:40]
            except Exception as ex:  # noqa: BLE001
                return 'E:' + type(ex).__name__
        out['IborSingleCurve'] = attempt(IborSingleCurve, v, list(dl), list(fl), list(sl), it)
        out['OISCurve'] = attempt(OISCurve, v, list(dl), list(fl), list(ol), it)
        disc = out['OISCurve'] if it == InterpTypes.FLAT_FWD_RATES else attempt(OISCurve, v, list(dl), list(fl), list(ol), InterpTypes.FLAT_FWD_RATES)
        out['IborDualCurve'] = attempt(IborDualCurve, v, disc, list(dl), list(fl), list(sl), it) if not isinstance(disc, str) else 'no-discount-curve'
        return out, disc

    def errors_on(kind, curve, disc, v, dl, fl, sl, ol):
        es = []
        for x in dl:
            es.append(('deposit', x.value(v, curve) / x.notional - 1.0))
        for x in fl:
            es.append(('fra', (x.value(v, disc, curve) if kind == 'IborDualCurve' else x.value(v, curve)) / x.notional))
        if kind == 'OISCurve':
            for x in ol:
                es.append(('swap', x.value(v, curve) / x.fixed_leg.notional))
        else:
            for x in sl:
                es.append(('swap', (x.value(v, disc, curve, None) if kind == 'IborDualCurve' else x.value(v, curve, curve, None)) / x.fixed_leg.notional))
        return es

    def compare_rebuild(clause, what, me, v, used, fresh, it):
        """used / fresh: (deposits, fras, swaps, ois) - objects with a history vs freshly constructed ones carrying the same quotes"""
        ca, da = build_all(v, *used, it)
        cb, db = build_all(v, *fresh, it)
        for kind in ('IborSingleCurve', 'OISCurve', 'IborDualCurve'):
            a_, b_ = ca[kind], cb[kind]
            ctx.count(f'rebuild/{clause}', 1)
            if isinstance(a_, str) or isinstance(b_, str):
                if not (isinstance(a_, str) and isinstance(b_, str) and a_ == b_):
                    ctx.violation(f'{kind}: {what}: one build is refused / raises, the other is not',
                                  me | {'curve': kind, 'interp': it.name, 'used_objects': a_ if isinstance(a_, str) else 'built', 'fresh_objects': b_ if isinstance(b_, str) else 'built'},
                                  clause=clause)
                else:
                    tick(f'rebuild/both-sides-{a_[:8]}')
                continue
            ta, tb, fa, fb = list(a_._times), list(b_._times), list(a_._dfs), list(b_._dfs)
            bad = None
            if len(ta) != len(tb) or any(not close(x_, y_, rtol=0, atol=1e-15) for x_, y_ in zip(ta, tb)):
                bad = {'knot_times_used': [float(x_) for x_ in ta], 'knot_times_fresh': [float(x_) for x_ in tb]}
            else:
                k_ = next((i_ for i_, (x_, y_) in enumerate(zip(fa, fb)) if not close(x_, y_, rtol=1e-12, atol=0)), None)
                if k_ is not None:
                    bad = {'knot': k_, 'knot_time': float(ta[k_]), 'df_used_objects': float(fa[k_]), 'df_fresh_objects': float(fb[k_])}
            try:
                ea = errors_on(kind, a_, da, v, *used)
                eb = errors_on(kind, b_, db, v, *fresh)
            except Exception as ex:  # noqa: BLE001
                ea = eb = []
                bad = (bad or {}) | {'valuation_raised': type(ex).__name__}
            worst = None
            for j_, ((tag, x_), (_, y_)) in enumerate(zip(ea, eb)):
                if not (abs(x_ - y_) <= 1e-11):     # NaN-safe
                    if worst is None or not (abs(x_ - y_) <= abs(worst[2] - worst[3])):
                        worst = (tag, j_, float(x_), float(y_))
            if bad is not None or worst is not None:
                ctx.violation(f'{kind}: {what}: the curve / the repricing differs from the curve built from fresh instruments with the same quotes',
                              me | {'curve': kind, 'interp': it.name} | (bad or {})
                              | ({'instrument': worst[0], 'instrument_index': worst[1], 'error_over_notional_on_rebuilt_curve': worst[2],
                                  'error_over_notional_on_fresh_curve': worst[3]} if worst else {}), clause=clause)

    shocker_state = {'callable': None}

    def rebuild_oracles(case, v, depos, fras, swaps, oswaps, rec, desc):
        local_its = [InterpTypes.FLAT_FWD_RATES, InterpTypes.LINEAR_FWD_RATES, InterpTypes.LINEAR_ZERO_RATES]
        it_r = crng.choice(local_its + [InterpTypes.FLAT_FWD_RATES])
        used = (depos, fras, swaps, oswaps)
        quotes0 = [[get_quote(x) for x in l_] for l_ in used]

        def fresh_with(qs):
            return ([mk_depo(a_, r_) for a_, r_ in zip(rec['deposits'], qs[0])], [mk_fra(a_, r_) for a_, r_ in zip(rec['fras'], qs[1])],
                    [mk_swap(a_, r_) for a_, r_ in zip(rec['swaps'], qs[2])], [mk_ois(a_, r_) for a_, r_ in zip(rec['ois'], qs[3])])
        # (1) the same objects, after ~30 builds with every scheme and class, against fresh ones
        compare_rebuild('rebuild-same-objects', 'instrument objects already used for curves of other schemes / classes', desc | {'history': 'same objects re-used'},
                        v, used, fresh_with(quotes0), it_r)
        # (2) quotes changed between two builds
        def bump(r_):
            return r_ + crng.choice([0.0001, -0.0001, 0.0025, -0.0025, crng.uniform(-0.005, 0.005)])
        newq = []
        for l_ in quotes0:
            forced = crng.randrange(len(l_)) if l_ else -1
            newq.append([bump(r_) if (k_ == forced or crng.random() < 0.7) else r_ for k_, r_ in enumerate(l_)])
        newq[3] = list(newq[2])          # the OIS carry the swaps' quotes
        mode = ['in-place', 'deep-copy', 'library-shocker'][case % 3]
        me = desc | {'history': f'quotes changed {mode} after the first builds', 'old_quotes': quotes0, 'new_quotes': newq}
        if mode == 'library-shocker':
            # IborSingleCurveParShocker deep-copies the benchmarks of a base curve and bumps them (IborSingleCurve only)
            done = False
            if shocker_state['callable'] is not False:
                try:
                    from financepy.products.rates.ibor_single_curve_par_shocker import IborSingleCurveParShocker
                    base = quiet(IborSingleCurve, v, list(depos), list(fras), list(swaps), it_r)
                    sh = quiet(IborSingleCurveParShocker, base)
                    shocker_state['callable'] = True
                    ub = list(base.used_deposits) + list(base.used_fras) + list(base.used_swaps)
                    off_ = len(base.used_deposits) - len(depos)
                    bumps = [0.0] * off_ + [n_ - o_ for o_, n_ in zip(quotes0[0] + quotes0[1] + quotes0[2], newq[0] + newq[1] + newq[2])]
                    if len(bumps) == sh.n_benchmarks() == len(ub):
                        bc = quiet(sh.apply_composite_bump, bumps)
                        fr_ = fresh_with(newq)
                        fc = quiet(IborSingleCurve, v, list(fr_[0]), list(fr_[1]), list(fr_[2]), it_r)
                        ctx.count('rebuild/library-shocker', 1)
                        if len(bc._times) != len(fc._times) or any(not close(x_, y_, rtol=1e-12, atol=1e-15) for x_, y_ in zip(list(bc._times) + list(bc._dfs), list(fc._times) + list(fc._dfs))):
                            ctx.violation('IborSingleCurveParShocker: the bumped curve is not the curve built from fresh instruments with the bumped quotes',
                                          me | {'curve': 'IborSingleCurve', 'interp': it_r.name, 'dfs_shocker': [float(x_) for x_ in bc._dfs], 'dfs_fresh': [float(x_) for x_ in fc._dfs]},
                                          clause='rebuild-after-quote-change')
                        done = True
                except FinError:
                    tick('rebuild/shocker-rejected-by-validation')
                    done = True
                except Exception as ex:  # noqa: BLE001
                    # not callable in this environment (ibor_benchmarks_report uses a pandas API that is not there): emulate it below
                    shocker_state['callable'] = False
                    tick('rebuild/library-shocker-not-callable: ' + type(ex).__name__)
            if not done:
                tick('rebuild/shocker-emulated (deepcopy, += bump, set_fixed_rate)')
            mode = 'deep-copy'
        if mode == 'deep-copy':
            objs = tuple(copy.deepcopy(list(l_)) for l_ in used)
        else:
            objs = used
        for l_, q_ in zip(objs, newq):
            for x, r_ in zip(l_, q_):
                set_quote(x, r_)
        compare_rebuild('rebuild-after-quote-change', f'quotes changed ({me["history"]})', me, v, objs, fresh_with(newq), it_r)

    ncase = 15 if ctx.quick() else 150
    all_its = list(InterpTypes)
    for case in range(ncase):
        regime = ['pos', 'neg', 'strip'][case % 3]
        for _try in range(20):
            try:
                v, settle, depos, fras, swaps, oswaps, rec, desc = quotes(regime)
                break
            except FinError:
                tick('quotes/instrument-constructor-rejected')   # e.g. a start date moved past the maturity by the calendar
        else:
            raise RuntimeError('quote generator could not produce an admissible set')
        tick(f'quotes/{regime}/fra-shape={desc["fra_shape"]}')
        tick(f'quotes/depos={len(depos)} fras={len(fras)} swaps={len(swaps)}')
        if any(b_.start_dt < a_.maturity_dt for a_, b_ in zip(fras[:-1], fras[1:])):
            tick('quotes/overlapping-fra-strip')
        if any(x.deposit_rate < 0 for x in depos):
            tick('quotes/negative-deposit-rates')
        # no swaps and the first deposit settles after the curve date: _validate_inputs adds its bridging synthetic deposit only
        # when swaps are present, so the bootstrap asks a one-knot curve for df(settlement) (out-of-bounds read, C02/single-knot-curve)
        blanket = 'C01/spot-lag-without-swaps' if (len(swaps) == 0 and depos[0].start_dt > v) else None
        tick(f'quotes/conventions={desc["conventions"]}')
        if len({x.float_leg.dc_type for x in oswaps}) > 1:
            tick('quotes/ois-mixed-floating-day-counts')
        if len({x.float_leg.dc_type for x in swaps}) > 1:
            tick('quotes/ibor-swaps-mixed-floating-day-counts')

        def unchanged(kind, passed, original, d2_):
            """the constructor must not modify the caller's instrument lists"""
            for nm, a_, b_ in passed_pairs(passed, original):
                if len(a_) != len(b_) or any(x is not y for x, y in zip(a_, b_)):
                    syn = (nm == 'deposits' and len(a_) == len(b_) + 1 and all(x is y for x, y in zip(a_[1:], b_))
                           and a_[0].start_dt == v and a_[0].maturity_dt == b_[0].start_dt)
                    ctx.violation(f"{kind}: the constructor modified the caller's list of {nm}",
                                  d2_ | {'list': nm, 'length_before': len(b_), 'length_after': len(a_)},
                                  finding='C01/synthetic-deposit-inserted-into-callers-list' if (syn and kind in ('OISCurve', 'IborDualCurve')) else None,
                                  clause='inputs-unchanged')
            ctx.count(f'{kind}/inputs-unchanged', 1)

        def passed_pairs(passed, original):
            return zip(('deposits', 'fras', 'swaps'), passed, original)
        # every InterpTypes member for every curve class ("under every supported interpolation scheme")
        for it in all_its:
            d2 = desc | {'interp': it.name}
            bootstrap = Interpolator.suitable_for_bootstrap(it)
            # ------------------------------------------------------------------ IborSingleCurve
            curve = None
            try:
                pl = (list(depos), list(fras), list(swaps))
                newton_log.clear()
                curve = quiet(IborSingleCurve, v, pl[0], pl[1], pl[2], it)
                solved_ids = set(newton_log)
                unchanged('IborSingleCurve', pl, (depos, fras, swaps), d2)
            except FinError as ex:
                tick('IborSingleCurve/rejected-by-validation: ' + str(getattr(ex, '_message', ex))[:40])
            except Exception as ex:  # noqa: BLE001
                ctx.violation('IborSingleCurve: bootstrap raised on an admissible quote set', d2 | {'error': type(ex).__name__ + ': ' + str(ex)[:120]},
                              finding=blanket, clause='build-raises')
            if curve is not None:
                tick(f'IborSingleCurve/{it.name}')
                instr = [('deposit', x, (lambda c, x=x: x.value(v, c) / x.notional - 1.0), [x.start_dt, x.maturity_dt]) for x in depos]
                instr += [('fra', x, (lambda c, x=x: x.value(v, c) / x.notional), [x.start_dt, x.maturity_dt]) for x in fras]
                instr += [('swap', x, (lambda c, x=x: x.value(v, c, c, None) / x.fixed_leg.notional), [x.effective_dt] + list(x.fixed_leg.payment_dts))
                          for x in swaps]
                # non-local interpolators are refitted globally by least squares (ftol 1e-4 in rate terms, DESIGN gap): 1e-6
                check_curve('IborSingleCurve' if bootstrap else 'IborSingleCurve(least-squares)', curve, v, instr, d2,
                            tol=TOL if bootstrap else LS_TOL, blanket=blanket)
                if it in local and not blanket:
                    tie_curve('IborSingleCurve', curve, v, None, depos, fras, swaps, d2, solved_ids)
                # closed-form deposit knots as placed by the bootstrap sit at (maturity - curve date)/365
                if bootstrap and not blanket:
                    # knots are mapped through the instruments the curve actually used (curve.used_deposits may start with the
                    # synthetic bridging deposit valuation date -> settlement date); the caller's inputs are the tail of that list
                    used = list(curve.used_deposits)
                    if len(used) - len(depos) not in (0, 1) or any(a_ is not b_ for a_, b_ in zip(used[len(used) - len(depos):], depos)):
                        ctx.violation('IborSingleCurve.used_deposits is not the input deposits (optionally preceded by one synthetic deposit)',
                                      d2 | {'used': len(used), 'input': len(depos)}, clause='used-instruments')
                    if len(curve._times) != 1 + len(used) + len(curve.used_fras) + len(curve.used_swaps):
                        ctx.violation('IborSingleCurve: number of knots is not 1 + number of used instruments',
                                      d2 | {'knots': len(curve._times), 'used': [len(used), len(curve.used_fras), len(curve.used_swaps)]}, clause='knot-count')
                    for k, x in enumerate(used, start=1):
                        tk = (x.maturity_dt.excel_dt - v.excel_dt) / 365.0
                        if k < len(curve._times) and not close(curve._times[k], tk, rtol=0, atol=1e-15):
                            ctx.violation('deposit knot is not at (maturity - curve date)/365', d2 | {'knot': k, 'time': float(curve._times[k]), 'expected': tk},
                                          clause='knot-time')
                        ctx.count('IborSingleCurve/deposit-knot', 1)
            # ------------------------------------------------------------------ OISCurve (same quote shapes, FRAs included)
            oc = None
            try:
                pl = (list(depos), list(fras), list(oswaps))
                newton_log.clear()
                oc = quiet(OISCurve, v, pl[0], pl[1], pl[2], it)
                solved_ids = set(newton_log)
                unchanged('OISCurve', pl, (depos, fras, oswaps), d2)
            except FinError as ex:
                tick('OISCurve/rejected-by-validation: ' + str(getattr(ex, '_message', ex))[:40])
            except Exception as ex:  # noqa: BLE001
                ctx.violation('OISCurve: bootstrap raised on an admissible quote set', d2 | {'error': type(ex).__name__ + ': ' + str(ex)[:120]},
                              finding=blanket, clause='build-raises')
            if oc is not None:
                tick(f'OISCurve/{it.name}')
                instr = [('deposit', x, (lambda c, x=x: x.value(v, c) / x.notional - 1.0), [x.start_dt, x.maturity_dt]) for x in depos]
                instr += [('fra', x, (lambda c, x=x: x.value(v, c) / x.notional), [x.start_dt, x.maturity_dt]) for x in fras]
                instr += [('swap', x, (lambda c, x=x: x.value(v, c) / x.fixed_leg.notional), [x.effective_dt] + list(x.fixed_leg.payment_dts)) for x in oswaps]
                check_curve('OISCurve' if bootstrap else 'OISCurve(non-local sequential)', oc, v, instr, d2, blanket=blanket)
                if it in local and not blanket:
                    tie_curve('OISCurve', oc, v, None, depos, fras, oswaps, d2, solved_ids)
            # ------------------------------------------------------------------ IborDualCurve on top of a flat-forward OIS curve
            disc = None
            try:
                disc = oc if (oc is not None and it == InterpTypes.FLAT_FWD_RATES) else quiet(OISCurve, v, list(depos), list(fras), list(oswaps), InterpTypes.FLAT_FWD_RATES)
            except Exception:  # noqa: BLE001
                disc = None
            if disc is None:
                continue
            dc_ = None
            try:
                pl = (list(depos), list(fras), list(swaps))
                newton_log.clear()
                dc_ = quiet(IborDualCurve, v, disc, pl[0], pl[1], pl[2], it)
                solved_ids = set(newton_log)
                unchanged('IborDualCurve', pl, (depos, fras, swaps), d2)
            except FinError as ex:
                tick('IborDualCurve/rejected-by-validation: ' + str(getattr(ex, '_message', ex))[:40])
            except Exception as ex:  # noqa: BLE001
                ctx.violation('IborDualCurve: bootstrap raised on an admissible quote set', d2 | {'error': type(ex).__name__ + ': ' + str(ex)[:120]},
                              finding=blanket, clause='build-raises')
            if dc_ is not None:
                tick(f'IborDualCurve/{it.name}')
                instr = [('deposit', x, (lambda c, x=x: x.value(v, c) / x.notional - 1.0), [x.start_dt, x.maturity_dt]) for x in depos]
                instr += [('fra', x, (lambda c, x=x: x.value(v, disc, c) / x.notional), [x.start_dt, x.maturity_dt]) for x in fras]
                instr += [('swap', x, (lambda c, x=x: x.value(v, disc, c, None) / x.fixed_leg.notional), [x.effective_dt] + list(x.fixed_leg.payment_dts)) for x in swaps]
                check_curve('IborDualCurve' if bootstrap else 'IborDualCurve(non-local sequential)', dc_, v, instr, d2, blanket=blanket)
                if it in local and not blanket:
                    tie_curve('IborDualCurve', dc_, v, disc, depos, fras, swaps, d2, solved_ids)
        if not blanket:
            try:
                rebuild_oracles(case, v, depos, fras, swaps, oswaps, rec, desc)
            except FinError:
                tick('rebuild/fresh-instrument-constructor-rejected')
    # ---- fixed quote sets: the witnesses of the structural findings go through the same oracle on every run
    vw = Date(14, 6, 2021)
    sw_ = vw.add_weekdays(2)
    for cls_, nm_ in ((IborSingleCurve, 'IborSingleCurve'), (OISCurve, 'OISCurve')):
        for it in [InterpTypes.FLAT_FWD_RATES, InterpTypes.LINEAR_FWD_RATES, InterpTypes.LINEAR_ZERO_RATES, InterpTypes.LINEAR_ONFWD_RATES]:
            # (1) closed-form FRA (overlapping the deposit) as the last instrument
            dps = [IborDeposit(vw, '3M', 0.01, DCT.ACT_360)]
            frs = [IborFRA(vw.add_tenor('2M'), '3M', 0.02, DCT.ACT_360)]
            newton_log.clear()
            c_ = quiet(cls_, vw, list(dps), list(frs), [], it)
            sid_ = set(newton_log)
            ins = [('deposit', x, (lambda c, x=x: x.value(vw, c) / x.notional - 1.0), [x.start_dt, x.maturity_dt]) for x in dps]
            ins += [('fra', x, (lambda c, x=x: x.value(vw, c) / x.notional), [x.start_dt, x.maturity_dt]) for x in frs]
            check_curve(nm_, c_, vw, ins, {'valuation': ds(vw), 'spot_days': 0, 'deposit_dc': 'ACT_360', 'interp': it.name, 'witness': 'closed-form FRA last',
                                           'deposits': [[ds(x.start_dt), ds(x.maturity_dt), x.deposit_rate] for x in dps],
                                           'fras': [[ds(x.start_dt), ds(x.maturity_dt), x.fra_rate] for x in frs], 'swaps': []})
            if it in local:
                tie_curve(nm_, c_, vw, None, dps, frs, [], {'valuation': ds(vw), 'interp': it.name, 'witness': 'closed-form FRA last'}, sid_)
            # (2) a second deposit that starts after the first one matures
            dps = [IborDeposit(vw, '3M', 0.01, DCT.ACT_360), IborDeposit(vw.add_tenor('4M'), '3M', 0.02, DCT.ACT_360)]
            newton_log.clear()
            c_ = quiet(cls_, vw, list(dps), [], [], it)
            sid_ = set(newton_log)
            ins = [('deposit', x, (lambda c, x=x: x.value(vw, c) / x.notional - 1.0), [x.start_dt, x.maturity_dt]) for x in dps]
            check_curve(nm_, c_, vw, ins, {'valuation': ds(vw), 'spot_days': 0, 'deposit_dc': 'ACT_360', 'interp': it.name, 'witness': 'forward-starting deposit',
                                           'deposits': [[ds(x.start_dt), ds(x.maturity_dt), x.deposit_rate] for x in dps], 'fras': [], 'swaps': []})
            if it in local:
                tie_curve(nm_, c_, vw, None, dps, [], [], {'valuation': ds(vw), 'interp': it.name, 'witness': 'forward-starting deposit'}, sid_)
    # (3) spot lag without swaps (one-knot curve asked for df(settlement))
    dps = [IborDeposit(sw_, '1M', 0.02, DCT.ACT_360), IborDeposit(sw_, '3M', 0.021, DCT.ACT_360)]
    dw = {'valuation': ds(vw), 'spot_days': 2, 'deposit_dc': 'ACT_360', 'interp': 'FLAT_FWD_RATES', 'witness': 'spot lag without swaps',
          'deposits': [[ds(x.start_dt), ds(x.maturity_dt), x.deposit_rate] for x in dps], 'fras': [], 'swaps': []}
    try:
        c_ = quiet(IborSingleCurve, vw, list(dps), [], [], InterpTypes.FLAT_FWD_RATES)
        ins = [('deposit', x, (lambda c, x=x: x.value(vw, c) / x.notional - 1.0), [x.start_dt, x.maturity_dt]) for x in dps]
        check_curve('IborSingleCurve', c_, vw, ins, dw, blanket='C01/spot-lag-without-swaps')
    except FinError:
        pass
    except Exception as ex:  # noqa: BLE001
        ctx.violation('IborSingleCurve: bootstrap raised on an admissible quote set', dw | {'error': type(ex).__name__ + ': ' + str(ex)[:120]},
                      finding='C01/spot-lag-without-swaps', clause='build-raises')
    ctx.count('witness/structural', 17)
    # ---- wave 5 (props/c01_w5.py): every two-date day count x month-end maturities, spot lags 0..3 / O/N-T/N-spot ladders, and dual
    # curves on a discount curve that is INDEPENDENT of the index quotes - through the same oracles (check_curve / tie_curve)
    from props import c01_w5  # noqa: E402
    c01_w5.run_extra(ctx, {'check_curve': check_curve, 'tie_curve': tie_curve, 'tick': tick, 'quiet': quiet, 'ds': ds, 'mk_depo': mk_depo,
                           'mk_fra': mk_fra, 'mk_swap': mk_swap, 'mk_ois': mk_ois, 'newton_log': newton_log, 'local': local})
    # ---- the implementation's knot vectors through the C02 interpolation model
    if ops and drivers_ok:
        try:
            model = driver_parallel('C02', ops, chunk=20000)
            bad = 0
            for op, im, mo, me in zip(ops, impl, model, metas):
                if mo.startswith('E:') or not close(im, b2f(mo), rtol=1e-9, atol=0):
                    bad += 1
                    if bad <= 3:
                        ctx.broke(f'correspondence: built curve df differs from the interpolation model on {me} (model {mo if mo.startswith("E:") else b2f(mo)}, impl {im})')
            ctx.count('model/df-grid', len(ops), sample={'case': metas[len(ops) // 2], 'impl': impl[len(ops) // 2]})
        except C.DriverError as e:
            ctx.broke(f'model driver failed: {str(e)[:300]}')
    _so.newton = _orig_newton
    # ---- futures -> FRA conversion: generated IborFuture.futures_rate / fra_rate / convexity vs the implementation
    from financepy.products.rates.ibor_future import IborFuture
    frng = ctx.rng('futures')
    for _ in range(60 if ctx.quick() else 600):
        d_, m_, y_ = D.interesting_dates(frng, 1, 2000, 2036)[0]
        today = Date(d_, m_, y_)
        nfut = frng.choice([1, 2, 3, 4, 6, 8, 12])
        fut = IborFuture(today, nfut)
        price = frng.choice([frng.uniform(88.0, 101.5), 100.0, 99.5])
        cvx = frng.choice([0.0, frng.uniform(-0.6, 0.6), -0.05, 0.05])
        vol = frng.uniform(0.0, 0.03)
        a_ = frng.choice([0.0, 1e-11, -1e-11, frng.uniform(0.005, 0.25), -frng.uniform(0.005, 0.1)])
        mef = {'today': ds(today), 'future_number': nfut, 'price': price, 'convexity_pct': cvx, 'vol': vol, 'mean_reversion': a_}
        fr_, ffr_ = fut.futures_rate(price), fut.fra_rate(price, cvx)
        ops1.append((f'FUT {f2b(price)}', model_cmp('IborFuture.futures_rate', mef, fr_, 1e-15, 0)))
        ops1.append((f'FFR {f2b(price)} {f2b(cvx)}', model_cmp('IborFuture.fra_rate', mef, ffr_, 1e-15, 0)))
        t1_ = (fut.last_trading_dt.excel_dt - today.excel_dt) / 365.0
        t2_ = (fut.end_of_interest_period.excel_dt - today.excel_dt) / 365.0
        cx_ = float(fut.convexity(today, vol, a_))
        ops1.append((f'FCX {f2b(t1_)} {f2b(t2_)} {f2b(vol)} {f2b(a_)}', model_cmp('IborFuture.convexity', mef, cx_, 1e-9, 1e-18)))
        fra_ = fut.to_fra(price, cvx)
        # direct oracles (Props/C01b: fra_rate = futures_rate - |convexity|/100 <= futures_rate; Ho-Lee / Hull-White convexity >= 0)
        if not (abs(ffr_ - (fr_ - abs(cvx) / 100.0)) <= 1e-15 and ffr_ <= fr_ and fra_.fra_rate == ffr_
                and fra_.start_dt == fut.delivery_dt and fra_.maturity_dt == fut.end_of_interest_period):
            ctx.violation('IborFuture: fra_rate is not futures_rate - |convexity|/100 (or to_fra does not carry it / the IMM period)',
                          mef | {'futures_rate': fr_, 'fra_rate': ffr_, 'to_fra_rate': fra_.fra_rate}, clause='futures-fra-rate')
        # sign: proved for the Ho-Lee limit (t1, t2 >= 0) and the Hull-White branch with a > 0 (0 < t1 < t2); a < 0 by this oracle only.
        # Within two days before an IMM date IborFuture(today, 1) is the contract whose last trading date is already past (t1 < 0,
        # outside the hypotheses; the convexity is then slightly negative - observed, notes/C01.md): not tested for sign.
        if t1_ < 0.0:
            tick('futures/value-date-after-last-trading-date')
        elif not (cx_ >= 0.0 and math.isfinite(cx_)):
            ctx.violation('IborFuture.convexity is negative or not finite although 0 <= t1 < t2', mef | {'convexity': cx_, 't1': t1_, 't2': t2_},
                          clause='futures-convexity-sign')
        ctx.count('model/futures-kernels', 5)
    # ---- futures strips re-used: the SAME IborFuture objects give the FRAs of a second curve after the prices (and the other quotes) moved
    for k_ in range(6 if ctx.quick() else 60):
        d_, m_, y_ = D.interesting_dates(frng, 1, 2000, 2036)[0]
        today = Date(d_, m_, y_)
        nfut = frng.choice([2, 3, 4])
        base = frng.uniform(-0.004, 0.07)
        q0 = {'dep': [base, base + 0.0005], 'px': [100.0 - 100.0 * (base + 0.001 * (i_ + 1) + frng.uniform(-0.0004, 0.0004)) for i_ in range(nfut)],
              'cvx': [frng.choice([0.0, 0.01 * (i_ + 1), -0.01 * (i_ + 1)]) for i_ in range(nfut)], 'sw': [base + 0.005, base + 0.006]}
        q1 = {'dep': [r_ + frng.choice([0.0025, -0.0025, 0.0001]) for r_ in q0['dep']], 'px': [p_ + frng.choice([0.25, -0.25, 0.01, -0.125]) for p_ in q0['px']],
              'cvx': [c_ * frng.choice([1.0, 2.0, -1.0]) for c_ in q0['cvx']], 'sw': [r_ + frng.choice([0.0025, -0.0025]) for r_ in q0['sw']]}
        ddc_ = frng.choice([DCT.ACT_360, DCT.ACT_365F])

        def fut_set(q_, futs=None):
            futs = futs or [IborFuture(today, i_ + 1, '3M', ddc_) for i_ in range(nfut)]
            return futs, ([IborDeposit(today, t_, r_, ddc_) for t_, r_ in zip(('1W', '2W'), q_['dep'])],
                          [f_.to_fra(p_, c_) for f_, p_, c_ in zip(futs, q_['px'], q_['cvx'])],
                          [IborSwap(today, t_, SwapTypes.PAY, r_, F.SEMI_ANNUAL, DCT.THIRTY_E_360) for t_, r_ in zip(('2Y', '3Y'), q_['sw'])],
                          [OIS(today, t_, SwapTypes.PAY, r_, F.ANNUAL, DCT.ACT_360) for t_, r_ in zip(('2Y', '3Y'), q_['sw'])])
        mef = {'valuation': ds(today), 'futures': nfut, 'old_quotes': q0, 'new_quotes': q1, 'deposit_dc': ddc_.name,
               'history': 'IborFuture objects re-used: to_fra(old price) -> curves built -> to_fra(new price) from the same objects, deposits / swaps re-quoted in place'}
        try:
            futs_, used_ = fut_set(q0)
            build_all(today, *used_, InterpTypes.FLAT_FWD_RATES)                # first builds (fills whatever the objects remember)
            for x, r_ in zip(used_[0], q1['dep']):
                set_quote(x, r_)
            for l_ in (used_[2], used_[3]):
                for x, r_ in zip(l_, q1['sw']):
                    set_quote(x, r_)
            used2 = (used_[0], [f_.to_fra(p_, c_) for f_, p_, c_ in zip(futs_, q1['px'], q1['cvx'])], used_[2], used_[3])
            compare_rebuild('rebuild-after-quote-change', 'futures strip re-quoted', mef, today, used2, fut_set(q1)[1],
                            frng.choice([InterpTypes.FLAT_FWD_RATES, InterpTypes.LINEAR_ZERO_RATES]))
        except FinError:
            tick('rebuild/futures-set-rejected-by-constructor')
    # ---- LINEAR_ONFWD_RATES on seeded knot sets (not only bootstrapped ones): reads, fitted forwards, edge branches, object state
    orng = ctx.rng('onfwd')
    edge = [('empty fit', [([], [])]), ('single value at origin', [([0.0], [1.0])]), ('single value at origin, df != 1', [([0.0], [0.97])]),
            ('single value not at origin', [([0.1], [0.9])]), ('two values including origin', [([0.0, 0.1], [1.0, 0.9])]),
            ('anchor df != 1', [([0.0, 0.5, 1.0], [0.98, 0.97, 0.95])]),
            ('one-knot fit after a full fit keeps the old spline', [([0.0, 0.1, 0.5], [1.0, 0.9, 0.8]), ([0.2], [0.7])]),
            ('refit after a one-knot fit', [([0.3], [0.9]), ([0.0, 0.25, 1.0], [1.0, 0.99, 0.95])]),
            ('never fitted', [])]
    for nm_, fits_ in edge:
        onf_tie('LINEAR_ONFWD_RATES ' + nm_, {'case': nm_, 'fits': fits_}, fits_, [0.0, 5e-13, 1e-12, 0.05, 0.1, 0.2, 0.3, 1.0, 5.0, -0.5])
    for c_ in range(25 if ctx.quick() else 250):
        n_ = orng.randint(2, 12)
        ts_ = sorted({round(orng.uniform(0.003, 30.0), 6) for _ in range(n_)})
        if orng.random() < 0.6:
            ts_ = [0.0] + ts_
        regime = orng.choice(['positive', 'negative', 'mixed', 'steep'])
        zr = {'positive': lambda: orng.uniform(0.0, 0.09), 'negative': lambda: orng.uniform(-0.012, 0.002),
              'mixed': lambda: orng.uniform(-0.01, 0.06), 'steep': lambda: orng.uniform(0.0, 0.25)}[regime]
        # dfs from piecewise-constant forwards drawn in the regime's range (independent zero rates on knots a few days apart would imply
        # forwards of thousands of per cent and underflow exp(): an artefact of the generator, seen at seed 2)
        ds_, acc_, prev_ = [], 0.0, 0.0
        for t_ in ts_:
            acc_ += zr() * (t_ - prev_)
            prev_ = t_
            ds_.append(1.0 if t_ == 0.0 else math.exp(-acc_))
        me_ = {'case': 'seeded knots', 'regime': regime, 'times': ts_, 'dfs': ds_}
        qs_ = [0.0] + ts_ + [orng.uniform(0.0, ts_[-1] * 1.3) for _ in range(30)] + [ts_[-1] + 1e-9, ts_[-1] * 2.0]
        it_, _ = onf_tie('LINEAR_ONFWD_RATES seeded knots', me_, [(ts_, ds_)], qs_)
        _, rt_ = onf_spline_tie('LINEAR_ONFWD_RATES seeded forwards', me_, ts_, ds_, it_)
        onf_oracles('Interpolator', me_, ts_, ds_, it_, rt_, orng)
    # ---- Model/C01, Gen/RatesF and the C06 swap objective through Driver/C01
    if ops1 and drivers_ok:
        try:
            outs = driver_parallel('C01', [o for o, _ in ops1], chunk=4000)
            for (o, cb), ans in zip(ops1, outs):
                cb(ans)
        except C.DriverError as e:
            ctx.broke(f'model driver C01 failed: {str(e)[:300]}')
    # ---- witness of the known finding (instance of Props.C01.leap_deposit_not_repriced)
    v = Date(1, 6, 2019)
    depo = IborDeposit(v, Date(1, 6, 2020), 3.0 / 97.0 / (366.0 / 360.0), DCT.ACT_360)
    cw = quiet(IborSingleCurve, v, [depo], [], [])
    e = depo.value(v, cw) / depo.notional - 1.0
    if abs(e) > TOL:
        ctx.violation('IborSingleCurve: input deposit does not reprice', {'valuation': '1-6-2019', 'deposits': [['1-6-2019', '1-6-2020', depo.deposit_rate]],
                                                                          'error_over_notional': e, 'witness': True},
                      finding='C01/leap-time-axis' if (touches_leap(v, depo.maturity_dt) and abs(e) <= 2 * 0.15 * dt_axis(v, depo.maturity_dt) + 1e-12) else None,
                      clause='reprice-deposit')
    ctx.count('witness', 1)
    # ---- the classifier predicate `touches_leap` == Spec.touchesLeap of the Lean theorems (Props/C02f), compared on every run
    timeaxis.check(ctx, drivers_ok, n_quick=1500, n_thorough=10000, prop='C01')
    ctx.cov['histogram'] = dict(sorted(hist.items()))
    ctx.assumptions += [
        'the root finder (scipy.optimize.newton, tol 1e-10) and the least-squares refit are parameters with a postcondition; '
        'convergence is not proved — the postcondition is evaluated on every instrument of every curve built (it IS the repricing oracle)',
        'instrument valuation (legs, schedules, day counts) is C06/C15/C16\'s subject; here it is the implementation\'s own',
        'interpolation is C02\'s model; locality (interp_local) is proved there for the three local kernels; LINEAR_ONFWD_RATES is '
        'Model/C01Onf (hand model of Interpolator.fit / interpolate, compared with the implementation on every curve built with it and '
        'on seeded knot sets: reads, fitted forwards, edge branches); scipy\'s InterpolatedUnivariateSpline(k=1).integral is taken to be the '
        'exact integral of the linear spline (that IS the comparison); the spline types are validated by the oracles only',
        'Props/C01d-e: the deposit loop and the closed-form FRA step need NO solver assumption; for FRAs / swaps on the solver branch '
        'only positivity of the returned df is assumed for the structure / positivity theorems (checked: df > 0 on the grid)',
        'Props/C01c-d: swap valuation is C06\'s hand model (tied by C06\'s correspondence and, for every swap of every curve built '
        'with a local interpolant here, by op SOBJ); dates enter the curve through an arbitrary map date -> time',
        'the branch a FRA takes in the implementation is observed by recording the calls of scipy.optimize.newton during the build',
    ]
    return C.finish(ctx, 'proof', 'lake build ' + ' '.join(PROPS) + ' && lake env lean .cache/audit/Audit_C01.lean',
                    C.TRUSTED_BASE_COMMON + ['Model/C02.lean interpolation model (tied by C02\'s and this check\'s correspondence)',
                                             'Model/C01.lean bootstrap skeleton (hand model; replayed against every curve built with a local '
                                             'interpolant) and Model/C06.lean swap valuation (hand model; C06\'s correspondence + op SOBJ here); '
                                             'Gen/RatesR = Gen/RatesF up to the number type (same AST walk)',
                                             'the abstraction Instr (value functional reading the curve on [0, maturity]) as a '
                                             'description of deposits, FRAs and swaps'], RULE)


def replay(ctx, path):
    import json
    rp = json.load(open(path))
    v = rp.get('violation')
    if not v:
        print('replay: no concrete input in this file:', rp.get('broken'))
        return 1
    C.import_financepy()
    import warnings
    warnings.simplefilter('ignore')
    from financepy.utils.date import Date
    from financepy.utils.frequency import FrequencyTypes as F
    from financepy.utils.day_count import DayCountTypes as DCT
    from financepy.utils.global_types import SwapTypes
    from financepy.market.curves.interpolator import InterpTypes
    from financepy.products.rates.ibor_deposit import IborDeposit
    from financepy.products.rates.ibor_fra import IborFRA
    from financepy.products.rates.ibor_swap import IborSwap
    from financepy.products.rates.ibor_single_curve import IborSingleCurve
    Date(1, 1, 2199)
    c = v['case']

    def Dd(s):
        d, m, y = map(int, s.split('-'))
        return Date(d, m, y)
    print('replay:', v['what'], '| clause', v.get('clause'))
    if 'times' in c and 'dfs' in c and 'valuation' not in c:
        # an Interpolator-level case of the LINEAR_ONFWD_RATES oracles: refit the recorded knots and show the reads
        import numpy as np
        from financepy.market.curves.interpolator import Interpolator
        it = Interpolator(InterpTypes.LINEAR_ONFWD_RATES)
        it.fit(np.array(c['times'], dtype=float), np.array(c['dfs'], dtype=float))
        for t_, d_ in zip(c['times'], c['dfs']):
            print(f'  knot t={t_!r}: df {d_!r}, interpolate -> {float(it.interpolate(float(t_)))!r}')
        if 't' in c:
            print(f"  t={c['t']!r}: interpolate -> {float(it.interpolate(float(c['t'])))!r}")
            if 'prefix_knots' in c:
                pre = Interpolator(InterpTypes.LINEAR_ONFWD_RATES)
                k_ = c['prefix_knots']
                pre.fit(np.array(c['times'][:k_], dtype=float), np.array(c['dfs'][:k_], dtype=float))
                print(f"  fit of the first {k_} knots -> {float(pre.interpolate(float(c['t'])))!r}")
        print(' recorded case:', json.dumps(c, default=str)[:1200])
        return 1
    if str(c.get('generator', '')).startswith('wave5'):
        from props import c01_w5
        c01_w5.replay_case(v, quiet)
        print(' recorded case:', json.dumps(c, default=str)[:1200])
        print(f'VIOLATION property=C01 replay={path}')
        return 1
    vd = Dd(c['valuation'])
    ddc = DCT[c.get('deposit_dc', 'ACT_360')]
    depos = [IborDeposit(Dd(a), Dd(b), r, DCT[x_[0]] if x_ else ddc) for a, b, r, *x_ in c.get('deposits', [])]
    fras = [IborFRA(Dd(a), Dd(b), r, DCT[x_[0]] if x_ else ddc) for a, b, r, *x_ in c.get('fras', [])]
    swaps = [IborSwap(Dd(a), Dd(b), SwapTypes.PAY, r, F[c.get('swap_freq', 'ANNUAL')], DCT[c.get('swap_dc', 'THIRTY_E_360')])
             for a, b, r, *x_ in c.get('swaps', [])]
    curve = quiet(IborSingleCurve, vd, depos, fras, swaps, InterpTypes[c.get('interp', 'FLAT_FWD_RATES')])
    for x in depos:
        print(f'  deposit {x.maturity_dt}: value/notional - 1 = {x.value(vd, curve) / x.notional - 1.0:.3e}')
    for x in fras:
        print(f'  fra {x.maturity_dt}: value/notional = {x.value(vd, curve) / x.notional:.3e}')
    for x in swaps:
        print(f'  swap {x.maturity_dt}: value/notional = {x.value(vd, curve, curve, None) / x.fixed_leg.notional:.3e}')
    print(' recorded case:', json.dumps(c, default=str)[:1200])
    print(f'VIOLATION property=C01 replay={path}')
    return 1
