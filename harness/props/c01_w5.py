"""C01, wave 5 — quote sets the main generator of c01.py does not reach, through the SAME oracles (check_curve: every input deposit
is worth its notional, every FRA and swap zero on the curve date, df(curve date) = 1, df finite > 0; tie_curve: Model/C01 replay).

What the main generator leaves out (both seeds C01-10 / C01-11 lived there):
  * the discount curve of every IborDualCurve was an OISCurve built from the SAME deposits and quotes as the index curve, so the two
    curves agree up to the first swap: "discounting curve" and "index curve" were interchangeable on the short end.  Here the discount
    curve is INDEPENDENT of the index quotes (an OISCurve from its own deposits / OIS quoted at a basis of 5..80 bp to the Ibor quotes,
    its own conventions and scheme, or a DiscountCurveFlat), with spot lags 0..3 business days and the market's O/N - T/N - spot ladder;
  * day counts were drawn from five of the conventions and met month ends only by chance.  Here every DayCountTypes member that is a
    function of two dates (found by probing DayCount.year_frac, not listed by hand) is used for deposits, FRAs, both swap legs, and the
    start dates are chosen so that the deposits' maturities fall on month ends (half of them on the last day of February, leap or not),
    with and without business-day adjustment.
Everything is drawn from ctx.rng('wave5'): the streams of the main generator are untouched."""
import calendar
import math

W5_PROPS = ['FinVerif.Props.C01w']
W5_RULE = (' Wave 5 (stream wave5): a product grid - EVERY DayCountTypes member that is a function of two dates (found by probing) x the period '
           'end of the first spot deposit / of the first FRA (root-search and closed-form branch) on the last day of February (leap / non-leap), '
           '28 Feb of a leap year, a 31st, a 30th, mid-month (explicit dates, no calendar; in the deposit cells a FRA of the same convention '
           'starting on that date half of the time) - every cell on every run, one bootstrap scheme per cell, all three curve classes; plus 10 (120) random sets with month-end maturities (half in '
           'February), per-instrument conventions from the full two-date list on deposits, FRAs and both swap legs, calendars incl. NONE, '
           'spot lags 0..3 business days and O/N - T/N - spot deposit ladders, four bootstrap schemes x three classes. The discount curve '
           'of every wave-5 IborDualCurve is INDEPENDENT of the index quotes: an OISCurve from its own deposits / OIS at a basis of 5..80 bp '
           '(either sign) with its own conventions and scheme, or a DiscountCurveFlat.')


def run_extra(ctx, ns):
    check_curve, tie_curve, tick, quiet, ds = ns['check_curve'], ns['tie_curve'], ns['tick'], ns['quiet'], ns['ds']
    mk_depo, mk_fra, mk_swap, mk_ois = ns['mk_depo'], ns['mk_fra'], ns['mk_swap'], ns['mk_ois']
    newton_log, local = ns['newton_log'], ns['local']
    from financepy.utils.date import Date
    from financepy.utils.frequency import FrequencyTypes as F
    from financepy.utils.day_count import DayCountTypes as DCT, DayCount
    from financepy.utils.error import FinError
    from financepy.utils.calendar import CalendarTypes as CAL, BusDayAdjustTypes as BD, DateGenRuleTypes as DG
    from financepy.market.curves.interpolator import InterpTypes, Interpolator
    from financepy.market.curves.discount_curve_flat import DiscountCurveFlat
    from financepy.products.rates.ibor_single_curve import IborSingleCurve
    from financepy.products.rates.ois_curve import OISCurve
    from financepy.products.rates.dual_curve import IborDualCurve
    rng = ctx.rng('wave5')

    # every convention that is a function of the two period dates alone (ACT_ACT_ICMA needs a third date: FinError; ZERO is the
    # zero-coupon-bond alias of ACT_ACT_ISDA, not a money-market / swap convention)
    two_date = []
    for t_ in DCT:
        if t_ == DCT.ZERO:
            continue
        try:
            x_ = DayCount(t_).year_frac(Date(30, 11, 2022), Date(28, 2, 2023))[0]
            if math.isfinite(x_) and x_ > 0.0:
                two_date.append(t_)
        except Exception:  # noqa: BLE001
            pass
    tick(f'wave5/two-date day counts={len(two_date)}')
    boot_its = [it for it in InterpTypes if Interpolator.suitable_for_bootstrap(it)]
    cals = [CAL.NONE, CAL.WEEKEND, CAL.WEEKEND, CAL.TARGET, CAL.UNITED_STATES]
    dep_ten = [(1, '1M'), (2, '2M'), (3, '3M'), (6, '6M'), (9, '9M'), (12, '12M')]
    dc_cycle = [0]

    def cname(c):
        return {k_: (v_ if isinstance(v_, int) else v_.name) for k_, v_ in c.items()}

    def next_dc():
        """the conventions in turn (every one of them is met within len(two_date) draws), shuffled by a random skip"""
        dc_cycle[0] += rng.choice([1, 1, 2])
        return two_date[dc_cycle[0] % len(two_date)]

    def mdays(y, m):
        return calendar.monthrange(y, m)[1]

    def quotes5(case):
        # ---- dates: the k-month deposit is made to mature on (or next to) the end of month M; M = February for half of the sets
        y = rng.randint(2001, 2036)
        M = 2 if rng.random() < 0.5 else rng.randint(1, 12)
        k = rng.choice([1, 2, 3, 6, 9, 12])
        sm, sy = M - k, y
        while sm < 1:
            sm, sy = sm + 12, sy - 1
        last = mdays(sy, sm)
        sd = min(last, rng.choice([last, last, last - 1, 31, 30, 29, 28, mdays(y, M), rng.randint(1, 28)]))
        anchor = Date(sd, sm, sy)
        spot = rng.choice([0, 1, 2, 2, 2, 3])
        if spot:
            v = anchor.add_weekdays(-spot)
            settle = v.add_weekdays(spot)
        else:
            v = settle = anchor
        cal = rng.choice(cals)
        bd = rng.choice([BD.NONE, BD.FOLLOWING, BD.MODIFIED_FOLLOWING, BD.MODIFIED_FOLLOWING])
        # ---- quotes: an Ibor par curve and an OIS par curve at a basis of 5..80 bp (either sign, mostly Ibor above OIS)
        neg = rng.random() < 0.25
        level = rng.uniform(-0.0060, -0.0030) if neg else rng.uniform(0.002, 0.09)
        amp = rng.uniform(0.004, 0.012) if neg else rng.uniform(-0.01, 0.025)
        basis = rng.choice([1.0, 1.0, 1.0, -1.0]) * rng.uniform(0.0005, 0.0080)

        def rate(t):
            return max(-0.012, min(0.13, level + amp * (1.0 - math.exp(-t / 5.0)) + rng.uniform(-0.0006, 0.0006) * (0.25 if neg else 1.0)))

        def ois_rate(r_, t):
            return r_ - basis * (1.0 + 0.03 * t) + rng.uniform(-0.0002, 0.0002)
        rec = {'deposits': [], 'fras': [], 'swaps': [], 'ois': [], 'disc_ois': []}
        depos, ois_depos = [], []
        # ---- deposits: all from the spot date, or the market ladder O/N (curve date -> +1 bd), T/N (-> spot date), then spot-starting
        ladder = spot >= 2 and rng.random() < 0.35
        if ladder:
            a_ = (v, v.add_weekdays(1), next_dc(), CAL.NONE, BD.NONE)
            depos.append(mk_depo(a_, rate(0.0)))
            rec['deposits'].append(a_)
            if depos[-1].maturity_dt < settle:
                a_ = (depos[-1].maturity_dt, settle, next_dc(), CAL.NONE, BD.NONE)
                depos.append(mk_depo(a_, rate(0.0)))
                rec['deposits'].append(a_)
        nd = rng.choice([1, 2, 3, 4])
        want = {k} | set(rng.sample([1, 2, 3, 6, 9, 12], nd - 1)) if rng.random() < 0.8 else set(rng.sample([1, 2, 3, 6, 9, 12], nd))
        if rng.random() < 0.3:
            want |= {0}
        for km, ten in [(0, rng.choice(['1W', '2W']))] + dep_ten:
            if km not in want:
                continue
            a_ = (settle, ten, next_dc(), cal, bd)
            x_ = mk_depo(a_, rate(km / 12.0))
            if depos and x_.maturity_dt <= depos[-1].maturity_dt:
                continue
            depos.append(x_)
            rec['deposits'].append(a_)
        for a_, x_ in zip(rec['deposits'], depos):
            ois_depos.append(mk_depo((a_[0], a_[1], rng.choice([DCT.ACT_360, DCT.ACT_365F, a_[2]]), a_[3], a_[4]),
                                     ois_rate(x_.deposit_rate, 0.25)))
        last_dt = depos[-1].maturity_dt
        # ---- FRAs: none / chain from the last deposit / first FRA overlapping the last deposit (closed-form branch)
        fras = []
        shape = rng.choice(['none', 'none', 'chain', 'overlap-depo'])
        if shape != 'none':
            start = last_dt.add_tenor('-1M') if (shape == 'overlap-depo' and (last_dt.excel_dt - settle.excel_dt) > 45) else last_dt
            for _ in range(rng.choice([1, 2])):
                a_ = (start, '3M', next_dc(), cal, bd)
                f_ = mk_fra(a_, rate(1.0))
                if f_.maturity_dt <= last_dt or f_.start_dt <= v:
                    break
                fras.append(f_)
                rec['fras'].append(a_)
                last_dt = f_.maturity_dt
                start = f_.maturity_dt
        # ---- swaps on one coupon grid (one fixed frequency / calendar / roll / rule per curve), every leg its own day count
        sw_t = ['1Y', '2Y', '3Y', '4Y', '5Y', '7Y', '10Y']
        ns_ = rng.choice([1, 2, 3, 4]) if spot else rng.choice([0, 1, 2, 3, 4])
        ffreq = rng.choice([F.ANNUAL, F.SEMI_ANNUAL, F.QUARTERLY])
        scal = rng.choice(cals)
        sbd = rng.choice([BD.FOLLOWING, BD.MODIFIED_FOLLOWING])
        sdg = rng.choice([DG.BACKWARD, DG.BACKWARD, DG.FORWARD])

        def swap_conv(is_ois):
            return {'ffreq': ffreq, 'fdc': next_dc(), 'lfreq': rng.choice([F.ANNUAL, F.SEMI_ANNUAL, F.QUARTERLY]), 'ldc': next_dc(), 'cal': scal,
                    'bd': sbd, 'dg': sdg, 'lag': rng.choice([0, 0, 1, 2]) if is_ois else 0}
        swaps, oswaps, disc_swaps, sw_ten = [], [], [], []
        i_start = 0
        while i_start < len(sw_t) - 1 and settle.add_tenor(sw_t[i_start]).excel_dt <= last_dt.excel_dt + 5:
            i_start += 1
        for i in range(i_start, min(len(sw_t), i_start + ns_)):
            a_ = (settle, sw_t[i], swap_conv(False))
            s_ = mk_swap(a_, rate(float(sw_t[i][:-1])))
            if s_.fixed_leg.payment_dts[-1] > last_dt:
                swaps.append(s_)
                sw_ten.append(sw_t[i])
                rec['swaps'].append(a_)
                last_dt = s_.fixed_leg.payment_dts[-1]
        for t_, x in zip(sw_ten, swaps):
            a_ = (settle, t_, swap_conv(True))
            oswaps.append(mk_ois(a_, x.fixed_leg.cpn))         # the OISCurve class is given the same quote shapes
            rec['ois'].append(a_)
            rec['disc_ois'].append((settle, t_, swap_conv(True)))
            disc_swaps.append(mk_ois(rec['disc_ois'][-1], ois_rate(x.fixed_leg.cpn, float(t_[:-1]))))
        if spot and not swaps:
            raise FinError('no swap left for a spot-lagged set')    # re-draw (spot lag without swaps is the known finding, met in c01.py)
        # ---- the discount curve of the dual curve: its own quotes, conventions and scheme
        disc, disc_desc = None, None
        if rng.random() < 0.75:
            dit = rng.choice([InterpTypes.FLAT_FWD_RATES, InterpTypes.FLAT_FWD_RATES, InterpTypes.LINEAR_ZERO_RATES, InterpTypes.LINEAR_FWD_RATES])
            try:
                disc = quiet(OISCurve, v, list(ois_depos), [], list(disc_swaps), dit)
                disc_desc = {'class': 'OISCurve', 'interp': dit.name, 'basis_to_ibor_quotes': basis,
                             'deposits': [[ds(x.start_dt), ds(x.maturity_dt), x.deposit_rate, x.dc_type.name] for x in ois_depos],
                             'ois': [[ds(x.effective_dt), ds(x.maturity_dt), x.fixed_leg.cpn, cname(a_[2]), a_[1]] for x, a_ in zip(disc_swaps, rec['disc_ois'])]}
            except Exception:  # noqa: BLE001
                disc = None
        if disc is None:
            fr_ = rng.choice([F.CONTINUOUS, F.ANNUAL, F.SEMI_ANNUAL])
            fdc_ = rng.choice([DCT.ACT_ACT_ISDA, DCT.ACT_365F, DCT.ACT_360])
            zr = level - basis
            disc = DiscountCurveFlat(v, zr, fr_, fdc_)
            disc_desc = {'class': 'DiscountCurveFlat', 'rate': zr, 'freq': fr_.name, 'dc': fdc_.name, 'basis_to_ibor_quotes': basis}

        desc = {'generator': 'wave5', 'valuation': ds(v), 'spot_days': spot, 'deposit_ladder': 'ON/TN/spot' if ladder else 'spot', 'fra_shape': shape,
                'deposit_dc': depos[0].dc_type.name,
                'deposits': [[ds(x.start_dt), ds(x.maturity_dt), x.deposit_rate, x.dc_type.name, a_[3].name, a_[4].name] for x, a_ in zip(depos, rec['deposits'])],
                'fras': [[ds(x.start_dt), ds(x.maturity_dt), x.fra_rate, x.dc_type.name, a_[3].name, a_[4].name] for x, a_ in zip(fras, rec['fras'])],
                'swaps': [[ds(x.effective_dt), ds(x.maturity_dt), x.fixed_leg.cpn, cname(a_[2]), a_[1]] for x, a_ in zip(swaps, rec['swaps'])],
                'ois': [[ds(x.effective_dt), ds(x.maturity_dt), x.fixed_leg.cpn, cname(a_[2]), a_[1]] for x, a_ in zip(oswaps, rec['ois'])],
                'swap_freq': ffreq.name, 'swap_dc': swaps[0].fixed_leg.dc_type.name if swaps else 'THIRTY_E_360',
                'dual_curve_discount_curve': disc_desc}
        return v, settle, depos, fras, swaps, oswaps, disc, desc

    def is_feb_end(d):
        return d.m == 2 and d.d == mdays(d.y, 2)

    def is_month_end(d):
        return d.d == mdays(d.y, d.m)

    def months_before(d, k, day_choices):
        """a date k months before d; day of month drawn from day_choices, clamped to the month's length"""
        sm, sy = d.m - k, d.y
        while sm < 1:
            sm, sy = sm + 12, sy - 1
        last = mdays(sy, sm)
        return Date(min(last, rng.choice([last if c_ == 'last' else c_ for c_ in day_choices])), sm, sy)

    def grid_set(dc, mclass, ikind):
        """A small quote set in which one instrument of kind `ikind` (the FIRST spot deposit / the first FRA) has day count `dc` and a
        period END of the given class (dates passed explicitly, no calendar: the period is exactly what the cell says); its start is the
        same day some months earlier, or a month end of its own.  ikind = fra: the deposit before it ends where the FRA starts (the
        FRA knot comes from the root search) or a month later (closed-form branch)."""
        y = rng.randint(2001, 2036)
        leap_y = y - (y % 4) if (y - (y % 4)) != 2100 else 2096
        nonleap_y = y if y % 4 else y + 1
        if mclass == 'last-feb-non-leap':
            mat = Date(28, 2, nonleap_y)
        elif mclass == 'last-feb-leap':
            mat = Date(29, 2, leap_y)
        elif mclass == '28-feb-leap':
            mat = Date(28, 2, leap_y)
        elif mclass == '31st':
            m_ = rng.choice([1, 3, 5, 7, 8, 10, 12])
            mat = Date(31, m_, y)
        elif mclass == '30th':
            m_ = rng.choice([4, 6, 9, 11, 1, 3, 12])
            mat = Date(30, m_, y)
        else:
            mat = Date(rng.randint(2, 27), rng.randint(1, 12), y)
        k = rng.choice([1, 2, 3, 6, 9, 12])
        cell_dt = mat
        if ikind == 'fra':
            fra_start = months_before(cell_dt, 3, [cell_dt.d, cell_dt.d, 'last', 31, 30])
            overlap = rng.random() < 0.5
            mat = fra_start.add_months(1) if overlap else fra_start          # the deposit's maturity
            k = rng.choice([2, 3, 6] if overlap else [1, 2, 3, 6])   # the FRA starts after the spot date in either shape
        settle = months_before(mat, k, [mat.d, mat.d, 'last', 31, 30])
        spot = rng.choice([0, 0, 1, 2])
        if spot:
            v = settle.add_weekdays(-spot)
            if v.add_weekdays(spot) != settle:      # the start date is a weekend: the curve date is the start date
                v, spot = settle, 0
        else:
            v = settle
        level, amp = rng.uniform(0.003, 0.08), rng.uniform(-0.008, 0.02)
        basis = rng.choice([1.0, 1.0, -1.0]) * rng.uniform(0.0005, 0.0080)

        def rate(t):
            return level + amp * (1.0 - math.exp(-t / 5.0)) + rng.uniform(-0.0005, 0.0005)
        none = (CAL.NONE, BD.NONE)
        rec = {'deposits': [], 'fras': [], 'swaps': [], 'ois': [], 'disc_ois': []}
        depos = []
        if (mat.excel_dt - settle.excel_dt) > 20 and rng.random() < 0.5:
            rec['deposits'].append((settle, settle.add_days(rng.choice([1, 7, 14])), next_dc()) + none)
            depos.append(mk_depo(rec['deposits'][-1], rate(0.0)))
        rec['deposits'].append((settle, mat, dc if ikind == 'deposit' else next_dc()) + none)
        depos.append(mk_depo(rec['deposits'][-1], rate(k / 12.0)))
        last_dt = mat
        fras = []
        if ikind == 'fra':
            a_ = (fra_start, cell_dt, dc) + none
            fras.append(mk_fra(a_, rate(1.0)))
            rec['fras'].append(a_)
            last_dt = fras[-1].maturity_dt
        elif rng.random() < 0.5:
            # a FRA of the same convention whose period STARTS on the cell's date (and ends on the same day three months later)
            a_ = (mat, mat.add_tenor('3M'), dc) + none
            fras.append(mk_fra(a_, rate(1.0)))
            rec['fras'].append(a_)
            last_dt = fras[-1].maturity_dt
        ffreq = rng.choice([F.ANNUAL, F.SEMI_ANNUAL, F.QUARTERLY])
        scal, sbd, sdg = rng.choice([CAL.NONE, CAL.WEEKEND, CAL.TARGET]), rng.choice([BD.FOLLOWING, BD.MODIFIED_FOLLOWING]), rng.choice([DG.BACKWARD, DG.FORWARD])

        def swap_conv(is_ois):
            return {'ffreq': ffreq, 'fdc': rng.choice([dc, next_dc()]), 'lfreq': rng.choice([F.ANNUAL, F.SEMI_ANNUAL, F.QUARTERLY]), 'ldc': rng.choice([dc, next_dc()]),
                    'cal': scal, 'bd': sbd, 'dg': sdg, 'lag': rng.choice([0, 0, 1, 2]) if is_ois else 0}
        swaps, oswaps, disc_swaps = [], [], []
        for t_ in (['2Y', '3Y'] if (last_dt.excel_dt - settle.excel_dt) > 350 else ['1Y', '2Y', '3Y'])[:rng.choice([1, 2, 3]) if spot else rng.choice([0, 1, 2])]:
            a_ = (settle, t_, swap_conv(False))
            s_ = mk_swap(a_, rate(float(t_[:-1])))
            if s_.fixed_leg.payment_dts[-1] <= last_dt:
                continue
            swaps.append(s_)
            rec['swaps'].append(a_)
            last_dt = s_.fixed_leg.payment_dts[-1]
            a_ = (settle, t_, swap_conv(True))
            oswaps.append(mk_ois(a_, s_.fixed_leg.cpn))
            rec['ois'].append(a_)
            rec['disc_ois'].append((settle, t_, swap_conv(True)))
            disc_swaps.append(mk_ois(rec['disc_ois'][-1], s_.fixed_leg.cpn - basis))
        if spot and not swaps:
            raise FinError('no swap left for a spot-lagged set')
        disc, disc_desc = None, None
        if swaps and rng.random() < 0.7:
            try:
                od = [mk_depo((a_[0], a_[1], DCT.ACT_360) + none, x.deposit_rate - basis) for a_, x in zip(rec['deposits'], depos)]
                disc = quiet(OISCurve, v, list(od), [], list(disc_swaps), InterpTypes.FLAT_FWD_RATES)
                disc_desc = {'class': 'OISCurve', 'interp': 'FLAT_FWD_RATES', 'basis_to_ibor_quotes': basis,
                             'deposits': [[ds(x.start_dt), ds(x.maturity_dt), x.deposit_rate, x.dc_type.name] for x in od],
                             'ois': [[ds(x.effective_dt), ds(x.maturity_dt), x.fixed_leg.cpn, cname(a_[2]), a_[1]] for x, a_ in zip(disc_swaps, rec['disc_ois'])]}
            except Exception:  # noqa: BLE001
                disc = None
        if disc is None:
            disc = DiscountCurveFlat(v, level - basis, F.CONTINUOUS, DCT.ACT_ACT_ISDA)
            disc_desc = {'class': 'DiscountCurveFlat', 'rate': level - basis, 'freq': 'CONTINUOUS', 'dc': 'ACT_ACT_ISDA', 'basis_to_ibor_quotes': basis}

        desc = {'generator': 'wave5-grid', 'cell': [dc.name, ikind + ' period ends on: ' + mclass], 'valuation': ds(v), 'spot_days': spot, 'deposit_dc': dc.name,
                'deposits': [[ds(x.start_dt), ds(x.maturity_dt), x.deposit_rate, x.dc_type.name, 'NONE', 'NONE'] for x in depos],
                'fras': [[ds(x.start_dt), ds(x.maturity_dt), x.fra_rate, x.dc_type.name, 'NONE', 'NONE'] for x in fras],
                'swaps': [[ds(x.effective_dt), ds(x.maturity_dt), x.fixed_leg.cpn, cname(a_[2]), a_[1]] for x, a_ in zip(swaps, rec['swaps'])],
                'ois': [[ds(x.effective_dt), ds(x.maturity_dt), x.fixed_leg.cpn, cname(a_[2]), a_[1]] for x, a_ in zip(oswaps, rec['ois'])],
                'swap_freq': ffreq.name, 'swap_dc': swaps[0].fixed_leg.dc_type.name if swaps else 'THIRTY_E_360', 'dual_curve_discount_curve': disc_desc}
        return v, settle, depos, fras, swaps, oswaps, disc, desc

    # ---- (1) the product grid: EVERY two-date day count x EVERY class of period end (each cell on every run, quick tier included),
    #      one bootstrap scheme per cell drawn by the rng, all three curve classes;  (2) the random sets
    mclasses = ['last-feb-non-leap', 'last-feb-leap', '28-feb-leap', '31st', '30th', 'mid-month']
    jobs = [('grid', dc, mc, ik) for dc in two_date for mc in mclasses for ik in ('deposit', 'fra') for _ in range(1 if ctx.quick() else 4)]
    ncase = 10 if ctx.quick() else 120
    jobs += [('random', None, None, None)] * ncase
    for case, (jkind, jdc, jmc, jik) in enumerate(jobs):
        for _try in range(40):
            try:
                v, settle, depos, fras, swaps, oswaps, disc, desc = quotes5(case) if jkind == 'random' else grid_set(jdc, jmc, jik)
                break
            except FinError:
                tick('wave5/quotes-redrawn')
        else:
            raise RuntimeError('wave 5 quote generator could not produce an admissible set')
        its = boot_its if jkind == 'random' else [rng.choice(boot_its)]
        if jkind == 'grid':
            tick(f'wave5/grid/{jik}-ends-{jmc}')
        for x in depos:
            tick(f'wave5/deposit-dc={x.dc_type.name}')
            if is_feb_end(x.maturity_dt):
                tick(f'wave5/deposit-matures-last-day-of-feb/{x.dc_type.name}')
            elif is_month_end(x.maturity_dt):
                tick('wave5/deposit-matures-month-end')
            if is_feb_end(x.start_dt):
                tick('wave5/deposit-starts-last-day-of-feb')
        for x in fras:
            if is_feb_end(x.maturity_dt):
                tick(f'wave5/fra-ends-last-day-of-feb/{x.dc_type.name}')
            elif is_month_end(x.maturity_dt):
                tick('wave5/fra-ends-month-end')
        tick(f'wave5/spot={desc["spot_days"]} ladder={desc.get("deposit_ladder", "spot")} discount={desc["dual_curve_discount_curve"]["class"]}')
        # spot lag without swaps cannot occur here (re-drawn); no swaps + spot 0 is the plain deposit / FRA curve
        for it in its:
            d2 = desc | {'interp': it.name}
            dep_i = [('deposit', x, (lambda c, x=x: x.value(v, c) / x.notional - 1.0), [x.start_dt, x.maturity_dt]) for x in depos]
            builds = [
                ('IborSingleCurve', lambda: IborSingleCurve(v, list(depos), list(fras), list(swaps), it), None, swaps,
                 lambda x: (lambda c: x.value(v, c) / x.notional), lambda x: (lambda c: x.value(v, c, c, None) / x.fixed_leg.notional)),
                ('OISCurve', lambda: OISCurve(v, list(depos), list(fras), list(oswaps), it), None, oswaps,
                 lambda x: (lambda c: x.value(v, c) / x.notional), lambda x: (lambda c: x.value(v, c) / x.fixed_leg.notional)),
                ('IborDualCurve', lambda: IborDualCurve(v, disc, list(depos), list(fras), list(swaps), it), disc, swaps,
                 lambda x: (lambda c: x.value(v, disc, c) / x.notional), lambda x: (lambda c: x.value(v, disc, c, None) / x.fixed_leg.notional)),
            ]
            for kind, build, dsc, sws, fra_fn, swap_fn in builds:
                curve = None
                try:
                    newton_log.clear()
                    curve = quiet(build)
                    solved_ids = set(newton_log)
                except FinError as ex:
                    tick(f'wave5/{kind}/rejected-by-validation: ' + str(getattr(ex, '_message', ex))[:40])
                except Exception as ex:  # noqa: BLE001
                    ctx.violation(f'{kind}: bootstrap raised on an admissible quote set', d2 | {'curve': kind, 'error': type(ex).__name__ + ': ' + str(ex)[:120]},
                                  clause='build-raises')
                if curve is None:
                    continue
                tick(f'wave5/{kind}/{it.name}')
                instr = list(dep_i)
                instr += [('fra', x, fra_fn(x), [x.start_dt, x.maturity_dt]) for x in fras]
                instr += [('swap', x, swap_fn(x), [x.effective_dt] + list(x.fixed_leg.payment_dts)) for x in sws]
                check_curve(kind, curve, v, instr, d2 | {'curve': kind})
                if it in local:
                    tie_curve(kind, curve, v, dsc, depos, fras, sws, d2, solved_ids)
    ctx.count('wave5/quote-sets', len(jobs))


def replay_case(v_, quiet):
    """Rebuild a recorded wave-5 case exactly (explicit period dates for deposits / FRAs, tenor + conventions for swaps, the dual
    curve's own discount curve) and print every input instrument's repricing error on the rebuilt curve."""
    from financepy.utils.date import Date
    from financepy.utils.frequency import FrequencyTypes as F
    from financepy.utils.day_count import DayCountTypes as DCT
    from financepy.utils.global_types import SwapTypes
    from financepy.utils.calendar import CalendarTypes as CAL, BusDayAdjustTypes as BD, DateGenRuleTypes as DG
    from financepy.market.curves.interpolator import InterpTypes
    from financepy.market.curves.discount_curve_flat import DiscountCurveFlat
    from financepy.products.rates.ibor_deposit import IborDeposit
    from financepy.products.rates.ibor_fra import IborFRA
    from financepy.products.rates.ibor_swap import IborSwap
    from financepy.products.rates.ois import OIS
    from financepy.products.rates.ibor_single_curve import IborSingleCurve
    from financepy.products.rates.ois_curve import OISCurve
    from financepy.products.rates.dual_curve import IborDualCurve
    c = v_['case']

    def Dd(s):
        d, m, y = map(int, s.split('-'))
        return Date(d, m, y)

    def depo(e):
        return IborDeposit(Dd(e[0]), Dd(e[1]), e[2], DCT[e[3]], 100.0, CAL.NONE, BD.NONE)

    def swap(e, ois):
        k = e[3]
        a = (Dd(e[0]), e[4], SwapTypes.PAY, e[2], F[k['ffreq']], DCT[k['fdc']], 1000000.0)
        b = (0.0, F[k['lfreq']], DCT[k['ldc']], CAL[k['cal']], BD[k['bd']], DG[k['dg']])
        return OIS(*a, k['lag'], *b) if ois else IborSwap(*a, *b)
    vd = Dd(c['valuation'])
    it = InterpTypes[c['interp']]
    depos = [depo(e) for e in c['deposits']]
    fras = [IborFRA(Dd(e[0]), Dd(e[1]), e[2], DCT[e[3]], 100.0, True, CAL.NONE, BD.NONE) for e in c['fras']]
    swaps = [swap(e, False) for e in c['swaps']]
    oswaps = [swap(e, True) for e in c['ois']]
    kind = c.get('curve', 'IborSingleCurve')
    disc = None
    if kind == 'IborDualCurve':
        dd = c['dual_curve_discount_curve']
        if dd['class'] == 'DiscountCurveFlat':
            disc = DiscountCurveFlat(vd, dd['rate'], F[dd['freq']], DCT[dd['dc']])
        else:
            disc = quiet(OISCurve, vd, [depo(e) for e in dd['deposits']], [], [swap(e, True) for e in dd['ois']], InterpTypes[dd['interp']])
        curve = quiet(IborDualCurve, vd, disc, list(depos), list(fras), list(swaps), it)
    elif kind == 'OISCurve':
        curve = quiet(OISCurve, vd, list(depos), list(fras), list(oswaps), it)
    else:
        curve = quiet(IborSingleCurve, vd, list(depos), list(fras), list(swaps), it)
    print(f'  {kind} {it.name}, curve date {vd}' + (f', discount curve {c["dual_curve_discount_curve"]["class"]}' if disc is not None else ''))
    for x in depos:
        print(f'  deposit {x.start_dt} -> {x.maturity_dt} {x.dc_type.name} {x.deposit_rate:.6f}: value/notional - 1 = {x.value(vd, curve) / x.notional - 1.0:.3e}')
    for x in fras:
        e_ = (x.value(vd, disc, curve) if disc is not None else x.value(vd, curve)) / x.notional
        print(f'  fra {x.start_dt} -> {x.maturity_dt} {x.dc_type.name}: value/notional = {e_:.3e}')
    for x in (oswaps if kind == 'OISCurve' else swaps):
        e_ = (x.value(vd, curve) if kind == 'OISCurve' else x.value(vd, disc if disc is not None else curve, curve, None)) / x.fixed_leg.notional
        print(f'  swap {x.effective_dt} -> {x.maturity_dt}: value/notional = {e_:.3e}')
