"""C02 — a discount curve is one coherent function of the date.

Theorems: FinVerif/Props/C02a.lean (interpolation kernels: knot reproduction, positivity, locality, continuity,
flat-forward monotonicity — any number of knots) and C02b.lean (rate<->df round trips for every compounding
frequency, forward / swap-rate / composite identities, anchor knot, counterexample theorems of the known defects),
all about the hand-written model FinVerif/Model/C02.lean read over the reals.
Tie: the same model text runs at Float (Driver/C02) and is compared on every run with the implementation
(`_uinterpolate`, `_zero_to_df`, `_df_to_zero`, every curve class: df, df_t, scalar and vector, zero_rate, fwd_rate,
fwd, swap_rate).  Direct oracles on the implementation are the executable reading of the property."""
import io
import math
import os
import sys
import contextlib

sys.path.insert(0, os.path.dirname(os.path.dirname(os.path.abspath(__file__))))
import common as C  # noqa: E402
from floatcmp import f2b, b2f, close  # noqa: E402
from parallel import driver_parallel  # noqa: E402

GEN = ['CurvesF', 'CurvesR', 'DateK', 'DayCount', 'InterpLoopR']   # InterpLoopR: Props/C02g (generated loops of _uinterpolate); DateK/DayCount: Props/C02f (time axes) is about the generated year_frac
PROPS = ['FinVerif.Props.C02a', 'FinVerif.Props.C02b', 'FinVerif.Props.C02c', 'FinVerif.Props.C02d', 'FinVerif.Props.C02e',
         'FinVerif.Props.C02f', 'FinVerif.Props.C02g']
DRIVERS = ['FinVerif.Driver.C02', 'FinVerif.Driver.C02Axis']

RULE = ('uinterp: seeded knot vectors (1..8 knots, first knot 0 or later, dfs from zero rates of both signs) x the three '
        'local kernels x query times at/around/between knots, left of the first knot and to far extrapolation; '
        'conversions: every FrequencyTypes member x rates of both signs x times incl. 0; curves: every curve class x '
        'every InterpTypes / FrequencyTypes / DayCountTypes member (each member at least once per run), pillar sets with '
        'the first pillar on or after the valuation date, query dates = valuation date, every pillar, pillar +-1 day, '
        'midpoints, seeded dates, and +1d/+1y/+10y/+30y/+60y beyond the last pillar. One evaluation = one '
        '(curve, query, view) compared with the model or checked by an oracle; time-axis: 4000 seeded date pairs 1 Mar 1900..2140 '
        '(year ends, 28/29 Feb, leap and century years; non-trivial = the span touches a leap year); non-trivial = the query is not the '
        'valuation date. Cases are distinct by construction (seeded, no deduplication needed).')

RTOL = 1e-9      # model vs implementation (fastmath re-association, libm vs NumPy exp/log/pow: <= 1e-13 on these kernels)
OTOL = 1e-11     # oracles: identities that hold exactly over the reals, evaluated in double precision


def ek(e):
    from financepy.utils.error import FinError
    if isinstance(e, FinError):
        return 'E:FinError'
    return 'E:' + type(e).__name__


def fl(x):
    """canonical python float of a scalar / 1-element array"""
    import numpy as np
    a = np.asarray(x, dtype=float).ravel()
    if a.size != 1:
        raise ValueError(f'expected one number, got shape {np.asarray(x).shape}')
    return float(a[0])


def quiet(f, *a, **k):
    """call f with stdout suppressed (the library prints diagnostics before raising)"""
    buf = io.StringIO()
    with contextlib.redirect_stdout(buf):
        return f(*a, **k)


import timeaxis  # noqa: E402
from timeaxis import touches_leap  # noqa: E402,F401  (the ONE classifier predicate: mirror of Spec.touchesLeap, compared with Lean every run)


class Cmp:
    """accumulates ops for the model driver together with the implementation's answers"""

    def __init__(self, ctx, comp):
        self.ctx, self.comp = ctx, comp
        self.ops, self.impl, self.meta = [], [], []

    def add(self, op, impl, meta=None):
        self.ops.append(op)
        self.impl.append(impl)
        self.meta.append(meta)

    def flush(self, drivers_ok, nontriv=None, on_unspecified=None):
        ctx = self.ctx
        n = len(self.ops)
        if n == 0:
            return
        model = None
        if drivers_ok:
            try:
                model = driver_parallel('C02', self.ops, chunk=20000)
            except C.DriverError as e:
                ctx.broke(f'model driver failed on component {self.comp}: {str(e)[:300]}')
        nbad = 0
        nunspec = 0
        if model is not None:
            for op, im, mo, me in zip(self.ops, self.impl, model, self.meta):
                if mo == 'bad-op':
                    ctx.broke(f'harness/driver protocol error on `{op[:80]}`')
                    break
                if mo == 'E:IndexError' and me and me.get('oob_unspecified'):
                    # the compiled code reads outside the arrays: any outcome of the implementation is possible
                    nunspec += 1
                    if on_unspecified:
                        on_unspecified(op, im, me)
                    continue
                ok = False
                if isinstance(im, str) or mo.startswith('E:'):
                    ok = (im == mo)
                else:
                    ok = close(im, b2f(mo), rtol=RTOL, atol=(me or {}).get('atol', 1e-300))
                if not ok:
                    nbad += 1
                    if nbad <= 3:
                        ms = mo if mo.startswith('E:') else repr(b2f(mo))
                        ctx.broke(f'correspondence {self.comp}: model≠implementation on {me or op[:120]} '
                                  f'(model {ms}, impl {im!r})')
        ctx.count(self.comp, n, n if nontriv is None else nontriv,
                  sample={'op': self.meta[n // 2] or self.ops[n // 2][:160], 'impl': self.impl[n // 2]})
        c = ctx.cov['components'][self.comp]
        c['disagree_model'] = c.get('disagree_model', 0) + nbad
        c['unspecified_reads'] = c.get('unspecified_reads', 0) + nunspec
        self.ops, self.impl, self.meta = [], [], []


# ------------------------------------------------------------------------------------------------ run
def run(ctx):
    props = [p for p in PROPS if os.path.exists(os.path.join(C.LEAN_DIR, p.replace('.', '/') + '.lean'))]
    for p in PROPS:
        if p not in props:
            ctx.broke(f'proof: {p} is missing')
    drivers_ok = C.lean_stage(ctx, GEN, props, DRIVERS,
                              extra_files=['FinVerif/Model/C02.lean', 'FinVerif/Model/C02Ext.lean', 'FinVerif/Spec/C02.lean', 'FinVerif/Lemmas/C02Real.lean', 'FinVerif/Lemmas/C02Interp.lean', 'FinVerif/Lemmas/C02Alg.lean', 'FinVerif/Spec/TimeAxis.lean', 'FinVerif/Lemmas/C20Loop.lean'])
    C.import_financepy()
    import numpy as np
    import warnings
    warnings.simplefilter('ignore')
    np.seterr(all='ignore')
    E = Env(ctx, drivers_ok)
    E.component_uinterp()
    E.component_conversions()
    E.component_curves()
    E.component_witnesses()
    E.component_growth()
    timeaxis.check(ctx, drivers_ok)      # classifier == Lean predicate of Props/C02f; implementation's two axes vs exact rationals
    ctx.assumptions += [
        'theorems are about the model read over the real numbers; the Float instantiation of the same text is compared '
        f'with the implementation at rtol {RTOL}; rounding is covered only by that tolerance and the oracle tolerances',
        'dates become times in the harness with the rule each code path uses ((d-v)/365 for DiscountCurve/PWFONF pillars, '
        'DayCount.year_frac for everything else); DayCount itself is C15\'s subject, Schedule.generate is C16\'s',
        'SciPy splines (CubicSpline, PchipInterpolator, InterpolatedUnivariateSpline) and TensionSpline are parameters of '
        'the model, assumed only to interpolate their knots; that assumption is checked on every spline curve built here',
        'a read outside the knot arrays (single-knot curve) has no defined value in the compiled code; the model returns an '
        'error there and the implementation\'s outcome is recorded under the known finding, not compared',
    ]
    return C.finish(ctx, 'proof',
                    'lake build FinVerif.Props.C02a FinVerif.Props.C02b FinVerif.Props.C02c FinVerif.Props.C02d FinVerif.Props.C02e FinVerif.Props.C02f && lake env lean .cache/audit/Audit_C02.lean',
                    C.TRUSTED_BASE_COMMON + ['Model/C02.lean and Model/C02Ext.lean are hand-written: their tie to the Python is the '
                                             'per-run correspondence (not a translation); nsRate / nssRate / zeroToDf are in addition '
                                             'proved equal to the generated text Gen/CurvesR (Props/C02d)',
                                             'Real.exp / Real.log / Real.rpow as the meaning of np.exp / np.log / np.power'],
                    RULE)


class Env:
    def __init__(self, ctx, drivers_ok):
        import numpy as np
        from financepy.utils.date import Date
        from financepy.utils.frequency import FrequencyTypes
        from financepy.utils.day_count import DayCountTypes, DayCount
        from financepy.market.curves.interpolator import InterpTypes
        self.ctx, self.ok = ctx, drivers_ok
        self.np = np
        self.Date = Date
        self.F = FrequencyTypes
        self.DCT = DayCountTypes
        self.DayCount = DayCount
        self.IT = InterpTypes
        Date(1, 1, 2199)  # extend the date table once (table-extension history is C13/C18's subject)
        self.local = {InterpTypes.FLAT_FWD_RATES, InterpTypes.LINEAR_FWD_RATES, InterpTypes.LINEAR_ZERO_RATES}
        self.logspl = {InterpTypes.PCHIP_LOG_DISCOUNT, InterpTypes.NATCUBIC_LOG_DISCOUNT}
        self.zerospl = {InterpTypes.PCHIP_ZERO_RATES, InterpTypes.FINCUBIC_ZERO_RATES, InterpTypes.NATCUBIC_ZERO_RATES,
                        InterpTypes.TENSION_ZERO_RATES}
        # day counts usable for a (valuation, date) year fraction; the two others raise by design / by C15's finding
        self.dc_ok = [d for d in DayCountTypes if d not in (DayCountTypes.ACT_ACT_ICMA, DayCountTypes.ACT_365L)]
        self.z2d_freqs = [FrequencyTypes.CONTINUOUS, FrequencyTypes.SIMPLE, FrequencyTypes.ANNUAL,
                          FrequencyTypes.SEMI_ANNUAL, FrequencyTypes.QUARTERLY, FrequencyTypes.MONTHLY]
        self.hist = {}

    def tick(self, key):
        self.hist[key] = self.hist.get(key, 0) + 1

    # ------------------------------------------------------------------ spec formulas (independent of the source)
    @staticmethod
    def spec_z2d(fv, r, t):
        t = max(t, 1e-12)
        try:
            if fv == 99:
                return math.exp(-r * t)
            if fv == 0:
                return 1.0 / (1.0 + r * t)
            f = {-1: 1.0}.get(fv, float(fv))
            return (1.0 + r / f) ** (-f * t)
        except (ZeroDivisionError, OverflowError, ValueError):
            return float('nan')

    @staticmethod
    def spec_d2z(fv, df, t):
        t = max(t, 1e-12)
        if fv == 99:
            return -math.log(df) / t
        if fv == 0:
            return (1.0 / df - 1.0) / t
        f = {-1: 1.0}.get(fv, float(fv))
        return (df ** (-1.0 / (t * f)) - 1.0) * f

    @staticmethod
    def gen_lndf(rng, ts, sign=None):
        """-ln df at the increasing times ts from interval forward rates bounded in a realistic band (both signs),
        so that knots one day apart do not imply absurd forwards; returns (list of -ln df, forwards non-negative?)"""
        sign = sign or rng.choice(['pos', 'pos', 'mixed', 'neg'])
        lo, hi = {'pos': (0.0, 0.10), 'mixed': (-0.02, 0.09), 'neg': (-0.02, 0.0)}[sign]
        acc, prev, out = 0.0, 0.0, []
        base = rng.uniform(lo, hi)
        for t in ts:
            f = min(hi, max(lo, base + rng.uniform(-0.02, 0.02)))
            acc += f * (t - prev)
            prev = t
            out.append(acc)
        return out, sign == 'pos'

    def yf(self, dc, d1, d2):
        return self.DayCount(dc).year_frac(d1, d2)[0]

    @staticmethod
    def rule_pw_rate(tag, ts, rs, t):
        """the documented zero rate of a piecewise-flat ('PWF') / piecewise-linear ('PWL') zero curve at time t (>= 2 pillars for
        PWL): the section is the one ending at the first pillar after the first whose time exceeds t; beyond the last pillar
        the last rate.  Written independently of the source (same rule as Model.C02 pwfRate / pwlRate)."""
        t = max(t, 1e-12 if tag == 'PWF' else 1e-6)
        for i in range(1, len(ts)):
            if ts[i] > t:
                if tag == 'PWF':
                    return rs[i - 1]
                return ((ts[i] - t) * rs[i - 1] + (t - ts[i - 1]) * rs[i]) / (ts[i] - ts[i - 1])
        return rs[-1]

    # ------------------------------------------------------------------ component 1: _uinterpolate
    def component_uinterp(self):
        np = self.np
        ctx = self.ctx
        from financepy.market.curves import interpolator as I
        rng = ctx.rng('uinterp')
        ncase = 2500 if ctx.quick() else 40000
        cmp_ = Cmp(ctx, 'uinterp')
        nontriv = 0
        for _ in range(ncase):
            n = rng.choice([1, 2, 2, 3, 3, 4, 5, 6, 8])
            t0 = rng.choice([0.0, 0.0, rng.uniform(0.002, 2.0)])
            gaps = [rng.choice([1 / 365, 7 / 365, 0.25, 0.5, 1.0, rng.uniform(0.003, 6.0)]) for _ in range(n - 1)]
            times = [t0]
            for g_ in gaps:
                times.append(times[-1] + g_)
            # knot dfs from bounded interval forwards (both signs), so that 60y extrapolation stays in range
            fw = [rng.choice([rng.uniform(-0.02, 0.12), rng.uniform(0.0, 0.05), 0.0]) for _ in range(n)]
            acc, prev_t, dfs = 0.0, 0.0, []
            for ff, tt in zip(fw, times):
                acc += ff * (tt - prev_t)
                prev_t = tt
                dfs.append(math.exp(-acc))
            method = rng.choice([1, 2, 4])
            ta, da = np.array(times), np.array(dfs)
            qs = list(times) + [0.0, times[-1] + 1 / 365, times[-1] + 1.0, times[-1] + 30.0, times[-1] + 60.0]
            qs += [0.5 * (a + b) for a, b in zip(times[:-1], times[1:])]
            qs += [t + e for t in times for e in (-1e-9, 1e-9, 1 / 365, -1 / 365)]
            qs += [rng.uniform(0.0, times[-1] + 2.0) for _ in range(6)]
            if t0 > 0:
                qs += [0.5 * t0, t0 * 0.999]
            qs = [q for q in qs if q >= 0.0]
            vec_in = []
            for q in qs:
                try:
                    r = float(I._uinterpolate(float(q), ta, da, method))
                except Exception as e:  # noqa: BLE001
                    r = ek(e)
                left = q < times[0]
                meta = {'times': times, 'dfs': dfs, 'method': method, 't': q,
                        'oob_unspecified': n == 1 and q != times[0]}
                cmp_.add('U %d %d %s %s %s' % (method, n, ' '.join(map(f2b, times)), ' '.join(map(f2b, dfs)), f2b(q)),
                         r, meta)
                if q != 0.0:
                    nontriv += 1
                self.tick(f'uinterp/m{method}/' + ('left' if left else 'right' if q > times[-1] else 'knot' if q in times else 'interior'))
                if n >= 2 and not left and not isinstance(r, str):
                    vec_in.append((q, r))
                # ---- direct oracles in the time domain (n >= 2, query inside the curve's own domain)
                if n >= 2 and not left:
                    if isinstance(r, str) or not (r > 0.0 and math.isfinite(r)):
                        ctx.violation('interpolated discount factor is not a positive finite number', meta | {'result': r},
                                      clause='positive-finite')
                    elif q in times:
                        k = times.index(q)
                        tol = 1e-9 if (method == 2 and k == 1) else 1e-13
                        if not close(r, dfs[k], rtol=tol, atol=0):
                            ctx.violation('knot not reproduced in the time domain', meta | {'result': r, 'knot': k},
                                          clause='knot-reproduction-time-domain')
            # scalar vs vector entry points, and the public `interpolate`
            if vec_in:
                qa = np.array([q for q, _ in vec_in])
                try:
                    vv = quiet(I.interpolate, qa, ta, da, method)
                    for (q, r), v in zip(vec_in, vv):
                        if not (r == float(v)):
                            ctx.violation('vector interpolation differs from scalar interpolation',
                                          {'times': times, 'dfs': dfs, 'method': method, 't': q, 'scalar': r, 'vector': float(v)},
                                          clause='scalar-vs-vector')
                    ctx.count('uinterp/scalar-vs-vector', len(vec_in))
                except Exception as e:  # noqa: BLE001
                    ctx.violation('vector interpolation raised', {'times': times, 'dfs': dfs, 'method': method, 'error': ek(e)},
                                  clause='scalar-vs-vector')
            # locality on the implementation: appending knots after t does not change the value at t
            if n >= 2:
                ext_t = ta.tolist() + [times[-1] + 0.7, times[-1] + 3.0]
                ext_d = da.tolist() + [dfs[-1] * rng.uniform(0.8, 1.05), dfs[-1] * rng.uniform(0.6, 1.05)]
                nloc = 0
                for q in qs:
                    if times[0] <= q <= times[-1]:
                        a = float(I._uinterpolate(float(q), ta, da, method))
                        b = float(I._uinterpolate(float(q), np.array(ext_t), np.array(ext_d), method))
                        nloc += 1
                        if a != b:
                            ctx.violation('appending knots after t changed the value at t',
                                          {'times': times, 'dfs': dfs, 'method': method, 't': q, 'before': a, 'after': b,
                                           'appended': [ext_t[-2:], ext_d[-2:]]}, clause='locality')
                ctx.count('uinterp/locality', nloc)
            # flat forwards: monotone iff knot dfs are non-increasing
            if n >= 2 and method == 1:
                qq = sorted(q for q in qs if q >= times[0])
                vals = [float(I._uinterpolate(float(q), ta, da, 1)) for q in qq]
                noninc = all(b <= a for a, b in zip(dfs[:-1], dfs[1:]))
                if noninc:
                    for (q1, v1), (q2, v2) in zip(zip(qq, vals), zip(qq[1:], vals[1:])):
                        if v2 > v1 * (1 + 1e-10):  # far extrapolation from knots one day apart amplifies rounding by (t - t_n)/dt
                            ctx.violation('flat-forward curve with non-negative forwards is increasing',
                                          {'times': times, 'dfs': dfs, 't1': q1, 'df1': v1, 't2': q2, 'df2': v2},
                                          clause='monotone')
                            break
                ctx.count('uinterp/monotone', len(qq), len(qq) if noninc else 0)
        cmp_.flush(self.ok, nontriv)

    # ------------------------------------------------------------------ component 2: rate <-> df
    def component_conversions(self):
        np, ctx = self.np, self.ctx
        from financepy.market.curves.discount_curve import DiscountCurve
        rng = ctx.rng('conv')
        v = self.Date(15, 3, 2021)
        curve = DiscountCurve(v, [v.add_years(1)], np.array([0.97]))
        cmp_ = Cmp(ctx, 'zero_to_df/df_to_zero')
        ncase = 400 if ctx.quick() else 5000
        for _ in range(ncase):
            r = rng.choice([rng.uniform(-0.03, 0.15), rng.uniform(-0.005, 0.005), 0.0])
            t = rng.choice([0.0, 1 / 365, rng.uniform(0.0, 1.0), rng.uniform(1.0, 60.0), 1.0, 0.5])
            for fr in self.F:
                try:
                    d = fl(quiet(curve._zero_to_df, v, r, float(t), fr, self.DCT.ACT_365F))
                except Exception as e:  # noqa: BLE001
                    d = ek(e)
                cmp_.add(f'Z2D {fr.value} {f2b(r)} {f2b(t)}', d, {'fn': '_zero_to_df', 'freq': fr.name, 'rate': r, 't': t})
                self.tick('z2d/' + fr.name)
                if fr in self.z2d_freqs and not isinstance(d, str):
                    s = self.spec_z2d(fr.value, r, t)
                    if not close(d, s, rtol=1e-12, atol=0):
                        ctx.violation('_zero_to_df differs from the compounding formula of its frequency',
                                      {'freq': fr.name, 'rate': r, 't': t, 'implementation': d, 'formula': s},
                                      clause='zero-to-df-formula')
            # df -> zero through the public route needs a date; use ACT_365F so that t = days/365 exactly
            days = rng.choice([1, 30, 365, rng.randint(1, 20000)])
            dt = v.add_days(days)
            tt = days / 365.0
            dfv = rng.choice([rng.uniform(0.2, 1.05), math.exp(-r * tt)])
            for fr in self.F:
                try:
                    z = fl(quiet(curve._df_to_zero, float(dfv), dt, fr, self.DCT.ACT_365F))
                except Exception as e:  # noqa: BLE001
                    z = ek(e)
                cmp_.add(f'D2Z {fr.value} {f2b(dfv)} {f2b(tt)}', z, {'fn': '_df_to_zero', 'freq': fr.name, 'df': dfv, 't': tt})
                self.tick('d2z/' + fr.name)
                if not isinstance(z, str):
                    back = self.spec_z2d(fr.value, z, tt)
                    if not close(back, dfv, rtol=1e-9 if days < 5 else 1e-11, atol=0):
                        ctx.violation('df -> zero rate -> df does not return the df',
                                      {'freq': fr.name, 'df': dfv, 't': tt, 'zero': z, 'back': back}, clause='round-trip')
        cmp_.flush(self.ok)

    # ------------------------------------------------------------------ component 5 (growth round)
    def component_growth(self):
        """generated NS / NSS / _zero_to_df kernels (Gen/CurvesF) vs the implementation; zero_rate(freq, dc) of the
        rate-parameterised classes as a view (intermediate df in the CURVE's frequency); bump as a function of the knots
        (returned arrays, the object's own arrays after the call, bumped.df_t(t) = df_t(t)*exp(-b t))."""
        ctx, np = self.ctx, self.np
        from financepy.market.curves.discount_curve import DiscountCurve
        from financepy.market.curves.discount_curve_ns import DiscountCurveNS
        from financepy.market.curves.discount_curve_nss import DiscountCurveNSS
        from financepy.market.curves.discount_curve_poly import DiscountCurvePoly
        from financepy.utils.frequency import annual_frequency
        rng = ctx.rng('growth')
        scale = 1 if ctx.quick() else 8
        # ---- (a) generated zero-rate kernels and _zero_to_df
        cmp_ = Cmp(ctx, 'generated/ns-nss-zero_to_df')
        v = self.Date(15, 3, 2021)
        times = [0.0, 1e-13, 1 / 365, 0.25, 1.0, 2.5, 10.0, 30.0, 60.0]
        for _ in range(20 * scale):
            b0 = rng.uniform(0.005, 0.08)
            b = [rng.uniform(-0.03, 0.03) for _ in range(3)]
            tau = [rng.uniform(0.3, 8.0), rng.uniform(0.3, 12.0)]
            ns = DiscountCurveNS(v, b0, b[0], b[1], tau[0])
            nss = DiscountCurveNSS(v, b0, b[0], b[1], b[2], tau[0], tau[1])
            for t in times + [rng.uniform(0.0, 40.0)]:
                z = self.call(ns._zero_rate, float(t))
                # (1 - e^-theta)/theta cancels: one ulp of exp (libm vs NumPy) is 2.2e-16/theta of the loading -- 1e-3 at the time
                # floor theta = 1e-12/tau, 1e-12 at one day; the absolute tolerance is that conditioning, nothing else
                th = max(t, 1e-12) / max(tau)
                at = 4.5e-16 / th * (abs(b[0]) + abs(b[1]) + abs(b[2]))
                cmp_.add('GNS %s' % ' '.join(map(f2b, [b0, b[0], b[1], tau[0], t])), z if isinstance(z, str) else fl(z),
                         {'fn': 'DiscountCurveNS._zero_rate (generated)', 'params': [b0, b[0], b[1], tau[0]], 't': t, 'atol': at})
                z = self.call(nss._zero_rate, float(t))
                cmp_.add('GNSS %s' % ' '.join(map(f2b, [b0, b[0], b[1], b[2], tau[0], tau[1], t])), z if isinstance(z, str) else fl(z),
                         {'fn': 'DiscountCurveNSS._zero_rate (generated)', 'params': [b0, b[0], b[1], b[2], tau[0], tau[1]], 't': t, 'atol': at})
                r = rng.choice([rng.uniform(-0.03, 0.15), 0.0])
                for fr in self.F:
                    fin = annual_frequency(fr)
                    fin = 0.0 if fin is None else float(fin)
                    d = self.call(ns._zero_to_df, v, r, float(t), fr, self.DCT.ACT_365F)
                    cmp_.add(f'GZ2D {fr.value} {f2b(r)} {f2b(t)} {f2b(fin)}', d if isinstance(d, str) else fl(d),
                             {'fn': '_zero_to_df (generated)', 'freq': fr.name, 'rate': r, 't': t})
        cmp_.flush(self.ok)
        # ---- (b) zero_rate(freq, dc) of NS / NSS / Poly: a view of the curve's own df
        cmp_ = Cmp(ctx, 'views/zero_rate-param-classes')
        for c_i in range(18 * scale):
            fc = self.z2d_freqs[c_i % len(self.z2d_freqs)]
            dcc = rng.choice(self.dc_ok)
            kind = ['NS', 'NSS', 'Poly'][c_i % 3]
            d_, m_, y_ = 1 + rng.randint(0, 27), rng.randint(1, 12), rng.randint(1998, 2036)
            v = self.Date(d_, m_, y_)
            b0 = rng.uniform(0.005, 0.08)
            if kind == 'NS':
                par = [b0, rng.uniform(-0.03, 0.03), rng.uniform(-0.03, 0.03), rng.uniform(0.3, 8.0)]
                curve = self.call(DiscountCurveNS, v, *par, fc, dcc)
            elif kind == 'NSS':
                par = [b0] + [rng.uniform(-0.03, 0.03) for _ in range(3)] + [rng.uniform(0.3, 8.0), rng.uniform(0.3, 12.0)]
                curve = self.call(DiscountCurveNSS, v, *par, fc, dcc)
            else:
                par = [b0, rng.uniform(-0.001, 0.002), rng.uniform(-2e-5, 2e-5)]
                curve = self.call(DiscountCurvePoly, v, par, fc, dcc)
            desc = {'class': 'DiscountCurve' + kind, 'valuation': self.dstr(v), 'params': par, 'freq': fc.name, 'dc': dcc.name}
            if isinstance(curve, str):
                ctx.violation(f'{kind} construction raised', desc | {'error': curve}, clause='construction')
                continue
            for _q in range(3):
                q = v.add_days(rng.choice([1, 30, 365, rng.randint(2, 15000)]))
                tc = self.yf(dcc, v, q)
                rate = self.call(curve._zero_rate, float(tc))
                d = self.call(curve.df, q)
                if isinstance(rate, str) or isinstance(d, str):
                    ctx.violation('df / _zero_rate raised', desc | {'query': self.dstr(q), 'rate': str(rate), 'df': str(d)}, clause='construction')
                    continue
                rate, d = fl(rate), fl(d)
                if fc == self.F.SIMPLE and 1.0 + rate * max(tc, 1e-12) <= 0:
                    self.tick('out-of-domain/simple-rate-with-1+rt<=0')
                    continue
                for fa in self.F:
                    dca = rng.choice(self.dc_ok)
                    ta = self.yf(dca, v, q)
                    z = self.call(curve.zero_rate, q, fa, dca)
                    case = desc | {'query': self.dstr(q), 'view_freq': fa.name, 'view_dc': dca.name, 'df': d, 't_curve': tc, 't_view': ta}
                    if isinstance(z, str):
                        ctx.violation('zero_rate raised', case | {'error': z}, clause='zero-rate-raises')
                        continue
                    z = fl(z)
                    cmp_.add(f'ZRV {fc.value} {fa.value} {f2b(rate)} {f2b(tc)} {f2b(ta)}', z,
                             case | {'view': 'zero_rate', 'zero_rate': z, 'atol': 1e-13 / max(ta, 1e-9)})
                    # theorem zero_rate_view_roundtrip: the reported rate converts back (same frequency, same time) to the curve's df
                    back = self.spec_z2d(fa.value, z, ta)
                    if ta >= 1e-6 and 1e-8 < d < 1e4 and not close(back, d, rtol=1e-9 if ta < 0.02 else OTOL, atol=0):
                        ctx.violation('zero_rate(freq, dc) of a rate-parameterised curve does not convert back to the curve\'s df '
                                      '(the intermediate df must use the curve\'s own frequency)', case | {'zero_rate': z, 'back': back},
                                      clause='zero-rate-view-curve-frequency')
                    self.tick(f'zero_rate-view/{fc.name}->{fa.name}')
        cmp_.flush(self.ok)
        # ---- (c) bump as a function of the knots
        cmp_ = Cmp(ctx, 'DiscountCurve.bump')
        its = [self.IT.FLAT_FWD_RATES, self.IT.LINEAR_ZERO_RATES, self.IT.LINEAR_FWD_RATES, self.IT.FLAT_FWD_RATES]
        nb = 0
        for c_i in range(24 * scale):
            it = its[c_i % len(its)]
            v, pill, on_val = self.gen_dates(rng)
            if on_val and len(pill) == 1:
                continue        # one-knot curve: C02/single-knot-curve, judged elsewhere
            ts = [(p.excel_dt - v.excel_dt) / 365.0 for p in pill]
            lnd_, _ = self.gen_lndf(rng, ts)
            dfs = [math.exp(-x) for x in lnd_]
            if on_val:
                dfs[0] = 1.0
            bsz = rng.choice([0.0001, -0.0001, 0.0123, rng.uniform(-0.02, 0.05)])
            desc = {'class': 'DiscountCurve', 'valuation': self.dstr(v), 'pillars': [self.dstr(p) for p in pill], 'dfs': dfs,
                    'interp': it.name, 'bump': bsz}
            curve = self.call(DiscountCurve, v, pill, np.array(dfs), it)
            if isinstance(curve, str):
                ctx.violation('DiscountCurve construction raised', desc | {'error': curve}, clause='construction')
                continue
            t0, d0 = [float(x) for x in curve._times], [float(x) for x in curve._dfs]
            qts = [0.0, ts[-1] * 0.37, ts[-1], ts[-1] + 1.0, ts[-1] + 25.0] + [0.5 * (a + b_) for a, b_ in zip(t0[:-1], t0[1:])]
            before = [self.call(curve.df_t, float(t)) for t in qts]
            bc = self.call(curve.bump, float(bsz))
            if isinstance(bc, str):
                ctx.violation('DiscountCurve.bump raised', desc | {'error': bc}, finding='C02/bump-raises' if bc == 'E:FinError' else None,
                              clause='bump')
                continue
            nb += 1
            t1, d1 = [float(x) for x in curve._times], [float(x) for x in curve._dfs]
            # the object's own arrays: bit-for-bit what they were (theorem bump_leaves_original)
            if t1 != t0 or d1 != d0:
                ctx.violation('curve.bump changed the arrays of the curve it was called on', desc | {'times_before': t0, 'times_after': t1,
                              'dfs_before': d0, 'dfs_after': d1}, clause='bump-leaves-original')
            arrs = [t1, d1, [float(x) for x in bc._times], [float(x) for x in bc._dfs]]
            head = f'{f2b(bsz)} {1 if on_val else 0} {len(ts)} ' + ' '.join(map(f2b, ts)) + ' ' + ' '.join(map(f2b, dfs))
            for w, arr in enumerate(arrs):
                for k, x in enumerate(arr):
                    cmp_.add(f'BUMP {w} {k} {head}', x, desc | {'array': ['self._times', 'self._dfs', 'bumped._times', 'bumped._dfs'][w], 'index': k})
                cmp_.add(f'BUMP {w} {len(arr)} {head}', 'E:IndexError', desc | {'array': w, 'index': 'len'})
            # knots of the returned curve (theorem bump_knots_after_val / bump_values)
            for k, (tk, dk) in enumerate(zip(t0, d0)):
                want = dk * math.exp(-bsz * tk)
                if k >= len(arrs[3]) or arrs[2][k] != tk or not close(arrs[3][k], want, rtol=1e-14, atol=0):
                    ctx.violation('bumped knot is not df_k * exp(-bump * t_k) at the same knot time', desc | {'knot': k, 't': tk, 'df': dk,
                                  'bumped_times': arrs[2], 'bumped_dfs': arrs[3], 'expected': want}, clause='bump-knots')
            # df view (theorems kFlat_bump / kLinZero_bump): every time, interpolation and extrapolation
            if it in (self.IT.FLAT_FWD_RATES, self.IT.LINEAR_ZERO_RATES):
                for t, x0 in zip(qts, before):
                    x1 = self.call(bc.df_t, float(t))
                    if isinstance(x0, str) or isinstance(x1, str):
                        if x0 != x1:
                            ctx.violation('bumped.df_t raised where df_t did not (or conversely)', desc | {'t': t, 'df_t': str(x0), 'bumped': str(x1)},
                                          clause='bump-df')
                        continue
                    x0, x1 = fl(x0), fl(x1)
                    if not close(x1, x0 * math.exp(-bsz * t), rtol=1e-11, atol=0):
                        ctx.violation('bumped.df_t(t) differs from df_t(t) * exp(-bump * t)', desc | {'t': t, 'df_t': x0, 'bumped_df_t': x1,
                                      'expected': x0 * math.exp(-bsz * t)}, clause='bump-df')
                ctx.count('oracle/bump-df', len(qts))
        ctx.count('oracle/bump-knots', nb)
        cmp_.flush(self.ok)

    # ------------------------------------------------------------------ component 3: curve classes
    def gen_dates(self, rng, first_on_val=None):
        """valuation date + increasing pillar dates; returns (v, pillars, on_val)"""
        import dates as D
        d, m, y = D.interesting_dates(rng, 1, 1996, 2038)[0]
        v = self.Date(d, m, y)
        n = rng.choice([1, 2, 2, 3, 3, 4, 5, 7])
        on_val = (rng.random() < 0.35) if first_on_val is None else first_on_val
        pill = []
        cur = v
        if on_val:
            pill.append(v)
        while len(pill) < n:
            step = rng.choice(['1D', '1W', '1M', '3M', '6M', '1Y', '1Y', '2Y', '5Y', '10Y'])
            cur = cur.add_tenor(step) if rng.random() < 0.7 else cur.add_days(rng.randint(1, 900))
            pill.append(cur)
        return v, pill, on_val

    def gen_queries(self, rng, v, pill, nrand=6):
        last = pill[-1]
        qs = [v] + list(pill)
        for p in pill:
            qs.append(p.add_days(1))
            if p.excel_dt - 1 >= v.excel_dt:
                qs.append(p.add_days(-1))
        pts = [v] + list(pill)
        for a, b in zip(pts[:-1], pts[1:]):
            if b.excel_dt - a.excel_dt >= 2:
                qs.append(a.add_days(int(b.excel_dt - a.excel_dt) // 2))
        span = int(max(last.excel_dt - v.excel_dt, 30))
        for _ in range(nrand):
            qs.append(v.add_days(rng.randint(0, span + 400)))
        qs += [last.add_days(1), last.add_years(1), last.add_years(10), last.add_years(30), v.add_years(60)]
        seen, out = set(), []
        for q in qs:
            if q.excel_dt >= v.excel_dt and q.excel_dt not in seen:
                seen.add(q.excel_dt)
                out.append(q)
        out.sort(key=lambda d: d.excel_dt)
        return out

    def component_curves(self):
        ctx = self.ctx
        reps = 1 if ctx.quick() else 12
        for rep in range(reps):
            self.curves_discount(ctx.rng(f'dc{rep}'))
            self.curves_zeros(ctx.rng(f'zc{rep}'))
            self.curves_flat(ctx.rng(f'fl{rep}'))
            self.curves_pw(ctx.rng(f'pw{rep}'))
            self.curves_onf(ctx.rng(f'onf{rep}'))
            self.curves_param(ctx.rng(f'par{rep}'))
            self.curves_composite(ctx.rng(f'comp{rep}'))
        ctx.cov['histogram'] = dict(sorted(self.hist.items()))

    # -- helpers shared by the curve components --------------------------------------------------
    def dstr(self, d):
        return f'{d.d}-{d.m}-{d.y}'

    def call(self, f, *a, **k):
        try:
            return quiet(f, *a, **k)
        except Exception as e:  # noqa: BLE001
            return ek(e)

    def views(self, rng, curve, desc, qs, dfq, cmp_, nviews=4, spline_extrap_after=None):
        """zero_rate / fwd_rate / fwd / swap_rate: model composition + the identities that make them views of df.
        dfq: {serial: df} as returned by curve.df (floats)."""
        ctx, np = self.ctx, self.np
        v = curve.value_dt
        # views are checked where the curve itself is in a meaningful range (far spline extrapolation is a finding of its own)
        cand = [q for q in qs if q.excel_dt > v.excel_dt and isinstance(dfq.get(q.excel_dt), float)
                and 1e-8 < dfq[q.excel_dt] < 1e4]
        if not cand:
            return
        for q in rng.sample(cand, min(nviews, len(cand))):
            d = dfq[q.excel_dt]
            # ---- zero_rate in every frequency x a seeded day count (all day counts are cycled over the run)
            for fr in self.F:
                dc = rng.choice(list(self.DCT))
                self.tick(f'zero_rate/{fr.name}')
                self.tick(f'zero_rate/dc/{dc.name}')
                z = self.call(curve.zero_rate, q, fr, dc)
                try:
                    t = self.yf(dc, v, q)
                except Exception as e:  # noqa: BLE001
                    t = ek(e)
                case = desc | {'query': self.dstr(q), 'freq': fr.name, 'dc': dc.name, 'df': d, 'zero_rate': z if isinstance(z, str) else None}
                if isinstance(t, str):
                    if not isinstance(z, str):
                        ctx.violation('zero_rate returned a number for a day count whose year fraction raises', case | {'t': t},
                                      clause='zero-rate-error-kind')
                    ctx.count('views/zero_rate', 1, 0)
                    continue
                if isinstance(z, str):
                    ctx.violation('zero_rate raised', case | {'error': z}, clause='zero-rate-raises')
                    continue
                z = fl(z)
                case['zero_rate'] = z
                # (df^(-1/(tf)) - 1) f and friends cancel for rates near 0: absolute tolerance = rounding of df / t
                cmp_.add(f'D2Z {fr.value} {f2b(d)} {f2b(t)}', z, case | {'view': 'zero_rate', 'atol': 1e-13 / max(t, 1e-9)})
                back = self.spec_z2d(fr.value, z, t)
                if t >= 1e-6 and not close(back, d, rtol=1e-9 if t < 0.02 else OTOL, atol=0):
                    ctx.violation('df recovered from zero_rate differs from df', case | {'t': t, 'back': back}, clause='zero-rate-round-trip')
                # vector form
                zv = self.call(curve.zero_rate, [q], fr, dc)
                if isinstance(zv, str) or fl(zv) != z:
                    ctx.violation('zero_rate([date]) differs from zero_rate(date)', case | {'vector': str(zv)}, clause='scalar-vs-vector')
                ctx.count('views/zero_rate', 1)
            # ---- fwd_rate as a df ratio
            q2 = q.add_days(rng.choice([1, 30, 91, 182, 365, 3650]))
            dc = rng.choice(self.dc_ok)
            d2 = self.call(curve.df, q2)
            fw = self.call(curve.fwd_rate, q, q2, dc)
            if not isinstance(d2, str) and not isinstance(fw, str):
                d2, fw = fl(d2), fl(fw)
                a = self.yf(dc, q, q2)
                if 1e-8 < d2 < 1e4 and a != 0:
                    case = desc | {'start': self.dstr(q), 'end': self.dstr(q2), 'dc': dc.name, 'df1': d, 'df2': d2, 'fwd_rate': fw}
                    cmp_.add(f'FWDR {f2b(d)} {f2b(d2)} {f2b(a)}', fw, case | {'view': 'fwd_rate', 'atol': 1e-13 / abs(a)})
                    if not close(1.0 + fw * a, d / d2, rtol=OTOL, atol=0):
                        ctx.violation('1 + fwd_rate*alpha differs from df1/df2', case | {'alpha': a}, clause='fwd-rate-ratio')
                    ctx.count('views/fwd_rate', 1)
            elif isinstance(fw, str):
                if self.yf(dc, q, q2) == 0.0:
                    # e.g. 30th -> 31st under a 30/360 convention: the accrual period has length 0, no simple rate f with
                    # 1 + f*alpha = df1/df2 exists (theorem fwd_rate_is_df_ratio needs alpha != 0); the call divides by zero
                    # (inf with NumPy scalars, ZeroDivisionError with Python floats) -- outside the domain of this view
                    self.tick('fwd_rate/zero-accrual-period-skipped')
                else:
                    ctx.violation('fwd_rate raised', desc | {'start': self.dstr(q), 'end': self.dstr(q2), 'dc': dc.name, 'error': fw},
                                  clause='fwd-rate-raises')
            # ---- fwd: one-day log ratio
            q1 = q.add_days(1)
            d1 = self.call(curve.df, q1)
            fi = self.call(curve.fwd, q)
            if not isinstance(d1, str) and not isinstance(fi, str):
                d1, fi = fl(d1), fl(fi)
                if 1e-8 < d1 < 1e4:
                    case = desc | {'date': self.dstr(q), 'df': d, 'df_next_day': d1, 'fwd': fi}
                    cmp_.add(f'FWD {f2b(d)} {f2b(d1)}', fi, case | {'view': 'fwd', 'atol': 1e-13 * 365})
                    if not close(math.exp(-fi / 365.0), d1 / d, rtol=OTOL, atol=0):
                        ctx.violation('exp(-fwd/365) differs from df(d+1)/df(d)', case, clause='fwd-log-ratio')
                    fv = self.call(curve.fwd, [q])
                    if isinstance(fv, str) or fl(fv) != fi:
                        ctx.violation('fwd([date]) differs from fwd(date)', case | {'vector': str(fv)}, clause='scalar-vs-vector')
                    ctx.count('views/fwd', 1)
            elif isinstance(fi, str):
                ctx.violation('fwd raised', desc | {'date': self.dstr(q), 'error': fi}, clause='fwd-raises')
        # ---- swap_rate annuity identity
        from financepy.utils.schedule import Schedule
        eff = rng.choice([v, v, rng.choice(cand)])
        mat = eff.add_tenor(rng.choice(['6M', '1Y', '2Y', '5Y', '10Y', '30Y']))
        fr = rng.choice([self.F.ANNUAL, self.F.SEMI_ANNUAL, self.F.QUARTERLY, self.F.MONTHLY])
        dc = rng.choice(self.dc_ok)
        sr = self.call(curve.swap_rate, eff, mat, fr, dc)
        case = desc | {'effective': self.dstr(eff), 'maturity': self.dstr(mat), 'freq': fr.name, 'dc': dc.name}
        if isinstance(sr, str):
            ctx.violation('swap_rate raised', case | {'error': sr}, clause='swap-rate-raises')
        else:
            sr = fl(sr)
            flows = Schedule(eff, mat, fr).generate()
            flows[0] = eff
            al = [self.yf(dc, a, b) for a, b in zip(flows[:-1], flows[1:])]
            ds = [self.call(curve.df, b) for b in flows[1:]]
            d0 = self.call(curve.df, eff)
            if not any(isinstance(x, str) for x in ds + [d0]):
                ds = [fl(x) for x in ds]
                d0 = fl(d0)
                if all(1e-8 < x < 1e4 for x in ds) and 1e-8 < d0 < 1e4:
                    pv = sum(a * b for a, b in zip(al, ds))
                    case |= {'swap_rate': sr, 'pv01': pv, 'df_start': d0, 'df_end': ds[-1]}
                    op = f'SWAP {f2b(d0)} {len(ds)} ' + ' '.join(f'{f2b(a)} {f2b(b)}' for a, b in zip(al, ds))
                    cmp_.add(op, sr, case | {'view': 'swap_rate', 'atol': 1e-13 / max(abs(pv), 1e-12)})
                    if abs(pv) >= 1e-12 and not close(sr * pv, d0 - ds[-1], rtol=1e-10, atol=1e-14):
                        ctx.violation('swap_rate * annuity differs from df(start) - df(end)', case, clause='swap-annuity')
                    ctx.count('views/swap_rate', 1)

    def refine_continuous(self, curve, time_of, q, q1, a, b, thresh):
        """The one-day step |ln df(q+1) - ln df(q)| exceeds `thresh`.  Continuity says increments vanish with the step, a
        jump does not: walk the same day in N equal sub-steps of the curve's own time axis (df(date) = df_t(time_of(date))
        on these classes) with N chosen so that a function of roughly uniform slope moves <= thresh/4 per sub-step.
        Returns None when the curve is steep but continuous over the day (every sub-step <= thresh: the sensitivity to a
        jump is the same `thresh` as on a flat stretch), else a dict describing the sub-step that still jumps."""
        t0, t1 = time_of(q), time_of(q1)
        e0, e1 = self.call(curve.df_t, float(t0)), self.call(curve.df_t, float(t1))
        if isinstance(e0, str) or isinstance(e1, str) or fl(e0) != a or fl(e1) != b:
            return {'refine': 'df_t(time of the date) is not df(date)', 'df_t(d)': str(e0), 'df_t(d+1)': str(e1)}
        n = int(min(4096, max(8, math.ceil(4.0 * abs(math.log(b / a)) / thresh))))
        prev_t, prev_v = t0, a
        for k in range(1, n + 1):
            tk = t1 if k == n else t0 + (t1 - t0) * k / n
            x = self.call(curve.df_t, float(tk))
            if isinstance(x, str) or not (fl(x) > 0.0 and math.isfinite(fl(x))):
                return {'refine': 'df_t is not a positive finite number inside the day', 't': tk, 'df_t': str(x)}
            x = fl(x)
            if abs(math.log(x / prev_v)) > thresh:
                return {'refine': f'a sub-step of 1/{n} day still moves ln df by more than the one-day bound',
                        't_a': prev_t, 'df_a': prev_v, 't_b': tk, 'df_b': x, 'substeps': n}
            prev_t, prev_v = tk, x
        self.tick('continuity/steep-but-continuous-by-refinement')
        return None

    def common_oracles(self, curve, desc, qs, dfq, monotone, cont_until=None, jump_dates=(), fwd_scale=0.2,
                       df1_finding=None, pos_finding=None, mono_finding=None, own_dc=None, simple_rt=None, time_of=None,
                       jump_times=None):
        """df(valuation)=1, positive & finite, monotone (when promised), continuity scan (no jump between adjacent days).
        simple_rt: for a class whose rule is df = 1/(1 + r(t) t) (SIMPLE compounding applied at the query), the function
        date -> (r, t) of the documented rule, written independently of the source.  A simple rate is a rate only where
        1 + r t > 0 (Spec.C02 `Admissible`, hypothesis of `zeroToDf_pos`); elsewhere the rule itself has no positive
        discount factor and the (curve, date) pair is outside the property's domain.
        time_of: date -> time with df(date) == df_t(time) (classes that offer the year-time route), used to tell a steep
        but continuous stretch from a jump."""
        ctx = self.ctx
        v = curve.value_dt

        def den(q):
            if simple_rt is None:
                return None
            r_, t_ = simple_rt(q)
            return 1.0 + r_ * max(t_, 1e-12)
        d0 = dfq.get(v.excel_dt)
        f1 = df1_finding(v) if df1_finding else None
        if own_dc is not None and self.yf(own_dc, v, v) != 0.0:
            # e.g. 30E+/360 from the 31st to the same 31st is one day by the convention's own rule (C15's subject):
            # the curve's time of its valuation date is not 0 and df = 1 is not promised by the construction rule
            self.tick('df-valuation-one/skipped-daycount-nonzero-at-valuation')
        elif isinstance(d0, str) or not close(d0, 1.0, rtol=0, atol=1e-10):
            ctx.violation('df(valuation date) is not 1', desc | {'df_valuation': d0}, finding=f1, clause='df-valuation-one')
        ctx.count('oracle/df-valuation-one', 1, 0)
        prev = None
        nmono = 0
        nout = 0
        for q in qs:
            d = dfq[q.excel_dt]
            pf = pos_finding(q) if pos_finding else None
            dn = den(q)
            if dn is not None and not dn > 0.0:
                # 1 + r t <= 0: not a simple rate for this maturity, the construction rule has no positive df here
                self.tick('out-of-domain/simple-rate-with-1+rt<=0')
                nout += 1
                prev = None
                continue
            if isinstance(d, str) or not (d > 0.0 and math.isfinite(d)):
                ctx.violation('df is not a positive finite number', desc | {'query': self.dstr(q), 'df': d}, finding=pf,
                              clause='positive-finite')
                prev = None
                continue
            if monotone and prev is not None and d > prev[1] * (1 + 1e-10):
                mf = mono_finding(prev[0], q) if mono_finding else None
                ctx.violation('df increases although all implied forward rates are non-negative',
                              desc | {'d1': self.dstr(prev[0]), 'df1': prev[1], 'd2': self.dstr(q), 'df2': d}, finding=mf,
                              clause='monotone')
            nmono += 1 if monotone else 0
            prev = (q, d)
        ctx.count('oracle/positive-finite', len(qs) - nout)
        if monotone:
            ctx.count('oracle/monotone', nmono)
        # continuity scan: df on consecutive days around every pillar/jump-free date must not jump
        scan = [q for q in qs if (cont_until is None or q.excel_dt <= cont_until.excel_dt)]
        jumps = {j.excel_dt for j in jump_dates}
        ns = 0
        for q in scan:
            a = dfq[q.excel_dt]
            q1 = q.add_days(1)
            if q1.excel_dt in jumps or isinstance(a, str) or not a > 0:
                continue
            if jump_times:
                # the permitted jumps of a piecewise-flat zero curve sit at its pillars' TIMES: under a 30/360-type day count
                # another date can share a pillar's time (31 May and 1 June under 30E+/360), and the step is taken on it
                ta_, tb_ = self.yf(own_dc, v, q), self.yf(own_dc, v, q1)
                if any(ta_ < tk <= tb_ for tk in jump_times):
                    self.tick('continuity/skipped-own-jump-at-pillar-time')
                    continue
            thresh = fwd_scale / 365.0 * 3.0
            if simple_rt is not None:
                # ln df = -ln(1 + r t): its slope is (r + r' t) / (1 + r t), i.e. the rate scale divided by 1 + r t
                dn0, dn1 = den(q), den(q1)
                if not (dn0 > 0.0 and dn1 > 0.0):
                    continue
                thresh *= max(1.0, 1.0 / dn0, 1.0 / dn1)
            b = self.call(curve.df, q1)
            if isinstance(b, str):
                continue
            b = fl(b)
            ns += 1
            if not (b > 0) or abs(math.log(b / a)) > thresh:
                if pos_finding and (pos_finding(q1) or pos_finding(q)):
                    ctx.violation('df jumps between adjacent days', desc, finding=pos_finding(q1) or pos_finding(q), clause='continuity')
                    continue
                extra = {}
                if time_of is not None and b > 0 and math.isfinite(b) and math.isfinite(a):
                    extra = self.refine_continuous(curve, time_of, q, q1, a, b, thresh)
                    if extra is None:
                        continue
                ctx.violation('df jumps between adjacent days (one-day forward exceeds every rate scale of the curve)',
                              desc | {'d': self.dstr(q), 'df': a, 'd+1': self.dstr(q1), 'df+1': b,
                                      'one_day_fwd': math.log(a / b) * 365 if b > 0 else None, 'scale': fwd_scale} | extra,
                              clause='continuity')
        ctx.count('oracle/continuity', ns)

    def df_all(self, curve, qs, desc, finding=None, atol_val=0.0):
        """df(date) scalar for every query + vector call; returns {serial: float|errkind}.
        atol_val: at the valuation date a zero-rate curve's knot is converted at the documented time floor 1e-12 (Model.C02
        zeroToDf: max t 1e-12), i.e. its df is 1 - r*1e-12, while the scalar spline route returns exactly 1 for |t| < 1e-12:
        the two routes may differ there by |r|*1e-12 (and by nothing more)."""
        ctx, np = self.ctx, self.np
        out = {}
        for q in qs:
            r = self.call(curve.df, q)
            out[q.excel_dt] = r if isinstance(r, str) else fl(r)
        vec = self.call(curve.df, list(qs))
        if isinstance(vec, str):
            if not all(isinstance(x, str) for x in out.values()):
                fs = [finding(q) for q in qs] if finding else [None]
                ctx.violation('df(list of dates) raised while df(date) works', desc | {'error': vec},
                              finding=next((f for f in fs if f), None), clause='scalar-vs-vector')
        else:
            vv = np.asarray(vec, dtype=float).ravel()
            for q, x in zip(qs, vv):
                s = out[q.excel_dt]
                if isinstance(s, str) or not (s == float(x) or (math.isnan(s) and math.isnan(x)) or close(s, float(x), rtol=1e-13, atol=0)
                                              or (q.excel_dt == curve.value_dt.excel_dt and abs(s - float(x)) <= atol_val)):
                    ctx.violation('df(list)[i] differs from df(date_i)', desc | {'query': self.dstr(q), 'scalar': s, 'vector': float(x)},
                                  finding=finding(q) if finding else None, clause='scalar-vs-vector')
        ctx.count('oracle/scalar-vs-vector', len(qs))
        return out

    def leap_bound(self, v, q, rate_scale):
        """magnitude bound of the time-axis defect at date q: |ln df error| <= rate_scale * |t365 - tISDA| * 4"""
        # the gap is the EXACT one of theorem time_axis_gap (leap-year days of [v, q) times 1/365 - 1/366), not the
        # implementation's own floats: a defect in year_frac cannot widen the classifier (timeaxis.check compares both)
        if q.excel_dt >= v.excel_dt:
            gap = float(timeaxis.axis_gap(v, q))
        else:
            gap = abs((q.excel_dt - v.excel_dt) / 365.0 - self.yf(self.DCT.ACT_ACT_ISDA, v, q))
        return 4.0 * rate_scale * gap + 1e-12

    # -- DiscountCurve (pillar dfs) ---------------------------------------------------------------
    def curves_discount(self, rng):
        ctx, np = self.ctx, self.np
        from financepy.market.curves.discount_curve import DiscountCurve
        cmp_ = Cmp(ctx, 'DiscountCurve')
        its = list(self.IT)
        ncurves = 60 if ctx.quick() else 120
        for c_i in range(ncurves):
            it = its[c_i % len(its)]
            v, pill, on_val = self.gen_dates(rng)
            ts = [(p.excel_dt - v.excel_dt) / 365.0 for p in pill]
            lnd_, fwd_nonneg = self.gen_lndf(rng, ts)
            dfs = [math.exp(-x) for x in lnd_]
            zs = [x / t if t > 0 else 0.0 for x, t in zip(lnd_, ts)]
            if on_val:
                dfs[0] = 1.0
            desc = {'class': 'DiscountCurve', 'valuation': self.dstr(v), 'pillars': [self.dstr(p) for p in pill], 'dfs': dfs,
                    'interp': it.name}
            curve = self.call(DiscountCurve, v, pill, np.array(dfs), it)
            if isinstance(curve, str):
                ctx.violation('DiscountCurve construction raised', desc | {'error': curve}, clause='construction')
                continue
            self.tick(f'DiscountCurve/{it.name}/' + ('on-val' if on_val else 'after-val'))
            single_knot = on_val and len(pill) == 1
            qs = self.gen_queries(rng, v, pill)
            dfq = self.df_all(curve, qs, desc, finding=(lambda q, _v=v: 'C02/single-knot-curve' if q.excel_dt != _v.excel_dt else None) if single_knot else None)
            kt = [0.0] + ts[1:] if on_val else [0.0] + ts
            kd = dfs if on_val else [1.0] + dfs
            lnd = [-math.log(x) for x in kd]
            rate_scale = 0.02 + max([abs(z) for z in zs] + [abs((b - a) / (tb - ta)) for a, b, ta, tb in zip(lnd[:-1], lnd[1:], kt[:-1], kt[1:])])
            last = pill[-1]
            is_spline = it not in self.local
            # ---- model vs df / df_t
            fn = getattr(curve._interpolator, '_interp_fn', None)
            for q in qs:
                tq = self.yf(self.DCT.ACT_ACT_ISDA, v, q)
                d = dfq[q.excel_dt]
                meta = desc | {'query': self.dstr(q), 't_query': tq}
                dt_ = self.call(curve.df_t, float(tq))
                dt_ = dt_ if isinstance(dt_, str) else fl(dt_)
                if not single_knot and dt_ != d and not (isinstance(d, float) and isinstance(dt_, float) and math.isnan(d) and math.isnan(dt_)):
                    ctx.violation('df(date) differs from df_t(ACT/ACT time of the date)', meta | {'df': d, 'df_t': dt_}, clause='df-vs-df_t')
                if it in self.local:
                    op = 'DC %d %d %d %s %s %s' % (it.value, 1 if on_val else 0, len(pill),
                                                   ' '.join(str(int(p.excel_dt - v.excel_dt)) for p in pill),
                                                   ' '.join(map(f2b, dfs)), f2b(tq))
                    cmp_.add(op, d, meta | {'oob_unspecified': single_knot and q.excel_dt != v.excel_dt})
                elif (it in self.logspl or it in self.zerospl) and fn is not None and tq >= 1e-12 and isinstance(d, float):
                    s = float(np.asarray(fn(np.array([tq]))).ravel()[0])
                    if math.isfinite(s) and math.isfinite(d):
                        cmp_.add(f'SPL {1 if it in self.logspl else 0} {f2b(s)} {f2b(tq)}', d, meta | {'spline_value': s})
            # spline assumption S(t_k) = y_k, checked on the fitted object
            if fn is not None and (it in self.logspl or it in self.zerospl) and not single_knot:
                for k in range(1, len(kt)):
                    yk = math.log(kd[k]) if it in self.logspl else -math.log(kd[k]) / (kt[k] + 1e-12)
                    sk = float(np.asarray(fn(np.array([kt[k]]))).ravel()[0])
                    if not close(sk, yk, rtol=1e-9, atol=1e-12):
                        ctx.violation('fitted spline does not interpolate its knot (model assumption S(t_k)=y_k)',
                                      desc | {'knot': k, 't': kt[k], 'spline': sk, 'expected': yk}, clause='spline-assumption')
                ctx.count('oracle/spline-knots', len(kt) - 1)

            def single(q, _v=v):
                return 'C02/single-knot-curve' if (single_knot and q.excel_dt != _v.excel_dt) else None

            def posf(q, _last=last):
                if single(q):
                    return single(q)
                if is_spline and q.excel_dt > _last.excel_dt and it != self.IT.LINEAR_ONFWD_RATES:
                    return 'C02/spline-extrapolation'
                return None
            self.common_oracles(curve, desc, qs, dfq, monotone=(fwd_nonneg and it == self.IT.FLAT_FWD_RATES and not single_knot),
                                cont_until=(last if is_spline else None), fwd_scale=rate_scale * (4.0 if is_spline else 1.0),
                                pos_finding=posf,
                                time_of=(lambda q, _v=v: self.yf(self.DCT.ACT_ACT_ISDA, _v, q)) if is_spline else None)
            # ---- pillar reproduction (date domain)
            for p, dk in zip(pill, dfs):
                d = dfq[p.excel_dt]
                tol = 1e-9 if it in (self.IT.LINEAR_FWD_RATES,) or is_spline else 1e-12
                if isinstance(d, str) or not close(d, dk, rtol=tol, atol=0):
                    finding = None
                    if single(p):
                        finding = single(p)
                    elif touches_leap(v, p) and isinstance(d, float) and d > 0:
                        # mechanism of the finding (theorems leap_pillar_not_reproduced / leap_pillar_reproduced_at_knot_time):
                        # the knot sits at days/365, where the curve DOES return the input, and df(date) is the curve at the
                        # ACT/ACT ISDA time.  Local kernels have slopes bounded by the knot forwards, so there the miss must
                        # also fit the time difference; a spline through knots one day apart can be arbitrarily steep.
                        t365 = (p.excel_dt - v.excel_dt) / 365.0
                        tA = self.yf(self.DCT.ACT_ACT_ISDA, v, p)
                        at_t, at_tA = self.call(curve.df_t, float(t365)), self.call(curve.df_t, float(tA))
                        if (tA != t365 and not isinstance(at_t, str) and not isinstance(at_tA, str)
                                and close(fl(at_t), dk, rtol=tol, atol=0) and fl(at_tA) == d
                                and (is_spline or abs(math.log(d / dk)) <= self.leap_bound(v, p, rate_scale))):
                            finding = 'C02/leap-time-axis'
                    ctx.violation('input pillar discount factor is not reproduced at the pillar date',
                                  desc | {'pillar': self.dstr(p), 'pillar_df': dk, 'df': d,
                                          't_pillar_365': (p.excel_dt - v.excel_dt) / 365.0,
                                          't_query_actact': self.yf(self.DCT.ACT_ACT_ISDA, v, p)},
                                  finding=finding, clause='pillar-reproduction')
                elif touches_leap(v, p) is False:
                    self.tick('pillar-reproduced/no-leap')
            ctx.count('oracle/pillar-reproduction', len(pill))
            # ---- bump(0) is the same curve
            b = self.call(curve.bump, 0.0)
            if isinstance(b, str):
                ctx.violation('DiscountCurve.bump raised', desc | {'error': b}, finding='C02/bump-raises', clause='bump')
            else:
                for q in qs[:8]:
                    x = self.call(b.df, q)
                    x = x if isinstance(x, str) else fl(x)
                    d = dfq[q.excel_dt]
                    if isinstance(x, str) and isinstance(d, str) and x == d:
                        continue   # the base curve itself fails on this query (decided by the df oracles); same failure
                    if isinstance(x, str) or isinstance(d, str) or not close(x, d, rtol=1e-9, atol=0):
                        # a one-knot curve and its bumped copy both read outside their arrays off the knot: two unspecified outcomes
                        ctx.violation('bump(0.0).df differs from df', desc | {'query': self.dstr(q), 'df': d, 'bumped': x},
                                      finding=single(q) or ('C02/leap-time-axis' if touches_leap(v, pill[-1]) and isinstance(x, float) and isinstance(d, float)
                                               and x > 0 and d > 0 and abs(math.log(x / d)) <= self.leap_bound(v, pill[-1], rate_scale * 4) else None),
                                      clause='bump-zero')
            # a non-zero bump must leave the ORIGINAL curve untouched (the bumped curve is a new object)
            if not isinstance(b, str):
                b2 = self.call(curve.bump, 0.0123)
                for q in qs[:6]:
                    d0 = dfq[q.excel_dt]
                    d1 = self.call(curve.df, q)
                    d1 = d1 if isinstance(d1, str) else fl(d1)
                    if isinstance(d0, str) and isinstance(d1, str) and d0 == d1:
                        continue
                    if isinstance(d0, str) or isinstance(d1, str) or not (d0 == d1 or close(d0, d1, rtol=1e-13, atol=0)):
                        ctx.violation('curve.df changed after calling curve.bump(non-zero) on the same curve object',
                                      desc | {'query': self.dstr(q), 'df_before': d0, 'df_after_bump': d1}, finding=single(q),
                                      clause='bump-leaves-original')
                        break
            ctx.count('oracle/bump', 1)
            if not single_knot:
                self.views(rng, curve, desc, qs, dfq, cmp_, nviews=2 if ctx.quick() else 4)
        cmp_.flush(self.ok)

    # -- DiscountCurveZeros -------------------------------------------------------------------------
    def curves_zeros(self, rng):
        ctx, np = self.ctx, self.np
        from financepy.market.curves.discount_curve_zeros import DiscountCurveZeros
        cmp_ = Cmp(ctx, 'DiscountCurveZeros')
        its = list(self.IT)
        combos = [(it, fr, dc) for it in its for fr in self.z2d_freqs for dc in self.dc_ok]
        rng.shuffle(combos)
        ncurves = 90 if ctx.quick() else 540
        # every InterpTypes / freq / day count member appears at least once among the first len(its)*... combos
        chosen = []
        seen_it, seen_fr, seen_dc = set(), set(), set()
        for c in combos:
            if c[0] not in seen_it or c[1] not in seen_fr or c[2] not in seen_dc:
                chosen.append(c)
                seen_it.add(c[0]); seen_fr.add(c[1]); seen_dc.add(c[2])
        chosen += [c for c in combos if c not in chosen][:max(0, ncurves - len(chosen))]
        # the rejected frequency members
        for fr in (self.F.ZERO, self.F.TRI_ANNUAL):
            v = self.Date(1, 6, 2021)
            r = self.call(DiscountCurveZeros, v, [v.add_years(1)], [0.01], fr)
            if r != 'E:FinError':
                ctx.violation('DiscountCurveZeros accepted a frequency its conversion does not define',
                              {'freq': fr.name, 'result': str(r)}, clause='construction')
        for it, fr, dc in chosen:
            v, pill, on_val = self.gen_dates(rng)
            ts0 = [self.yf(dc, v, p) for p in pill]
            if any(b <= a for a, b in zip(ts0[:-1], ts0[1:])):
                # 30/360-type conventions can give equal times for dates one day apart: the constructor rejects them
                r = self.call(DiscountCurveZeros, v, pill, [0.01] * len(pill), fr, dc, it)
                if r != 'E:FinError':
                    ctx.violation('DiscountCurveZeros accepted non-increasing pillar times',
                                  {'valuation': self.dstr(v), 'pillars': [self.dstr(p) for p in pill], 'dc': dc.name, 'times': ts0},
                                  clause='construction')
                self.tick('Zeros/rejected-non-increasing-times')
                continue
            lnd_, _ = self.gen_lndf(rng, ts0)
            first_f = lnd_[0] / ts0[0] if ts0[0] > 0 else (lnd_[1] / ts0[1] if len(ts0) > 1 else 0.02)
            rs = [self.spec_d2z(fr.value, math.exp(-x), t) if t > 0 else first_f for x, t in zip(lnd_, ts0)]
            desc = {'class': 'DiscountCurveZeros', 'valuation': self.dstr(v), 'pillars': [self.dstr(p) for p in pill],
                    'zero_rates': rs, 'freq': fr.name, 'dc': dc.name, 'interp': it.name}
            curve = self.call(DiscountCurveZeros, v, pill, rs, fr, dc, it)
            if isinstance(curve, str):
                ctx.violation('DiscountCurveZeros construction raised', desc | {'error': curve}, clause='construction')
                continue
            self.tick(f'Zeros/{it.name}'); self.tick(f'Zeros/freq/{fr.name}'); self.tick(f'Zeros/dc/{dc.name}')
            self.tick('Zeros/' + ('on-val' if on_val else 'after-val'))
            ts = [self.yf(dc, v, p) for p in pill]
            single_knot = len(pill) == 1
            first = pill[0]
            is_spline = it not in self.local
            # region touched by the missing anchor knot: before the first pillar (wrap-around read / left extrapolation)
            # and, for the two kernels whose `i == 1` branch ignores knot 0, up to the second pillar
            second = pill[1] if len(pill) > 1 else None
            # The missing anchor acts on the curve's TIME axis: knots sit at the day-count times ts, df(date) looks up the
            # ACT/ACT ISDA time of the date.  `anchored`: the first knot is at time 0.  A first pillar ON the valuation date is
            # not at time 0 under a day count that is non-zero from a date to itself (30E+/360 on a 31st: 1/360, C15).
            anchored = ts[0] == 0.0
            if on_val and not anchored:
                self.tick('Zeros/on-val-but-first-knot-time-nonzero')
            first_branch = (not anchored) and it in (self.IT.LINEAR_ZERO_RATES, self.IT.LINEAR_FWD_RATES) and second is not None

            def before_first(q, _v=v, _ts=ts):
                tq_ = self.yf(self.DCT.ACT_ACT_ISDA, _v, q)
                return tq_ < _ts[0] or (first_branch and _ts[0] < tq_ < _ts[1])

            def posf(q, _last=pill[-1]):
                if single_knot:
                    return 'C02/single-knot-curve'
                if before_first(q):
                    return 'C02/zeros-first-pillar-after-valuation'
                if is_spline and q.excel_dt > _last.excel_dt and it != self.IT.LINEAR_ONFWD_RATES:
                    return 'C02/spline-extrapolation'
                return None
            qs = self.gen_queries(rng, v, pill)
            dfq = self.df_all(curve, qs, desc, finding=posf, atol_val=(1.01e-12 * abs(rs[0]) if anchored else 0.0))
            kd = [self.spec_z2d(fr.value, r, t) for r, t in zip(rs, ts)]
            rate_scale = 0.03 + 3 * max(abs(r) for r in rs)
            for k in range(1, len(ts)):
                if ts[k] > ts[k - 1] and kd[k] > 0 and kd[k - 1] > 0:
                    rate_scale = max(rate_scale, abs(math.log(kd[k - 1] / kd[k]) / (ts[k] - ts[k - 1])))
            for q in qs:
                tq = self.yf(self.DCT.ACT_ACT_ISDA, v, q)
                d = dfq[q.excel_dt]
                meta = desc | {'query': self.dstr(q), 't_query': tq}
                if it in self.local:
                    op = 'ZC %d %d %d %s %s %s' % (it.value, fr.value, len(pill), ' '.join(map(f2b, ts)), ' '.join(map(f2b, rs)), f2b(tq))
                    cmp_.add(op, d, meta | {'oob_unspecified': single_knot and tq != ts[0]})

            def df1f(vv):
                if single_knot and not anchored:
                    return 'C02/single-knot-curve'
                return 'C02/zeros-first-pillar-after-valuation' if not anchored else None
            fwd_nonneg = all(b <= a for a, b in zip(kd[:-1], kd[1:])) and kd[0] <= 1.0
            self.common_oracles(curve, desc, qs, dfq, monotone=(fwd_nonneg and it == self.IT.FLAT_FWD_RATES and not single_knot),
                                cont_until=(pill[-1] if is_spline else None), fwd_scale=rate_scale * (4.0 if is_spline else 1.0),
                                df1_finding=df1f, pos_finding=posf,
                                mono_finding=lambda a, b: ('C02/zeros-first-pillar-after-valuation' if before_first(a) else None),
                                time_of=(lambda q, _v=v: self.yf(self.DCT.ACT_ACT_ISDA, _v, q)) if is_spline else None)
            # ---- pillar reproduction: the input zero rate comes back at its own date (and so does its df)
            for p, r, t, dk in zip(pill, rs, ts, kd):
                if t <= 0:
                    continue
                d = dfq[p.excel_dt]
                tA = self.yf(self.DCT.ACT_ACT_ISDA, v, p)
                tol = 1e-9 if (it == self.IT.LINEAR_FWD_RATES or is_spline) else 1e-11
                if isinstance(d, str) or not close(d, dk, rtol=tol, atol=0):
                    finding = None
                    # the mechanism of the time-axis finding, tested on the failing case: the knot sits at the day-count time t
                    # (the curve DOES return the input there) while df(date) is the curve at the ACT/ACT ISDA time tA != t.
                    # Both times are computed here with DayCount, so a curve that misplaces its knots or looks up another
                    # time fails the test.  Local kernels have slopes bounded by the knot forwards: there the size of the
                    # miss must also fit |tA - t|; a spline through knots one day apart can be arbitrarily steep.
                    at_t, at_tA = self.call(curve.df_t, float(t)), self.call(curve.df_t, float(tA))
                    axis = (tA != t and isinstance(d, float) and d > 0 and not isinstance(at_t, str) and not isinstance(at_tA, str)
                            and close(fl(at_t), dk, rtol=tol, atol=0) and fl(at_tA) == d
                            and (is_spline or abs(math.log(d / dk)) <= 4 * rate_scale * abs(tA - t) + 1e-12))
                    if single_knot:
                        # any query time that is not bit-for-bit the knot's time reads outside the arrays
                        finding = 'C02/single-knot-curve' if (tA != t or is_spline) else None
                    elif p is first and not anchored and tA < t:
                        # the query time falls short of the first knot: the region governed by the missing anchor
                        finding = 'C02/zeros-first-pillar-after-valuation'
                    elif p is first and first_branch and t < tA <= ts[1]:
                        # the query time overshoots the first knot (possibly by one ulp) into the first interval, where the
                        # `i == 1` branch of these two kernels takes the zero rate of knot 1 alone and ignores knot 0 (the
                        # branch is written for an anchor at t = 0).  Excused only at the value that branch predicts.
                        z1 = (-math.log(kd[1]) / ts[1]) if it == self.IT.LINEAR_ZERO_RATES else (-math.log(kd[1] + 1e-10) / (ts[1] + 1e-10))
                        if isinstance(d, float) and close(d, math.exp(-z1 * tA), rtol=1e-9, atol=0):
                            finding = 'C02/zeros-first-pillar-after-valuation'
                    elif axis:
                        # pillars sit at the curve's day-count time, df(date) looks up the ACT/ACT ISDA time
                        finding = 'C02/zeros-daycount-time-axis'
                    ctx.violation('input zero rate is not reproduced at its pillar date (df(pillar) != df implied by the input rate)',
                                  desc | {'pillar': self.dstr(p), 'rate': r, 't_pillar_dc': t, 't_query_actact': tA, 'df_expected': dk, 'df': d},
                                  finding=finding, clause='pillar-reproduction')
                else:
                    self.tick('Zeros/pillar-reproduced')
            ctx.count('oracle/pillar-reproduction', len(pill))
            if not single_knot:
                self.views(rng, curve, desc, [q for q in qs if not before_first(q)], dfq, cmp_, nviews=1 if ctx.quick() else 3)
        cmp_.flush(self.ok)

    # -- DiscountCurveFlat ------------------------------------------------------------------------------
    def curves_flat(self, rng):
        ctx, np = self.ctx, self.np
        from financepy.market.curves.discount_curve_flat import DiscountCurveFlat
        cmp_ = Cmp(ctx, 'DiscountCurveFlat')
        combos = [(fr, dc) for fr in self.z2d_freqs for dc in self.dc_ok]
        for fr, dc in combos:
            v, pill, _ = self.gen_dates(rng, first_on_val=False)
            r = rng.choice([rng.uniform(0.0, 0.12), rng.uniform(-0.01, 0.0), 0.0, 0.05])
            desc = {'class': 'DiscountCurveFlat', 'valuation': self.dstr(v), 'rate': r, 'freq': fr.name, 'dc': dc.name}
            curve = self.call(DiscountCurveFlat, v, r, fr, dc)
            if isinstance(curve, str):
                ctx.violation('DiscountCurveFlat construction raised', desc | {'error': curve}, clause='construction')
                continue
            self.tick(f'Flat/{fr.name}'); self.tick(f'Flat/dc/{dc.name}')
            qs = self.gen_queries(rng, v, pill)
            dfq = self.df_all(curve, qs, desc)
            for q in qs:
                t = self.yf(dc, v, q)
                d = dfq[q.excel_dt]
                meta = desc | {'query': self.dstr(q), 't_dc': t}
                cmp_.add(f'FL {fr.value} {f2b(r)} {f2b(t)}', d, meta)
                # the rate is the curve's only pillar: it must come back at every date in the curve's own convention
                if t > 0 and isinstance(d, float):
                    z = self.call(curve.zero_rate, q, fr, dc)
                    if isinstance(z, str) or not close(fl(z), r, rtol=1e-9 if t > 0.02 else 1e-6, atol=1e-12 / t):
                        ctx.violation('flat curve does not return its own rate', meta | {'zero_rate': str(z)}, clause='pillar-reproduction')
                # year-time route: df_t at the curve's own year fraction
                if t > 0 and isinstance(d, float):
                    x = self.call(curve.df_t, float(t))
                    x = x if isinstance(x, str) else fl(x)
                    if isinstance(x, str) or not close(x, d, rtol=1e-10, atol=0):
                        loglinear = fr != self.F.SIMPLE
                        finding = 'C02/flat-df_t-simple-compounding' if (not loglinear and isinstance(x, float) and x > 0) else None
                        ctx.violation('df_t(year fraction of the date) differs from df(date) on a flat curve',
                                      meta | {'df': d, 'df_t': x}, finding=finding, clause='df-vs-df_t')
            ctx.count('oracle/flat-rate-reproduction', len(qs))
            self.common_oracles(curve, desc, qs, dfq, monotone=(r >= 0), fwd_scale=0.02 + 2 * abs(r), own_dc=dc,
                                simple_rt=(lambda q, _v=v, _r=r, _dc=dc: (_r, self.yf(_dc, _v, q))) if fr == self.F.SIMPLE else None)
            self.views(rng, curve, desc, qs, dfq, cmp_, nviews=1)
        cmp_.flush(self.ok)

    # -- DiscountCurvePWF / PWL -----------------------------------------------------------------------
    def curves_pw(self, rng):
        ctx, np = self.ctx, self.np
        from financepy.market.curves.discount_curve_pwf import DiscountCurvePWF
        from financepy.market.curves.discount_curve_pwl import DiscountCurvePWL
        for cls, tag in ((DiscountCurvePWF, 'PWF'), (DiscountCurvePWL, 'PWL')):
            cmp_ = Cmp(ctx, 'DiscountCurve' + tag)
            combos = [(fr, dc) for fr in self.z2d_freqs for dc in self.dc_ok]
            rng.shuffle(combos)
            for fr, dc in combos[:(30 if ctx.quick() else 54)]:
                v, pill, on_val = self.gen_dates(rng)
                ts0 = [self.yf(dc, v, p) for p in pill]
                if any(b <= a for a, b in zip(ts0[:-1], ts0[1:])):
                    r = self.call(cls, v, pill, [0.01] * len(pill), fr, dc)
                    if r != 'E:FinError':
                        ctx.violation(f'{cls.__name__} accepted non-increasing pillar times',
                                      {'valuation': self.dstr(v), 'pillars': [self.dstr(p) for p in pill], 'dc': dc.name, 'times': ts0},
                                      clause='construction')
                    self.tick(f'{tag}/rejected-non-increasing-times')
                    continue
                if tag == 'PWF':
                    lo, hi = rng.choice([(0.0, 0.10), (0.0, 0.10), (-0.008, 0.05)])
                    rs = [rng.uniform(lo, hi) for _ in pill]
                else:
                    lnd_, _ = self.gen_lndf(rng, ts0)
                    first_f = lnd_[0] / ts0[0] if ts0[0] > 0 else (lnd_[1] / ts0[1] if len(ts0) > 1 else 0.02)
                    rs = [self.spec_d2z(fr.value, math.exp(-x), t) if t > 0 else first_f for x, t in zip(lnd_, ts0)]
                desc = {'class': cls.__name__, 'valuation': self.dstr(v), 'pillars': [self.dstr(p) for p in pill],
                        'zero_rates': rs, 'freq': fr.name, 'dc': dc.name}
                curve = self.call(cls, v, pill, rs, fr, dc)
                if isinstance(curve, str):
                    ctx.violation(f'{cls.__name__} construction raised', desc | {'error': curve}, clause='construction')
                    continue
                self.tick(f'{tag}/{fr.name}'); self.tick(f'{tag}/dc/{dc.name}'); self.tick(f'{tag}/' + ('on-val' if on_val else 'after-val'))
                ts = [self.yf(dc, v, p) for p in pill]
                qs = self.gen_queries(rng, v, pill)
                dfq = self.df_all(curve, qs, desc)
                single = (tag == 'PWL' and len(pill) == 1)
                for q in qs:
                    t = self.yf(dc, v, q)
                    cmp_.add('%s %d %d %s %s %s' % (tag, fr.value, len(pill), ' '.join(map(f2b, ts)), ' '.join(map(f2b, rs)), f2b(t)),
                             dfq[q.excel_dt], desc | {'query': self.dstr(q), 't_dc': t})
                fs = (lambda q: 'C02/pwl-single-pillar') if single else None
                rate_scale = 0.03 + 3 * max(abs(r) for r in rs)
                if tag == 'PWL':
                    for k in range(1, len(ts)):
                        if ts[k] > ts[k - 1]:
                            rate_scale = max(rate_scale, 2 * abs((rs[k] * ts[k] - rs[k - 1] * ts[k - 1]) / (ts[k] - ts[k - 1])),
                                             abs(rs[k] - rs[k - 1]) / (ts[k] - ts[k - 1]) * ts[k] * 2)
                srt = None
                if fr == self.F.SIMPLE and not single:
                    srt = (lambda q, _v=v, _dc=dc, _ts=ts, _rs=rs, _tag=tag:
                           (lambda t_: (self.rule_pw_rate(_tag, _ts, _rs, t_), t_))(self.yf(_dc, _v, q)))
                self.common_oracles(curve, desc, qs, dfq, monotone=False, fwd_scale=rate_scale,
                                    jump_dates=(pill if tag == 'PWF' else ()), df1_finding=(lambda vv: 'C02/pwl-single-pillar') if single else None,
                                    pos_finding=fs, own_dc=dc, simple_rt=srt, jump_times=(ts if tag == 'PWF' else None))
                # pillar reproduction: zero rate in the curve's own convention at the pillar's own date
                for p, r, t in zip(pill, rs, ts):
                    if t <= 0 or (tag == 'PWL' and t < 1e-6):
                        continue
                    z = self.call(curve.zero_rate, p, fr, dc)
                    if isinstance(z, str) or not close(fl(z), r, rtol=1e-9, atol=1e-13 / t):
                        ctx.violation('input zero rate is not reproduced at its pillar date', desc | {'pillar': self.dstr(p), 'rate': r, 'zero_rate': str(z)},
                                      finding='C02/pwl-single-pillar' if single else None, clause='pillar-reproduction')
                ctx.count('oracle/pillar-reproduction', len(pill))
                if not single:
                    self.views(rng, curve, desc, qs, dfq, cmp_, nviews=1)
            cmp_.flush(self.ok)

    # -- DiscountCurvePWFONF ----------------------------------------------------------------------------
    def curves_onf(self, rng):
        ctx, np = self.ctx, self.np
        from financepy.market.curves.discount_curve_pwf_onf import DiscountCurvePWFONF
        cmp_ = Cmp(ctx, 'DiscountCurvePWFONF')
        for _ in range(25 if ctx.quick() else 60):
            v, pill, on_val = self.gen_dates(rng)
            lo, hi = rng.choice([(0.0, 0.10), (0.0, 0.10), (-0.02, 0.06)])
            fs_ = [rng.uniform(lo, hi) for _ in pill]
            desc = {'class': 'DiscountCurvePWFONF', 'valuation': self.dstr(v), 'knots': [self.dstr(p) for p in pill], 'onfwd_rates': fs_}
            curve = self.call(DiscountCurvePWFONF, v, pill, fs_)
            if isinstance(curve, str):
                ctx.violation('DiscountCurvePWFONF construction raised', desc | {'error': curve}, clause='construction')
                continue
            self.tick('PWFONF/' + ('on-val' if on_val else 'after-val'))
            ts = [(p.excel_dt - v.excel_dt) / 365.0 for p in pill]
            qs = self.gen_queries(rng, v, pill)
            # a single knot on the valuation date gives the interpolation grid x = [0, 0]: every df is NaN
            degenerate = (len(pill) == 1 and on_val)
            onf_f = (lambda q: 'C02/pwfonf-single-knot-on-valuation') if degenerate else None
            dfq = self.df_all(curve, qs, desc, finding=onf_f)
            for q in qs:
                tq = self.yf(self.DCT.ACT_ACT_ISDA, v, q)
                cmp_.add('ONF %d %s %s %s' % (len(pill), ' '.join(map(f2b, ts)), ' '.join(map(f2b, fs_)), f2b(tq)),
                         dfq[q.excel_dt], desc | {'query': self.dstr(q), 't_query': tq})
                x = self.call(curve.df_t, float(tq))
                x = x if isinstance(x, str) else fl(x)
                if x != dfq[q.excel_dt] and not degenerate:
                    ctx.violation('df(date) differs from df_t(ACT/ACT time of the date)', desc | {'query': self.dstr(q), 'df': dfq[q.excel_dt], 'df_t': x},
                                  clause='df-vs-df_t')
            rate_scale = 0.02 + max(abs(f) for f in fs_)
            self.common_oracles(curve, desc, qs, dfq, monotone=all(f >= 0 for f in fs_), fwd_scale=rate_scale,
                                df1_finding=(lambda vv: 'C02/pwfonf-single-knot-on-valuation') if degenerate else None, pos_finding=onf_f)
            acc, prev = 0.0, 0.0
            for p, f, t in zip(pill, fs_, ts):
                acc += f * (t - prev)
                prev = t
                dk = math.exp(-acc)
                d = dfq[p.excel_dt]
                if isinstance(d, str) or not close(d, dk, rtol=1e-12, atol=0):
                    finding = None
                    if degenerate:
                        finding = 'C02/pwfonf-single-knot-on-valuation'
                    elif touches_leap(v, p) and isinstance(d, float) and d > 0 and abs(math.log(d / dk)) <= self.leap_bound(v, p, rate_scale):
                        finding = 'C02/leap-time-axis'
                    ctx.violation('df at a knot date differs from exp(-sum of forward x interval)',
                                  desc | {'knot': self.dstr(p), 'expected': dk, 'df': d}, finding=finding, clause='pillar-reproduction')
            ctx.count('oracle/pillar-reproduction', len(pill))
            if not degenerate:
                self.views(rng, curve, desc, qs, dfq, cmp_, nviews=1)
        cmp_.flush(self.ok)

    # -- NS / NSS / Poly ----------------------------------------------------------------------------------
    def curves_param(self, rng):
        ctx, np = self.ctx, self.np
        from financepy.market.curves.discount_curve_ns import DiscountCurveNS
        from financepy.market.curves.discount_curve_nss import DiscountCurveNSS
        from financepy.market.curves.discount_curve_poly import DiscountCurvePoly
        cmp_ = Cmp(ctx, 'DiscountCurveNS/NSS/Poly')
        combos = [(fr, dc) for fr in self.z2d_freqs for dc in self.dc_ok]
        rng.shuffle(combos)
        for idx, (fr, dc) in enumerate(combos[:(36 if ctx.quick() else 54)]):
            v, pill, _ = self.gen_dates(rng, first_on_val=False)
            kind = ['NS', 'NSS', 'Poly'][idx % 3]
            b0 = rng.uniform(0.005, 0.08)
            b = [rng.uniform(-0.03, 0.03) for _ in range(3)]
            tau = [rng.uniform(0.3, 8.0), rng.uniform(0.3, 12.0)]
            if kind == 'NS':
                par = [b0, b[0], b[1], tau[0]]
                curve = self.call(DiscountCurveNS, v, *par, fr, dc)
            elif kind == 'NSS':
                par = [b0, b[0], b[1], b[2], tau[0], tau[1]]
                curve = self.call(DiscountCurveNSS, v, *par, fr, dc)
            else:
                par = [b0, rng.uniform(-0.001, 0.002), rng.uniform(-2e-5, 2e-5), rng.uniform(-1e-7, 1e-7)][:rng.choice([1, 2, 3, 4])]
                curve = self.call(DiscountCurvePoly, v, par, fr, dc)
            desc = {'class': 'DiscountCurve' + kind, 'valuation': self.dstr(v), 'params': par, 'freq': fr.name, 'dc': dc.name}
            if isinstance(curve, str):
                ctx.violation(f'{kind} construction raised', desc | {'error': curve}, clause='construction')
                continue
            self.tick(f'{kind}/{fr.name}'); self.tick(f'{kind}/dc/{dc.name}')
            qs = self.gen_queries(rng, v, pill)
            dfq = self.df_all(curve, qs, desc)
            zmax = 0.0

            def zr_of(t_, _kind=kind, _par=par):
                """the documented parametric zero rate, written independently of the source"""
                tt = max(t_, 1e-12)
                if _kind == 'NS':
                    th = tt / _par[3]; e_ = math.exp(-th)
                    return _par[0] + _par[1] * (1 - e_) / th + _par[2] * ((1 - e_) / th - e_)
                if _kind == 'NSS':
                    t1, t2 = tt / _par[4], tt / _par[5]; e1, e2 = math.exp(-t1), math.exp(-t2)
                    return _par[0] + _par[1] * (1 - e1) / t1 + _par[2] * ((1 - e1) / t1 - e1) + _par[3] * ((1 - e2) / t2 - e2)
                return sum(c_ * tt ** n_ for n_, c_ in enumerate(_par))
            for q in qs:
                t = self.yf(dc, v, q)
                if kind == 'Poly':
                    op = 'POLY %d %d %s %s' % (fr.value, len(par), ' '.join(map(f2b, par)), f2b(t))
                else:
                    op = '%s %d %s %s' % (kind, fr.value, ' '.join(map(f2b, par)), f2b(t))
                cmp_.add(op, dfq[q.excel_dt], desc | {'query': self.dstr(q), 't_dc': t})
                d = dfq[q.excel_dt]
                zr = zr_of(t)
                want = self.spec_z2d(fr.value, zr, t)
                if isinstance(d, str) or not close(d, want, rtol=1e-10, atol=0):
                    ctx.violation(f'{kind} curve: df differs from its parametric zero-rate formula', desc | {'query': self.dstr(q), 't_dc': t, 'df': d, 'formula': want},
                                  clause='construction-rule')
                if t > 0.01 and isinstance(d, float) and d > 0:
                    zmax = max(zmax, abs(math.log(d) / t))
            self.common_oracles(curve, desc, qs, dfq, monotone=False, fwd_scale=0.05 + 6 * zmax, own_dc=dc,
                                simple_rt=(lambda q, _v=v, _dc=dc: (lambda t_: (zr_of(t_), t_))(self.yf(_dc, _v, q))) if fr == self.F.SIMPLE else None)
            self.views(rng, curve, desc, qs, dfq, cmp_, nviews=1)
        cmp_.flush(self.ok)

    # -- CompositeDiscountCurve --------------------------------------------------------------------------
    def curves_composite(self, rng):
        ctx, np = self.ctx, self.np
        from financepy.market.curves.discount_curve import DiscountCurve
        from financepy.market.curves.discount_curve_pwf_onf import DiscountCurvePWFONF
        from financepy.market.curves.composite_discount_curve import CompositeDiscountCurve
        cmp_ = Cmp(ctx, 'CompositeDiscountCurve')
        for _ in range(20 if ctx.quick() else 60):
            v, pill, on_val = self.gen_dates(rng, first_on_val=False)
            nchild = rng.choice([1, 2, 3])
            children, cdesc = [], []
            for j in range(nchild):
                if rng.random() < 0.5:
                    it = rng.choice(sorted(self.local, key=lambda x: x.value))
                    ts = [(p.excel_dt - v.excel_dt) / 365.0 for p in pill]
                    dfs = [math.exp(-x) for x in self.gen_lndf(rng, ts)[0]]
                    children.append(DiscountCurve(v, pill, np.array(dfs), it))
                    cdesc.append({'class': 'DiscountCurve', 'pillars': [self.dstr(p) for p in pill], 'dfs': dfs, 'interp': it.name})
                else:
                    fs_ = [rng.uniform(-0.005, 0.05) for _ in pill]
                    children.append(DiscountCurvePWFONF(v, pill, fs_))
                    cdesc.append({'class': 'DiscountCurvePWFONF', 'knots': [self.dstr(p) for p in pill], 'onfwd_rates': fs_})
            desc = {'class': 'CompositeDiscountCurve', 'valuation': self.dstr(v), 'children': cdesc}
            curve = self.call(CompositeDiscountCurve, children)
            first_onf = isinstance(children[0], DiscountCurvePWFONF)
            self.tick('Composite/first-child-' + ('PWFONF' if first_onf else 'DiscountCurve'))
            if isinstance(curve, str):
                ctx.violation('CompositeDiscountCurve construction raised', desc | {'error': curve},
                              finding='C02/composite-first-child-pwfonf' if (first_onf and curve == 'E:AttributeError') else None,
                              clause='construction')
                continue
            qs = self.gen_queries(rng, v, pill)
            dfq = self.df_all(curve, qs, desc)
            for q in qs:
                parts = [fl(c.df(q)) for c in children]
                prod = 1.0
                for x in parts:
                    prod *= x
                d = dfq[q.excel_dt]
                cmp_.add('PROD %d %s' % (len(parts), ' '.join(map(f2b, parts))), d, desc | {'query': self.dstr(q), 'children_df': parts})
                if isinstance(d, str) or not close(d, prod, rtol=1e-14, atol=0):
                    ctx.violation('composite df differs from the product of its children\'s dfs', desc | {'query': self.dstr(q), 'df': d, 'product': prod},
                                  clause='composite-product')
            self.common_oracles(curve, desc, qs, dfq, monotone=False, fwd_scale=0.3)
            self.views(rng, curve, desc, qs, dfq, cmp_, nviews=1)
        cmp_.flush(self.ok)

    # ------------------------------------------------------------------ component 4: witnesses of the known findings
    def component_witnesses(self):
        """Each listed finding's witness (the instance of its counterexample theorem) is replayed on the implementation."""
        ctx, np, Date = self.ctx, self.np, self.Date
        from financepy.market.curves.discount_curve import DiscountCurve
        from financepy.market.curves.discount_curve_zeros import DiscountCurveZeros
        from financepy.market.curves.discount_curve_pwl import DiscountCurvePWL
        from financepy.market.curves.discount_curve_flat import DiscountCurveFlat
        from financepy.market.curves.discount_curve_pwf_onf import DiscountCurvePWFONF
        from financepy.market.curves.composite_discount_curve import CompositeDiscountCurve
        # (a) leap: Props.C02.leap_pillar_not_reproduced
        v = Date(1, 6, 2019)
        p = Date(1, 6, 2020)
        c = DiscountCurve(v, [p], np.array([0.97]))
        d = fl(c.df(p))
        desc = {'class': 'DiscountCurve', 'valuation': '1-6-2019', 'pillars': ['1-6-2020'], 'dfs': [0.97], 'interp': 'FLAT_FWD_RATES', 'witness': True}
        if not close(d, 0.97, rtol=1e-12, atol=0):
            ctx.violation('input pillar discount factor is not reproduced at the pillar date', desc | {'df': d},
                          finding='C02/leap-time-axis' if (touches_leap(v, p) and abs(math.log(d / 0.97)) <= self.leap_bound(v, p, 0.05)) else None,
                          clause='pillar-reproduction')
        model = C.run_driver('C02', [f'DC 1 0 1 366 {f2b(0.97)} {f2b(self.yf(self.DCT.ACT_ACT_ISDA, v, p))}'])[0] if self.ok else None
        if model and not close(b2f(model), d, rtol=RTOL):
            ctx.broke(f'correspondence witness leap: model {b2f(model)!r} impl {d!r}')
        # (b) zeros first pillar after valuation: Props.C02.zeros_first_pillar_after_valuation_df_gt_one
        v = Date(1, 6, 2021)
        z = DiscountCurveZeros(v, [Date(1, 6, 2022), Date(1, 6, 2023)], [0.01, 0.02], self.F.CONTINUOUS)
        d = fl(z.df(v))
        if not close(d, 1.0, rtol=0, atol=1e-10):
            ctx.violation('df(valuation date) is not 1', {'class': 'DiscountCurveZeros', 'valuation': '1-6-2021', 'pillars': ['1-6-2022', '1-6-2023'],
                                                          'zero_rates': [0.01, 0.02], 'freq': 'CONTINUOUS', 'df_valuation': d, 'witness': True},
                          finding='C02/zeros-first-pillar-after-valuation', clause='df-valuation-one')
        model = C.run_driver('C02', [f'ZC 1 99 2 {f2b(1.0)} {f2b(2.0)} {f2b(0.01)} {f2b(0.02)} {f2b(0.0)}'])[0] if self.ok else None
        if model and not close(b2f(model), d, rtol=RTOL):
            ctx.broke(f'correspondence witness zeros: model {b2f(model)!r} impl {d!r}')
        # (b2) same finding, first knot missed by one ulp: knot at days/365 (day count SIMPLE), lookup at the ACT/ACT ISDA time one ulp
        # later; the i==1 branch of LINEAR_FWD returns exp(-z1*t) of knot 1 (seed 4 of the stabilisation sweep)
        v2 = Date(30, 6, 2038)
        P2 = [Date(24, 5, 2039), Date(23, 7, 2040), Date(23, 7, 2041)]
        R2 = [0.05897618653962766, 0.05802475495943327, 0.05677333133328144]
        z2 = DiscountCurveZeros(v2, P2, R2, self.F.QUARTERLY, self.DCT.SIMPLE, self.IT.LINEAR_FWD_RATES)
        t_k, t_a = self.yf(self.DCT.SIMPLE, v2, P2[0]), self.yf(self.DCT.ACT_ACT_ISDA, v2, P2[0])
        d, want = fl(z2.df(P2[0])), self.spec_z2d(4, R2[0], t_k)
        if not close(d, want, rtol=1e-9, atol=0):
            k1 = self.spec_z2d(4, R2[1], self.yf(self.DCT.SIMPLE, v2, P2[1]))
            pred = math.exp(-t_a * (-math.log(k1 + 1e-10)) / (self.yf(self.DCT.SIMPLE, v2, P2[1]) + 1e-10))
            ctx.violation('input zero rate is not reproduced at its pillar date (df(pillar) != df implied by the input rate)',
                          {'class': 'DiscountCurveZeros', 'valuation': '30-6-2038', 'pillars': ['24-5-2039', '23-7-2040', '23-7-2041'], 'zero_rates': R2,
                           'freq': 'QUARTERLY', 'dc': 'SIMPLE', 'interp': 'LINEAR_FWD_RATES', 'pillar': '24-5-2039', 't_pillar_dc': t_k,
                           't_query_actact': t_a, 'df_expected': want, 'df': d, 'witness': True},
                          finding='C02/zeros-first-pillar-after-valuation' if (t_k < t_a and close(d, pred, rtol=1e-9, atol=0)) else None,
                          clause='pillar-reproduction')
        # (b3) same finding, first pillar ON the valuation date but at time 1/360 (30E+/360 on a 31st)
        v3 = Date(31, 3, 2038)
        z3 = DiscountCurveZeros(v3, [v3, Date(31, 3, 2039), Date(23, 8, 2040)], [0.008644334330288217, 0.007373085821057224, 0.022194130485771346],
                                self.F.QUARTERLY, self.DCT.THIRTY_E_PLUS_360, self.IT.LINEAR_FWD_RATES)
        d = fl(z3.df(v3))
        if not close(d, 1.0, rtol=0, atol=1e-10):
            ctx.violation('df(valuation date) is not 1', {'class': 'DiscountCurveZeros', 'valuation': '31-3-2038', 'pillars': ['31-3-2038', '31-3-2039', '23-8-2040'],
                                                          'freq': 'QUARTERLY', 'dc': 'THIRTY_E_PLUS_360', 'interp': 'LINEAR_FWD_RATES', 'df_valuation': d, 'witness': True},
                          finding='C02/zeros-first-pillar-after-valuation' if self.yf(self.DCT.THIRTY_E_PLUS_360, v3, v3) > 0.0 else None,
                          clause='df-valuation-one')
        # (c) bump
        b = self.call(DiscountCurve(v, [Date(1, 6, 2022)], np.array([0.97])).bump, 0.0001)
        if isinstance(b, str):
            ctx.violation('DiscountCurve.bump raised', {'class': 'DiscountCurve', 'bump': 0.0001, 'error': b, 'witness': True},
                          finding='C02/bump-raises' if b == 'E:FinError' else None, clause='bump')
        # (d) single knot
        c1 = DiscountCurve(v, [v], np.array([1.0]))
        r = self.call(c1.df, Date(1, 6, 2022))
        r = r if isinstance(r, str) else fl(r)
        if isinstance(r, str) or not (0.0 < r <= 1.5 and math.isfinite(r)) or True:
            # any outcome is a failure of the property unless a meaningful df is returned; a one-knot curve has no
            # defined value off its knot in the compiled code (out-of-bounds read)
            ctx.violation('one-knot curve queried off its knot (out-of-bounds read in _uinterpolate)',
                          {'class': 'DiscountCurve', 'valuation': '1-6-2021', 'pillars': ['1-6-2021'], 'dfs': [1.0], 'query': '1-6-2022', 'df': r, 'witness': True},
                          finding='C02/single-knot-curve', clause='positive-finite')
        # (e) PWL single pillar
        r = self.call(DiscountCurvePWL(v, [Date(1, 6, 2022)], [0.01]).df, Date(1, 6, 2022))
        if isinstance(r, str):
            ctx.violation('DiscountCurvePWL with one pillar raises on df', {'class': 'DiscountCurvePWL', 'pillars': ['1-6-2022'], 'error': r, 'witness': True},
                          finding='C02/pwl-single-pillar' if r == 'E:IndexError' else None, clause='positive-finite')
        # (f) composite with PWFONF first
        o = DiscountCurvePWFONF(v, [Date(1, 6, 2022)], [0.01])
        r = self.call(CompositeDiscountCurve, [o])
        if isinstance(r, str):
            ctx.violation('CompositeDiscountCurve construction raised', {'children': ['DiscountCurvePWFONF'], 'error': r, 'witness': True},
                          finding='C02/composite-first-child-pwfonf' if r == 'E:AttributeError' else None, clause='construction')
        # (g) PWFONF single knot on the valuation date
        r = self.call(DiscountCurvePWFONF(v, [v], [0.0574]).df, v)
        r = r if isinstance(r, str) else fl(r)
        if isinstance(r, str) or not close(r, 1.0, rtol=0, atol=1e-10):
            ctx.violation('df(valuation date) is not 1', {'class': 'DiscountCurvePWFONF', 'valuation': '1-6-2021', 'knots': ['1-6-2021'], 'onfwd_rates': [0.0574],
                                                          'df_valuation': r, 'witness': True},
                          finding='C02/pwfonf-single-knot-on-valuation', clause='df-valuation-one')
        # (h) spline extrapolation
        P = [Date(1, 6, 2022), Date(1, 6, 2023), Date(1, 6, 2025)]
        cs = DiscountCurve(v, P, np.array([1.01 ** -1, 1.02 ** -2, 1.025 ** -4]), self.IT.PCHIP_ZERO_RATES)
        r = fl(cs.df(Date(1, 6, 2081)))
        if not (r > 0 and math.isfinite(r)):
            ctx.violation('df is not a positive finite number', {'class': 'DiscountCurve', 'valuation': '1-6-2021', 'pillars': ['1-6-2022', '1-6-2023', '1-6-2025'],
                                                                 'dfs': [1.01 ** -1, 1.02 ** -2, 1.025 ** -4], 'interp': 'PCHIP_ZERO_RATES', 'query': '1-6-2081', 'df': r, 'witness': True},
                          finding='C02/spline-extrapolation', clause='positive-finite')
        # (i) flat curve, SIMPLE compounding: df_t vs df
        fc = DiscountCurveFlat(v, 0.05, self.F.SIMPLE, self.DCT.ACT_365F)
        q = Date(1, 6, 2040)
        a, b = fl(fc.df(q)), fl(fc.df_t((q.excel_dt - v.excel_dt) / 365.0))
        if not close(a, b, rtol=1e-10, atol=0):
            ctx.violation('df_t(year fraction of the date) differs from df(date) on a flat curve',
                          {'class': 'DiscountCurveFlat', 'valuation': '1-6-2021', 'rate': 0.05, 'freq': 'SIMPLE', 'dc': 'ACT_365F', 'query': '1-6-2040', 'df': a, 'df_t': b, 'witness': True},
                          finding='C02/flat-df_t-simple-compounding', clause='df-vs-df_t')
        # (j) zeros curve, ACT_360 pillars looked up at ACT/ACT times
        zc = DiscountCurveZeros(v, [v, Date(1, 6, 2022), Date(1, 6, 2023)], [0.01, 0.01, 0.02], self.F.ANNUAL, self.DCT.ACT_360)
        a = fl(zc.df(Date(1, 6, 2022)))
        want = 1.01 ** -(365.0 / 360.0)
        if not close(a, want, rtol=1e-11, atol=0):
            ctx.violation('input zero rate is not reproduced at its pillar date', {'class': 'DiscountCurveZeros', 'valuation': '1-6-2021', 'pillars': ['1-6-2021', '1-6-2022', '1-6-2023'],
                                                                                   'zero_rates': [0.01, 0.01, 0.02], 'freq': 'ANNUAL', 'dc': 'ACT_360', 'pillar': '1-6-2022',
                                                                                   'df_expected': want, 'df': a, 'witness': True},
                          finding='C02/zeros-daycount-time-axis' if abs(math.log(a / want)) <= 4 * 0.1 * abs(365.0 / 360.0 - 1.0) else None, clause='pillar-reproduction')
        ctx.count('witnesses', 12)


# ------------------------------------------------------------------------------------------------ replay
def replay(ctx, path):
    import json
    rp = json.load(open(path))
    v = rp.get('violation')
    if not v:
        print('replay: no concrete input in this file:', rp.get('broken'))
        return 1
    C.import_financepy()
    import numpy as np
    import warnings
    warnings.simplefilter('ignore')
    from financepy.utils.date import Date
    from financepy.utils.frequency import FrequencyTypes
    from financepy.utils.day_count import DayCountTypes
    from financepy.market.curves.interpolator import InterpTypes, _uinterpolate
    case = v['case']
    print('replay:', v['what'])
    print(' clause:', v.get('clause'), ' classifier:', v.get('classifier'))

    def D(s):
        d, m, y = map(int, s.split('-'))
        return Date(d, m, y)
    Date(1, 1, 2199)
    cls = case.get('class')
    curve = None
    try:
        if cls == 'DiscountCurve':
            from financepy.market.curves.discount_curve import DiscountCurve
            curve = DiscountCurve(D(case['valuation']), [D(p) for p in case['pillars']], np.array(case['dfs']), InterpTypes[case['interp']])
        elif cls == 'DiscountCurveZeros':
            from financepy.market.curves.discount_curve_zeros import DiscountCurveZeros
            curve = DiscountCurveZeros(D(case['valuation']), [D(p) for p in case['pillars']], case['zero_rates'],
                                       FrequencyTypes[case['freq']], DayCountTypes[case.get('dc', 'ACT_ACT_ISDA')],
                                       InterpTypes[case.get('interp', 'FLAT_FWD_RATES')])
        elif cls == 'DiscountCurveFlat':
            from financepy.market.curves.discount_curve_flat import DiscountCurveFlat
            curve = DiscountCurveFlat(D(case['valuation']), case['rate'], FrequencyTypes[case['freq']], DayCountTypes[case['dc']])
        elif cls in ('DiscountCurvePWF', 'DiscountCurvePWL'):
            import importlib
            mod = importlib.import_module('financepy.market.curves.discount_curve_' + cls[-3:].lower())
            curve = getattr(mod, cls)(D(case['valuation']), [D(p) for p in case['pillars']], case['zero_rates'],
                                      FrequencyTypes[case['freq']], DayCountTypes[case['dc']])
        elif cls == 'DiscountCurvePWFONF':
            from financepy.market.curves.discount_curve_pwf_onf import DiscountCurvePWFONF
            curve = DiscountCurvePWFONF(D(case['valuation']), [D(p) for p in case['knots']], case['onfwd_rates'])
        elif cls in ('DiscountCurveNS', 'DiscountCurveNSS', 'DiscountCurvePoly'):
            import importlib
            mod = importlib.import_module('financepy.market.curves.discount_curve_' + cls[len('DiscountCurve'):].lower())
            k = getattr(mod, cls)
            if cls.endswith('Poly'):
                curve = k(D(case['valuation']), case['params'], FrequencyTypes[case['freq']], DayCountTypes[case['dc']])
            else:
                curve = k(D(case['valuation']), *case['params'], FrequencyTypes[case['freq']], DayCountTypes[case['dc']])
    except Exception as e:  # noqa: BLE001
        print(' construction raised', type(e).__name__, e)
    if curve is None and 'times' in case and 'method' in case:
        r = _uinterpolate(float(case['t']), np.array(case['times']), np.array(case['dfs']), int(case['method']))
        print(f" _uinterpolate(t={case['t']}, times={case['times']}, dfs={case['dfs']}, method={case['method']}) = {r!r}")
    elif curve is not None:
        for key in ('query', 'pillar', 'd', 'd+1', 'd1', 'd2', 'date', 'start', 'end', 'knot'):
            if key in case and isinstance(case[key], str) and case[key].count('-') == 2:
                try:
                    print(f' df({key}={case[key]}) = {curve.df(D(case[key]))!r}')
                except Exception as e:  # noqa: BLE001
                    print(f' df({key}={case[key]}) raised {type(e).__name__}: {e}')
        try:
            print(f" df(valuation={case['valuation']}) = {curve.df(D(case['valuation']))!r}")
        except Exception as e:  # noqa: BLE001
            print(' df(valuation) raised', type(e).__name__, e)
    print(' recorded case:', json.dumps(case, default=str)[:1500])
    print(f'VIOLATION property=C02 replay={path}')
    return 1
