"""C03 — short-rate trees (Hull-White, Black-Karasinski, Black-Derman-Toy) are arbitrage-free and fit the
initial discount curve.

Theorems: FinVerif/Props/C03a.lean (branch probabilities: sum one, unit interval under Hull's condition,
moment matching; counterexample at the code's 0.1835 threshold), C03b.lean (state prices: support, row sums =
curve df for HW by the closed-form alpha, for BK/BDT from the root-search postcondition; BDT as coded does
not fit — counterexample), C03c.lean (backward induction: the state-price pairing is invariant, hence zero
and coupon bonds price to the curve; monotone operator ⇒ american ≥ european ≥ 0, callable ≤ pure ≤ puttable).
C03d.lean (the pieces of build_tree_fast and of the six trinomial roll-back routines that the translator generates from
the source — probability formulas, j_max argument, forward targets, kN/kN+-1/kN+-2 read pattern, node formulas — are
the hand model; what the j_max = ceil(0.1835/(a dt)) rule implies at every node: all probabilities in [0,1] iff
(1 - a j_max dt)^2 <= 2/3), C03e.lean (HW/BK/BDT over all steps by induction; BK bonds within tol; BK root unique;
BDT pairing, bonds, ordering, ladder, level 1; generated BDT pieces = model), C03f.lean (the arrays as stored —
written on -nm..nm, zero elsewhere — equal the model on the written nodes; linearity, European = state-price-weighted
payoff, parity, american >= intrinsic, no-schedule = pure).
Correspondence: module-level njit builders / backward kernels vs the hand model (Driver/C03) element-wise; the
translator ties Gen/TreesR.lean to the source text on every run.
Direct oracles on the implementation: see ORACLES below; they run on every check.  They include the re-use
oracle: a model / product object used on curve A and then on curve B must equal fresh objects on curve B."""
import json
import math
import os
import sys

sys.path.insert(0, os.path.dirname(os.path.dirname(os.path.abspath(__file__))))
import common as C  # noqa: E402
from floatcmp import f2b, b2f, close  # noqa: E402

GEN = ['TreesR']     # tools/py2lean/registry/trees.py: the straight-line pieces of the builders / roll-back routines
PROPS = ['FinVerif.Props.C03a', 'FinVerif.Props.C03b', 'FinVerif.Props.C03c',
         'FinVerif.Props.C03d', 'FinVerif.Props.C03e', 'FinVerif.Props.C03f']
DRIVERS = ['FinVerif.Driver.C03']
EXTRA_FILES = ['FinVerif/Model/C03.lean', 'FinVerif/Lemmas/C03Sum.lean', 'FinVerif/Spec/C03.lean']

RULE = ('tree arrays: seed-chosen (curve shape x a x sigma x maturity x steps>=3) for HW (all shapes incl. negative '
        'rates), BK and BDT (positive-rate shapes); every element of pu/pm/pd/Q/r_t is compared with the Lean model '
        'and every row is checked against the curve df; non-trivial = a tree with at least one edge-branching level '
        '(HW/BK) or sigma>0 (BDT). bondpure/ordering/convergence: seed-chosen bonds, strikes, schedules with option '
        'expiries kept at least one tree step away from every coupon time; non-trivial = sigma>0 and at least one '
        'coupon or exercise date. re-use: one HW/BK/BDT model object (and product object) built/valued on curve A then '
        'on a differently shaped curve B (same maturity and steps, another step count, back) vs freshly constructed '
        'objects, arrays and values to 1e-12. All cases distinct by construction (continuous parameters).')

F_BDT = 'C03/bdt-mixed-compounding'
F_EDGE = 'C03/hw-jmax-threshold-0.1835'
HULL_LO = 1.0 - math.sqrt(2.0 / 3.0)      # 0.18350341907...; the code switches branching at 0.1835

SHAPES_POS = ['up', 'inv', 'hump', 'zero', 'flat', 'steep']
KNOTS = [0.0, 0.25, 0.5, 1.0, 2.0, 3.0, 5.0, 7.0, 10.0, 15.0, 20.0, 30.0, 40.0]


# ------------------------------------------------------------------------------------------ case generation
def make_curve(rng, shape, lognormal=False):
    """Knot times and discount factors of a curve of the given shape (zero rates, continuous).  The BK Newton
    search on log r diverges (FinError) below ~0.1% rates, so 'near-zero' means 0.2-0.5% for the lognormal trees."""
    ts = KNOTS[1:]
    zlvl = rng.choice([2e-3, 5e-3]) if lognormal else rng.choice([1e-5, 2e-4, 1e-3])
    lvl = rng.uniform(0.01, 0.07)
    amp = rng.uniform(0.005, 0.04)
    tau = rng.uniform(1.5, 8.0)
    z = []
    for t in ts:
        if shape == 'up':
            r = lvl + amp * (1 - math.exp(-t / tau))
        elif shape == 'inv':
            r = lvl + amp - amp * (1 - math.exp(-t / tau)) * 0.9
        elif shape == 'hump':
            r = lvl + amp * (t / tau) * math.exp(1 - t / tau)
        elif shape == 'zero':
            r = zlvl * (1 + 0.1 * math.sin(t))
        elif shape == 'flat':
            r = lvl
        elif shape == 'steep':
            r = 0.002 + 0.12 * (1 - math.exp(-t / 12.0))
        elif shape == 'neg':
            r = -0.008 + 0.006 * (1 - math.exp(-t / tau)) + (0.004 if t > 12 else 0.0)
        else:
            raise ValueError(shape)
        z.append(r)
    return list(KNOTS), [1.0] + [math.exp(-r * t) for r, t in zip(z, ts)]


def tree_inputs(np, case):
    """tree_times and the curve df on them, exactly as XXTree.build_tree computes them."""
    from financepy.market.curves.interpolator import _uinterpolate, InterpTypes
    interp = InterpTypes.FLAT_FWD_RATES.value
    n = case['n']
    tm = case['T'] * (n + 1) / n
    tt = np.linspace(0.0, tm, n + 2)
    tk = np.array(case['times'], dtype=float)
    dk = np.array(case['dfs'], dtype=float)
    df = np.zeros(n + 2)
    df[0] = 1.0
    for i in range(1, n + 2):
        df[i] = _uinterpolate(tt[i], tk, dk, interp)
    return tt, df, tk, dk


def curve_df(t, tk, dk):
    from financepy.market.curves.interpolator import _uinterpolate, InterpTypes
    return _uinterpolate(float(t), tk, dk, InterpTypes.FLAT_FWD_RATES.value)


def gen_tree_case(rng, kind, small):
    shape = rng.choice(SHAPES_POS + (['neg', 'neg'] if kind == 'hw' else []))
    times, dfs = make_curve(rng, shape, lognormal=(kind != 'hw'))
    n = rng.choice([3, 4, 5, 7, 10, 13, 20, 30] if small else [3, 5, 10, 25, 50, 100, 150])
    T = rng.choice([0.5, 1.0, 2.0, 3.5, 5.0, 10.0, 20.0, 30.0])
    sigma = rng.choice([0.0, 0.001, 0.005, 0.01, 0.02, 0.04] if kind == 'hw' else [0.0, 0.05, 0.1, 0.2, 0.4, 0.6])
    if kind != 'hw':
        while sigma * math.sqrt(T / n) > 0.4:      # the secant/Newton drift searches give up beyond this
            sigma /= 2.0
    case = {'kind': kind, 'shape': shape, 'times': times, 'dfs': dfs, 'n': n, 'T': T, 'sigma': sigma}
    if kind != 'bdt':
        dt = T / n
        jcap = 12 if small else 150
        # a*dt between "j_max = jcap" and "j_max = 1 with a large a*dt"
        lo = 0.1835 / jcap
        x = math.exp(rng.uniform(math.log(lo), math.log(0.9)))
        if rng.random() < 0.2:
            x = 0.1835 / rng.randint(1, jcap) * rng.choice([1.0000001, 0.9999999, 1.001, 0.999])
        case['a'] = x / dt
    return case


# ------------------------------------------------------------------------------------------ oracles
class Fails(list):
    def add(self, clause, what, finding=None, **kw):
        self.append({'clause': clause, 'what': what, 'finding': finding, 'detail': kw})


def build_arrays(np, case):
    from financepy.models import hw_tree, bk_tree, bdt_tree
    tt, df, tk, dk = tree_inputs(np, case)
    k = case['kind']
    if k == 'hw':
        Q, pu, pm, pd, rt, dt = hw_tree.build_tree_fast(case['a'], case['sigma'], tt, case['n'], df)
    elif k == 'bk':
        Q, pu, pm, pd, rt, dt = bk_tree.build_tree_fast(case['a'], case['sigma'], tt, case['n'], df)
    else:
        Q, rt, dt = bdt_tree.build_tree_fast(case['sigma'], tt, case['n'], df)
        pu = pm = pd = None
    return {'tt': tt, 'df': df, 'tk': tk, 'dk': dk, 'Q': Q, 'pu': pu, 'pm': pm, 'pd': pd, 'rt': rt, 'dt': dt}


def bdt_explained(np, A, m):
    """Row m+1 of BDT: the part of (row sum - curve df) that is exactly the annual-vs-continuous mismatch."""
    Q, rt, dt = A['Q'], A['rt'], A['dt']
    r = rt[m, :m + 1]
    return float(np.sum(Q[m, :m + 1] * (np.exp(-r * dt) - (1.0 + r) ** (-dt))))


def oracle_tree(np, case, A=None):
    """Probabilities in [0,1], sum to one, match Hull's moment conditions; state prices non-negative, supported on
    the reachable nodes; every row sums to the curve discount factor."""
    out = Fails()
    if A is None:
        A = build_arrays(np, case)
    kind, n = case['kind'], case['n']
    Q, df, dt = A['Q'], A['df'], A['dt']
    if not np.all(np.isfinite(Q)) or not np.all(np.isfinite(A['rt'])):
        out.add('finite', 'tree arrays contain nan/inf')
        return out, A
    if kind in ('hw', 'bk'):
        pu, pm, pd = A['pu'], A['pm'], A['pd']
        J = (len(pu) - 1) // 2
        a = case['a']
        s = pu + pm + pd
        i = int(np.argmax(np.abs(s - 1.0)))
        if abs(s[i] - 1.0) > 1e-12:
            out.add('prob-sum-one', f'pu+pm+pd = {s[i]!r} at node j={i - J}', j=i - J, J=J)
        for nm, p in (('pu', pu), ('pm', pm), ('pd', pd)):
            for i in range(2 * J + 1):
                if p[i] < 0.0 or p[i] > 1.0:
                    x = a * J * dt
                    fid = None
                    if nm == 'pm' and i in (0, 2 * J) and 0.1835 * (1 - 1e-9) <= x < HULL_LO and p[i] >= -6e-6:
                        fid = F_EDGE
                    out.add('prob-unit-interval', f'{nm}[j={i - J}] = {p[i]!r} (a*j_max*dt = {x!r})', fid, j=i - J, J=J)
        # Hull's moment conditions (first and second moment of the index move, in units of dR)
        for i in range(2 * J + 1):
            j = i - J
            x = a * j * dt
            if j == J:
                m1, m2 = -pm[i] - 2 * pd[i], pm[i] + 4 * pd[i]
            elif j == -J:
                m1, m2 = pm[i] + 2 * pu[i], pm[i] + 4 * pu[i]
            else:
                m1, m2 = pu[i] - pd[i], pu[i] + pd[i]
            if abs(m1 + x) > 1e-11 * (1 + abs(x)) or abs(m2 - (1.0 / 3.0 + x * x)) > 1e-11 * (1 + x * x):
                out.add('prob-moments', f'branching at j={j} does not match mean -a*j*dt / variance dR^2/3: '
                        f'E={m1!r} (want {-x!r}), E2={m2!r} (want {1 / 3 + x * x!r})', j=j, J=J)
                break
        probs_ok = bool(np.all(pu >= 0) and np.all(pm >= 0) and np.all(pd >= 0))
        for m in range(n + 2):
            nm_ = min(m, J)
            row = Q[m]
            if np.any(row[:J - nm_] != 0.0) or np.any(row[J + nm_ + 1:] != 0.0):
                out.add('support', f'state price outside the reachable nodes at step {m}', m=m)
                break
            if probs_ok and np.any(row < 0.0):
                out.add('nonneg', f'negative state price at step {m}', m=m)
                break
        tol_abs = 0.0 if kind == 'hw' else 1.5e-8     # BK: root search stops at |f| <= 1e-8 (postcondition)
        for m in range(n + 2):
            sm = float(Q[m].sum())
            if abs(sm - df[m]) > tol_abs + 1e-12 * (m + 2) * abs(df[m]):
                out.add('row-sum', f'{kind} state prices at step {m} (t={A["tt"][m]!r}) sum to {sm!r}, curve df {df[m]!r}',
                        m=m, rowsum=sm, df=float(df[m]))
                break
    else:
        rt = A['rt']
        for m in range(n + 2):
            row = Q[m]
            if np.any(row[m + 1:] != 0.0) or np.any(row < 0.0):
                out.add('support', f'bdt state price negative or outside the reachable nodes at step {m}', m=m)
                break
        nbad = 0
        for m in range(n + 2):
            sm = float(Q[m].sum())
            dev = sm - df[m]
            if abs(dev) <= 1.5e-8 + 1e-12 * (m + 2) * df[m]:
                continue
            fid = None
            if m >= 2:
                ex = bdt_explained(np, A, m - 1)
                rmax = float(np.max(np.abs(rt[m - 1, :m])))
                bound = 0.5 * rmax * rmax * dt * df[m - 1] * 1.05 + 3e-8
                if abs(dev - ex) <= 1.5e-8 and abs(dev) <= bound:
                    fid = F_BDT
            nbad += 1
            if nbad <= 2 or fid is None:
                out.add('row-sum', f'bdt state prices at step {m} (t={A["tt"][m]!r}) sum to {sm!r}, curve df {df[m]!r}',
                        fid, m=m, rowsum=sm, df=float(df[m]))
            if fid is None:
                break
    return out, A


def tree_flows_of(np, kind, cpn_times, cpn_flows, A, nrows):
    """The PV-preserving mapping of coupons onto tree dates, as each *_tree.py does it (glue, mirrored here)."""
    dt, tt, tk, dk = A['dt'], A['tt'], A['tk'], A['dk']
    fl = np.zeros(nrows)
    for t, c in zip(cpn_times, cpn_flows):
        nidx = int(round(t / dt, 0)) if kind in ('hw', 'bk') else int(t / dt + 0.5)
        fl[nidx] += c * curve_df(t, tk, dk) / curve_df(tt[nidx], tk, dk)
    return fl


def cp_tree(np, case, A, cpn_times, cpn_flows, call_t, call_p, put_t, put_p, face):
    from financepy.models import hw_tree, bk_tree, bdt_tree
    f = lambda x: np.array(x, dtype=float)  # noqa: E731
    k = case['kind']
    if k in ('hw', 'bk'):
        fn = hw_tree.callable_puttable_bond_tree_fast if k == 'hw' else bk_tree.callable_puttable_bond_tree_fast
        return fn(f(cpn_times), f(cpn_flows), f(call_t), f(call_p), f(put_t), f(put_p), float(face),
                  float(case['sigma']), float(case['a']), A['Q'], A['pu'], A['pm'], A['pd'], A['rt'], A['dt'],
                  A['tt'], A['tk'], A['dk'])
    z = np.zeros(1)
    return bdt_tree.callable_puttable_bond_tree_fast(f(cpn_times), f(cpn_flows), f(call_t), f(call_p), f(put_t),
                                                     f(put_p), float(face), float(case['sigma']), 0.0, A['Q'],
                                                     z, z, z, A['rt'], A['dt'], A['tt'], A['tk'], A['dk'])


def oracle_bond(np, case, A=None):
    """'bondpure' = curve PV (zero-coupon and coupon bonds) = flows paired with the tree's own row sums;
    callable <= option-free <= puttable."""
    out = Fails()
    if A is None:
        A = build_arrays(np, case)
    kind, face = case['kind'], case['face']
    ct, cf = case['cpn_times'], case['cpn_flows']
    Q, df, tk, dk = A['Q'], A['df'], A['tk'], A['dk']
    v = cp_tree(np, case, A, ct, cf, [], [], [], [], face)
    pure = float(v['bondpure'])
    pv = face * (sum(c * curve_df(t, tk, dk) for t, c in zip(ct, cf)) + curve_df(ct[-1], tk, dk))
    fl = tree_flows_of(np, kind, ct, cf, A, Q.shape[0])
    nmat = int(ct[-1] / A['dt'] + 0.5)
    rows = Q.sum(axis=1)
    paired = face * (float(np.dot(fl[:nmat + 1], rows[:nmat + 1])) + float(rows[nmat]))
    scale = face * (1.0 + sum(abs(c) for c in cf))
    # a coupon exactly half-way between two tree dates may be mapped to either (fastmath division): skip the pairing then
    tie = any(abs((t / A['dt']) % 1.0 - 0.5) < 1e-6 for t in ct)
    inv_ok = tie or close(pure, paired, rtol=1e-8, atol=1e-11 * scale)
    if not inv_ok:
        out.add('backward-invariance', f'{kind} bondpure {pure!r} != sum of tree flows x state-price row sums {paired!r}',
                bondpure=pure, paired=paired)
    tol = {'hw': 1e-10 * scale, 'bk': 2e-8 * scale, 'bdt': 2e-8 * scale}[kind]
    if abs(pure - pv) > tol:
        fid = None
        if kind == 'bdt' and inv_ok:
            t_out, _ = oracle_tree(np, case, A)
            if t_out and all(x['finding'] == F_BDT for x in t_out) and abs(pure - pv) <= 0.5 * pv * case['T'] * max(
                    float(np.max(np.abs(A['rt'][:case['n'] + 1]))) ** 2 * A['dt'], 1e-12) + tol:
                fid = F_BDT
        out.add('bondpure-vs-curve', f'{kind} option-free bond on the tree {pure!r} != curve PV {pv!r}', fid,
                bondpure=pure, pv=pv)
    # The code encodes "no put" as a clean-price floor of 0 and "no call" as a cap of 1000*face, so the bond with
    # empty schedules (`base`) equals bondpure unless a node's dirty value falls below its accrued interest
    # (only at extreme volatility); the ordering is checked against `base`, and base = pure at moderate volatility.
    base = float(v['bondwithoption'])
    moderate = case['sigma'] * math.sqrt(case['T']) <= (0.05 if kind == 'hw' else 0.5)
    if moderate and abs(base - pure) > 1e-9 * scale:
        out.add('no-option-equals-pure', f'{kind} bond with empty call/put schedules {base!r} != bondpure {pure!r}')
    if case.get('call_t') or case.get('put_t'):
        eps = 1e-9 * scale
        c_only = float(cp_tree(np, case, A, ct, cf, case['call_t'], case['call_p'], [], [], face)['bondwithoption']) \
            if case.get('call_t') else base
        p_only = float(cp_tree(np, case, A, ct, cf, [], [], case['put_t'], case['put_p'], face)['bondwithoption']) \
            if case.get('put_t') else base
        if c_only > base + eps:
            out.add('callable-le-pure', f'{kind} callable bond {c_only!r} > option-free {base!r}', callable=c_only, pure=base)
        if p_only < base - eps:
            out.add('pure-le-puttable', f'{kind} puttable bond {p_only!r} < option-free {base!r}', puttable=p_only, pure=base)
        if case.get('call_t') and case.get('put_t'):
            both = float(cp_tree(np, case, A, ct, cf, case['call_t'], case['call_p'], case['put_t'], case['put_p'],
                                 face)['bondwithoption'])
            if both > p_only + eps or both < c_only - eps:
                out.add('callable-puttable-between', f'{kind} callable+puttable {both!r} not in [callable {c_only!r}, puttable {p_only!r}]')
    return out, A


def bond_option_call(np, case, A, ex):
    from financepy.models import hw_tree, bk_tree, bdt_tree
    k = case['kind']
    f = lambda x: np.array(x, dtype=float)  # noqa: E731
    ct, cf = f(case['cpn_times']), f(case['cpn_flows'])
    te, K, face = float(case['t_exp']), float(case['strike']), float(case['face'])
    if k == 'hw':
        return hw_tree.american_bond_option_tree_fast(te, K, face, ct, cf, ex, float(case['sigma']), float(case['a']),
                                                      A['Q'], A['pu'], A['pm'], A['pd'], A['rt'], A['dt'], A['tt'],
                                                      A['tk'], A['dk'])
    if k == 'bk':
        return bk_tree.american_bond_option_tree_fast(te, float(ct[-1]), K, face, ct, cf, ex, A['tk'], A['dk'], A['tt'],
                                                      A['Q'], A['pu'], A['pm'], A['pd'], A['rt'], A['dt'],
                                                      float(case['a']))
    return bdt_tree.american_bond_option_tree_fast(te, float(ct[-1]), K, face, ct, cf, ex, A['tk'], A['dk'], A['tt'],
                                                   A['Q'], A['rt'], A['dt'])


def oracle_option(np, case, A=None):
    """american >= european >= 0 for calls and puts on a coupon bond; european call - put = pairing of the expiry
    payoff difference (linear), checked as call - put <= american call - 0 etc. only through the ordering."""
    out = Fails()
    if A is None:
        A = build_arrays(np, case)
    ec, ep = bond_option_call(np, case, A, 1)
    ac, ap = bond_option_call(np, case, A, 3)
    eps = 1e-10 * case['face']
    kind = case['kind']
    for nm, e, a_ in (('call', float(ec), float(ac)), ('put', float(ep), float(ap))):
        if not (math.isfinite(e) and math.isfinite(a_)):
            out.add('finite', f'{kind} bond option {nm} is not finite: european {e!r}, american {a_!r}')
            continue
        if e < -eps:
            out.add('european-ge-0', f'{kind} european {nm} on the tree is negative: {e!r}', european=e)
        if a_ < e - eps:
            out.add('american-ge-european', f'{kind} american {nm} {a_!r} < european {nm} {e!r}', american=a_, european=e)
    # american >= value of exercising today (clean price today against the strike)
    from financepy.utils.math import accrued_interpolator
    ct, cf, tk, dk, face = case['cpn_times'], case['cpn_flows'], A['tk'], A['dk'], case['face']
    first = 0 if kind == 'hw' else 1
    dirty0 = face * (sum(c * curve_df(t, tk, dk) for t, c in list(zip(ct, cf))[first:]) + curve_df(ct[-1], tk, dk))
    clean0 = dirty0 - face * float(accrued_interpolator(0.0, np.array(ct, dtype=float), np.array(cf, dtype=float)))
    tol0 = {'hw': 2e-4, 'bk': 1e-5, 'bdt': 1e-2}[kind] * face
    if float(ac) < clean0 - case['strike'] - tol0:
        out.add('american-ge-intrinsic', f'{kind} american call {float(ac)!r} < exercise value today {clean0 - case["strike"]!r}',
                american=float(ac), clean_today=clean0)
    if float(ap) < case['strike'] - clean0 - tol0:
        out.add('american-ge-intrinsic', f'{kind} american put {float(ap)!r} < exercise value today {case["strike"] - clean0!r}',
                american=float(ap), clean_today=clean0)
    return out, A


def hw_sigp(sigma, a, te, T):
    return (sigma / a) * (1 - math.exp(-a * (T - te))) * math.sqrt((1 - math.exp(-2 * a * te)) / 2 / a)


def oracle_hwconv(np, case):
    """HW tree European options on a zero-coupon / coupon bond vs the closed form (option_on_zcb / Jamshidian);
    tolerance 2*S/n + floor (S = price-volatility scale of the bond at expiry), and tree(backward induction)
    = state-price-weighted expiry payoff (EXPIRY_ONLY) exactly."""
    from financepy.models.hw_tree import HWTree, FinHWEuropeanCalcType
    from financepy.utils.global_types import FinExerciseTypes
    out = Fails()
    tk = np.array(case['times'], dtype=float)
    dk = np.array(case['dfs'], dtype=float)
    sigma, a, te, face, K = case['sigma'], case['a'], case['t_exp'], case['face'], case['strike']
    ct = np.array(case['cpn_times'], dtype=float)
    cf = np.array(case['cpn_flows'], dtype=float)
    zcb = case['zcb']
    m0 = HWTree(sigma, a, 10, FinHWEuropeanCalcType.JAMSHIDIAN)
    T = float(ct[-1])
    if zcb:
        ref = m0.option_on_zcb(te, T, K, face, tk, dk)
        S = face * curve_df(T, tk, dk) * hw_sigp(sigma, a, te, T)
    else:
        ref = m0.european_bond_option_jamshidian(te, K, face, ct, cf, tk, dk)
        S = face * (sum(c * curve_df(t, tk, dk) * hw_sigp(sigma, a, te, t) for t, c in zip(ct, cf) if t >= te)
                    + curve_df(T, tk, dk) * hw_sigp(sigma, a, te, T))
    floor = 2e-5 * face * (T - te + 1.0)
    for n in case['steps']:
        m = HWTree(sigma, a, n)
        m.build_tree(te, tk, dk)
        if zcb:
            tr = m.option_on_zero_cpn_bond_tree(te, T, K, face)
        else:
            tr = m.european_bond_option_expiry_only(te, K, face, ct, cf)
            m.european_calc_type = FinHWEuropeanCalcType.EXPIRY_TREE
            bt = m.bond_option(te, K, face, ct, cf, FinExerciseTypes.EUROPEAN)
            for nm in ('call', 'put'):
                if not close(float(bt[nm]), float(tr[nm]), rtol=1e-9, atol=1e-10 * face):
                    out.add('backward-invariance', f'HW european {nm} by backward induction {bt[nm]!r} != state-price-weighted '
                            f'expiry payoff {tr[nm]!r} (n={n})', n=n)
        tol = 2.0 * S / n + floor
        for nm in ('call', 'put'):
            e = abs(float(tr[nm]) - float(ref[nm]))
            if not e <= tol:
                out.add('hw-convergence', f'HW tree european {nm} on {"zcb" if zcb else "coupon bond"} with n={n}: {tr[nm]!r} vs closed form '
                        f'{ref[nm]!r}; |diff| {e:.3e} > tol {tol:.3e}', n=n, tree=float(tr[nm]), closed=float(ref[nm]))
        if zcb and n >= 8:
            # the same option read off a tree that was built BEYOND the option expiry (as for Bermudans / several options on
            # one tree): the expiry is tree date j of n, chosen so that it falls exactly on the grid; the price must still be
            # the closed form within the bound for j steps to expiry (seed C03-12: expiry step taken as the last tree step)
            for j in (n // 2, (3 * n) // 4):
                tm = te * n / j
                if j < 4 or tm > float(tk[-1]) or tm > T + 1e-12 or abs(te / (tm / n) - j) > 1e-9:
                    continue
                m2 = HWTree(sigma, a, n)
                m2.build_tree(tm, tk, dk)
                tr2 = m2.option_on_zero_cpn_bond_tree(te, T, K, face)
                tol2 = 2.0 * S / j + floor
                for nm in ('call', 'put'):
                    e = abs(float(tr2[nm]) - float(ref[nm]))
                    if not e <= tol2:
                        out.add('hw-convergence', f'HW tree european {nm} on zcb read at tree date {j} of a tree of {n} steps built to '
                                f't={tm!r} > expiry {te!r}: {tr2[nm]!r} vs closed form {ref[nm]!r}; |diff| {e:.3e} > tol {tol2:.3e}',
                                n=n, expiry_step=j, tree_maturity=tm, tree=float(tr2[nm]), closed=float(ref[nm]))
                break
    return out


# ------------------------------------------------------------------------------------------ re-use (no stale tree)
MODEL_ARRAYS = {'hw': ['Q', 'pu', 'pm', 'pd', 'r_t', 'tree_times', 'df_times', 'dfs'],
                'bk': ['Q', 'pu', 'pm', 'pd', 'rt', 'tree_times', 'df_times', 'dfs'],
                'bdt': ['Q', 'rt', 'tree_times', 'df_times', 'dfs']}


def new_model(kind, sigma, a, n):
    from financepy.models.hw_tree import HWTree
    from financepy.models.bk_tree import BKTree
    from financepy.models.bdt_tree import BDTTree
    if kind == 'hw':
        return HWTree(sigma, a, n)
    if kind == 'bk':
        return BKTree(sigma, a, n)
    return BDTTree(sigma, n)


def same(np, x, y, rtol=1e-12):
    x, y = np.asarray(x, dtype=float), np.asarray(y, dtype=float)
    if x.shape != y.shape:
        return False, float('inf')
    if np.array_equal(x, y):
        return True, 0.0
    d = float(np.max(np.abs(x - y))) if x.size else 0.0
    return bool(np.all(np.abs(x - y) <= 1e-14 + rtol * np.maximum(np.abs(x), np.abs(y)))), d


def model_values(np, kind, model, case):
    """every value the model object hands out for the bond / option of the case"""
    from financepy.utils.global_types import FinExerciseTypes
    f = lambda x: np.array(x, dtype=float)  # noqa: E731
    out = {}
    b, o = case['bond'], case.get('opt')
    if kind in ('hw', 'bk'):
        v = model.callable_puttable_bond_tree(f(b['cpn_times']), f(b['cpn_flows']), b.get('call_t', []), b.get('call_p', []),
                                              b.get('put_t', []), b.get('put_p', []), float(b['face']))
        out['bondpure'] = float(v['bondpure'])
        out['bondwithoption'] = float(v['bondwithoption'])
    if o is not None:
        for ex in (FinExerciseTypes.EUROPEAN, FinExerciseTypes.AMERICAN):
            v = model.bond_option(float(o['t_exp']), float(o['strike']), float(o['face']), f(o['cpn_times']),
                                  f(o['cpn_flows']), ex)
            out[f'bond_option/{ex.name}/call'] = float(v['call'])
            out[f'bond_option/{ex.name}/put'] = float(v['put'])
    return out


def oracle_reuse(np, case, A=None):
    """One model object built and used on curve A, then on curve B (same maturity and step count; then another
    step count, then back) must hand out exactly what a freshly constructed model gives on curve B: the tree
    arrays, bondpure / bondwithoption, bond_option.  A tree is a function of the curve it is GIVEN."""
    out = Fails()
    kind, T = case['kind'], case['T']
    sigma, a = case['sigma'], case.get('a', 0.0)
    tkA, dkA = np.array(case['times'], dtype=float), np.array(case['dfs'], dtype=float)
    tkB, dkB = np.array(case['timesB'], dtype=float), np.array(case['dfsB'], dtype=float)

    def check(tag, reused, fresh):
        for nm in MODEL_ARRAYS[kind]:
            ok, d = same(np, getattr(reused, nm), getattr(fresh, nm))
            if not ok:
                out.add('reuse-arrays', f'{kind} model object re-used {tag}: {nm} differs from a freshly built model '
                        f'on the same curve (max abs diff {d:.3e})', array=nm, step=tag)
                break
        ok, d = same(np, reused.dt, fresh.dt)
        if not ok:
            out.add('reuse-arrays', f'{kind} model object re-used {tag}: dt differs from a fresh model', step=tag)
        vr, vf = model_values(np, kind, reused, case), model_values(np, kind, fresh, case)
        for k_ in vf:
            ok, d = same(np, vr[k_], vf[k_])
            if not ok:
                out.add('reuse-values', f'{kind} model object re-used {tag}: {k_} = {vr[k_]!r}, a fresh model on the same '
                        f'curve gives {vf[k_]!r}', value=k_, reused=vr[k_], fresh=vf[k_], step=tag)
                break

    n, n2 = case['n'], case['n2']
    model = new_model(kind, sigma, a, n)
    model.build_tree(T, tkA, dkA)
    model_values(np, kind, model, case)                       # use it on curve A
    model.build_tree(T, tkB, dkB)                             # same grid, second curve
    fresh = new_model(kind, sigma, a, n)
    fresh.build_tree(T, tkB, dkB)
    check('on a second curve (same maturity, same steps)', model, fresh)
    model.num_time_steps = n2                                 # other step count, second curve
    model.build_tree(T, tkB, dkB)
    fresh2 = new_model(kind, sigma, a, n2)
    fresh2.build_tree(T, tkB, dkB)
    check(f'after changing num_time_steps {n}->{n2}', model, fresh2)
    model.num_time_steps = n                                  # back to the first grid, first curve
    model.build_tree(T, tkA, dkA)
    fresh3 = new_model(kind, sigma, a, n)
    fresh3.build_tree(T, tkA, dkA)
    check('back on the first curve and step count', model, fresh3)
    return out, None


def product_world(np, case):
    """Re-create the dates, curves and products of a product-level re-use case from its primitive fields."""
    from financepy.utils.date import Date
    from financepy.utils.frequency import FrequencyTypes
    from financepy.utils.day_count import DayCountTypes
    from financepy.market.curves.discount_curve import DiscountCurve
    from financepy.products.bonds.bond import Bond
    vd = Date(*case['value_dmy'])
    kd = [vd.add_days(int(round(t * 365))) for t in case['times'][1:]]
    cA = DiscountCurve(vd, kd, np.array(case['dfs'][1:]))
    cB = DiscountCurve(vd, kd, np.array(case['dfsB'][1:]))
    issue = vd.add_months(-case['issue_months_back'])
    mat = issue.add_years(case['mat_years'])
    freq = FrequencyTypes[case['freq']]

    def bond():
        return Bond(issue, mat, case['coupon'], freq, DayCountTypes.ACT_ACT_ICMA)
    return vd, cA, cB, issue, mat, freq, bond


def oracle_reuse_product(np, case, A=None):
    """A model object (and a product object) valued on curve A and then on curve B must return, on curve B, what
    freshly constructed objects return: BondOption.value, BondEmbeddedOption.value, IborBermudanSwaption.value."""
    from financepy.utils.day_count import DayCountTypes
    from financepy.utils.frequency import FrequencyTypes
    from financepy.utils.global_types import OptionTypes, FinExerciseTypes, SwapTypes
    from financepy.products.bonds.bond_option import BondOption
    from financepy.products.bonds.bond_callable import BondEmbeddedOption
    from financepy.products.rates.ibor_bermudan_swaption import IborBermudanSwaption
    out = Fails()
    vd, cA, cB, issue, mat, freq, bond = product_world(np, case)
    kind, n = case['kind'], case['n']
    sigma = case['sigma_hw'] if kind == 'hw' else case['sigma_ln']

    def mk():
        return new_model(kind, sigma, case['a'], n)

    def cmp_(what, got, want):
        for k_ in want:
            ok, d = same(np, got[k_], want[k_])
            if not ok:
                out.add('reuse-values', f'{what}[{kind}] valued on curve A and then on curve B returns {k_} = {got[k_]!r} on curve B; '
                        f'freshly constructed objects give {want[k_]!r}', value=k_, reused=got[k_], fresh=want[k_], product=what)
                return
    exp = vd.add_days(case['expiry_days'])
    for ot in (OptionTypes.EUROPEAN_CALL, OptionTypes.AMERICAN_PUT):
        def bo():
            return BondOption(bond(), exp, case['strike'], ot)
        want = {ot.name: float(bo().value(vd, cB, mk()))}
        m, p = mk(), bo()                                    # re-used model and product
        p.value(vd, cA, m)
        cmp_('BondOption (same model and product object)', {ot.name: float(p.value(vd, cB, m))}, want)
        m = mk()                                             # re-used model, fresh products
        bo().value(vd, cA, m)
        cmp_('BondOption (same model object)', {ot.name: float(bo().value(vd, cB, m))}, want)
        p = bo()                                             # re-used product, fresh models
        p.value(vd, cA, mk())
        cmp_('BondOption (same product object)', {ot.name: float(p.value(vd, cB, mk()))}, want)
    if kind in ('hw', 'bk') and case.get('option_days'):
        odts = [vd.add_days(k_) for k_ in case['option_days']]

        def emb():
            return BondEmbeddedOption(issue, mat, case['coupon'], freq, DayCountTypes.ACT_ACT_ICMA, odts,
                                      [case['level']] * len(odts), [], [])
        want = {k_: float(v) for k_, v in emb().value(vd, cB, mk()).items()}
        m, p = mk(), emb()
        p.value(vd, cA, m)
        cmp_('BondEmbeddedOption (same model and product object)', {k_: float(v) for k_, v in p.value(vd, cB, m).items()}, want)
        p = emb()
        p.value(vd, cA, mk())
        cmp_('BondEmbeddedOption (same product object)', {k_: float(v) for k_, v in p.value(vd, cB, mk()).items()}, want)
    ex_dt = vd.add_years(case['swpn_exp_years'])
    sw_mat = ex_dt.add_years(case['swpn_tenor_years'])

    def sw():
        return IborBermudanSwaption(vd, ex_dt, sw_mat, SwapTypes.PAY, FinExerciseTypes.BERMUDAN, case['fixed'],
                                    FrequencyTypes.SEMI_ANNUAL, DayCountTypes.ACT_365F, 1_000_000.0)
    want = {'pay_bermudan': float(sw().value(vd, cB, mk()))}
    m, p = mk(), sw()
    p.value(vd, cA, m)
    cmp_('IborBermudanSwaption (same model and product object)', {'pay_bermudan': float(p.value(vd, cB, m))}, want)
    return out, None


F_BKNEWTON = 'C03/bk-newton-overshoot'


def grid_df_decreasing(df):
    return all(float(df[i + 1]) < float(df[i]) for i in range(len(df) - 1))


def bk_newton_overshoot(np, a, sigma, tt, n, df):
    """Classifier of C03/bk-newton-overshoot, computed from the inputs of bk_tree.build_tree_fast alone.

    True only if all of: (0) the curve is admissible for BK (df strictly decreasing on the tree grid); (1) there is a first
    step m* at which build_tree_fast raises FinError while all earlier steps calibrate (found by re-running the builder on
    the curve continued flat after step m); (2) at m* the fitting equation f(alpha) = 0 *has* a root alpha* (bisection on the
    library's own objective bk_tree.f reaches |f| <= 1e-9); (3) the library's search bk_tree.search_root_deriv started, as
    build_tree_fast does, from the previous step's alpha raises FinError; (4) that start lies below the root (f > 0) and the
    first full Newton step lands more than 1 above the root — the overshoot.  Returns a dict describing m*, or None."""
    from financepy.models import bk_tree
    from financepy.utils.error import FinError
    df = np.array(df, dtype=float)
    tt = np.array(tt, dtype=float)
    if not grid_df_decreasing(df):
        return None

    def flat_after(m):
        d = df.copy()
        ratio = df[m + 1] / df[m]
        for i in range(m + 2, len(d)):
            d[i] = d[i - 1] * ratio
        return d

    def builds(m):
        try:
            return bk_tree.build_tree_fast(a, sigma, tt, n, flat_after(m))
        except (FinError, ZeroDivisionError):
            return None
    if builds(n) is not None:            # flat_after(n) == df
        return None
    lo, hi = 0, n                        # builds(lo) ok (step 0 starts at its root), builds(hi) fails
    if builds(0) is None:
        return None
    while hi - lo > 1:
        mid = (lo + hi) // 2
        if builds(mid) is None:
            hi = mid
        else:
            lo = mid
    mstar = hi
    Q, pu, pm, pd, rt, dt = builds(mstar - 1)
    J = (len(pu) - 1) // 2
    nm = min(mstar, J)
    dX = sigma * math.sqrt(3.0 * dt)
    x0 = math.log(rt[mstar - 1, J])
    P = float(df[mstar + 1])
    row = np.ascontiguousarray(Q[mstar])
    f0 = bk_tree.f(x0, nm, row, P, dX, dt, J)
    blo, bhi = -120.0, 12.0
    if not (bk_tree.f(blo, nm, row, P, dX, dt, J) > 0.0 > bk_tree.f(bhi, nm, row, P, dX, dt, J)):
        return None
    for _ in range(200):
        bm = 0.5 * (blo + bhi)
        if bk_tree.f(bm, nm, row, P, dX, dt, J) > 0.0:
            blo = bm
        else:
            bhi = bm
    astar = 0.5 * (blo + bhi)
    if abs(bk_tree.f(astar, nm, row, P, dX, dt, J)) > 1e-9:
        return None
    try:
        bk_tree.search_root_deriv(x0, nm, row, P, dX, dt, J)
        return None
    except FinError as e:
        msg = str(e)
    fp0 = bk_tree.fprime(x0, nm, row, P, dX, dt, J)
    if not (f0 > 0.0 and fp0 < 0.0):
        return None
    x1 = x0 - f0 / fp0
    if not x1 - astar > 1.0:
        return None
    fw = -np.log(df[1:] / df[:-1]) / dt
    return {'step': int(mstar), 'start_alpha': x0, 'root_alpha': astar, 'first_newton_iterate': x1, 'library_error': msg,
            'fwd_prev': float(fw[mstar - 1]), 'fwd_step': float(fw[mstar])}


def oracle_build(np, case, A=None):
    """clause `builds`: the tree builder must not raise on an admissible curve.  For BK, curves whose df does not decrease on
    the tree grid are outside the domain (no fitted tree exists, bk_no_root_of_df_not_decreasing): a FinError there passes."""
    from financepy.utils.error import FinError
    out = Fails()
    try:
        build_arrays(np, case)
    except (FinError, ZeroDivisionError) as e:
        tt, df, _, _ = tree_inputs(np, case)
        if case['kind'] == 'bk':
            if not grid_df_decreasing(df):
                return out, None
            cl = bk_newton_overshoot(np, case['a'], case['sigma'], tt, case['n'], df)
            if cl is not None:
                out.add('builds', f'bk build_tree_fast raised {type(e).__name__}: {e} although step {cl["step"]} has the root '
                                  f'alpha = {cl["root_alpha"]:.6f} (Newton from {cl["start_alpha"]:.4f} jumps to '
                                  f'{cl["first_newton_iterate"]:.2f})', F_BKNEWTON, **cl)
                return out, None
        out.add('builds', f'{case["kind"]} build_tree_fast raised {type(e).__name__}: {e}', None, error=str(e))
    return out, None


ORACLES = {'tree': oracle_tree, 'bond': oracle_bond, 'option': oracle_option, 'reuse': oracle_reuse,
           'reuseprod': oracle_reuse_product, 'product': lambda np, case, A=None: oracle_product(np, case, A),
           'build': oracle_build}


def report(ctx, comp, case, fails):
    for f in fails:
        c = dict(case)
        c['component'] = comp
        c['detail'] = f['detail']
        ctx.violation(f'{comp}: {f["what"]}', c, finding=f['finding'], clause=f['clause'])


# ------------------------------------------------------------------------------------------ bonds / schedules
def gen_bond_on(rng, case, A, with_options, np):
    """A coupon (or zero-coupon) bond maturing at the tree's maturity T, call/put schedules on tree dates."""
    T, dt = case['T'], A['dt']
    face = rng.choice([1.0, 100.0, 1000.0])
    freq = rng.choice([1, 2, 4])
    cpn = rng.choice([0.0, 0.01, 0.03, 0.05, 0.08])
    times = []
    t = T
    while t > 1e-9:
        times.append(t)
        t -= 1.0 / freq
    times = sorted(times)
    case.update({'face': face, 'cpn_times': times, 'cpn_flows': [cpn / freq] * len(times)})
    if with_options:
        n = case['n']
        steps = sorted(rng.sample(range(1, n), min(n - 1, rng.randint(1, 4))))
        lvl = face * rng.choice([0.9, 1.0, 1.02, 1.1])
        if rng.random() < 0.8:
            case['call_t'] = [float(A['tt'][s]) for s in steps]
            case['call_p'] = [lvl * rng.choice([1.0, 1.01])] * len(steps)
        if rng.random() < 0.8 or not case.get('call_t'):
            steps2 = sorted(rng.sample(range(1, n), min(n - 1, rng.randint(1, 4))))
            case['put_t'] = [float(A['tt'][s]) for s in steps2]
            case['put_p'] = [min(lvl, face) * rng.choice([0.95, 1.0])] * len(steps2)
            if case.get('call_t') and case['put_p'][0] > case['call_p'][0]:
                case['put_p'] = [case['call_p'][0]] * len(steps2)
    return case


def gen_option_on(rng, case, A, np):
    """European/American option on a coupon bond, expiry on a tree date at least 2 steps from every coupon."""
    T, dt, n = case['T'], A['dt'], case['n']
    face = 100.0
    freq = rng.choice([1, 2])
    cpn = rng.choice([0.0, 0.02, 0.05])
    times = []
    t = T
    while t > -1.0 / freq - 1e-9:
        times.append(t)
        t -= 1.0 / freq
    times = sorted(times)
    # keep exactly one coupon time <= 0 in front (the previous coupon date, as BondOption.value builds it)
    while len(times) > 1 and times[1] <= 0.0:
        times.pop(0)
    if case['kind'] == 'hw':
        times = [x for x in times if x > 0.0]
        if len(times) < 2:
            return None
    cand = [s for s in range(1, n) if all(abs(A['tt'][s] - tc) > 1.6 * dt for tc in times)]
    if not cand:
        return None
    s = rng.choice(cand)
    te = float(A['tt'][s])
    tk, dk = A['tk'], A['dk']
    fwd = (sum(cpn / freq * curve_df(t, tk, dk) for t in times if t > te) + curve_df(T, tk, dk)) / curve_df(te, tk, dk)
    case.update({'face': face, 'cpn_times': times, 'cpn_flows': [cpn / freq] * len(times), 't_exp': te,
                 'strike': face * fwd * rng.choice([0.9, 0.98, 1.0, 1.02, 1.1])})
    return case


# ------------------------------------------------------------------------------------------ product level
def _d3(d):
    return [int(d.d), int(d.m), int(d.y)]


def gen_product_case(rng):
    """One product-level world, as plain data (everything `oracle_product` needs; replayable): curve knots and dfs,
    valuation date, bond (issue, maturity, coupon, frequency), tree steps, model parameters (HW sigma/a, lognormal
    sigma for BK/BDT), embedded-option dates and level, bond-option expiry and strike, swaption dates and fixed rate."""
    from financepy.utils.date import Date
    from financepy.utils.frequency import FrequencyTypes
    from financepy.utils.day_count import DayCountTypes
    from financepy.products.bonds.bond import Bond
    shape = rng.choice(['up', 'inv', 'hump', 'flat', 'steep'])
    times, dfs = make_curve(rng, shape)
    vd = Date(rng.randint(1, 28), rng.randint(1, 12), rng.randint(2015, 2030))
    matyears = rng.choice([3, 5, 8, 12])
    issue = vd.add_months(-rng.randint(1, 5))
    mat = issue.add_years(matyears)
    cpn = rng.choice([0.02, 0.04, 0.06])
    freq = rng.choice([FrequencyTypes.ANNUAL, FrequencyTypes.SEMI_ANNUAL])
    n = rng.choice([20, 40, 60])
    sig_hw, a = rng.choice([0.005, 0.01, 0.02]), rng.choice([0.05, 0.1, 0.3])
    sig_ln = rng.choice([0.1, 0.2, 0.3])
    pc = {'shape': shape, 'times': times, 'dfs': dfs, 'value_dt': _d3(vd), 'issue': _d3(issue), 'maturity': _d3(mat),
          'coupon': cpn, 'freq': freq.name, 'n': n, 'sigma_hw': sig_hw, 'a': a, 'sigma_ln': sig_ln,
          'emb': None, 'bo': None}
    bond = Bond(issue, mat, cpn, freq, DayCountTypes.ACT_ACT_ICMA)
    cdts = [d for d in bond.cpn_dts[1:-1] if d > vd.add_months(7)]
    if cdts:
        sel = sorted(rng.sample(range(len(cdts)), min(len(cdts), rng.randint(1, 4))))
        pc['emb'] = {'option_dts': [_d3(cdts[i]) for i in sel], 'level': rng.choice([98.0, 100.0, 103.0])}
    cd = [d for d in bond.cpn_dts if d > vd.add_months(3)]
    if len(cd) >= 3:
        i = rng.randrange(0, len(cd) - 2)
        gap = cd[i + 1] - cd[i]
        exp = cd[i].add_days(int(gap * rng.uniform(0.35, 0.65)))
        pc['bo'] = {'expiry': _d3(exp), 'strike': rng.choice([90.0, 100.0, 108.0])}
    ex_dt = vd.add_years(rng.choice([1, 2]))
    sw_mat = ex_dt.add_years(rng.choice([2, 3, 5]))
    pc['sw'] = {'exercise': _d3(ex_dt), 'maturity': _d3(sw_mat), 'fixed': rng.choice([0.02, 0.04, 0.06])}
    return pc


def oracle_product(np, pc, A=None):
    """BondEmbeddedOption (HW, BK), BondOption and IborBermudanSwaption (HW, BK, BDT) through their public value()
    methods on the world `pc`.  Every (product, model) pair is valued on its own, so one failure does not hide the others;
    an exception is a failure of that pair and is reported with the full inputs."""
    import traceback
    from financepy.utils.date import Date
    from financepy.utils.frequency import FrequencyTypes
    from financepy.utils.day_count import DayCountTypes
    from financepy.utils.global_types import OptionTypes, FinExerciseTypes, SwapTypes
    from financepy.market.curves.discount_curve import DiscountCurve
    from financepy.products.bonds.bond import Bond
    from financepy.products.bonds.bond_option import BondOption
    from financepy.products.bonds.bond_callable import BondEmbeddedOption
    from financepy.products.rates.ibor_bermudan_swaption import IborBermudanSwaption
    from financepy.models.hw_tree import HWTree
    from financepy.models.bk_tree import BKTree
    from financepy.models.bdt_tree import BDTTree
    from financepy.utils.error import FinError
    out = Fails()
    stats = {'BondEmbeddedOption': 0, 'BondOption': 0, 'IborBermudanSwaption': 0, 'samples': {}, 'inadmissible': []}
    D = lambda t: Date(t[0], t[1], t[2])  # noqa: E731
    times, dfs = pc['times'], pc['dfs']
    vd, issue, mat = D(pc['value_dt']), D(pc['issue']), D(pc['maturity'])
    kdates = [vd.add_days(int(round(t * 365))) for t in times[1:]]
    curve = DiscountCurve(vd, kdates, np.array(dfs[1:]))
    tk, dk = curve._times, curve._dfs
    cpn, freq, n = pc['coupon'], FrequencyTypes[pc['freq']], pc['n']
    bond = Bond(issue, mat, cpn, freq, DayCountTypes.ACT_ACT_ICMA)

    def model(kind):
        last['model'] = {'hw': lambda: HWTree(pc['sigma_hw'], pc['a'], n), 'bk': lambda: BKTree(pc['sigma_ln'], pc['a'], n),
                         'bdt': lambda: BDTTree(pc['sigma_ln'], n)}[kind]()
        return last['model']

    last = {}

    def guarded(component, kind, fn, t_mat):
        try:
            fn()
        except Exception as e:  # noqa: BLE001 - the inputs are tame; an exception is a failure of the product
            tb = traceback.extract_tb(e.__traceback__)[-1]
            where = f'{os.path.basename(tb.filename)}:{tb.lineno}'
            fid, extra = None, {}
            m_ = last.get('model')
            if kind == 'bk' and isinstance(e, FinError) and os.path.basename(tb.filename) == 'bk_tree.py' \
                    and m_ is not None and getattr(m_, 'tree_times', None) is not None:
                # the grid and curve of the build that failed, as BKTree.build_tree stored them before calling the builder
                tt_ = np.array(m_.tree_times, dtype=float)
                df_ = np.array([1.0] + [curve_df(t, m_.df_times, m_.dfs) for t in tt_[1:]])
                if not grid_df_decreasing(df_):
                    # outside the property's quantifier for BK (no fitted tree exists): the library's error is correct
                    stats['inadmissible'].append(f'{component}[bk]: curve df not decreasing on the tree grid to {tt_[-2]:.3f}y')
                    return
                cl = bk_newton_overshoot(np, pc['a'], pc['sigma_ln'], tt_, n, df_)
                if cl is not None:
                    fid, extra = F_BKNEWTON, cl
            out.add('raises', f'{component}[{kind}] valuation raised {type(e).__name__}: {e} at {where}', fid,
                    product=component, kind=kind, error=type(e).__name__, message=str(e), where=where, **extra)

    # --- embedded options (HW, BK): callable <= pure <= puttable; pure = curve PV
    if pc.get('emb'):
        odts = [D(t) for t in pc['emb']['option_dts']]
        lvl = pc['emb']['level']
        for kind in ('hw', 'bk'):
            def emb(kind=kind):
                m_ = model(kind)
                cb = BondEmbeddedOption(issue, mat, cpn, freq, DayCountTypes.ACT_ACT_ICMA, odts, [lvl] * len(odts), [], [])
                pb = BondEmbeddedOption(issue, mat, cpn, freq, DayCountTypes.ACT_ACT_ICMA, [], [], odts, [lvl] * len(odts))
                vc = cb.value(vd, curve, m_)
                vp = pb.value(vd, curve, m_)
                pure = float(vc['bondpure'])
                f_ = float(annual(freq))
                pv = 100.0 * (sum(cpn / f_ * curve_df((d - vd) / 365.0, tk, dk) for d in bond.cpn_dts[1:] if d > vd)
                              + curve_df((mat - vd) / 365.0, tk, dk))
                det = dict(product='BondEmbeddedOption', kind=kind)
                tol = 1e-9 * 200 if kind == 'hw' else 5e-6
                if abs(pure - pv) > tol:
                    out.add('bondpure-vs-curve', f'BondEmbeddedOption[{kind}] bondpure {pure!r} != curve PV {pv!r}', **det)
                if float(vc['bondwithoption']) > pure + 1e-8:
                    out.add('callable-le-pure', f'BondEmbeddedOption[{kind}] callable {vc["bondwithoption"]!r} > option-free {pure!r}', **det)
                if float(vp['bondwithoption']) < float(vp['bondpure']) - 1e-8:
                    out.add('pure-le-puttable', f'BondEmbeddedOption[{kind}] puttable {vp["bondwithoption"]!r} < option-free {vp["bondpure"]!r}', **det)
                stats['BondEmbeddedOption'] += 2
                stats['samples']['BondEmbeddedOption'] = {'kind': kind, 'shape': pc['shape'], 'maturity': pc['maturity'],
                                                          'coupon': cpn, 'level': lvl}
            guarded('BondEmbeddedOption', kind, emb, (mat - vd) / 365.0)
    # --- bond options: american >= european >= 0, expiry strictly between coupon dates
    if pc.get('bo'):
        exp, K = D(pc['bo']['expiry']), pc['bo']['strike']
        for kind in ('hw', 'bk', 'bdt'):
            def bo(kind=kind):
                m_ = model(kind)
                vals = {}
                for ot in (OptionTypes.EUROPEAN_CALL, OptionTypes.EUROPEAN_PUT, OptionTypes.AMERICAN_CALL, OptionTypes.AMERICAN_PUT):
                    vals[ot.name] = float(BondOption(bond, exp, K, ot).value(vd, curve, m_))
                det = dict(product='BondOption', kind=kind, values=vals)
                for nm in ('CALL', 'PUT'):
                    e, a_ = vals['EUROPEAN_' + nm], vals['AMERICAN_' + nm]
                    if not e >= -1e-9:
                        out.add('european-ge-0', f'BondOption[{kind}] european {nm.lower()} negative: {e!r}', **det)
                    if not a_ >= e - 1e-9:
                        out.add('american-ge-european', f'BondOption[{kind}] american {nm.lower()} {a_!r} < european {e!r}', **det)
                stats['BondOption'] += 4
                stats['samples']['BondOption'] = {'kind': kind, 'shape': pc['shape'], 'expiry': pc['bo']['expiry'], 'strike': K,
                                                  'values': vals}
            guarded('BondOption', kind, bo, (mat - vd) / 365.0)
    # --- bermudan swaption: bermudan >= european >= 0
    ex_dt, sw_mat, fixed = D(pc['sw']['exercise']), D(pc['sw']['maturity']), pc['sw']['fixed']
    for kind in ('hw', 'bk', 'bdt'):
        def sw(kind=kind):
            m_ = model(kind)
            vals = {}
            for lt in (SwapTypes.PAY, SwapTypes.RECEIVE):
                for ex in (FinExerciseTypes.EUROPEAN, FinExerciseTypes.BERMUDAN):
                    s_ = IborBermudanSwaption(vd, ex_dt, sw_mat, lt, ex, fixed, FrequencyTypes.SEMI_ANNUAL,
                                              DayCountTypes.ACT_365F, 1_000_000.0)
                    vals[f'{lt.name}_{ex.name}'] = float(s_.value(vd, curve, m_))
            det = dict(product='IborBermudanSwaption', kind=kind, values=vals)
            for lt in ('PAY', 'RECEIVE'):
                e, b = vals[lt + '_EUROPEAN'], vals[lt + '_BERMUDAN']
                if not e >= -1e-6:
                    out.add('european-ge-0', f'IborBermudanSwaption[{kind}] european {lt} negative: {e!r}', **det)
                if not b >= e - 1e-6:
                    out.add('american-ge-european', f'IborBermudanSwaption[{kind}] bermudan {lt} {b!r} < european {e!r}', **det)
            stats['IborBermudanSwaption'] += 4
            stats['samples']['IborBermudanSwaption'] = {'kind': kind, 'shape': pc['shape'], 'exercise': pc['sw']['exercise'],
                                                        'fixed': fixed, 'values': vals}
        guarded('IborBermudanSwaption', kind, sw, (sw_mat - vd) / 365.0)
    return out, stats


def product_cases(ctx, rng, np):
    """BondEmbeddedOption / BondOption / IborBermudanSwaption through their public value() methods."""
    nprod = 30 if ctx.quick() else 150
    n_inadm, first_inadm = 0, None
    for it in range(nprod):
        pc = gen_product_case(rng)
        fails, stats = oracle_product(np, pc)
        report(ctx, 'product', dict(pc, seed_stream='products', iteration=it), fails)
        for comp in ('BondEmbeddedOption', 'BondOption', 'IborBermudanSwaption'):
            if stats[comp]:
                ctx.count('product/' + comp, stats[comp], stats[comp], sample=stats['samples'].get(comp))
        n_inadm += len(stats['inadmissible'])
        if stats['inadmissible'] and first_inadm is None:
            first_inadm = f'{stats["inadmissible"][0]} (shape {pc["shape"]}, iteration {it})'
    if n_inadm:
        ctx.notes.append(f'{n_inadm} BK product valuations raised the library\'s FinError on a generated curve with a non-positive '
                         f'forward rate on the tree grid (outside the lognormal domain: no fitted BK tree exists, so the error is the '
                         f'correct outcome), e.g. {first_inadm}')
    ctx.cov.setdefault('histogram', {})['product/bk-inadmissible-curve'] = n_inadm


def reuse_cases(ctx, rng, np):
    from financepy.utils.error import FinError
    from financepy.utils.date import Date
    from financepy.utils.frequency import FrequencyTypes
    from financepy.utils.day_count import DayCountTypes
    from financepy.products.bonds.bond import Bond
    nmodel = 18 if ctx.quick() else 120
    done = 0
    for i in range(3 * nmodel):
        if done >= nmodel:
            break
        kind = ['hw', 'bk', 'bdt'][i % 3]
        case = gen_tree_case(rng, kind, True)
        if case['n'] < 5 or case['T'] < 1.0:
            continue
        shapeB = rng.choice([s_ for s_ in SHAPES_POS if s_ != case['shape'] and s_ != 'zero'])
        tB, dB = make_curve(rng, shapeB, lognormal=(kind != 'hw'))
        case.update({'shapeB': shapeB, 'timesB': tB, 'dfsB': dB,
                     'n2': rng.choice([k_ for k_ in (5, 7, 10, 13, 20) if k_ != case['n']])})
        caseB = dict(case, times=tB, dfs=dB)
        try:
            AB = build_arrays(np, caseB)
            bc = gen_bond_on(rng, dict(caseB), AB, True, np)
            oc = gen_option_on(rng, dict(caseB), AB, np)
            case['bond'] = {k_: bc[k_] for k_ in ('face', 'cpn_times', 'cpn_flows', 'call_t', 'call_p', 'put_t', 'put_p') if k_ in bc}
            case['opt'] = {k_: oc[k_] for k_ in ('face', 'cpn_times', 'cpn_flows', 't_exp', 'strike')} if oc else None
            fails, _ = oracle_reuse(np, case)
        except (FinError, ZeroDivisionError):
            continue                                          # the library's own drift search gave up on A or B
        report(ctx, 'reuse', case, fails)
        done += 1
        ctx.count('reuse/model-object/' + kind, 3, 3, sample={'kind': kind, 'shapeA': case['shape'], 'shapeB': shapeB,
                                                              'n': case['n'], 'n2': case['n2'], 'T': case['T']})
    nprod = 6 if ctx.quick() else 45
    for i in range(nprod):
        kind = ['hw', 'bk', 'bdt'][i % 3]
        shA, shB = rng.sample(['up', 'inv', 'hump', 'flat', 'steep'], 2)
        tA, dA = make_curve(rng, shA)
        tB, dB = make_curve(rng, shB)
        vdmy = (rng.randint(1, 28), rng.randint(1, 12), rng.randint(2015, 2030))
        vd = Date(*vdmy)
        back, my = rng.randint(1, 5), rng.choice([3, 5, 8])
        cpn = rng.choice([0.02, 0.04, 0.06])
        freq = rng.choice(['ANNUAL', 'SEMI_ANNUAL'])
        issue = vd.add_months(-back)
        bond = Bond(issue, issue.add_years(my), cpn, FrequencyTypes[freq], DayCountTypes.ACT_ACT_ICMA)
        cd = [d for d in bond.cpn_dts if d > vd.add_months(3)]
        if len(cd) < 3:
            continue
        j = rng.randrange(0, len(cd) - 2)
        exp_days = int((cd[j] - vd) + (cd[j + 1] - cd[j]) * rng.uniform(0.35, 0.65))
        odts = [int(d - vd) for d in bond.cpn_dts[1:-1] if d > vd.add_months(7)]
        case = {'kind': kind, 'shape': shA, 'shapeB': shB, 'times': tA, 'dfs': dA, 'timesB': tB, 'dfsB': dB,
                'value_dmy': list(vdmy), 'issue_months_back': back, 'mat_years': my, 'coupon': cpn, 'freq': freq,
                'n': rng.choice([20, 30]), 'sigma_hw': rng.choice([0.005, 0.01]), 'a': rng.choice([0.05, 0.1, 0.3]),
                'sigma_ln': rng.choice([0.1, 0.2]), 'expiry_days': exp_days, 'strike': rng.choice([95.0, 100.0, 105.0]),
                'option_days': sorted(rng.sample(odts, min(len(odts), 2))) if odts else [], 'level': rng.choice([100.0, 103.0]),
                'swpn_exp_years': rng.choice([1, 2]), 'swpn_tenor_years': rng.choice([2, 3]), 'fixed': rng.choice([0.03, 0.05])}
        try:
            fails, _ = oracle_reuse_product(np, case)
        except Exception as e:  # noqa: BLE001 - tame inputs; an exception is a failure of the product
            ctx.violation(f'product valuation raised {type(e).__name__}: {e}', dict(case, component='reuseprod'), clause='raises')
            continue
        report(ctx, 'reuseprod', case, fails)
        ctx.count('reuse/product/' + kind, 8, 8, sample={'kind': kind, 'shapeA': shA, 'shapeB': shB, 'n': case['n']})


def annual(freq):
    from financepy.utils.frequency import annual_frequency
    return annual_frequency(freq)


# ------------------------------------------------------------------------------------------ model correspondence
def fl(xs):
    return ' '.join(f2b(float(x)) for x in xs)


def model_ops_tree(np, case, A):
    """One driver op that rebuilds the tree in the Lean model; the root-search results (BK alpha, BDT median
    rate) are passed as parameters taken from the implementation, their postcondition is the row-sum oracle."""
    k, n = case['kind'], case['n']
    head = f'{n} {f2b(A["tt"][-1])} {f2b(case["sigma"])}'
    dfs = fl(A['df'])
    if k == 'hw':
        return f'HW {head} {f2b(case["a"])} {dfs}'
    if k == 'bk':
        J = (len(A['pu']) - 1) // 2
        alphas = [math.log(A['rt'][m, J]) for m in range(n + 1)]
        return f'BK {head} {f2b(case["a"])} {dfs} {fl(alphas)}'
    mids = [A['rt'][m, m // 2] for m in range(n + 1)]
    return f'BDT {head} {dfs} {fl(mids)}'


def compare_tree(ctx, np, case, A, ans, stats):
    """Element-wise: J, dt, pu, pm, pd, Q, r_t."""
    k, n = case['kind'], case['n']
    toks = ans.split()
    if toks[0].startswith('E:') or toks[0] == 'bad-op':
        ctx.broke(f'correspondence tree[{k}]: model answered {ans[:80]} on {short(case)}')
        return
    pos = 0

    def take(cnt):
        nonlocal pos
        r = [b2f(x) for x in toks[pos:pos + cnt]]
        pos += cnt
        return r
    if k in ('hw', 'bk'):
        J = int(toks[0])
        pos = 1
        Ji = (len(A['pu']) - 1) // 2
        if J != Ji:
            ctx.broke(f'correspondence tree[{k}]: j_max model {J} vs implementation {Ji} on {short(case)}')
            return
        w = 2 * J + 1
        groups = [('dt', [A['dt']], 1), ('pu', A['pu'], w), ('pm', A['pm'], w), ('pd', A['pd'], w),
                  ('Q', A['Q'].ravel(), (n + 2) * w), ('r_t', A['rt'][:n + 1].ravel(), (n + 1) * w)]
    else:
        w = n + 2
        groups = [('dt', [A['dt']], 1), ('Q', A['Q'].ravel(), w * w), ('r_t', A['rt'][:n + 1].ravel(), (n + 1) * w)]
    for nm, impl, cnt in groups:
        mod = take(cnt)
        if len(mod) != cnt:
            ctx.broke(f'correspondence tree[{k}]: short answer from the model on {short(case)}')
            return
        atol = {'Q': 1e-13, 'r_t': 1e-11, 'pu': 1e-14, 'pm': 1e-14, 'pd': 1e-14, 'dt': 0.0}[nm]
        rtol = 1e-9 if (nm == 'r_t' or k != 'hw') else 1e-10
        for i in range(cnt):
            stats['cmp'] += 1
            if not close(float(impl[i]), mod[i], rtol=rtol, atol=atol):
                stats['bad'] += 1
                if stats['bad'] <= 3:
                    ctx.broke(f'correspondence tree[{k}]: {nm}[{i // w if nm in ("Q", "r_t") else ""},{i % w}] model {mod[i]!r} vs '
                              f'implementation {float(impl[i])!r} on {short(case)}')
                return


def model_op_bond(np, case, A):
    """BOND op: the trinomial backward kernels (option-free and callable/puttable bond) of the Lean model on the
    implementation's own pu/pm/pd/r_t arrays; returns (op, (bondpure, bondwithoption) of the implementation)."""
    from financepy.utils.math import accrued_interpolator
    kind, face = case['kind'], case['face']
    ct, cf = case['cpn_times'], case['cpn_flows']
    dt, tt = A['dt'], A['tt']
    J = (len(A['pu']) - 1) // 2
    nrows = A['Q'].shape[0]
    tf = tree_flows_of(np, kind, ct, cf, A, nrows)
    M = int(ct[-1] / dt + 0.5)
    mt, ma = [0.0], [0.0]
    for n_ in range(1, len(tt)):
        if tf[n_] > 0.0:
            mt.append(float(tt[n_]))
            ma.append(float(tf[n_]))
    mt, ma = np.array(mt), np.array(ma)
    acc = []
    for m in range(M + 1):
        x = accrued_interpolator(float(tt[m]), mt, ma) * face
        if tf[m] > 0.0:
            x = tf[m] * face
        acc.append(x)
    callv = [face * 1000.0] * (M + 1)
    putv = [0.0] * (M + 1)
    for t, pr in zip(case.get('call_t', []), case.get('call_p', [])):
        callv[int(round(t / dt, 0))] = pr
    for t, pr in zip(case.get('put_t', []), case.get('put_p', [])):
        putv[int(round(t / dt, 0))] = pr
    z = np.exp(-A['rt'][:M] * dt)
    xs = list(A['pu']) + list(A['pm']) + list(A['pd']) + list(z.ravel()) + [tf[m] * face for m in range(M + 1)] \
        + acc + putv + callv + [(1.0 + tf[M]) * face]
    v = cp_tree(np, case, A, ct, cf, case.get('call_t', []), case.get('call_p', []), case.get('put_t', []),
                case.get('put_p', []), face)
    return f'BOND {J} {M} ' + fl(xs), (float(v['bondpure']), float(v['bondwithoption']))


def model_op_bond_bdt(np, case, A):
    """BDTBOND op: the binomial backward kernels (`bdtBondBack`, `bdtCpBack`) of the Lean model on the implementation's
    own rt array; glue (coupon mapping int(t/dt+0.5), accrued, schedules) mirrored as bdt_tree.py does it."""
    from financepy.utils.math import accrued_interpolator
    face = case['face']
    ct, cf = case['cpn_times'], case['cpn_flows']
    dt, tt = A['dt'], A['tt']
    nrows = A['Q'].shape[0]
    tf = tree_flows_of(np, 'bdt', ct, cf, A, nrows)
    M = int(ct[-1] / dt + 0.5)
    mt, ma = [0.0], [0.0]
    for n_ in range(1, len(tt)):
        if tf[n_] > 0.0:
            mt.append(float(tt[n_]))
            ma.append(float(tf[n_]))
    mt, ma = np.array(mt), np.array(ma)
    acc = []
    for m in range(M + 1):
        x = accrued_interpolator(float(tt[m]), mt, ma) * face
        if tf[m] > 0.0:
            x = tf[m] * face
        acc.append(x)
    callv = [face * 1000.0] * (M + 1)
    putv = [0.0] * (M + 1)
    for t, pr in zip(case.get('call_t', []), case.get('call_p', [])):
        callv[int(t / dt + 0.5)] = pr
    for t, pr in zip(case.get('put_t', []), case.get('put_p', [])):
        putv[int(t / dt + 0.5)] = pr
    z = np.exp(-A['rt'][:M, :M + 1] * dt)
    xs = list(z.ravel()) + [tf[m] * face for m in range(M + 1)] + acc + putv + callv + [(1.0 + tf[M]) * face]
    v = cp_tree(np, case, A, ct, cf, case.get('call_t', []), case.get('call_p', []), case.get('put_t', []),
                case.get('put_p', []), face)
    return f'BDTBOND {M} ' + fl(xs), (float(v['bondpure']), float(v['bondwithoption']))


def short(case):
    return json.dumps({k: v for k, v in case.items() if k not in ('times', 'dfs')}, default=str)[:400]


# ------------------------------------------------------------------------------------------ run
def run(ctx):
    drivers_ok = C.lean_stage(ctx, GEN, PROPS, DRIVERS, extra_files=EXTRA_FILES)
    C.import_financepy()
    import numpy as np
    from financepy.utils.error import FinError

    # ---- listed findings: replay their witnesses on the implementation at every run
    for k in ctx.known:
        w = k.get('witness', {})
        if w.get('oracle') in ORACLES:
            try:
                fails, _ = ORACLES[w['oracle']](np, dict(w['case']))
                report(ctx, 'witness/' + w['oracle'], w['case'], fails)
                ctx.count('witness', 1, 1)
            except Exception as e:  # noqa: BLE001
                ctx.notes.append(f'witness of {k["id"]} raised {type(e).__name__}: {e}')

    # ---- trees: arrays vs model, direct oracles
    rng = ctx.rng('trees')
    ops, keep, bops, bkeep = [], [], [], []
    n_tri = n_bdt = 0
    n_small = 90 if ctx.quick() else 600
    n_big = 45 if ctx.quick() else 450
    hist = {}
    rejected = []
    for i in range(n_small + n_big):
        small = i < n_small
        kind = ['hw', 'bk', 'bdt'][i % 3]
        case = gen_tree_case(rng, kind, small)
        try:
            A = build_arrays(np, case)
        except (FinError, ZeroDivisionError) as e:
            if kind == 'bk':
                bfails, _ = oracle_build(np, case)
                known = [f_ for f_ in bfails if f_['finding'] == F_BKNEWTON]
                if known:                      # a calibration step that has a root but whose Newton search overshoots
                    report(ctx, 'build', case, known)
                    hist['bk-newton-overshoot'] = hist.get('bk-newton-overshoot', 0) + 1
                    continue
            rejected.append((case, f'{type(e).__name__}: {e}'))
            hist['rejected/' + kind] = hist.get('rejected/' + kind, 0) + 1
            continue
        fails, _ = oracle_tree(np, case, A)
        report(ctx, 'tree', case, fails)
        J = (len(A['pu']) - 1) // 2 if kind != 'bdt' else 0
        nontriv = 1 if ((kind != 'bdt' and case['n'] > J) or (kind == 'bdt' and case['sigma'] > 0)) else 0
        hist[f'{kind}/{case["shape"]}'] = hist.get(f'{kind}/{case["shape"]}', 0) + 1
        ctx.count('tree-oracles/' + kind, case['n'] + 2, (case['n'] + 2) * nontriv,
                  sample={'kind': kind, 'shape': case['shape'], 'n': case['n'], 'T': case['T'], 'sigma': case['sigma'],
                          'a': case.get('a'), 'j_max': J})
        if small and drivers_ok:
            ops.append(model_ops_tree(np, case, A))
            keep.append((case, A))
        # ---- bonds and options on this tree
        if case['n'] >= 4 and case['T'] >= 1.0:
            bc = gen_bond_on(rng, dict(case), A, True, np)
            try:
                fails, _ = oracle_bond(np, bc, A)
                report(ctx, 'bond', bc, fails)
                tie = any(abs((t / A['dt']) % 1.0 - 0.5) < 1e-6 for t in bc['cpn_times'])
                if small and drivers_ok and kind in ('hw', 'bk') and not tie and n_tri < 80:
                    op, impl = model_op_bond(np, bc, A)
                    n_tri += 1
                    bops.append(op)                    # bondBack / cpBack (defined on every node)
                    bkeep.append((bc, impl, 'BOND'))
                    bops.append('BONDC' + op[4:])      # bondBackC / cpBackC (levels as the routine stores them)
                    bkeep.append((bc, impl, 'BONDC'))
                if small and drivers_ok and kind == 'bdt' and not tie and n_bdt < 40:
                    op, impl = model_op_bond_bdt(np, bc, A)
                    n_bdt += 1
                    bops.append(op)                    # bdtBondBack / bdtCpBack
                    bkeep.append((bc, impl, 'BDTBOND'))
                ctx.count('bond-oracles/' + kind, 4, 4 if case['sigma'] > 0 else 1)
            except FinError as e:
                ctx.notes.append(f'{kind} callable_puttable_bond_tree raised FinError on {short(bc)}: {e}')
            oc = gen_option_on(rng, dict(case), A, np)
            if oc is not None:
                fails, _ = oracle_option(np, oc, A)
                report(ctx, 'option', oc, fails)
                ctx.count('option-oracles/' + kind, 4, 4 if case['sigma'] > 0 else 0)
    ctx.cov['histogram'] = hist
    if len(rejected) > 0.15 * (n_small + n_big):
        ctx.violation(f'tree construction raised on {len(rejected)} of {n_small + n_big} admissible inputs; first: {rejected[0][1]}',
                      dict(rejected[0][0], component='tree'), clause='builds')
    elif rejected:
        ctx.notes.append(f'{len(rejected)} tree builds were rejected by the library (drift search gave up), e.g. '
                         f'{rejected[0][1]} on {short(rejected[0][0])}')
    if drivers_ok and ops:
        stats = {'cmp': 0, 'bad': 0}
        try:
            ans = C.run_driver('C03', ops)
            for (case, A), a_ in zip(keep, ans):
                compare_tree(ctx, np, case, A, a_, stats)
            ctx.count('tree-arrays-vs-model', stats['cmp'], stats['cmp'],
                      sample={'op': ops[0][:120] + ' ...', 'elements': stats['cmp']})
            ctx.cov['components']['tree-arrays-vs-model']['disagree_model'] = stats['bad']
        except C.DriverError as e:
            ctx.broke(f'model driver failed: {str(e)[:300]}')

    if drivers_ok and bops:
        try:
            ans = C.run_driver('C03', bops)
            nbad = 0
            for (bc, impl, opname), a_ in zip(bkeep, ans):
                t = a_.split()
                if len(t) != 2:
                    ctx.broke(f'correspondence bond kernels ({opname}): model answered {a_[:60]} on {short(bc)}')
                    continue
                sc = bc['face'] * (1.0 + sum(bc['cpn_flows']))
                for nm, iv, mv in (('bondpure', impl[0], b2f(t[0])), ('bondwithoption', impl[1], b2f(t[1]))):
                    if not close(iv, mv, rtol=1e-9, atol=1e-10 * sc):
                        nbad += 1
                        if nbad <= 3:
                            ctx.broke(f'correspondence bond kernels[{bc["kind"]}/{opname}]: {nm} model {mv!r} vs implementation {iv!r} on {short(bc)}')
            ctx.count('bond-kernels-vs-model', 2 * len(bops), 2 * len(bops),
                      sample={'op': bops[0][:80] + ' ...', 'BOND': n_tri, 'BONDC': n_tri, 'BDTBOND': n_bdt})
            ctx.cov['components']['bond-kernels-vs-model']['disagree_model'] = nbad
        except C.DriverError as e:
            ctx.broke(f'model driver failed on the bond kernels: {str(e)[:300]}')

    # ---- HW convergence to the closed forms
    rng = ctx.rng('hwconv')
    nconv = 40 if ctx.quick() else 200
    for i in range(nconv):
        shape = rng.choice(SHAPES_POS + ['neg'])
        times, dfs = make_curve(rng, shape)
        te = rng.choice([0.7, 1.3, 2.1, 4.2])
        sigma = rng.choice([0.002, 0.005, 0.01, 0.02, 0.03])
        a = rng.choice([0.03, 0.1, 0.3, 0.6])
        zcb = (i % 2 == 0)
        ncp = rng.randint(1, 8)
        first = te + rng.uniform(0.08, 0.42)
        ct = [first - 0.5] + [first + 0.5 * j for j in range(ncp)]
        cpn = 0.0 if zcb else rng.choice([0.01, 0.025, 0.04])
        tk, dk = np.array(times), np.array(dfs)
        if zcb:
            ct = [ct[-1]]
            fwd = curve_df(ct[-1], tk, dk) / curve_df(te, tk, dk)
        else:
            from financepy.utils.math import accrued_interpolator
            fwd = (sum(cpn * curve_df(t, tk, dk) for t in ct if t >= te) + curve_df(ct[-1], tk, dk)) / curve_df(te, tk, dk) \
                - accrued_interpolator(te, np.array(ct), np.full(len(ct), cpn))
        steps = [s for s in ([40, 80, 160] if ctx.quick() else [40, 80, 160, 320]) if 0.1835 / (a * te / s) <= 300]
        # every coupon must stay at least one tree step away from the expiry on the coarsest grid
        if not steps or (not zcb and any(abs(t - te) < 1.1 * te / steps[0] for t in ct)):
            continue
        case = {'kind': 'hw', 'shape': shape, 'times': times, 'dfs': dfs, 'sigma': sigma, 'a': a, 't_exp': te, 'face': 100.0,
                'strike': 100.0 * fwd * rng.choice([0.97, 1.0, 1.03]), 'cpn_times': ct, 'cpn_flows': [cpn] * len(ct),
                'zcb': zcb, 'steps': steps}
        fails = oracle_hwconv(np, case)
        report(ctx, 'hwconv', case, fails)
        ctx.count('hw-convergence', 2 * len(steps), 2 * len(steps),
                  sample={'shape': shape, 'sigma': sigma, 'a': a, 't_exp': te, 'zcb': zcb, 'steps': steps})

    # ---- re-use: a model / product object used on curve A and then on curve B = fresh objects on curve B
    reuse_cases(ctx, ctx.rng('reuse'), np)

    # ---- products
    product_cases(ctx, ctx.rng('products'), np)

    ctx.assumptions += [
        'theorems are about the model read over the reals; floating-point rounding is covered only by the tolerances of the correspondence and of the oracles',
        'BK alpha and BDT median rate come from root searches: modelled as parameters with the postcondition |f| <= 1e-8, which the row-sum oracle checks on every tree',
        'convergence of HW tree prices to the closed forms is validated numerically only (tolerance 2*S/n + 2e-5*face*(T-t_exp+1))',
        'coupon-to-tree-date mapping and accrued interpolation are glue mirrored in the harness and validated through the PV oracle; option expiries are kept off coupon dates',
        'Gen/TreesR.lean: the AST cuts of tools/py2lean/registry/trees.py (by exact source text / statement shape) select the statements they name; every other statement of the loops is covered by the element-wise correspondence and the oracles only',
        'BK on a curve whose df does not strictly decrease on the tree grid is outside the quantifier (bk_no_root_of_df_not_decreasing): a FinError there is accepted',
    ]
    return C.finish(ctx, 'proof',
                    'lake build ' + ' '.join(PROPS) + ' && lake env lean .cache/audit/Audit_C03.lean',
                    C.TRUSTED_BASE_COMMON + ['Spec/C03.lean: Hull moment conditions, "row sums to df", pairing invariance',
                                             'hand model Model/C03.lean tied to the njit builders by element-wise correspondence and, for formulas and index arithmetic, by theorems equating it with the generated Gen/TreesR.lean'],
                    RULE)


def replay(ctx, path):
    rp = json.load(open(path))
    C.import_financepy()
    import numpy as np
    v = rp.get('violation')
    if not v:
        print('replay: no concrete input in this file:', rp.get('broken'))
        return 1
    case = v['case']
    comp = case.get('component', '').split('/')[-1]
    if comp in ORACLES:
        fails, _ = ORACLES[comp](np, case)
    elif comp == 'hwconv':
        fails = oracle_hwconv(np, case)
    else:
        print('replay: product-level case, re-run the check with the same seed:', json.dumps(case, default=str)[:600])
        return 1
    bad = [f for f in fails if f['finding'] is None or f['finding'] not in ctx.known_ids]
    for f in fails:
        print(('KNOWN-FINDING ' if f not in bad else 'FAIL ') + f['clause'] + ': ' + f['what'])
    if bad:
        print(f'VIOLATION property=C03 replay={path}')
        return 1
    print('replay: the case passes now')
    return 0
