"""C05 — Black-Scholes-family prices equal the discounted expected payoff; Greeks match.

Theorems (FinVerif/Props/C05a..): about the GENERATED real model of bs_*, black_*, BlackShifted.value,
Bachelier.value and the kernel of EquityDigitalOption.value (Gen/BSR = the code's own Hull N; Gen/BSP = same
source with the normal cdf/pdf abstracted): N symmetry, put-call parity (4 models), digital relations, key
identity, Greeks = HasDerivAt of the coded value.
Correspondence: compiled implementation (functions, model classes, product classes; scalars and arrays)
vs the Float instantiation of the same generated code (Driver/C05).
Direct oracles on the implementation: parity, bounds, monotonicity / convexity, Greeks vs central bump
derivatives of the reported value (per-point tolerance derived from the measured accuracy of the Hull N),
quadrature of the payoff against the model's terminal density, implied-vol round trip.
"""
import json
import math
import os
import sys

import numpy as np

sys.path.insert(0, os.path.dirname(os.path.dirname(os.path.abspath(__file__))))
import common as C  # noqa: E402
from floatcmp import f2b, b2f  # noqa: E402
from parallel import driver_parallel  # noqa: E402

GEN = ['BSF', 'BSR', 'BSP', 'Effects']   # Effects: tools/effects/extract.py summaries (C18's extractor), used by Props/C05p
PROPS = ['FinVerif.Props.C05a', 'FinVerif.Props.C05b', 'FinVerif.Props.C05c', 'FinVerif.Props.C05d', 'FinVerif.Props.C05e', 'FinVerif.Props.C05f',
         'FinVerif.Props.C05v', 'FinVerif.Props.C05g', 'FinVerif.Props.C05h', 'FinVerif.Props.C05i', 'FinVerif.Props.C05j', 'FinVerif.Props.C05p']
DEFECT_PROPS = {'FinVerif.Props.C05v': 'C05/bs-vanna-sign-scale'}   # theorems that STATE a known defect
DRIVERS = ['FinVerif.Driver.C05']

RULE = ('points (S,K,T,r,q,sigma,type) drawn from VERIF_SEED: S log-uniform [0.05,5000], T log-uniform (1 day,30y], '
        'r,q uniform [-5%,25%], sigma log-uniform [0.5%,300%], strike: 50% within a few std-devs of the forward, 20% '
        '5-40 std-devs away, 20% up to e^±3 in moneyness, 10% exactly at spot/forward; calls and puts. Each '
        'correspondence evaluation = one (function, input) pair run through the compiled implementation and through '
        'the Float instantiation of the generated model; all inputs distinct by construction; non-trivial = the '
        'result is not 0/underflow and differs from intrinsic. Oracle evaluations are counted per component.')

# Measured accuracy of utils/math.py:N (Hull polynomial) against the exact normal cdf (see notes/C05.md):
E0 = 8.0e-8      # sup |N - Phi|            (measured 7.45e-8)
E1 = 3.0e-6      # sup |N' - phi| off 0     (measured 2.56e-6, attained at 0+)
JMP = 1.1e-9     # jump of N at 0: N(0)+N(0)-1 (measured 1.05e-9)
G_SMALL = 1e-12
FINDING_VANNA = 'C05/bs-vanna-sign-scale'
FINDING_INDEX = 'C05/index-option-greeks-raise'


# ------------------------------------------------------------------------------------------- sampling
def gen_points(rng, n):
    S, T, K, R, Q, V, TY = [], [], [], [], [], [], []
    for _ in range(n):
        s = math.exp(rng.uniform(math.log(0.05), math.log(5000.0)))
        t = math.exp(rng.uniform(math.log(1.0001 / 365.0), math.log(30.0)))
        r = rng.uniform(-0.05, 0.25)
        q = rng.uniform(-0.05, 0.25)
        v = math.exp(rng.uniform(math.log(0.005), math.log(3.0)))
        sd = v * math.sqrt(t)
        fwd = s * math.exp((r - q) * t)
        u = rng.random()
        if u < 0.5:
            lm = rng.gauss(0.0, 1.5) * sd
            k = fwd * math.exp(max(-12.0, min(12.0, lm)))
        elif u < 0.7:
            lm = rng.uniform(-1, 1) * rng.choice([5, 10, 40]) * sd
            k = fwd * math.exp(max(-12.0, min(12.0, lm)))
        elif u < 0.9:
            k = s * math.exp(rng.uniform(-3, 3))
        else:
            k = rng.choice([s, fwd, max(1.0, float(round(s))), s * (1 + 1e-9)])
        S.append(s); T.append(t); K.append(k); R.append(r); Q.append(q); V.append(v)
        TY.append(rng.choice([1, 2]))
    f = lambda x: np.array(x, dtype=np.float64)  # noqa: E731
    return {'s': f(S), 't': f(T), 'k': f(K), 'r': f(R), 'q': f(Q), 'v': f(V), 'ty': np.array(TY, dtype=np.int64)}


def sub(P, idx):
    return {k: v[idx] for k, v in P.items()}


def aux(P):
    """The harness's own d1/d2 etc. (used for tolerances and reference values only)."""
    t = np.maximum(P['t'], G_SMALL)
    v = np.maximum(P['v'], G_SMALL)
    k = np.maximum(P['k'], G_SMALL)
    vs = v * np.sqrt(t)
    ss = P['s'] * np.exp(-P['q'] * t)
    kk = k * np.exp(-P['r'] * t)
    lm = np.log(ss / kk)
    d1 = lm / vs + vs / 2
    return {'vs': vs, 'ss': ss, 'kk': kk, 'lm': lm, 'd1': d1, 'd2': d1 - vs, 'dq': np.exp(-P['q'] * t),
            'dr': np.exp(-P['r'] * t), 't': t, 'v': v}


def rounding(a):
    return 4e-15 * (1 + (1 + np.abs(a['lm'])) / a['vs'])


def value_noise(Pp, Pm):
    """Bound on |(Vc - Vx)(Pp) - (Vc - Vx)(Pm)| where Vc is the coded value (Hull N) and Vx the same closed
    form with the exact cdf: N - Phi = e is bounded by E0, is E1-Lipschitz off 0 and jumps by JMP at 0."""
    a, b = aux(Pp), aux(Pm)
    ssm, kkm = np.maximum(a['ss'], b['ss']), np.maximum(a['kk'], b['kk'])
    x1 = (a['d1'] * b['d1'] <= 0)
    x2 = (a['d2'] * b['d2'] <= 0)
    return (E0 * (np.abs(a['ss'] - b['ss']) + np.abs(a['kk'] - b['kk']))
            + E1 * (ssm * np.abs(a['d1'] - b['d1']) + kkm * np.abs(a['d2'] - b['d2']))
            + JMP * (ssm * x1 + kkm * x2)
            + (rounding(a) + rounding(b)) * (ssm + kkm))


def delta_noise(Pp, Pm):
    a, b = aux(Pp), aux(Pm)
    dqm = np.maximum(a['dq'], b['dq'])
    x1 = (a['d1'] * b['d1'] <= 0)
    return (E0 * np.abs(a['dq'] - b['dq']) + E1 * dqm * np.abs(a['d1'] - b['d1']) + JMP * dqm * x1
            + (rounding(a) + rounding(b)) * dqm)


def bump(P, name, h):
    Q = dict(P)
    Q[name] = P[name] + h
    return Q


def central(fun, noise, P, name, h):
    """Central difference D(h) of `fun` in parameter `name`, with a per-point error bound:
    noise model at h and 2h + Richardson estimate of the truncation."""
    fp, fm = fun(bump(P, name, h)), fun(bump(P, name, -h))
    fp2, fm2 = fun(bump(P, name, 2 * h)), fun(bump(P, name, -2 * h))
    d1 = (fp - fm) / (2 * h)
    d2 = (fp2 - fm2) / (4 * h)
    n1 = noise(bump(P, name, h), bump(P, name, -h)) / (2 * h)
    n2 = noise(bump(P, name, 2 * h), bump(P, name, -2 * h)) / (4 * h)
    err = 1.5 * n1 + n2 + 2.0 * np.abs(d1 - d2)
    return d1, err


# ------------------------------------------------------------------------------------------- quadrature
_GLX, _GLW = np.polynomial.legendre.leggauss(16)


def gl_panels(a, b, npanel=24):
    """nodes/weights of composite 16-point Gauss-Legendre on [a,b] (arrays of shape (n,)); returns (n, m)."""
    a = a[:, None]
    w = ((b[:, None] - a) / npanel)
    j = np.arange(npanel)[None, :]
    lo = a + w * j                                    # (n, npanel)
    x = lo[:, :, None] + w[:, :, None] * (0.5 * (_GLX[None, None, :] + 1.0))
    wt = np.broadcast_to(0.5 * w[:, :, None] * _GLW[None, None, :], x.shape)
    return x.reshape(x.shape[0], -1), wt.reshape(x.shape[0], -1)


def expectation(payoff, terminal, zstar, zmax):
    """E[payoff(X_T)] with X_T = terminal(z), z ~ N(0,1); the payoff has its only kink at z = zstar.
    Integrates payoff(terminal(z)) * phi(z) over [-10, zstar] and [zstar, zmax] (beyond: < 1e-22 relative)."""
    lo = np.full_like(zstar, -10.0)
    zc = np.clip(zstar, lo, zmax)
    tot = np.zeros_like(zstar)
    for a, b in ((lo, zc), (zc, zmax)):
        x, w = gl_panels(a, b)
        pdf = np.exp(-0.5 * x * x) / math.sqrt(2 * math.pi)
        tot = tot + np.sum(w * payoff(terminal(x)) * pdf, axis=1)
    return tot


def bs_expectation(P, kind='vanilla'):
    """Discounted expectation of the payoff under the lognormal terminal law of Black-Scholes."""
    a = aux(P)
    vs = a['vs'][:, None]
    fwd = (a['ss'] / a['dr'])[:, None]
    k = P['k'][:, None]
    call = (P['ty'] == 1)[:, None]
    term = lambda z: fwd * np.exp(-0.5 * vs * vs + vs * z)  # noqa: E731
    if kind == 'vanilla':
        pay = lambda x: np.where(call, np.maximum(x - k, 0.0), np.maximum(k - x, 0.0))  # noqa: E731
    elif kind == 'cash':
        pay = lambda x: np.where(call, (x > k) * 1.0, (x < k) * 1.0)  # noqa: E731
    else:
        pay = lambda x: np.where(call, (x > k) * x, (x < k) * x)  # noqa: E731
    return a['dr'] * expectation(pay, term, -a['d2'], a['vs'] + 10.0)


# ------------------------------------------------------------------------------------------- helpers
def err_kind(e):
    from financepy.utils.error import FinError
    return 'E:FinError' if isinstance(e, FinError) else 'E:Other'


def fl(x):
    return ' '.join(f2b(float(y)) for y in x)


class Cmp:
    """Accumulates implementation-vs-model comparisons of one component."""

    def __init__(self, ctx, comp):
        self.ctx, self.comp = ctx, comp
        self.ops, self.impl, self.scale, self.meta = [], [], [], []

    def add(self, op, impl, scale, meta=None):
        self.ops.append(op); self.impl.append(impl); self.scale.append(scale); self.meta.append(meta)

    def run(self, drivers_ok, nontrivial=None):
        ctx = self.ctx
        n = len(self.ops)
        if n == 0:
            return
        nbad, worst = 0, 0.0
        if drivers_ok:
            try:
                model = driver_parallel('C05', self.ops, chunk=30000)
            except C.DriverError as e:
                ctx.broke(f'model driver failed on component {self.comp}: {str(e)[:300]}')
                model = None
            if model is not None:
                for op, im, mo, sc in zip(self.ops, self.impl, model, self.scale):
                    if isinstance(im, str) or mo.startswith('E:') or mo == 'bad-op':
                        ok = (im == mo)
                        dev = 0.0
                    else:
                        m = b2f(mo)
                        if math.isnan(m) or math.isnan(im) or math.isinf(m) or math.isinf(im):
                            ok = (math.isnan(m) and math.isnan(im)) or m == im
                            dev = 0.0
                        else:
                            tol = 1e-9 * max(abs(m), abs(im)) + 1e-10 * sc
                            dev = abs(m - im) / (tol if tol > 0 else 1.0)
                            ok = abs(m - im) <= tol
                    worst = max(worst, dev)
                    if not ok:
                        nbad += 1
                        if nbad <= 3:
                            ctx.broke(f'correspondence {self.comp}: model≠implementation on `{decode_op(op)}` '
                                      f'(model {mo if mo.startswith("E") or mo == "bad-op" else b2f(mo)!r}, impl {im!r})')
        nt = n if nontrivial is None else nontrivial
        ctx.count('K:' + self.comp, n, nt, sample={'op': decode_op(self.ops[n // 2]), 'impl': self.impl[n // 2]})
        c = ctx.cov['components']['K:' + self.comp]
        c['disagree_model'] = nbad
        c['worst_dev_over_tol'] = round(worst, 4)


def decode_op(op):
    p = op.split()
    out = [p[0]]
    for x in p[1:]:
        out.append(repr(b2f(x)) if len(x) > 6 else x)
    return ' '.join(out)


def viol(ctx, what, case, clause, finding=None):
    case = {k: (v.item() if hasattr(v, 'item') else v) for k, v in case.items()}
    ctx.violation(what, case, finding=finding, clause=clause)


def report_fail(ctx, mask, what, clause, cols, limit=3, finding=None):
    """cols: dict name -> array (same length as mask); reports up to `limit` failing rows."""
    idx = np.nonzero(mask)[0]
    for i in idx[:limit]:
        viol(ctx, what, {k: (v[i] if hasattr(v, '__len__') and not isinstance(v, str) else v) for k, v in cols.items()},
             clause, finding)
    return len(idx)


# ------------------------------------------------------------------------------------------- main
def run(ctx):
    drivers_ok = C.lean_stage(ctx, GEN, PROPS, DRIVERS,
                              extra_files=['FinVerif/Lemmas/C05.lean', 'FinVerif/Spec/C05.lean',
                                           'FinVerif/Lemmas/C05Strike.lean', 'FinVerif/Lemmas/C08.lean'])
    C.import_financepy()
    import financepy.models.black_scholes_analytic as A
    import financepy.models.black as B
    from financepy.models.black import Black
    from financepy.models.black_shifted import BlackShifted
    from financepy.models.bachelier import Bachelier
    from financepy.models.black_scholes import BlackScholes
    from financepy.utils.global_types import OptionTypes
    from financepy.utils.math import N as N_scalar, n_vect
    from financepy.utils.date import Date
    from financepy.market.curves.discount_curve_flat import DiscountCurveFlat
    from financepy.products.equity.equity_vanilla_option import EquityVanillaOption
    from financepy.products.equity.equity_digital_option import EquityDigitalOption, FinDigitalOptionTypes
    from financepy.products.equity.equity_index_option import EquityIndexOption
    from scipy.stats import norm

    OT = {1: OptionTypes.EUROPEAN_CALL, 2: OptionTypes.EUROPEAN_PUT}
    quick = ctx.quick()
    n_main = 1800 if quick else 12000
    rng = ctx.rng('main')
    P = gen_points(rng, n_main)
    a = aux(P)
    BS = {nm: getattr(A, nm) for nm in ['bs_value', 'bs_delta', 'bs_gamma', 'bs_vega', 'bs_theta', 'bs_rho', 'bs_vanna']}

    raised = set()

    def call7(fn, X):
        try:
            return BS[fn](X['s'], X['t'], X['k'], X['r'], X['q'], X['v'], X['ty'])
        except Exception as e:  # noqa: BLE001   an exception on inputs inside the property's domain is a violation
            if fn not in raised:
                raised.add(fn)
                viol(ctx, f'{fn} raised on inputs inside the domain', {'fn': fn, **{c: X[c][0] for c in X}, 'error': repr(e)[:200]},
                     f'defined-on-domain:{fn}')
            return np.full(len(X['s']), np.nan)

    scales = {
        'bs_value': a['ss'] + a['kk'], 'bs_delta': a['dq'], 'bs_gamma': a['dq'] / (P['s'] * a['vs']),
        'bs_vega': a['ss'] * np.sqrt(a['t']),
        'bs_theta': a['ss'] * a['v'] / np.sqrt(a['t']) + np.abs(P['r']) * a['kk'] + np.abs(P['q']) * a['ss'],
        'bs_rho': a['kk'] * a['t'],
        'bs_vanna': a['dq'] * np.sqrt(a['t']) / a['v'] * (1 + np.abs(a['d2'])),
    }

    # ============================================================ K1: bs_* array + scalar entry points
    cmp_ = Cmp(ctx, 'bs_* (array arguments)')
    vals = {}
    for fn in BS:
        out = call7(fn, P)
        vals[fn] = out
        for i in range(n_main):
            cmp_.add(f'{fn} ' + fl([P[c][i] for c in 'stkrqv']) + f' {P["ty"][i]}', float(out[i]), float(scales[fn][i]))
    intr = np.where(P['ty'] == 1, np.maximum(a['ss'] - a['kk'], 0), np.maximum(a['kk'] - a['ss'], 0))
    nontriv = int(np.sum((vals['bs_value'] > 1e-300) & (np.abs(vals['bs_value'] - intr) > 1e-14 * scales['bs_value'])))
    cmp_.run(drivers_ok, nontrivial=nontriv * len(BS))

    cmp_ = Cmp(ctx, 'bs_* (scalar arguments), N, bs_intrinsic')
    n_sc = 250 if quick else 2500
    for i in range(n_sc):
        for fn in BS:
            x = float(BS[fn](float(P['s'][i]), float(P['t'][i]), float(P['k'][i]), float(P['r'][i]), float(P['q'][i]),
                             float(P['v'][i]), int(P['ty'][i])))
            cmp_.add(f'{fn} ' + fl([P[c][i] for c in 'stkrqv']) + f' {P["ty"][i]}', x, float(scales[fn][i]))
            if x != float(vals[fn][i]) and not (math.isnan(x) and math.isnan(vals[fn][i])):
                if abs(x - vals[fn][i]) > 1e-12 * scales[fn][i]:
                    viol(ctx, f'{fn}: scalar call and array call disagree',
                         {'fn': fn, **{c: P[c][i] for c in P}, 'scalar': x, 'array': vals[fn][i]}, 'scalar=array')
        x = float(A.bs_intrinsic(float(P['s'][i]), float(P['t'][i]), float(P['k'][i]), float(P['r'][i]),
                                 float(P['q'][i]), int(P['ty'][i])))
        cmp_.add('bs_intrinsic ' + fl([P[c][i] for c in 'stkrq']) + f' {P["ty"][i]}', x, float(scales['bs_value'][i]))
    xs = np.array([rng.uniform(-9, 9) for _ in range(n_sc)] + [0.0, -0.0, 1e-300, -1e-300, 40.0, -40.0])
    nv = n_vect(xs)
    for x, y in zip(xs, nv):
        cmp_.add(f'N {f2b(x)}', float(N_scalar(float(x))), 1.0)
        cmp_.add(f'N {f2b(x)}', float(y), 1.0)
    # the Float stand-in for SciPy's norm.cdf/pdf used by the Bachelier model is itself checked here
    for x in xs:
        cmp_.add(f'ncdf {f2b(x)}', float(norm.cdf(x)), 3e-5)     # atol 3e-15 (series stand-in vs SciPy)
        cmp_.add(f'npdf {f2b(x)}', float(norm.pdf(x)), 3e-5)
    # error kinds
    for fn in ['bs_value', 'bs_delta']:
        for ty in [0, 3, 7]:
            try:
                r_ = float(BS[fn](100.0, 1.0, 105.0, 0.03, 0.01, 0.25, ty))
            except Exception as e:  # noqa: BLE001
                r_ = err_kind(e)
            cmp_.add(f'{fn} ' + fl([100.0, 1.0, 105.0, 0.03, 0.01, 0.25]) + f' {ty}', r_, 1.0)
    cmp_.run(drivers_ok)

    # ============================================================ O: N symmetry / accuracy on the implementation
    xs = np.array([rng.uniform(-8, 8) for _ in range(4000)])
    sym = n_vect(xs) + n_vect(-xs) - 1.0
    nb = report_fail(ctx, np.abs(sym) > 4e-16, 'N(x)+N(-x) != 1', 'N-symmetry', {'x': xs, 'N(x)+N(-x)-1': sym})
    acc = np.abs(n_vect(xs) - norm.cdf(xs))
    nb += report_fail(ctx, acc > E0, '|N - Phi| exceeds the documented accuracy', 'N-accuracy', {'x': xs, 'err': acc})
    ctx.count('O:N symmetry+accuracy', 2 * len(xs), sample={'x': float(xs[0]), 'N': float(n_vect(xs[:1])[0])})

    # ============================================================ O: parity, bounds, monotonicity, convexity (bs_value)
    Pc = dict(P); Pc['ty'] = np.ones_like(P['ty'])
    Pp = dict(P); Pp['ty'] = 2 * np.ones_like(P['ty'])
    c_, p_ = call7('bs_value', Pc), call7('bs_value', Pp)
    sc = a['ss'] + a['kk']
    cols = {c: P[c] for c in 'stkrqv'}
    res = c_ - p_ - (a['ss'] - a['kk'])
    report_fail(ctx, np.abs(res) > 1e-9 * sc, 'bs_value: call - put != S e^{-qT} - K e^{-rT}', 'put-call-parity',
                {**cols, 'call': c_, 'put': p_, 'residual': res})
    btol = 2.5 * E0 * sc
    bad = (c_ < np.maximum(a['ss'] - a['kk'], 0) - btol) | (c_ > a['ss'] + btol) | \
          (p_ < np.maximum(a['kk'] - a['ss'], 0) - btol) | (p_ > a['kk'] + btol)
    report_fail(ctx, bad, 'bs_value violates the no-arbitrage bounds', 'bounds',
                {**cols, 'call': c_, 'put': p_, 'ss': a['ss'], 'kk': a['kk']})
    for name, Pt in (('call', Pc), ('put', Pp)):
        v0 = call7('bs_value', Pt)
        f_ = np.array([rng.uniform(1.01, 1.6) for _ in range(n_main)])
        v1 = call7('bs_value', {**Pt, 'v': np.minimum(Pt['v'] * f_, 3.0)})
        report_fail(ctx, v1 < v0 - btol, f'bs_value({name}) decreases when volatility increases', 'monotone-in-vol',
                    {**cols, 'v_hi': np.minimum(Pt['v'] * f_, 3.0), 'value': v0, 'value_hi': v1})
        hk = P['k'] * np.minimum(0.5, a['vs']) * 0.5
        vm, vp = call7('bs_value', {**Pt, 'k': P['k'] - hk}), call7('bs_value', {**Pt, 'k': P['k'] + hk})
        a_m, a_p = aux({**Pt, 'k': P['k'] - hk}), aux({**Pt, 'k': P['k'] + hk})
        t3 = 2.5 * E0 * (a['ss'] + a_p['kk'])
        sgn = 1.0 if name == 'call' else -1.0
        report_fail(ctx, sgn * (vp - vm) > t3, f'bs_value({name}) not monotone in strike', 'monotone-in-strike',
                    {**cols, 'k_lo': P['k'] - hk, 'k_hi': P['k'] + hk, 'v_lo': vm, 'v_hi': vp})
        report_fail(ctx, vm - 2 * v0 + vp < -2 * t3, f'bs_value({name}) not convex in strike', 'convex-in-strike',
                    {**cols, 'h': hk, 'v_lo': vm, 'v_mid': v0, 'v_hi': vp})
        # slope bound: -e^{-rT} <= dC/dK <= 0 (call), 0 <= dP/dK <= e^{-rT}
        slope = sgn * (vp - vm) / (2 * hk)
        report_fail(ctx, slope < -a['dr'] - t3 / hk, f'bs_value({name}): strike slope outside [-df, 0]',
                    'strike-slope', {**cols, 'h': hk, 'slope': slope})
    ctx.count('O:bs parity/bounds/monotone/convex', 11 * n_main, sample={c: float(P[c][0]) for c in 'stkrqv'})

    # ============================================================ O: Greeks = bump derivative of the reported value
    vfun = lambda X: call7('bs_value', X)  # noqa: E731
    dfun = lambda X: call7('bs_delta', X)  # noqa: E731
    vs1 = np.minimum(1.0, a['vs'])
    greek_checks = [
        # (greek fn, differentiated fn, noise, parameter, step, sign, N-error scale of the coded Greek)
        ('bs_delta', vfun, value_noise, 's', P['s'] * 1e-3 * vs1, 1.0, a['dq']),
        ('bs_vega', vfun, value_noise, 'v', P['v'] * 1e-3 * np.minimum(1.0, a['vs'] / (1 + np.abs(a['lm']))), 1.0, 0 * a['dq']),
        ('bs_rho', vfun, value_noise, 'r', 1e-3 * np.minimum(1.0, a['v'] / np.sqrt(a['t'])) * vs1, 1.0, a['kk'] * a['t']),
        ('bs_theta', vfun, value_noise, 't', P['t'] * 1e-3 * np.minimum(1.0, a['vs'] / (1 + np.abs(a['lm']))), -1.0,
         np.abs(P['r']) * a['kk'] + np.abs(P['q']) * a['ss']),
        ('bs_gamma', dfun, delta_noise, 's', P['s'] * 1e-3 * vs1, 1.0, 0 * a['dq']),
        ('bs_vanna', dfun, delta_noise, 'v', P['v'] * 1e-3 * np.minimum(1.0, a['vs'] / (1 + np.abs(a['lm']))), 1.0, 0 * a['dq']),
    ]
    gstats = {}
    for gname, f, noise, par, h, sign, nscale in greek_checks:
        D, err = central(f, noise, P, par, h)
        D = sign * D
        g = vals[gname]
        tol = err + 1.2 * E0 * nscale + 1e-9 * np.abs(g) + 1e-300
        bad = ~(np.abs(g - D) <= tol)
        finding = None
        if gname == 'bs_vanna':
            # narrow classifier of the known defect: the coded vanna equals  -sqrt(t) × (bump derivative)
            tt = np.sqrt(a['t'])
            match = np.abs(g + tt * D) <= tt * tol + 1e-9 * np.abs(g)
            known = bad & match
            for i in np.nonzero(known)[0]:
                ctx.violation('bs_vanna != d(bs_delta)/d(sigma): returns -sqrt(t) × vanna',
                              {**{c: float(P[c][i]) for c in 'stkrqv'}, 'ty': int(P['ty'][i]), 'bs_vanna': float(g[i]),
                               'bump_derivative_of_bs_delta': float(D[i]), 'tol': float(tol[i])},
                              finding=FINDING_VANNA, clause='greek=bump:bs_vanna')
            bad = bad & ~match
        report_fail(ctx, bad, f'{gname} is not the {par}-derivative of the reported '
                              f'{"value" if f is vfun else "delta"} (central difference, per-point tolerance)',
                    f'greek=bump:{gname}', {**cols, 'ty': P['ty'], 'greek': g, 'bump_derivative': D, 'tol': tol, 'h': h},
                    finding=finding)
        rel = tol / (np.abs(D) + 1e-300)
        gstats[gname] = {'median_tol_over_greek': float(np.median(rel[np.abs(D) > 1e-12 * scales[gname]])) if np.any(np.abs(D) > 1e-12 * scales[gname]) else None,
                         'informative_points': int(np.sum(rel < 1e-2))}
        ctx.count(f'O:greek=bump {gname}', n_main, int(np.sum(rel < 1e-2)),
                  sample={'greek': float(g[0]), 'bump': float(D[0]), 'tol': float(tol[0])})
    ctx.cov['greek_bump_power'] = gstats

    # ============================================================ O: value = discounted expectation (quadrature)
    n_q = 1500 if quick else 6000
    Pq = sub(P, np.arange(min(n_q, n_main)))
    aq = aux(Pq)
    ex = bs_expectation(Pq)
    vq = vals['bs_value'][:len(ex)]
    tolq = 1.2 * E0 * (aq['ss'] + aq['kk']) + 1e-11 * (aq['ss'] + aq['kk'])
    report_fail(ctx, ~(np.abs(vq - ex) <= tolq), 'bs_value != discounted expectation of the payoff (Gauss-Legendre '
                'quadrature against the lognormal density)', 'value=expectation:bs',
                {**{c: Pq[c] for c in 'stkrqv'}, 'ty': Pq['ty'], 'value': vq, 'expectation': ex, 'tol': tolq})
    ctx.count('O:value=expectation bs_value', len(ex), int(np.sum(ex > 1e-9 * (aq['ss'] + aq['kk']))),
              sample={'value': float(vq[0]), 'expectation': float(ex[0])})

    # ============================================================ O: implied volatility round trip
    n_iv = 400 if quick else 4000
    tested = 0
    worst_iv = 0.0
    import io
    import contextlib
    for i in range(n_main):
        if tested >= n_iv:
            break
        vega = float(vals['bs_vega'][i]); price = float(vals['bs_value'][i]); scl = float(sc[i])
        v = float(P['v'][i])
        # vega not negligible: a 1e-6 move in vol moves the price by more than the N noise / rounding
        if not (vega * v > 1e-3 * scl and 0.005 <= v <= 3.0):
            continue
        tested += 1
        args = [float(P[c][i]) for c in 'stkrq']
        try:
            with contextlib.redirect_stdout(io.StringIO()):
                iv = float(A.bs_implied_volatility(args[0], args[1], args[2], args[3], args[4], price, int(P['ty'][i])))
        except Exception as e:  # noqa: BLE001
            viol(ctx, 'bs_implied_volatility raised on a price produced by bs_value',
                 {**{c: P[c][i] for c in P}, 'price': price, 'error': repr(e)[:200]}, 'implied-vol-round-trip')
            continue
        # solver postcondition as coded: Newton stops on a step < 1e-6, the bisection fallback on |price error| < 1e-6
        tol_iv = 2e-6 + 2e-6 / vega + 1e-10 * scl / vega
        worst_iv = max(worst_iv, abs(iv - v) / tol_iv)
        if not abs(iv - v) <= tol_iv:
            viol(ctx, 'implied volatility does not invert bs_value', {**{c: P[c][i] for c in P}, 'price': price,
                                                                     'implied': iv, 'vega': vega, 'tol': tol_iv},
                 'implied-vol-round-trip')
    ctx.count('O:implied-vol round trip', tested, sample={'worst_dev_over_tol': round(worst_iv, 3)})

    # ============================================================ Black-76: helpers, class, parity, bump, expectation
    n_b = 700 if quick else 5000
    Pb = sub(P, np.arange(n_main - n_b, n_main))
    Pb = {**Pb, 'q': Pb['r']}            # Black-76 is Black-Scholes on the forward with q = r
    ab = aux(Pb)
    BK = {nm: getattr(B, nm) for nm in ['black_value', 'black_delta', 'black_gamma', 'black_vega', 'black_theta']}
    bsc = {'black_value': ab['ss'] + ab['kk'], 'black_delta': ab['dr'], 'black_gamma': ab['dr'] / (Pb['s'] * ab['vs']),
           'black_vega': ab['ss'] * np.sqrt(ab['t']),
           'black_theta': ab['ss'] * ab['v'] / np.sqrt(ab['t']) + np.abs(Pb['r']) * (ab['kk'] + ab['ss'])}

    def blk(fn, X):
        out = np.empty(len(X['s']))
        for i in range(len(out)):
            try:
                out[i] = BK[fn](float(X['s'][i]), float(X['t'][i]), float(X['k'][i]), float(X['r'][i]), float(X['v'][i]),
                                OT[int(X['ty'][i])])
            except Exception as e:  # noqa: BLE001
                out[i] = np.nan
                if fn not in raised:
                    raised.add(fn)
                    viol(ctx, f'{fn} raised on inputs inside the domain',
                         {'fn': fn, 'fwd': X['s'][i], 't': X['t'][i], 'k': X['k'][i], 'r': X['r'][i], 'v': X['v'][i],
                          'ty': X['ty'][i], 'error': repr(e)[:200]}, f'defined-on-domain:{fn}')
        return out

    cmp_ = Cmp(ctx, 'black_* helpers and Black class')
    bvals = {}
    for fn in BK:
        out = blk(fn, Pb)
        bvals[fn] = out
        for i in range(n_b):
            cmp_.add(f'{fn} ' + fl([Pb[c][i] for c in 'stkrv']) + f' {Pb["ty"][i]}', float(out[i]), float(bsc[fn][i]))
    for i in range(n_b):
        mdl = Black(float(Pb['v'][i]))
        df = float(math.exp(-Pb['r'][i] * Pb['t'][i]))
        for meth in ['value', 'delta', 'gamma', 'vega', 'theta']:
            try:
                x = float(getattr(mdl, meth)(float(Pb['s'][i]), float(Pb['k'][i]), float(Pb['t'][i]), df, OT[int(Pb['ty'][i])]))
            except Exception as e:  # noqa: BLE001
                x = err_kind(e)
            cmp_.add(f'Black.{meth} ' + fl([Pb['s'][i], Pb['k'][i], Pb['t'][i], df, Pb['v'][i]]) + f' {Pb["ty"][i]}', x,
                     float(bsc['black_' + meth][i]) * (1 + abs(float(Pb['r'][i])) * 0))
    for f_, k_ in [(-1.0, 1.0), (0.0, 1.0), (1.0, 0.0), (1.0, -1.0)]:
        for ty in (1, 2):
            try:
                x = float(B.black_value(f_, 1.0, k_, 0.03, 0.2, OT[ty]))
            except Exception as e:  # noqa: BLE001
                x = err_kind(e)
            cmp_.add('black_value ' + fl([f_, 1.0, k_, 0.03, 0.2]) + f' {ty}', x, 1.0)
    cmp_.run(drivers_ok)

    bcols = {'fwd': Pb['s'], 't': Pb['t'], 'k': Pb['k'], 'r': Pb['r'], 'v': Pb['v'], 'ty': Pb['ty']}
    Pbc = {**Pb, 'ty': np.ones_like(Pb['ty'])}
    Pbp = {**Pb, 'ty': 2 * np.ones_like(Pb['ty'])}
    cb, pb = blk('black_value', Pbc), blk('black_value', Pbp)
    res = cb - pb - ab['dr'] * (Pb['s'] - Pb['k'])
    report_fail(ctx, np.abs(res) > 1e-9 * (ab['ss'] + ab['kk']), 'black_value: call - put != df (F - K)',
                'put-call-parity:black', {**bcols, 'call': cb, 'put': pb, 'residual': res})
    btol = 2.5 * E0 * (ab['ss'] + ab['kk'])
    bad = (cb < np.maximum(ab['ss'] - ab['kk'], 0) - btol) | (cb > ab['ss'] + btol) | \
          (pb < np.maximum(ab['kk'] - ab['ss'], 0) - btol) | (pb > ab['kk'] + btol)
    report_fail(ctx, bad, 'black_value violates the no-arbitrage bounds', 'bounds:black', {**bcols, 'call': cb, 'put': pb})
    # cross identity with Black-Scholes at q = r (ties the Black Greeks to the bump-checked bs_* ones as well)
    for bn, sn in [('black_value', 'bs_value'), ('black_delta', 'bs_delta'), ('black_gamma', 'bs_gamma'),
                   ('black_vega', 'bs_vega'), ('black_theta', 'bs_theta')]:
        ref = call7(sn, Pb)
        report_fail(ctx, ~(np.abs(bvals[bn] - ref) <= 1e-9 * np.abs(ref) + 1e-9 * bsc[bn]),
                    f'{bn}(F,t,K,r,v) != {sn}(F,t,K,r,q=r,v)', f'black=bs(q=r):{bn}', {**bcols, bn: bvals[bn], sn: ref})
    vfb = lambda X: blk('black_value', {**X, 'r': X['r']})  # noqa: E731
    dfb = lambda X: blk('black_delta', X)  # noqa: E731
    vsb = np.minimum(1.0, ab['vs'])

    def both(X):   # bumping r in Black moves the discounting only (d1, d2 do not depend on r): keep q = r
        return X
    bchecks = [
        ('black_delta', vfb, value_noise, 's', Pb['s'] * 1e-3 * vsb, 1.0, ab['dr']),
        ('black_vega', vfb, value_noise, 'v', Pb['v'] * 1e-3 * np.minimum(1.0, ab['vs'] / (1 + np.abs(ab['lm']))), 1.0, 0 * ab['dr']),
        ('black_gamma', dfb, delta_noise, 's', Pb['s'] * 1e-3 * vsb, 1.0, 0 * ab['dr']),
    ]
    for gname, f, noise, par, h, sign, nscale in bchecks:
        D, err = central(f, noise, Pb, par, h)
        g = bvals[gname]
        tol = err + 1.2 * E0 * nscale + 1e-9 * np.abs(g) + 1e-300
        report_fail(ctx, ~(np.abs(g - D) <= tol), f'{gname} is not the {par}-derivative of the reported Black value',
                    f'greek=bump:{gname}', {**bcols, 'greek': g, 'bump_derivative': D, 'tol': tol})
        ctx.count(f'O:greek=bump {gname}', n_b, int(np.sum(tol < 1e-2 * (np.abs(D) + 1e-300))),
                  sample={'greek': float(g[0]), 'bump': float(D[0])})
    # theta: -(d/dt) at fixed r; in the (s,q=r) parametrisation both discount factors move with t
    ht = Pb['t'] * 1e-3 * np.minimum(1.0, ab['vs'] / (1 + np.abs(ab['lm'])))
    D, err = central(vfb, value_noise, Pb, 't', ht)
    g = bvals['black_theta']
    tol = err + 1.2 * E0 * np.abs(Pb['r']) * (ab['kk'] + ab['ss']) + 1e-9 * np.abs(g) + 1e-300
    report_fail(ctx, ~(np.abs(g + D) <= tol), 'black_theta is not -d(value)/dt', 'greek=bump:black_theta',
                {**bcols, 'greek': g, 'bump_derivative': -D, 'tol': tol})
    ctx.count('O:greek=bump black_theta', n_b, int(np.sum(tol < 1e-2 * (np.abs(D) + 1e-300))))
    exb = bs_expectation(Pb)
    tolq = 1.2 * E0 * (ab['ss'] + ab['kk']) + 1e-11 * (ab['ss'] + ab['kk'])
    report_fail(ctx, ~(np.abs(bvals['black_value'] - exb) <= tolq), 'black_value != discounted expectation of the payoff',
                'value=expectation:black', {**bcols, 'value': bvals['black_value'], 'expectation': exb, 'tol': tolq})
    ctx.count('O:black parity/bounds/bs-identity/expectation', 9 * n_b)


    # ============================================================ O (growth round): the executable reading of Props/C05g-i
    # Black-76 theta parity  theta_c - theta_p = r e^{-rt} (F - K)   (black_theta_put_call_parity)
    tcb, tpb = blk('black_theta', Pbc), blk('black_theta', Pbp)
    res = tcb - tpb - Pb['r'] * ab['dr'] * (Pb['s'] - Pb['k'])
    ttol = 1e-9 * bsc['black_theta'] + 2 * JMP * np.abs(Pb['r']) * (ab['ss'] + ab['kk'])
    report_fail(ctx, ~(np.abs(res) <= ttol), 'black_theta: call - put != r e^{-rt} (F - K)', 'theta-parity:black',
                {**bcols, 'theta_call': tcb, 'theta_put': tpb, 'residual': res})
    # Black-Scholes Greeks parity (bs_greeks_put_call_parity)
    gsc = {'bs_delta': a['dq'], 'bs_theta': np.abs(P['q']) * a['ss'] + np.abs(P['r']) * a['kk'], 'bs_rho': a['t'] * a['kk']}
    gref = {'bs_delta': a['dq'], 'bs_theta': P['q'] * a['ss'] - P['r'] * a['kk'], 'bs_rho': a['t'] * a['kk']}
    for gn in ('bs_delta', 'bs_theta', 'bs_rho'):
        gc, gp = call7(gn, Pc), call7(gn, Pp)
        res = gc - gp - gref[gn]
        report_fail(ctx, ~(np.abs(res) <= (1e-9 + 2 * JMP) * gsc[gn] + 1e-300), f'{gn}: call - put != parity value',
                    f'greek-parity:{gn}', {**cols, 'call': gc, 'put': gp, 'expected': gref[gn], 'residual': res})
    # at the money forward the time value is of first order in sigma sqrt(T) (bs_atm_time_value_lower): no fast path
    Patm = {**Pc, 'k': P['s'] * np.exp((P['r'] - P['q']) * P['t'])}
    aatm = aux(Patm)
    catm = call7('bs_value', Patm)
    lower = aatm['ss'] * aatm['vs'] * np.exp(-aatm['vs'] ** 2 / 8) / math.sqrt(2 * math.pi)
    report_fail(ctx, ~(catm >= lower - 2.5 * E0 * aatm['ss'] - 1e-9 * aatm['ss']),
                'bs_value at the money forward is below S e^{-qT} sigma sqrt(T) phi(d1)', 'atm-time-value-lower',
                {**{c_n: Patm[c_n] for c_n in 'stkrqv'}, 'value': catm, 'lower_bound': lower})
    # small volatility, inside the domain: the same strikes, sigma chosen so that sigma sqrt(T) = 1e-3 / 5e-4 / 2.7e-4,
    # kept only where sigma >= 0.5% (short expiries); a "sigma sqrt(T) < threshold => intrinsic" fast path fails here
    n_small = 0
    for wv in (1e-3, 5e-4, 2.7e-4):
        vv = wv / np.sqrt(P['t'])
        idx = np.nonzero((vv >= 0.005) & (vv <= 3.0))[0]
        if len(idx) == 0:
            continue
        Psm = sub({**Patm, 'v': vv}, idx)
        asm = aux(Psm)
        csm = call7('bs_value', Psm)
        low = asm['ss'] * asm['vs'] * np.exp(-asm['vs'] ** 2 / 8) / math.sqrt(2 * math.pi)
        up = asm['kk'] * asm['vs'] / math.sqrt(2 * math.pi)
        # N(x) - N(-x) of the Hull polynomial near 0 is accurate to E1*x + jump (derived, see notes): tolerance
        tl = (E1 * asm['vs'] + 2 * JMP + 1e-15) * asm['ss']
        report_fail(ctx, ~((csm >= low - tl) & (csm <= up + tl)),
                    'bs_value at the money with small sigma sqrt(T) is not within [S w phi(w/2), K e^{-rT} c w] of intrinsic (0)',
                    'small-vol-time-value', {**{c_n: Psm[c_n] for c_n in 'stkrqv'}, 'value': csm, 'lower': low, 'upper': up})
        n_small += len(idx)
    # value vs the library's own bs_intrinsic (bs_value_vs_coded_intrinsic)
    intr = np.array([float(A.bs_intrinsic(float(P['s'][i]), float(P['t'][i]), float(P['k'][i]), float(P['r'][i]),
                                          float(P['q'][i]), int(P['ty'][i]))) for i in range(n_main)])
    v_ = call7('bs_value', P)
    up = intr + a['kk'] * a['vs'] / math.sqrt(2 * math.pi)
    report_fail(ctx, ~((v_ >= intr - 2.5 * E0 * sc) & (v_ <= up + 2.5 * E0 * sc)),
                'bs_value outside [bs_intrinsic, bs_intrinsic + K e^{-rT} c sigma sqrt(T)]', 'value-vs-intrinsic',
                {**cols, 'ty': P['ty'], 'value': v_, 'bs_intrinsic': intr, 'upper': up})
    ctx.count('O:growth theta/greek parity, atm lower bound, small vol, intrinsic', n_b + 3 * n_main + n_main + n_small + n_main,
              sample={'atm_value': float(catm[0]), 'atm_lower': float(lower[0])})

    # ============================================================ shifted Black and Bachelier (class methods)
    n_s = 500 if quick else 4000
    cmp_ = Cmp(ctx, 'BlackShifted.value, Bachelier.value')
    rs = ctx.rng('rates')
    rows = []
    for i in range(n_s):
        t = math.exp(rs.uniform(math.log(1.0001 / 365), math.log(30.0)))
        df = math.exp(-rs.uniform(-0.05, 0.25) * t)
        f = rs.uniform(-0.02, 0.12)
        shift = rs.choice([0.0, 0.01, 0.03, 0.05])
        if f + shift <= 1e-4:
            f = -shift + rs.uniform(1e-3, 0.05)
        vol = math.exp(rs.uniform(math.log(0.005), math.log(3.0)))
        sd = vol * math.sqrt(t)
        k = (f + shift) * math.exp(max(-8, min(8, rs.gauss(0, 1.5) * sd if rs.random() < 0.7 else rs.uniform(-1, 1) * 20 * sd))) - shift
        if rs.random() < 0.1:
            k = f
        nvol = math.exp(rs.uniform(math.log(0.0005), math.log(0.05)))     # normal vol, absolute
        kn = f + (rs.gauss(0, 1.5) if rs.random() < 0.7 else rs.uniform(-30, 30)) * nvol * math.sqrt(t)
        if rs.random() < 0.1:
            kn = f
        rows.append((f, k, t, df, shift, vol, nvol, kn))
    R_ = np.array(rows)
    f_, k_, t_, df_, sh_, vol_, nv_, kn_ = R_.T
    sv = {1: np.empty(n_s), 2: np.empty(n_s)}
    bv = {1: np.empty(n_s), 2: np.empty(n_s)}
    for i in range(n_s):
        ms, mb = BlackShifted(float(vol_[i]), float(sh_[i])), Bachelier(float(nv_[i]))
        for ty in (1, 2):
            sv[ty][i] = ms.value(float(f_[i]), float(k_[i]), float(t_[i]), float(df_[i]), OT[ty])
            bv[ty][i] = mb.value(float(f_[i]), float(kn_[i]), float(t_[i]), float(df_[i]), OT[ty])
            cmp_.add('bshift ' + fl([f_[i], k_[i], t_[i], df_[i], sh_[i], vol_[i]]) + f' {ty}', float(sv[ty][i]),
                     float(df_[i] * (abs(f_[i] + sh_[i]) + abs(k_[i] + sh_[i]))))
            cmp_.add('bach ' + fl([f_[i], kn_[i], t_[i], df_[i], nv_[i]]) + f' {ty}', float(bv[ty][i]),
                     float(df_[i] * (abs(f_[i] - kn_[i]) + nv_[i] * math.sqrt(t_[i]))))
    for ty in (0, 3):
        for nm, mdl in (('bshift', BlackShifted(0.2, 0.01)), ('bach', Bachelier(0.01))):
            try:
                x = float(mdl.value(0.02, 0.03, 1.0, 0.9, OptionTypes.AMERICAN_CALL if ty == 3 else OptionTypes.ASIAN_CALL))
            except Exception as e:  # noqa: BLE001
                x = err_kind(e)
            tyv = 3 if ty == 3 else 7
            if nm == 'bshift':
                cmp_.add('bshift ' + fl([0.02, 0.03, 1.0, 0.9, 0.01, 0.2]) + f' {tyv}', x, 1.0)
            else:
                cmp_.add('bach ' + fl([0.02, 0.03, 1.0, 0.9, 0.01]) + f' {tyv}', x, 1.0)
    cmp_.run(drivers_ok)
    scols = {'f': f_, 'k': k_, 't': t_, 'df': df_, 'shift': sh_, 'vol': vol_}
    ssc = df_ * (np.abs(f_ + sh_) + np.abs(k_ + sh_))
    res = sv[1] - sv[2] - df_ * (f_ - k_)
    report_fail(ctx, np.abs(res) > 1e-9 * ssc, 'BlackShifted: call - put != df (F - K)', 'put-call-parity:shifted',
                {**scols, 'call': sv[1], 'put': sv[2], 'residual': res})
    Psh = {'s': f_ + sh_, 'k': k_ + sh_, 't': t_, 'r': -np.log(df_) / t_, 'q': -np.log(df_) / t_, 'v': vol_}
    for ty in (1, 2):
        exs = bs_expectation({**Psh, 'ty': np.full(n_s, ty)})
        tol = 1.2 * E0 * ssc + 1e-11 * ssc
        report_fail(ctx, ~(np.abs(sv[ty] - exs) <= tol), 'BlackShifted.value != discounted expectation of the payoff '
                    '(shifted lognormal)', 'value=expectation:shifted', {**scols, 'ty': ty, 'value': sv[ty], 'expectation': exs})
    bcols2 = {'f': f_, 'k': kn_, 't': t_, 'df': df_, 'vol': nv_}
    bscale = df_ * (np.abs(f_ - kn_) + nv_ * np.sqrt(t_))
    res = bv[1] - bv[2] - df_ * (f_ - kn_)
    report_fail(ctx, np.abs(res) > 1e-9 * bscale, 'Bachelier: call - put != df (F - K)', 'put-call-parity:bachelier',
                {**bcols2, 'call': bv[1], 'put': bv[2], 'residual': res})
    sdn = nv_ * np.sqrt(t_)
    for ty in (1, 2):
        kk_ = kn_[:, None]
        pay = (lambda x: np.maximum(x - kk_, 0.0)) if ty == 1 else (lambda x: np.maximum(kk_ - x, 0.0))
        exn = df_ * expectation(pay, lambda z: f_[:, None] + sdn[:, None] * z, (kn_ - f_) / sdn, np.full(n_s, 10.0))
        tol = 1e-11 * bscale
        report_fail(ctx, ~(np.abs(bv[ty] - exn) <= tol), 'Bachelier.value != discounted expectation of the payoff '
                    '(normal terminal law)', 'value=expectation:bachelier', {**bcols2, 'ty': ty, 'value': bv[ty], 'expectation': exn})
        lowb = np.maximum((1 if ty == 1 else -1) * df_ * (f_ - kn_), 0)
        report_fail(ctx, bv[ty] < lowb - 1e-12 * bscale, 'Bachelier.value below intrinsic', 'bounds:bachelier',
                    {**bcols2, 'ty': ty, 'value': bv[ty]})
    ctx.count('O:shifted/Bachelier parity+expectation+bounds', 7 * n_s, sample={'f': float(f_[0]), 'k': float(k_[0])})

    # ============================================================ product classes: vanilla, digital, index
    n_p = 150 if quick else 1200
    vd = Date(15, 6, 2021)
    rp = ctx.rng('products')
    cmp_ = Cmp(ctx, 'EquityVanillaOption / EquityDigitalOption / EquityIndexOption (scalar and array spot)')
    n_prod_oracle = 0
    index_raise = 0
    for j in range(n_p):
        i = rp.randrange(n_main)
        days = max(2, min(10950, int(round(float(P['t'][i]) * 365))))
        if rp.random() < 0.15:
            days = rp.choice([2, 3, 7, 30, 365, 366, 10950])
        ed = vd.add_days(days)
        traw = (ed - vd) / 365.0
        r, q, v, k, s = (float(P[c][i]) for c in 'rqvks')
        # keep the moneyness of the sampled point in std-dev units after the change of T
        sdn_, sdo = v * math.sqrt(traw), float(a['vs'][i])
        k = s * math.exp((r - q) * traw) * math.exp(max(-12, min(12, -float(a['lm'][i]) / sdo * sdn_)))
        dc, qc = DiscountCurveFlat(vd, r), DiscountCurveFlat(vd, q)
        df, dq = float(dc.df(ed)), float(qc.df(ed))
        mdl = BlackScholes(v)
        nopt = rp.choice([1.0, 1.0, 10.0, 250.0])
        spots = np.array([s * math.exp(rp.gauss(0, 1) * min(1.0, sdn_)) for _ in range(3)])
        rr, qq = -math.log(df) / traw, -math.log(dq) / traw
        Pj = {'s': np.array([s]), 't': np.array([traw]), 'k': np.array([k]), 'r': np.array([rr]), 'q': np.array([qq]),
              'v': np.array([v]), 'ty': np.array([1])}
        aj = aux(Pj)
        scj = {'value': float(aj['ss'] + aj['kk']) * nopt, 'delta': float(aj['dq']), 'gamma': float(aj['dq'] / (s * aj['vs'])),
               'vega': float(aj['ss'] * math.sqrt(traw)),
               'theta': float(aj['ss'] * v / math.sqrt(traw) + abs(rr) * aj['kk'] + abs(qq) * aj['ss']),
               'rho': float(aj['kk'] * traw), 'vanna': float(aj['dq'] * math.sqrt(traw) / v * (1 + abs(aj['d2'])))}
        got = {}
        for ty in (1, 2):
            opt = EquityVanillaOption(ed, k, OT[ty], nopt)
            for meth in ['value', 'delta', 'gamma', 'vega', 'theta', 'rho', 'vanna']:
                x = float(getattr(opt, meth)(vd, s, dc, qc, mdl))
                got[(meth, ty)] = x
                cmp_.add(f'van.{meth} ' + fl([s, traw, df, dq, k, v, nopt]) + f' {ty}', x, scj[meth])
            arr = opt.value(vd, spots, dc, qc, mdl)
            arrd = opt.delta(vd, spots, dc, qc, mdl)
            for s2, x, y in zip(spots, arr, arrd):
                cmp_.add('van.value ' + fl([s2, traw, df, dq, k, v, nopt]) + f' {ty}', float(x), scj['value'] * max(1.0, s2 / s))
                cmp_.add('van.delta ' + fl([s2, traw, df, dq, k, v, nopt]) + f' {ty}', float(y), scj['delta'])
        # direct oracles through the product classes
        n_prod_oracle += 6
        par = got[('value', 1)] - got[('value', 2)] - nopt * (s * dq - k * df)
        if abs(par) > 1e-9 * scj['value']:
            viol(ctx, 'EquityVanillaOption: call - put != n (S dq - K df)', {'s': s, 'k': k, 'days': days, 'r': r, 'q': q, 'v': v,
                 'num_options': nopt, 'call': got[('value', 1)], 'put': got[('value', 2)]}, 'put-call-parity:vanilla-class')
        h = s * 1e-3 * min(1.0, sdn_)
        for ty in (1, 2):
            opt = EquityVanillaOption(ed, k, OT[ty], 1.0)
            Pt = {**Pj, 'ty': np.array([ty])}
            D, err = central(lambda X: np.array([float(opt.value(vd, float(X['s'][0]), dc, qc, mdl))]), value_noise, Pt, 's',
                             np.array([h]))
            tol = float(err[0]) + 1.2 * E0 * scj['delta'] + 1e-9 * abs(got[('delta', ty)])
            if not abs(got[('delta', ty)] - float(D[0])) <= tol:
                viol(ctx, 'EquityVanillaOption.delta is not the spot-derivative of EquityVanillaOption.value',
                     {'s': s, 'k': k, 'days': days, 'r': r, 'q': q, 'v': v, 'ty': ty, 'delta': got[('delta', ty)],
                      'bump_derivative': float(D[0]), 'tol': tol}, 'greek=bump:vanilla-class-delta')
            D, err = central(lambda X: np.array([float(opt.delta(vd, float(X['s'][0]), dc, qc, mdl))]), delta_noise, Pt, 's',
                             np.array([h]))
            tol = float(err[0]) + 1e-9 * abs(got[('gamma', ty)])
            if not abs(got[('gamma', ty)] - float(D[0])) <= tol:
                viol(ctx, 'EquityVanillaOption.gamma is not the spot-derivative of EquityVanillaOption.delta',
                     {'s': s, 'k': k, 'days': days, 'r': r, 'q': q, 'v': v, 'ty': ty, 'gamma': got[('gamma', ty)],
                      'bump_derivative': float(D[0]), 'tol': tol}, 'greek=bump:vanilla-class-gamma')
            hv = v * 1e-3 * min(1.0, sdn_ / (1 + abs(float(aj['lm']))))
            D, err = central(lambda X: np.array([float(opt.value(vd, s, dc, qc, BlackScholes(float(X['v'][0]))))]),
                             value_noise, Pt, 'v', np.array([hv]))
            tol = float(err[0]) + 1e-9 * abs(got[('vega', ty)])
            if not abs(got[('vega', ty)] - float(D[0])) <= tol:
                viol(ctx, 'EquityVanillaOption.vega is not the vol-derivative of EquityVanillaOption.value',
                     {'s': s, 'k': k, 'days': days, 'r': r, 'q': q, 'v': v, 'ty': ty, 'vega': got[('vega', ty)],
                      'bump_derivative': float(D[0]), 'tol': tol}, 'greek=bump:vanilla-class-vega')
            D, err = central(lambda X: np.array([float(opt.delta(vd, s, dc, qc, BlackScholes(float(X['v'][0]))))]),
                             delta_noise, Pt, 'v', np.array([hv]))
            g = got[('vanna', ty)]
            tol = float(err[0]) + 1e-9 * abs(g)
            if not abs(g - float(D[0])) <= tol:
                tt = math.sqrt(traw)
                fnd = FINDING_VANNA if abs(g + tt * float(D[0])) <= tt * tol + 1e-9 * abs(g) else None
                viol(ctx, 'EquityVanillaOption.vanna is not d(delta)/d(vol)', {'s': s, 'k': k, 'days': days, 'r': r, 'q': q,
                     'v': v, 'ty': ty, 'vanna': g, 'bump_derivative': float(D[0]), 'tol': tol},
                     'greek=bump:vanilla-class-vanna', finding=fnd)
        # re-use of one product object across valuation dates: a call's result must not depend on what was
        # asked before (C05: each Greek is the derivative of the value REPORTED for the same arguments; C18)
        if days >= 4:
            vd_other = vd.add_days(days // 2)
            dc_o, qc_o = DiscountCurveFlat(vd_other, r), DiscountCurveFlat(vd_other, q)
            for ty in (1, 2):
                o2 = EquityVanillaOption(ed, k, OT[ty], nopt)
                for first in ('value', 'delta'):
                    getattr(o2, first)(vd_other, s, dc_o, qc_o, mdl)
                    for meth in ['value', 'delta', 'gamma', 'vega', 'theta', 'rho', 'vanna']:
                        x2 = float(getattr(o2, meth)(vd, s, dc, qc, mdl))
                        x1 = got[(meth, ty)]
                        n_prod_oracle += 1
                        if not (x2 == x1 or abs(x2 - x1) <= 1e-12 * max(abs(x1), scj[meth])):
                            viol(ctx, f'EquityVanillaOption.{meth} depends on an earlier call at another valuation date',
                                 {'s': s, 'k': k, 'days': days, 'r': r, 'q': q, 'v': v, 'ty': ty, 'first_call': first,
                                  'first_call_days_later': days // 2, 'fresh_object': x1, 'reused_object': x2},
                                 f'history-independence:vanilla-class-{meth}')
                        getattr(o2, first)(vd_other, s, dc_o, qc_o, mdl)
        # digitals
        dig = {}
        for ty in (1, 2):
            for dt_code, dt_enum in ((1, FinDigitalOptionTypes.CASH_OR_NOTHING), (2, FinDigitalOptionTypes.ASSET_OR_NOTHING)):
                dopt = EquityDigitalOption(ed, k, OT[ty], dt_enum)
                x = float(dopt.value(vd, s, dc, qc, mdl))
                dig[(ty, dt_code)] = x
                dscale = df if dt_code == 1 else s * dq
                cmp_.add('digital ' + fl([s, traw, df, dq, k, v]) + f' {ty} {dt_code}', x, dscale)
                arr = dopt.value(vd, spots, dc, qc, mdl)
                for s2, y in zip(spots, arr):
                    cmp_.add('digital ' + fl([s2, traw, df, dq, k, v]) + f' {ty} {dt_code}', float(y),
                             df if dt_code == 1 else s2 * dq)
        n_prod_oracle += 5
        dcase = {'s': s, 'k': k, 'days': days, 'r': r, 'q': q, 'v': v, **{f'{"call" if t_ == 1 else "put"}_{"cash" if d_ == 1 else "asset"}': x for (t_, d_), x in dig.items()}}
        if abs(dig[(1, 1)] + dig[(2, 1)] - df) > 1e-12 * df:
            viol(ctx, 'digital: cash call + cash put != df', dcase, 'digital:cash-call+put=df')
        if abs(dig[(1, 2)] + dig[(2, 2)] - s * dq) > 1e-12 * s * dq:
            viol(ctx, 'digital: asset call + asset put != S dq', dcase, 'digital:asset-call+put=S*dq')
        if traw >= 1e-6:
            for ty in (1, 2):
                sg = 1.0 if ty == 1 else -1.0
                lhs = sg * (dig[(ty, 2)] - k * dig[(ty, 1)])
                rhs = got[('value', ty)] / nopt
                if abs(lhs - rhs) > 1e-9 * scj['value'] / nopt:
                    viol(ctx, 'digital: ±(asset - K cash) != vanilla value', {**dcase, 'ty': ty, 'asset-K*cash': lhs, 'vanilla': rhs},
                         'digital:asset-K*cash=vanilla')
            Pd = {**Pj}
            for ty in (1, 2):
                for dcode, kind in ((1, 'cash'), (2, 'asset')):
                    exd = float(bs_expectation({**Pd, 'ty': np.array([ty])}, kind)[0])
                    tol = 1.2 * E0 * (df if dcode == 1 else s * dq) + 1e-11 * (df if dcode == 1 else s * dq)
                    if not abs(dig[(ty, dcode)] - exd) <= tol:
                        viol(ctx, 'EquityDigitalOption.value != discounted expectation of the digital payoff',
                             {**dcase, 'ty': ty, 'digital_type': kind, 'expectation': exd, 'tol': tol},
                             'value=expectation:digital')
        # index option (Black on the forward)
        fwd = s * math.exp((r - q) * traw)
        bm = Black(v)
        for ty in (1, 2):
            io_ = EquityIndexOption(ed, k, OT[ty], nopt)
            x = float(io_.value(vd, fwd, dc, bm))
            dfi = float(dc.df(ed) / dc.df(vd))
            cmp_.add('Black.value ' + fl([fwd, k, traw, dfi, v]) + f' {ty}', x / nopt, float(dfi * (fwd + k)))
            for meth in ['delta', 'gamma', 'vega', 'theta']:
                try:
                    y = float(getattr(io_, meth)(vd, fwd, dc, bm))
                    isc = {'delta': dfi, 'gamma': dfi / (fwd * sdn_), 'vega': dfi * fwd * math.sqrt(traw),
                           'theta': dfi * (fwd * v / math.sqrt(traw) + abs(rr) * (fwd + k))}[meth]
                    cmp_.add(f'Black.{meth} ' + fl([fwd, k, traw, dfi, v]) + f' {ty}', y, float(isc))
                except Exception as e:  # noqa: BLE001
                    index_raise += 1
                    viol(ctx, f'EquityIndexOption.{meth} raises for a European option with the Black model '
                              '(passes option_type_value where Black expects the enum)',
                         {'fwd': fwd, 'k': k, 'days': days, 'r': r, 'v': v, 'ty': ty, 'error': repr(e)[:120]},
                         f'index-option:{meth}-defined', finding=FINDING_INDEX if 'Option type must be' in str(e) else None)
    cmp_.run(drivers_ok)
    ctx.count('O:product classes parity/bump/digital relations/expectation', n_prod_oracle * 2,
              sample={'objects': n_p})

    # ============================================================ witnesses of the known findings (always replayed)
    w = float(A.bs_vanna(100.0, 1.0, 105.0, 0.03, 0.01, 0.25, 1))
    hh = 1e-5
    dbump = (float(A.bs_delta(100.0, 1.0, 105.0, 0.03, 0.01, 0.25 + hh, 1)) - float(A.bs_delta(100.0, 1.0, 105.0, 0.03, 0.01, 0.25 - hh, 1))) / (2 * hh)
    ctx.cov['vanna_witness'] = {'input': 'S=100,T=1,K=105,r=.03,q=.01,sigma=.25,call', 'bs_vanna': w, 'd(delta)/d(sigma)': dbump}
    if abs(w - dbump) > 1e-4 and FINDING_VANNA not in ctx.known_hits:
        ctx.violation('bs_vanna witness', {'bs_vanna': w, 'bump': dbump},
                      finding=FINDING_VANNA if abs(w + dbump) < 1e-4 else None, clause='greek=bump:bs_vanna')

    # Theorems that state a known defect stop building when the defect is repaired.  That is a stale finding, not a
    # violation — but only if the direct oracle confirms on this run that the clause now holds everywhere it was tested.
    for mod, fid in DEFECT_PROPS.items():
        mine = [b for b in ctx.broken if mod in b and b.startswith('proof:')]
        if mine and ctx.known_hits.get(fid, 0) == 0 and not any(
                (v.get('clause') or '').startswith('greek=bump') and 'vanna' in (v.get('clause') or '') for v in ctx.violations):
            ctx.broken = [b for b in ctx.broken if b not in mine]
            ctx.obligations = [o for o in ctx.obligations if not o.startswith(mod + ':')]
            ctx.notes.append(f'{mod} (theorems stating the known defect {fid}) no longer builds and the bump oracle finds '
                             f'vanna = d(delta)/d(sigma) at all {n_main} points: the defect is repaired; replace the module '
                             'by the positive theorem (see fixes/C05-bs-vanna.md) and mark the finding fixed')

    ctx.assumptions += [
        'theorems are about the real-number reading of the generated formulas; IEEE rounding is covered only by the '
        'tolerances of the correspondence (rtol 1e-9 + 1e-10·natural scale) and of the oracles',
        '|N - Phi| <= 7.5e-8 (Hull polynomial) is measured on every run (O:N accuracy), not proved; the identity '
        'value = discounted expectation is validated by quadrature with tolerance 1.2·E0·(S e^{-qT}+K e^{-rT}), not proved',
        'Greeks = derivatives are proved for the generated formulas with (N, nprime) replaced by any pair (Phi, phi) with '
        'Phi\' = phi and phi(x) = c·exp(-x²/2); the coded N itself is only piecewise smooth (jump 1.05e-9 at 0)',
        'product-class glue (dates → t, curves → df, r = -ln df / t, num_options) is hand-modelled in Driver/C05.lean and '
        'tied by correspondence only; curve construction itself belongs to C02',
        'SciPy norm.cdf/pdf (Bachelier) are represented in the Float model by a series stand-in checked to 1e-15 each run',
    ]
    return C.finish(ctx, 'proof',
                    'lake build ' + ' '.join(PROPS) + ' && lake env lean .cache/audit/Audit_C05.lean',
                    C.TRUSTED_BASE_COMMON + ['Mathlib real analysis (HasDerivAt, Real.exp/log/sqrt) as compiled',
                                             'registry/_astprep.py: inlining of calculate_d1_d2 and slicing of '
                                             'EquityDigitalOption.value (textual guards on the dropped glue)'],
                    RULE)


# ------------------------------------------------------------------------------------------- replay
def replay(ctx, path):
    rp = json.load(open(path))
    v = rp.get('violation')
    if not v:
        print('replay: no concrete input in this file:', rp.get('broken'))
        return 1
    print('replay: re-running the check with the recorded seed/tier; recorded case:')
    print(json.dumps(v, indent=1, default=str)[:1500])
    ctx2 = C.Ctx(ctx.prop, rp.get('tier', 'quick'), rp.get('seed', 0))
    return run(ctx2)
