"""C06 — linear rate products are worth the discounted sum of their projected flows.

Theorems: FinVerif/Props/C06a.lean (leg loops = discounted sums; sign; linearity; past flows),
C06b.lean (swap = fixed + float; par rate; telescoping float leg), C06c.lean (deposit / FRA / OIS par
rate: as coded, with the kernel-checked counterexamples behind the known findings), C06d.lean (cached tables),
C06e.lean (hand model's loop bodies / small methods = the functions generated from the source; liveness filter per flow),
C06f.lean (telescoping with fixing and principal, rescaling invariance, value = (cpn − par)·pv01·N, basis swaps, flat annuity),
C06g.lean (equity leg = discounted sum; notional array = reset notional of the equity period containing each accrual start
(as repaired; not the front-aligned repeat, not tiled); equity swap with stubs / more rate periods than resets worth zero at inception).
Correspondence: implementation vs hand model (Driver/C06) and vs the source-independent spec
(Driver/C06Spec) on the schedule / year fractions / discount factors the harness recomputes itself
through the public API (Schedule, DayCount, Calendar, curve.df) — never from the leg's own tables.
Direct oracles on the implementation run on every case."""
import contextlib
import io
import math
import os
import sys
import warnings

sys.path.insert(0, os.path.dirname(os.path.dirname(os.path.abspath(__file__))))
import common as C  # noqa: E402
import dates as D   # noqa: E402
from floatcmp import f2b, b2f  # noqa: E402
from parallel import driver_parallel  # noqa: E402
from props import c06h as H6  # noqa: E402   (growth round 6: basis swaps as wholes, future -> FRA, legacy package)

# Gen/SwapsF, Gen/SwapsR: loop bodies / after-loop blocks / pv01 / swap_rate cut out of the source by tools/py2lean/registry/swaps.py;
# Gen/RatesR (shared with C01): IborDeposit.value, IborFRA.value.  Props/C06e proves hand model = generated.
GEN = ['SwapsF', 'SwapsR', 'RatesR', 'BasisR']
PROPS = ['FinVerif.Props.C06a', 'FinVerif.Props.C06b', 'FinVerif.Props.C06c', 'FinVerif.Props.C06d',
         'FinVerif.Props.C06e', 'FinVerif.Props.C06f', 'FinVerif.Props.C06g', 'FinVerif.Props.C06h']
DRIVERS = ['FinVerif.Driver.C06']
GEN_DRIVERS = ['FinVerif.Driver.C06Gen']      # folds of the generated loop bodies (needs Gen/SwapsF)
SPEC_DRIVERS = ['FinVerif.Driver.C06Spec']
EXTRA_FILES = ['FinVerif/Lemmas/C06.lean', 'FinVerif/Model/C06.lean', 'FinVerif/Model/C06x.lean', 'FinVerif/Model/C06h.lean', 'FinVerif/Spec/C06.lean',
               'FinVerif/Spec/C06x.lean']

RTOL = 1e-10

RULE = ('one case = one leg / swap / basis swap / equity swap (equity and rate frequencies drawn independently) / deposit / FRA with seed-drawn effective date (biased to month ends, leap days, '
        'IMM dates), termination (tenor or explicit date, incl. stubs), frequency (ANNUAL..MONTHLY), every day count, '
        'calendar, adjustment and date-generation rule, EOM flag, payment lag, notional / coupon / spread / principal '
        'of both signs, valuation date before / on / after the effective date (incl. exactly on payment dates and '
        'after the last one) and a curve drawn from DiscountCurveFlat (4 compounding types), DiscountCurve with '
        'pillars (3 interpolations) and IborSingleCurve bootstrapped from deposits+FRAs+swaps. evaluations = '
        'cases compared with model and spec; non-trivial = the case has at least one flow after the valuation '
        'date and valued without error. Cases are distinct with overwhelming probability (continuous draws).')

FREQS = ['ANNUAL', 'SEMI_ANNUAL', 'TRI_ANNUAL', 'QUARTERLY', 'MONTHLY']


def close(a, b, scale, rtol=RTOL):
    """|a-b| <= rtol*(max(|a|,|b|) + scale); NaN/inf compared as kinds."""
    a = float(a)
    b = float(b)
    if math.isnan(a) or math.isnan(b):
        return math.isnan(a) and math.isnan(b)
    if math.isinf(a) or math.isinf(b):
        return a == b
    return abs(a - b) <= rtol * (max(abs(a), abs(b)) + abs(scale))


def err_kind(e):
    from financepy.utils.error import FinError
    if isinstance(e, FinError):
        return 'E:FinError'
    return 'E:' + type(e).__name__


def same_outcome(impl_err, own_err, v=None):
    """Error kinds agree.  A zero index-basis year fraction divides by zero: ZeroDivisionError on Python floats,
    inf/nan on NumPy scalars (which one the implementation meets depends on the curve class) — one outcome."""
    if own_err == 'E:ZeroDivisionError':
        return impl_err == own_err or (impl_err is None and v is not None and not math.isfinite(v))
    return impl_err == own_err


class Env:
    """Everything imported from the implementation, plus the curves of this run."""
    pass


def load_env(ctx):
    C.import_financepy()
    import numpy as np
    from financepy.utils.date import Date
    from financepy.utils.day_count import DayCount, DayCountTypes
    from financepy.utils.frequency import FrequencyTypes
    from financepy.utils.calendar import Calendar, CalendarTypes, BusDayAdjustTypes, DateGenRuleTypes
    from financepy.utils.schedule import Schedule
    from financepy.utils.global_types import SwapTypes
    from financepy.utils.error import FinError
    from financepy.products.rates.swap_fixed_leg import SwapFixedLeg
    from financepy.products.rates.swap_float_leg import SwapFloatLeg
    from financepy.products.rates.ibor_swap import IborSwap
    from financepy.products.rates.ois import OIS
    from financepy.products.rates.ibor_basis_swap import IborBasisSwap
    from financepy.products.rates.ibor_deposit import IborDeposit
    from financepy.products.rates.ibor_fra import IborFRA
    from financepy.products.rates.ibor_single_curve import IborSingleCurve
    from financepy.market.curves.discount_curve import DiscountCurve
    from financepy.market.curves.discount_curve_flat import DiscountCurveFlat
    from financepy.market.curves.interpolator import InterpTypes
    e = Env()
    e.__dict__.update(locals())
    Date(1, 1, 2201)  # extend the date table once (table history is C13/C18's subject)
    return e


# --------------------------------------------------------------------------- curve tables
class DfTable:
    """The discount factors the harness read from a curve through its public `df(date)`; sent to the
    drivers as the curve *function* (date -> df)."""

    def __init__(self, curve):
        self.curve = curve
        self.tbl = {}

    def __call__(self, dt):
        k = int(dt.excel_dt)
        v = self.tbl.get(k)
        if v is None:
            v = self.tbl[k] = float(self.curve.df(dt))
        return v

    def enc(self):
        items = sorted(self.tbl.items())
        return f'{len(items)} ' + ' '.join(f'{k} {f2b(v)}' for k, v in items) if items else '0'


def ser(dt):
    return int(dt.excel_dt)


# --------------------------------------------------------------------------- case drawing
def draw_leg_params(E, rng, anchor_dmy):
    """Contract parameters of one leg (shared by legs and swaps)."""
    import datetime
    a = datetime.date(anchor_dmy[2], anchor_dmy[1], anchor_dmy[0])
    # effective date: around the curve anchor, biased to interesting calendar days
    k = rng.random()
    if k < 0.5:
        d, m, y = D.interesting_dates(rng, 1, a.year - 3, a.year + 3)[0]
    else:
        e = a + datetime.timedelta(days=rng.randint(-1200, 900))
        d, m, y = e.day, e.month, e.year
    eff = E.Date(d, m, y)
    k = rng.random()
    if k < 0.45:
        term = rng.choice(['3M', '6M', '9M', '1Y', '18M', '2Y', '3Y', '5Y', '7Y', '10Y', '12Y', '30M', '1M', '15M'])
    elif k < 0.55:
        term = rng.choice(['1W', '2W', '10D', '45D', '400D'])
    else:
        # explicit date -> stubs
        term = eff.add_days(rng.choice([rng.randint(2, 400), rng.randint(30, 4500)]))
        if rng.random() < 0.3:
            dd, mm, yy = D.interesting_dates(rng, 1, y, y + 10)[0]
            t2 = E.Date(dd, mm, yy)
            if t2 > eff:
                term = t2
    p = dict(
        eff=eff, term=term,
        freq=E.FrequencyTypes[rng.choice(FREQS)],
        dc=rng.choice(list(E.DayCountTypes)),
        cal=rng.choice(list(E.CalendarTypes)),
        bd=rng.choice(list(E.BusDayAdjustTypes)),
        dg=rng.choice(list(E.DateGenRuleTypes)),
        eom=rng.random() < 0.25,
        lag=rng.choice([0, 0, 0, 1, 2, 2, 3, 5, -1]),
        notional=rng.choice([1.0, -1.0, 100.0, 1e6, -1e6, 1e6 * rng.uniform(0.1, 50), -1e6 * rng.uniform(0.1, 50)]),
        isPay=rng.random() < 0.5,
    )
    return p


def draw_value_date(E, rng, eff, pay_dts):
    """Before / on / after effective; on a payment date; between payments; on / after the last payment."""
    k = rng.random()
    if k < 0.15:
        return eff.add_days(-rng.randint(1, 400))
    if k < 0.30:
        return eff
    if k < 0.45 and pay_dts:
        return rng.choice(pay_dts)
    if k < 0.50 and pay_dts:
        return pay_dts[-1].add_days(rng.choice([0, 1, 30]))
    if k < 0.55 and pay_dts:
        return rng.choice(pay_dts).add_days(rng.choice([-1, 1]))
    last = pay_dts[-1] if pay_dts else eff.add_days(400)
    span = max(int(last - eff), 1)
    return eff.add_days(rng.randint(0, span))


def tenor_or_date(t):
    return t if isinstance(t, str) else (t.d, t.m, t.y)


def describe(p, **kw):
    d = {k: (v.name if hasattr(v, 'name') and not isinstance(v, (int, float, str, bool)) else v) for k, v in p.items()}
    d['eff'] = (p['eff'].d, p['eff'].m, p['eff'].y)
    d['term'] = tenor_or_date(p['term'])
    for k, v in kw.items():
        d[k] = v
    return d


# --------------------------------------------------------------------------- the harness's own reading
def own_schedule(E, p):
    """Schedule, accrual periods, payment dates and year fractions recomputed through the public API,
    independently of the leg's cached tables: accrual over [prev, next] of the ADJUSTED schedule, year
    fraction in the leg's basis over the accrual dates, payment = accrual end + lag business days."""
    term = p['term'] if not isinstance(p['term'], str) else p['eff'].add_tenor(p['term'])
    sched = E.Schedule(p['eff'], term, p['freq'], p['cal'], p['bd'], p['dg'], end_of_month=p['eom']).adjusted_dts
    if len(sched) < 2:
        raise E.FinError('Schedule has none or only one date')
    dcc = E.DayCount(p['dc'])
    cal = E.Calendar(p['cal'])
    periods = []
    for a, b in zip(sched[:-1], sched[1:]):
        pay = b if p['lag'] == 0 else cal.add_business_days(b, p['lag'])
        yf = dcc.year_frac(a, b)[0]
        periods.append((a, b, pay, float(yf)))
    return sched, periods


def gen_op(p, sched, periods):
    """GEN op for the model of generate_payments: schedule + the functions yf(a,b), addBD(d) as tables."""
    s = ' '.join(str(ser(d)) for d in sched)
    yfs = ' '.join(f'{ser(a)} {ser(b)} {f2b(y)}' for a, b, _, y in periods)
    bds = ' '.join(f'{ser(b)} {ser(pay)}' for _, b, pay, _ in periods)
    return f'GEN {p["lag"]} {len(sched)} {s} {len(periods)} {yfs} {len(periods)} {bds}'


def enc_periods(periods):
    return f'{len(periods)} ' + ' '.join(f'{ser(a)} {ser(b)} {ser(pay)} {f2b(y)}' for a, b, pay, y in periods)


def enc_fperiods(periods, ias, notionals):
    return f'{len(periods)} ' + ' '.join(
        f'{ser(a)} {ser(b)} {ser(pay)} {f2b(y)} {f2b(ia)} {f2b(n)}'
        for (a, b, pay, y), ia, n in zip(periods, ias, notionals))


def enc_flows(flows):
    return f'{len(flows)} ' + ' '.join(f'{pay} {f2b(a)} {f2b(r)} {f2b(n)}' for pay, a, r, n in flows) if flows else '0'


def enc_opt(x):
    return f'1 {f2b(x)}' if x is not None else f'0 {f2b(0.0)}'


def parse_floats(s):
    return [b2f(t) for t in s.split()]


class Batch:
    """Ops queued for the two drivers, with the callback that judges each answer."""

    gen_ok = True      # set by run(): the generated-loop driver built

    def __init__(self):
        self.model_ops, self.model_cb = [], []
        self.spec_ops, self.spec_cb = [], []
        self.gen_ops, self.gen_cb = [], []

    def model(self, op, cb):
        self.model_ops.append(op)
        self.model_cb.append(cb)

    def gen(self, op, cb):
        """op for Driver/C06Gen (the loop bodies generated from the source, folded)"""
        self.gen_ops.append(op)
        self.gen_cb.append(cb)

    def spec(self, op, cb):
        self.spec_ops.append(op)
        self.spec_cb.append(cb)

    def flush(self, ctx, drivers_ok, spec_ok):
        if self.spec_ops and spec_ok:
            try:
                outs = driver_parallel('C06Spec', self.spec_ops, chunk=4000)
                for o, cb, op in zip(outs, self.spec_cb, self.spec_ops):
                    cb(o, op)
            except C.DriverError as e:
                ctx.broke(f'spec driver failed: {str(e)[:300]}')
        if self.model_ops and drivers_ok:
            try:
                outs = driver_parallel('C06', self.model_ops, chunk=4000)
                for o, cb, op in zip(outs, self.model_cb, self.model_ops):
                    cb(o, op)
            except C.DriverError as e:
                ctx.broke(f'model driver failed: {str(e)[:300]}')
        if self.gen_ops and Batch.gen_ok:
            try:
                outs = driver_parallel('C06Gen', self.gen_ops, chunk=4000)
                for o, cb, op in zip(outs, self.gen_cb, self.gen_ops):
                    cb(o, op)
            except C.DriverError as e:
                ctx.broke(f'generated-loop driver failed: {str(e)[:300]}')
        self.__init__()


class Tally:
    def __init__(self):
        self.n = {}

    def add(self, k, v=1):
        self.n[k] = self.n.get(k, 0) + v


def tie_broken(ctx, T, comp, what):
    T.add(comp + ':model-disagree')
    if T.n[comp + ':model-disagree'] <= 3:
        ctx.broke(f'correspondence {comp}: {what}')


# --------------------------------------------------------------------------- curve drawing per case
def draw_curve(E, rng, pool, first_needed, vd, force_dc=None):
    """Returns (label, curve).  `first_needed` = earliest date whose df will be read.  `force_dc`: the
    curve's own day-count basis must be this one (for the telescoping identity)."""
    k = rng.random()
    DT, FT = E.DayCountTypes, E.FrequencyTypes
    if force_dc is not None and force_dc != DT.ACT_ACT_ISDA and k >= 0.2:
        k = 0.3
    if k < 0.2 and pool:
        cands = [c for c in pool if c[2] <= first_needed and (force_dc is None or c[1].dc_type == force_dc)]
        if cands:
            lab, crv, _ = rng.choice(cands)
            return lab, crv
    lo = first_needed if first_needed < vd else vd
    anchor = lo.add_days(-rng.choice([0, 0, 0, 3, 50, 700])) if rng.random() < 0.8 else vd
    if k < 0.6:
        ft = rng.choice([FT.CONTINUOUS, FT.ANNUAL, FT.SEMI_ANNUAL, FT.QUARTERLY, FT.MONTHLY, FT.SIMPLE])
        dc = rng.choice([DT.ACT_ACT_ISDA, DT.ACT_360, DT.THIRTY_E_360, DT.ACT_365F, DT.THIRTY_360_BOND, DT.SIMPLE])
        if force_dc is not None:
            dc = force_dc
        r = rng.choice([rng.uniform(-0.01, 0.08), rng.uniform(0.0, 0.05), 0.0])
        return f'flat/{ft.name}/{dc.name}/{r:.6f}', E.DiscountCurveFlat(anchor, r, ft, dc)
    it = rng.choice([E.InterpTypes.FLAT_FWD_RATES, E.InterpTypes.LINEAR_ZERO_RATES, E.InterpTypes.LINEAR_FWD_RATES,
                     E.InterpTypes.PCHIP_LOG_DISCOUNT])
    ts = [0.1, 0.25, 0.5, 1, 2, 3, 5, 7, 10, 15, 20, 30, 45, 70]
    z = rng.uniform(0.0, 0.04)
    dfs, dts = [], []
    for t in ts:
        z = z + rng.uniform(-0.003, 0.006)
        dts.append(anchor.add_days(int(round(365.25 * t))))
        dfs.append(math.exp(-z * t))
    return 'pillars/' + it.name, E.DiscountCurve(anchor, dts, E.np.array(dfs), it)


def make_pool(E, rng):
    """IborSingleCurve instances (bootstrapped from deposits, a FRA and swaps) on a few anchors."""
    pool = []
    DT = E.DayCountTypes
    for _ in range(3):
        d, m, y = D.interesting_dates(rng, 1, 2004, 2034)[0]
        anchor = E.Date(d, m, y)
        settle = anchor.add_weekdays(2)
        depos = [E.IborDeposit(settle, t, rng.uniform(0.005, 0.03), DT.ACT_360) for t in ('1M', '3M', '6M')]
        fras = [E.IborFRA(settle.add_tenor('6M'), '3M', rng.uniform(0.01, 0.035), DT.ACT_360)]
        base = rng.uniform(0.01, 0.03)
        fdc = rng.choice([DT.THIRTY_E_360, DT.ACT_365F])
        swaps = [E.IborSwap(settle, t, E.SwapTypes.PAY, base + 0.0015 * i + rng.uniform(0, 0.001),
                            E.FrequencyTypes.SEMI_ANNUAL, fdc)
                 for i, t in enumerate(('1Y', '2Y', '3Y', '5Y', '7Y', '10Y', '15Y', '20Y', '30Y', '50Y'))]
        with warnings.catch_warnings():
            warnings.simplefilter('ignore')
            try:
                crv = E.IborSingleCurve(anchor, depos, fras, swaps)
                pool.append((f'ibor-single-curve@{d}-{m}-{y}', crv, anchor))
            except Exception:  # noqa: BLE001  (bootstrap is C01's subject)
                pass
    return pool


def ref_date(E, rng, pool):
    """Reference date around which the contract of a case is drawn."""
    if pool and rng.random() < 0.25:
        a = rng.choice(pool)[2]
        a = a.add_days(rng.randint(0, 2000))
        return (a.d, a.m, a.y)
    return D.interesting_dates(rng, 1, 1996, 2045)[0]


# --------------------------------------------------------------------------- fixed leg
def mk_fixed(E, p, cpn=None, notional=None, isPay=None, principal=None):
    return E.SwapFixedLeg(p['eff'], p['term'], E.SwapTypes.PAY if (p['isPay'] if isPay is None else isPay) else E.SwapTypes.RECEIVE,
                          p['cpn'] if cpn is None else cpn, p['freq'], p['dc'],
                          p['notional'] if notional is None else notional,
                          p['principal'] if principal is None else principal,
                          p['lag'], p['cal'], p['bd'], p['dg'], p['eom'])


def check_tables(ctx, T, comp, leg, periods, case):
    """Oracle on the generated tables: accrual over consecutive adjusted schedule dates, year fraction over the
    ACCRUAL dates in the leg's basis, payment date = accrual end moved by the lag."""
    ok = True
    n = len(periods)
    if not (len(leg.start_accrued_dts) == len(leg.end_accrued_dts) == len(leg.payment_dts) == len(leg.year_fracs) == n):
        ctx.violation(f'{comp}: number of generated flows differs from the schedule periods',
                      dict(case, impl_n=len(leg.payment_dts), expected_n=n), clause='schedule->payments')
        return False
    for i, (a, b, pay, yf) in enumerate(periods):
        if leg.start_accrued_dts[i] != a or leg.end_accrued_dts[i] != b:
            ctx.violation(f'{comp}: accrual period {i} is not [schedule[{i}], schedule[{i + 1}]]',
                          dict(case, i=i, impl=(str(leg.start_accrued_dts[i]), str(leg.end_accrued_dts[i])),
                               expected=(str(a), str(b))), clause='accrual-dates')
            ok = False
            break
        if leg.payment_dts[i] != pay:
            ctx.violation(f'{comp}: payment date {i} is not accrual end + payment lag business days',
                          dict(case, i=i, impl=str(leg.payment_dts[i]), expected=str(pay)), clause='payment-lag')
            ok = False
            break
        if not close(leg.year_fracs[i], yf, 0.0, 1e-13):
            ctx.violation(f'{comp}: year fraction {i} is not the day count over the accrual dates',
                          dict(case, i=i, impl=float(leg.year_fracs[i]), expected=yf,
                               accrual=(str(a), str(b)), pay=str(pay)), clause='accrual-from-accrual-dates')
            ok = False
            break
    return ok


def fixed_case(ctx, E, rng, pool, B, T, tag):
    comp = 'fixed_leg'
    p = draw_leg_params(E, rng, ref_date(E, rng, pool))
    p['cpn'] = rng.choice([rng.uniform(-0.03, 0.10), rng.uniform(0.0, 0.06), 0.0, -0.0125, 0.05])
    p['principal'] = rng.choice([0.0, 0.0, 0.0, 1.0, -1.0, 0.5])
    case = describe(p, tag=tag)
    impl_err = own_err = None
    try:
        leg = mk_fixed(E, p)
    except Exception as e:  # noqa: BLE001
        impl_err = err_kind(e)
    try:
        sched, periods = own_schedule(E, p)
    except Exception as e:  # noqa: BLE001
        own_err = err_kind(e)
    if impl_err or own_err:
        T.add(comp + ':ctor-error')
        if impl_err != own_err:
            ctx.violation(f'{comp}: constructor outcome {impl_err} but schedule/day count gives {own_err}', case,
                          clause='constructor-error')
        return 0
    N, cpn, P = p['notional'], p['cpn'], p['principal']
    if not check_tables(ctx, T, comp, leg, periods, case):
        return 0
    for i, (a, b, pay, yf) in enumerate(periods):
        if not close(leg.payments[i], yf * cpn * N, 0.0, 1e-13):
            ctx.violation(f'{comp}: payment {i} is not year_frac x coupon x notional',
                          dict(case, i=i, impl=float(leg.payments[i]), expected=yf * cpn * N), clause='payment-amount')
            return 0
    impl_gen = ' '.join(f'{ser(leg.start_accrued_dts[i])} {ser(leg.end_accrued_dts[i])} {ser(leg.payment_dts[i])} '
                        f'{f2b(leg.year_fracs[i])}' for i in range(len(periods)))

    def cb_gen(o, op):
        if o != impl_gen:
            tie_broken(ctx, T, comp, f'generate_payments model≠implementation on `{op[:200]}`')
    B.model(gen_op(p, sched, periods), cb_gen)

    # ---- valuation
    pay_dts = [x[2] for x in periods]
    vd = draw_value_date(E, rng, p['eff'], pay_dts)
    future = [x for x in periods if x[2] > vd]
    lab, curve = draw_curve(E, rng, pool, vd, vd)
    case = dict(case, value_dt=(vd.d, vd.m, vd.y), curve=lab, curve_dt=str(curve.value_dt))
    dfT = DfTable(curve)
    impl_err = own_err = None
    try:
        v = float(leg.value(vd, curve))
    except Exception as e:  # noqa: BLE001
        impl_err = err_kind(e)
    try:
        dfv = dfT(vd)
        for x in future:
            dfT(x[2])
    except Exception as e:  # noqa: BLE001
        own_err = err_kind(e)
    if impl_err or own_err:
        T.add(comp + ':value-error')
        if not same_outcome(impl_err, own_err, v if impl_err is None else None):
            ctx.violation(f'{comp}: value() outcome {impl_err} but the curve gives {own_err} on the dates read', case,
                          clause='value-error')
        return 0
    sgn = -1.0 if p['isPay'] else 1.0
    terms = [yf * cpn * N * (dfT(pay) / dfv) for a, b, pay, yf in future]
    if periods[-1][2] > vd:
        terms.append(P * N * (dfT(periods[-1][2]) / dfv))
    exp = sgn * math.fsum(terms)
    scale = math.fsum(abs(t) for t in terms)
    if not close(v, exp, scale):
        ctx.violation(f'{comp}: value is not the discounted sum of the flows after the valuation date',
                      dict(case, impl=v, expected=exp, n_future=len(future), n=len(periods)), clause='value=sum')
    # rows
    for i, (a, b, pay, yf) in enumerate(periods):
        if pay > vd:
            e_df = dfT(pay) / dfv
            e_pv = yf * cpn * N * e_df + (P * N * e_df if i == len(periods) - 1 else 0.0)
            if not close(leg.payment_dfs[i], e_df, 0.0) or not close(leg.payment_pvs[i], e_pv, abs(P * N * e_df)):
                ctx.violation(f'{comp}: cached row {i} is not (df(pay)/df(value_dt), payment x df)',
                              dict(case, i=i, impl=(float(leg.payment_dfs[i]), float(leg.payment_pvs[i])),
                                   expected=(e_df, e_pv)), clause='rows')
                break
        elif leg.payment_pvs[i] != 0.0 or leg.payment_dfs[i] != 0.0:
            ctx.violation(f'{comp}: a flow paid on or before the valuation date contributes',
                          dict(case, i=i, pay=str(pay), impl_pv=float(leg.payment_pvs[i])), clause='past-flows')
            break
    impl_rows = [(0.0, float(leg.payments[i]), float(leg.payment_dfs[i]), float(leg.payment_pvs[i]),
                  float(leg.cumulative_pvs[i])) for i in range(len(periods))]

    def cb_fix(o, op):
        xs = parse_floats(o) if not o.startswith(('E:', 'bad')) else None
        if xs is None or len(xs) != 1 + 5 * len(impl_rows):
            tie_broken(ctx, T, comp, f'model answered `{o[:60]}` on {case}')
            return
        bad = not close(xs[0], v, scale)
        for i, r in enumerate(impl_rows):
            m = xs[1 + 5 * i: 6 + 5 * i]
            for j in (1, 2, 3, 4):
                if not close(m[j], r[j], scale if j >= 3 else 0.0):
                    bad = True
        if bad:
            tie_broken(ctx, T, comp, f'value/rows model≠implementation (model pv {xs[0]}, impl {v}) on {case}')
    payload = f'{int(p["isPay"])} {f2b(cpn)} {f2b(N)} {f2b(P)} {ser(vd)} {enc_periods(periods)} {dfT.enc()}'
    B.model('FIX ' + payload, cb_fix)

    def cb_gfx(o, op):
        xs = parse_floats(o) if not o.startswith(('E:', 'bad')) else None
        ok = xs is not None and len(xs) == 1 + 5 * len(impl_rows) and close(xs[0], v, scale) and all(
            close(xs[1 + 5 * i + j], r[j], scale if j >= 3 else 0.0) for i, r in enumerate(impl_rows) for j in (1, 2, 3, 4))
        if not ok:
            tie_broken(ctx, T, comp, f'fold of the GENERATED loop body (Gen/SwapsF.fixed_leg_step/_tail) ≠ implementation '
                                     f'(answer `{o[:40]}`, impl {v}) on {case}')
    B.gen('GFX ' + payload, cb_gfx)

    flows = [(ser(pay), yf, cpn, N) for a, b, pay, yf in periods] + [(ser(periods[-1][2]), 1.0, P, N)]

    def cb_spec(o, op):
        if o.startswith(('E:', 'bad')) or not close(b2f(o), v, scale):
            ctx.violation(f'{comp}: implementation disagrees with the specification Σ accrual×rate×notional×df/df(value_dt)',
                          dict(case, impl=v, spec=(b2f(o) if o.isdigit() else o)), clause='value=sum(spec-driver)')
    # the spec reads df only on dates after vd: give it exactly those
    B.spec(f'PV {int(p["isPay"])} {ser(vd)} {enc_flows(flows)} {dfT.enc()}', cb_spec)

    # ---- direct oracles: pay = -receive, linearity in notional and coupon
    try:
        v_opp = float(mk_fixed(E, p, isPay=not p['isPay']).value(vd, curve))
        if not close(v_opp, -v, scale, 1e-13):
            ctx.violation(f'{comp}: PAY value is not minus RECEIVE value', dict(case, this=v, opposite=v_opp),
                          clause='pay=-receive')
        k = rng.choice([2.0, -3.0, 0.5, -1.0])
        v_k = float(mk_fixed(E, p, notional=k * N).value(vd, curve))
        if not close(v_k, k * v, abs(k) * scale):
            ctx.violation(f'{comp}: value is not linear in the notional', dict(case, k=k, v=v, v_k=v_k),
                          clause='linear-notional')
        c2 = rng.uniform(-0.05, 0.08)
        v_c2 = float(mk_fixed(E, p, cpn=c2).value(vd, curve))
        v_s = float(mk_fixed(E, p, cpn=cpn + c2).value(vd, curve))
        v_0 = float(mk_fixed(E, p, cpn=0.0).value(vd, curve))
        sc = scale + abs(v_c2) + abs(v_s)
        if not close(v + v_c2, v_s + v_0, sc):
            ctx.violation(f'{comp}: value is not affine in the coupon', dict(case, c2=c2, v=v, v_c2=v_c2, v_sum=v_s, v_0=v_0),
                          clause='linear-coupon')
        if P == 0.0 and v_0 != 0.0:
            ctx.violation(f'{comp}: zero coupon, zero principal leg has non-zero value', dict(case, v_0=v_0),
                          clause='linear-coupon')
    except Exception as e:  # noqa: BLE001
        ctx.violation(f'{comp}: twin leg raised {err_kind(e)}', case, clause='twin-error')
    T.add(comp + ':lag!=0', int(p['lag'] != 0))
    T.add(comp + ':vd<eff', int(vd < p['eff']))
    T.add(comp + ':vd=eff', int(vd == p['eff']))
    T.add(comp + ':vd=paydate', int(any(vd == x for x in pay_dts)))
    T.add(comp + ':all-past', int(not future))
    T.add(comp + ':curve=' + lab.split('/')[0].split('@')[0])
    T.add(comp + ':stub', int(not isinstance(p['term'], str)))
    return 1 if future else 0


# --------------------------------------------------------------------------- float leg
def mk_float(E, p, spread=None, notional=None, isPay=None):
    leg = E.SwapFloatLeg(p['eff'], p['term'], E.SwapTypes.PAY if (p['isPay'] if isPay is None else isPay) else E.SwapTypes.RECEIVE,
                         p['spread'] if spread is None else spread, p['freq'], p['dc'],
                         p['notional'] if notional is None else notional,
                         p['principal'], p['lag'], p['cal'], p['bd'], p['dg'], p['eom'])
    return leg


def own_float(E, periods, vd, dfT, idxT, idx_dc, ff, spread, notionals):
    """The harness's own projection: (rate_i, amount_i, df_i, pv_i) for every period; first future coupon takes
    the first fixing when one is supplied, the others the simple forward of the index curve over the accrual
    period in the index curve's basis."""
    dcc = E.DayCount(idx_dc)
    dfv = dfT(vd)
    rows, ias = [], []
    first_done = False
    for (a, b, pay, yf), n in zip(periods, notionals):
        if pay > vd:
            ia = float(dcc.year_frac(a, b)[0])
            if ff is not None and not first_done:
                rate = ff
                first_done = True
            else:
                rate = (idxT(a) / idxT(b) - 1.0) / ia
            dfp = dfT(pay) / dfv
            amt = (rate + spread) * yf * n
            rows.append((rate, amt, dfp, amt * dfp))
            ias.append(ia)
        else:
            rows.append((0.0, 0.0, 0.0, 0.0))
            ias.append(float('nan'))
    return rows, ias


def float_case(ctx, E, rng, pool, B, T, tag):
    comp = 'float_leg'
    DT = E.DayCountTypes
    p = draw_leg_params(E, rng, ref_date(E, rng, pool))
    tele = rng.random() < 0.3     # draw a case that meets the telescoping conditions
    p['spread'] = 0.0 if tele else rng.choice([0.0, rng.uniform(-0.02, 0.03), 0.0025, -0.001])
    # the final exchange of principal is requested through the constructor argument (honoured since f4e65d4)
    p['principal'] = 0.0 if tele else rng.choice([0.0, 0.0, 0.0, 1.0, -1.0, 0.25])
    if tele:
        p['lag'] = 0
        p['dc'] = rng.choice([DT.ACT_360, DT.ACT_365F, DT.THIRTY_E_360, DT.ACT_ACT_ISDA, DT.ACT_ACT_ISDA, DT.THIRTY_360_BOND, DT.SIMPLE])
    case = describe(p, tag=tag)
    impl_err = own_err = None
    try:
        leg = mk_float(E, p)
    except Exception as e:  # noqa: BLE001
        impl_err = err_kind(e)
    try:
        sched, periods = own_schedule(E, p)
    except Exception as e:  # noqa: BLE001
        own_err = err_kind(e)
    if impl_err or own_err:
        T.add(comp + ':ctor-error')
        if impl_err != own_err:
            ctx.violation(f'{comp}: constructor outcome {impl_err} but schedule/day count gives {own_err}', case,
                          clause='constructor-error')
        return 0
    if not check_tables(ctx, T, comp, leg, periods, case):
        return 0
    # the constructor's `principal` argument must be what value() exchanges on the last payment date
    P = p['principal']
    if leg.principal != P:
        ctx.violation(f'{comp}: constructor does not store its `principal` argument (leg.principal = {leg.principal})',
                      dict(case, passed=P, stored=float(leg.principal)), clause='principal-argument')
        return 0
    N = p['notional']
    n = len(periods)
    notionals = [N] * n
    if (not tele) and rng.random() < 0.25:
        notionals = [N * (1.0 - 0.8 * i / n) for i in range(n)]       # amortising notional_array
        leg.notional_array = list(notionals)
    impl_gen = ' '.join(f'{ser(leg.start_accrued_dts[i])} {ser(leg.end_accrued_dts[i])} {ser(leg.payment_dts[i])} '
                        f'{f2b(leg.year_fracs[i])}' for i in range(n))

    def cb_gen(o, op):
        if o != impl_gen:
            tie_broken(ctx, T, comp, f'generate_payment_dts model≠implementation on `{op[:200]}`')
    B.model(gen_op(p, sched, periods), cb_gen)

    pay_dts = [x[2] for x in periods]
    vd = draw_value_date(E, rng, p['eff'], pay_dts)
    future = [x for x in periods if x[2] > vd]
    ff = None if (tele or rng.random() < 0.55) else rng.choice([rng.uniform(-0.01, 0.06), 0.0, 0.03])
    proj = future[1:] if ff is not None else future
    first_needed = min([vd] + [x[0] for x in proj])
    lab, curve = draw_curve(E, rng, pool, first_needed, vd, force_dc=p['dc'] if tele else None)
    same_idx = tele or rng.random() < 0.5
    if same_idx:
        idx, ilab = curve, 'same'
        pass_idx = None if rng.random() < 0.5 else curve
    else:
        ilab, idx = draw_curve(E, rng, pool, first_needed, vd)
        pass_idx = idx
    case = dict(case, value_dt=(vd.d, vd.m, vd.y), curve=lab, curve_dt=str(curve.value_dt), index_curve=ilab,
                index_curve_dt=str(idx.value_dt), first_fixing=ff, principal_used=P,
                amortising=notionals[0] != notionals[-1])
    dfT = DfTable(curve)
    idxT = dfT if idx is curve else DfTable(idx)
    impl_err = own_err = None
    try:
        v = float(leg.value(vd, curve, pass_idx, ff))
    except Exception as e:  # noqa: BLE001
        impl_err = err_kind(e)
    try:
        rows, ias = own_float(E, periods, vd, dfT, idxT, idx.dc_type, ff, p['spread'], notionals)
    except Exception as e:  # noqa: BLE001
        own_err = err_kind(e)
    if impl_err or own_err:
        T.add(comp + ':value-error')
        if not same_outcome(impl_err, own_err, v if impl_err is None else None):
            ctx.violation(f'{comp}: value() outcome {impl_err} but the curves / index day count give {own_err}', case,
                          clause='value-error')
        return 0
    sgn = -1.0 if p['isPay'] else 1.0
    terms = [r[3] for r in rows]
    if periods[-1][2] > vd:
        terms.append(P * rows[-1][2] * notionals[-1])
    exp = sgn * math.fsum(terms)
    scale = math.fsum(abs(t) for t in terms) + abs(N) * 1e-6
    if not close(v, exp, scale):
        ctx.violation(f'{comp}: value is not the discounted sum of the projected flows after the valuation date',
                      dict(case, impl=v, expected=exp, n_future=len(future), n=n), clause='value=sum')
    for i, (a, b, pay, yf) in enumerate(periods):
        r = rows[i]
        e_pv = r[3] + (P * r[2] * notionals[-1] if (i == n - 1 and pay > vd) else 0.0)
        im = (float(leg.rates[i]), float(leg.payments[i]), float(leg.payment_dfs[i]), float(leg.payment_pvs[i]))
        if pay > vd:
            if not (close(im[0], r[0], 1e-4) and close(im[1], r[1], abs(notionals[i]) * 1e-4) and close(im[2], r[2], 0.0)
                    and close(im[3], e_pv, abs(notionals[i]) * 1e-4 + abs(P * N))):
                which = 'first-fixing' if (ff is not None and (i == n - len(future) or close(im[0], ff, 0.0))) else 'rows'
                ctx.violation(f'{comp}: cached row {i} is not (projected rate, (rate+spread)×yf×notional, df, pv)',
                              dict(case, i=i, first_future=n - len(future), impl=im, expected=(r[0], r[1], r[2], e_pv)),
                              clause=which)
                break
        elif im != (0.0, 0.0, 0.0, 0.0):
            ctx.violation(f'{comp}: a flow paid on or before the valuation date contributes',
                          dict(case, i=i, pay=str(pay), impl=im), clause='past-flows')
            break
    impl_rows = [(float(leg.rates[i]), float(leg.payments[i]), float(leg.payment_dfs[i]), float(leg.payment_pvs[i]),
                  float(leg.cumulative_pvs[i])) for i in range(n)]

    def cb_flt(o, op):
        xs = parse_floats(o) if not o.startswith(('E:', 'bad')) else None
        if xs is None or len(xs) != 1 + 5 * n:
            tie_broken(ctx, T, comp, f'model answered `{o[:60]}` on {case}')
            return
        bad = not close(xs[0], v, scale)
        for i, r in enumerate(impl_rows):
            m = xs[1 + 5 * i: 6 + 5 * i]
            tol = (1e-4, abs(N) * 1e-4, 0.0, scale, scale)
            for j in range(5):
                if not close(m[j], r[j], tol[j]):
                    bad = True
        if bad:
            tie_broken(ctx, T, comp, f'value/rows model≠implementation (model pv {xs[0]}, impl {v}) on {case}')
    ias_enc = [ia if ia == ia else 0.0 for ia in ias]
    payload = (f'{int(p["isPay"])} {f2b(p["spread"])} {f2b(N)} {f2b(P)} {ser(vd)} {enc_opt(ff)} '
               f'{enc_fperiods(periods, ias_enc, notionals)} {dfT.enc()} {idxT.enc()}')
    B.model('FLT ' + payload, cb_flt)

    def cb_gfl(o, op):
        xs = parse_floats(o) if not o.startswith(('E:', 'bad')) else None
        tol = (1e-4, abs(N) * 1e-4, 0.0, scale, scale)
        ok = xs is not None and len(xs) == 1 + 5 * n and close(xs[0], v, scale) and all(
            close(xs[1 + 5 * i + j], r[j], tol[j]) for i, r in enumerate(impl_rows) for j in range(5))
        if not ok:
            tie_broken(ctx, T, comp, f'fold of the GENERATED loop body (Gen/SwapsF.float_leg_step/_tail) ≠ implementation '
                                     f'(answer `{o[:40]}`, impl {v}) on {case}')
    B.gen('GFL ' + payload, cb_gfl)

    flows = [(ser(pay), yf, rows[i][0] + p['spread'], notionals[i]) for i, (a, b, pay, yf) in enumerate(periods)]
    flows.append((ser(periods[-1][2]), 1.0, P, notionals[-1]))

    def cb_spec(o, op):
        if o.startswith(('E:', 'bad')) or not close(b2f(o), v, scale):
            ctx.violation(f'{comp}: implementation disagrees with the specification Σ accrual×rate×notional×df/df(value_dt)',
                          dict(case, impl=v, spec=(b2f(o) if o.isdigit() else o)), clause='value=sum(spec-driver)')
    B.spec(f'PV {int(p["isPay"])} {ser(vd)} {enc_flows(flows)} {dfT.enc()}', cb_spec)

    # ---- telescoping identity (direct oracle)
    tel_ok = (p['spread'] == 0.0 and ff is None and idx is curve and p['lag'] == 0 and P == 0.0
              and notionals[0] == notionals[-1] and idx.dc_type == p['dc'] and future)
    if tel_ok:
        k0 = n - len(future)
        e_tel = sgn * N * (dfT(periods[k0][0]) - dfT(periods[-1][1])) / dfT(vd)
        T.add(comp + ':telescoping-checked')
        if not close(v, e_tel, scale + abs(N)):
            ctx.violation(f'{comp}: spread-free single-curve leg is not notional × (df_start − df_end)/df(value_dt)',
                          dict(case, impl=v, expected=e_tel, first_future=k0), clause='telescoping')
    # ---- pay = -receive, linearity in notional and spread
    try:
        def twin(**kw):
            lg = mk_float(E, p, **kw)
            if notionals[0] != notionals[-1]:
                kk = kw.get('notional', N) / N
                lg.notional_array = [x * kk for x in notionals]
            return float(lg.value(vd, curve, pass_idx, ff))
        v_opp = twin(isPay=not p['isPay'])
        if not close(v_opp, -v, scale, 1e-13):
            ctx.violation(f'{comp}: PAY value is not minus RECEIVE value', dict(case, this=v, opposite=v_opp),
                          clause='pay=-receive')
        k = rng.choice([2.0, -3.0, 0.5, -1.0])
        v_k = twin(notional=k * N)
        if not close(v_k, k * v, abs(k) * scale):
            ctx.violation(f'{comp}: value is not linear in the notional', dict(case, k=k, v=v, v_k=v_k),
                          clause='linear-notional')
        s2 = rng.uniform(-0.02, 0.03)
        v_s2 = twin(spread=s2)
        v_s = twin(spread=p['spread'] + s2)
        v_0 = twin(spread=0.0)
        sc = scale + abs(v_s2) + abs(v_s) + abs(v_0)
        if not close(v + v_s2, v_s + v_0, sc):
            ctx.violation(f'{comp}: value is not affine in the spread',
                          dict(case, s2=s2, v=v, v_s2=v_s2, v_sum=v_s, v_0=v_0), clause='linear-spread')
    except Exception as e:  # noqa: BLE001
        ctx.violation(f'{comp}: twin leg raised {err_kind(e)}', case, clause='twin-error')
    T.add(comp + ':lag!=0', int(p['lag'] != 0))
    T.add(comp + ':vd<eff', int(vd < p['eff']))
    T.add(comp + ':vd=eff', int(vd == p['eff']))
    T.add(comp + ':vd=paydate', int(any(vd == x for x in pay_dts)))
    T.add(comp + ':all-past', int(not future))
    T.add(comp + ':first-fixing', int(ff is not None))
    T.add(comp + ':dual-curve', int(idx is not curve))
    T.add(comp + ':principal', int(P != 0.0))
    T.add(comp + ':amortising', int(notionals[0] != notionals[-1]))
    T.add(comp + ':curve=' + lab.split('/')[0].split('@')[0])
    return 1 if future else 0


# --------------------------------------------------------------------------- swaps (IborSwap, OIS, IborBasisSwap)
G_SMALL = 1e-12      # utils/global_vars.g_small (the literal in the generated swap_swap_rate; Props/C06e swapRate_is_generated)


def leg_params(p, which):
    q = dict(p)
    q['freq'], q['dc'] = p[which + '_freq'], p[which + '_dc']
    return q


def call(f):
    """(value, None) or (None, error kind); numpy scalars -> float."""
    try:
        return float(f()), None
    except Exception as e:  # noqa: BLE001
        return None, err_kind(e)


def nan_or_zerodiv(val, err):
    return err == 'E:ZeroDivisionError' or (val is not None and math.isnan(val))


def swap_case(ctx, E, rng, pool, B, T, tag, kind=None):
    kind = kind or ('ois' if rng.random() < 0.35 else 'ibor')
    comp = 'ois' if kind == 'ois' else 'ibor_swap'
    DT = E.DayCountTypes
    p = draw_leg_params(E, rng, ref_date(E, rng, pool))
    p['eom'] = False
    if kind == 'ibor':
        p['lag'] = 0
    p['fixed_freq'] = p['freq']
    p['fixed_dc'] = p['dc']
    p['float_freq'] = E.FrequencyTypes[rng.choice(FREQS)]
    p['float_dc'] = rng.choice(list(DT))
    p['cpn'] = rng.choice([rng.uniform(-0.02, 0.09), rng.uniform(0.005, 0.05), 0.03, 0.0])
    p['spread'] = rng.choice([0.0, 0.0, rng.uniform(-0.01, 0.02)])
    del p['freq'], p['dc']
    fixedIsPay = p['isPay']
    case = describe(p, tag=tag, product=kind)
    ST = E.SwapTypes

    def build(cpn, isPay=None):
        lt = ST.PAY if (fixedIsPay if isPay is None else isPay) else ST.RECEIVE
        if kind == 'ois':
            return E.OIS(p['eff'], p['term'], lt, cpn, p['fixed_freq'], p['fixed_dc'], p['notional'], p['lag'],
                         p['spread'], p['float_freq'], p['float_dc'], p['cal'], p['bd'], p['dg'])
        return E.IborSwap(p['eff'], p['term'], lt, cpn, p['fixed_freq'], p['fixed_dc'], p['notional'],
                          p['spread'], p['float_freq'], p['float_dc'], p['cal'], p['bd'], p['dg'])
    impl_err = own_err = None
    try:
        sw = build(p['cpn'])
    except Exception as e:  # noqa: BLE001
        impl_err = err_kind(e)
    try:
        _, fper = own_schedule(E, leg_params(p, 'fixed'))
        _, lper = own_schedule(E, leg_params(p, 'float'))
    except Exception as e:  # noqa: BLE001
        own_err = err_kind(e)
    if impl_err or own_err:
        T.add(comp + ':ctor-error')
        if impl_err != own_err:
            ctx.violation(f'{comp}: constructor outcome {impl_err} but schedule/day count gives {own_err}', case,
                          clause='constructor-error')
        return 0
    if not (check_tables(ctx, T, comp + '.fixed_leg', sw.fixed_leg, fper, case)
            and check_tables(ctx, T, comp + '.float_leg', sw.float_leg, lper, case)):
        return 0
    N, cpn, spread = p['notional'], p['cpn'], p['spread']
    if sw.fixed_leg.principal != 0.0 or sw.float_leg.principal != 0.0:   # IborSwap / OIS exchange no principal
        ctx.violation(f'{comp}: a leg of the swap carries a principal exchange',
                      dict(case, fixed=float(sw.fixed_leg.principal), float=float(sw.float_leg.principal)), clause='principal-argument')
        return 0
    vd = draw_value_date(E, rng, p['eff'], [x[2] for x in fper])
    ffut = [x for x in fper if x[2] > vd]
    lfut = [x for x in lper if x[2] > vd]
    ff = None if rng.random() < 0.6 else rng.uniform(-0.005, 0.05)
    proj = lfut[1:] if ff is not None else lfut
    first_needed = min([vd] + [x[0] for x in proj])
    lab, curve = draw_curve(E, rng, pool, first_needed, vd)
    if kind == 'ois' or rng.random() < 0.5:
        idx, pass_idx, ilab = curve, None, 'same'
    else:
        ilab, idx = draw_curve(E, rng, pool, first_needed, vd)
        pass_idx = idx
    case = dict(case, value_dt=(vd.d, vd.m, vd.y), curve=lab, curve_dt=str(curve.value_dt), index_curve=ilab,
                first_fixing=ff)
    dfT = DfTable(curve)
    idxT = dfT if idx is curve else DfTable(idx)

    def val(s):
        if kind == 'ois':
            return s.value(vd, curve, ff)
        return s.value(vd, curve, pass_idx, ff)

    def rate(s):
        if kind == 'ois':
            return s.swap_rate(vd, curve, ff)
        return s.swap_rate(vd, curve, pass_idx, ff)
    v, impl_err = call(lambda: val(sw))
    own_err = None
    try:
        dfv = dfT(vd)
        lrows, ias = own_float(E, lper, vd, dfT, idxT, idx.dc_type, ff, spread, [N] * len(lper))
        fterms = [yf * cpn * N * (dfT(pay) / dfv) for a, b, pay, yf in ffut]
        A = math.fsum(yf * (dfT(pay) / dfv) for a, b, pay, yf in ffut)
    except Exception as e:  # noqa: BLE001
        own_err = err_kind(e)
    if impl_err or own_err:
        T.add(comp + ':value-error')
        if not same_outcome(impl_err, own_err, v if impl_err is None else None):
            ctx.violation(f'{comp}: value() outcome {impl_err} but the curves / index day count give {own_err}', case,
                          clause='value-error')
        return 0
    sgn = -1.0 if fixedIsPay else 1.0
    e_fixed = sgn * math.fsum(fterms)
    e_float = -sgn * math.fsum(r[3] for r in lrows)
    F = math.fsum(r[3] for r in lrows) / N          # float leg PV per unit notional, receiver's view
    scale = math.fsum(abs(t) for t in fterms) + math.fsum(abs(r[3]) for r in lrows) + abs(N) * 1e-6
    vf, _ = call(lambda: sw.fixed_leg.value(vd, curve))
    vl, _ = call(lambda: sw.float_leg.value(vd, curve, idx, ff))
    if not close(v, vf + vl, scale, 1e-13):
        ctx.violation(f'{comp}: value is not fixed leg value + float leg value', dict(case, value=v, fixed=vf, float=vl),
                      clause='value=fixed+float')
    if not close(vf, e_fixed, scale) or not close(vl, e_float, scale):
        ctx.violation(f'{comp}: a leg value is not the discounted sum of its flows',
                      dict(case, fixed=vf, fixed_expected=e_fixed, float=vl, float_expected=e_float), clause='value=sum')
    v_opp, eo = call(lambda: val(build(cpn, isPay=not fixedIsPay)))
    if eo or not close(v_opp, -v, scale, 1e-13):
        ctx.violation(f'{comp}: pay-fixed value is not minus receive-fixed value', dict(case, this=v, opposite=v_opp, err=eo),
                      clause='pay=-receive')
    # ---- pv01 / par rate
    p01, e01 = call(lambda: sw.pv01(vd, curve))
    sr, esr = call(lambda: rate(sw))
    zero_cpn = (cpn == 0.0)
    fnd = 'C06/par-rate-coupon-zero'
    if zero_cpn:
        T.add(comp + ':coupon=0')
        if nan_or_zerodiv(p01, e01):
            ctx.violation(f'{comp}: pv01 divides by the fixed coupon (coupon 0 → {e01 or "nan"})',
                          dict(case, pv01=p01, err=e01), finding=fnd, clause='pv01')
        elif e01 or not close(p01, abs(A), 1e-6):
            ctx.violation(f'{comp}: pv01 is not the annuity', dict(case, pv01=p01, err=e01, annuity=A), clause='pv01')
        if nan_or_zerodiv(sr, esr):
            ctx.violation(f'{comp}: swap_rate divides by the fixed coupon (coupon 0 → {esr or "nan"})',
                          dict(case, swap_rate=sr, err=esr), finding=fnd, clause='swap_rate')
        elif not (esr == 'E:FinError' and abs(A) < G_SMALL) and (esr or not close(sr, F / A if A else float('nan'), 1e-4)):
            ctx.violation(f'{comp}: swap_rate is not float PV / annuity', dict(case, swap_rate=sr, err=esr), clause='swap_rate')
    else:
        if e01 or not close(p01, abs(A), 1e-6):
            ctx.violation(f'{comp}: pv01 is not |annuity| = |Σ yf×df(pay)/df(value_dt)|', dict(case, pv01=p01, err=e01, annuity=A),
                          clause='pv01')
        if abs(A) < G_SMALL:
            T.add(comp + ':annuity=0')
            ok = (esr == 'E:FinError') if kind == 'ibor' else (esr == 'E:ZeroDivisionError' or (sr is not None and not math.isfinite(sr)))
            if not ok:
                ctx.violation(f'{comp}: swap_rate with no future fixed flow should fail', dict(case, swap_rate=sr, err=esr),
                              clause='swap_rate')
        else:
            e_sr = F / A
            rs = abs(e_sr) + math.fsum(abs(r[3]) for r in lrows) / abs(N) / abs(A) * 1e-3 + 1e-9
            if esr or not close(sr, e_sr, rs):
                ctx.violation(f'{comp}: swap_rate is not float leg PV / annuity', dict(case, swap_rate=sr, err=esr, expected=e_sr),
                              clause='swap_rate')
            # the swap struck at its own reported par rate is worth zero
            if esr is None and math.isfinite(sr):
                v_par, ep = call(lambda: val(build(sr)))
                par_scale = scale + abs(sr * A * N)
                if ep or not abs(v_par) <= 1e-9 * par_scale:
                    ctx.violation(f'{comp}: the swap struck at its own swap_rate is not worth zero',
                                  dict(case, swap_rate=sr, value_at_par=v_par, err=ep), clause='par-rate-zeroes-value')
                T.add(comp + ':par-checked')
    if kind == 'ibor':
        try:
            det = sw.valuation_details(vd, curve, pass_idx, ff)
            if not close(float(det['value']), v, scale, 1e-13):
                ctx.violation(f'{comp}: valuation_details value differs from value()', dict(case, details=float(det['value']), value=v),
                              clause='valuation_details')
            mr = float(det['market_rate'])
            if esr is None and not close(mr, sr, 1e-6, 1e-9):
                ctx.violation(f'{comp}: valuation_details market_rate differs from swap_rate()', dict(case, market_rate=mr, swap_rate=sr),
                              finding=fnd if zero_cpn and math.isnan(mr) else None, clause='valuation_details')
        except ZeroDivisionError:
            if zero_cpn:
                ctx.violation(f'{comp}: valuation_details divides by the coupon', case, finding=fnd, clause='valuation_details')
            else:
                ctx.violation(f'{comp}: valuation_details raised ZeroDivisionError', case, clause='valuation_details')
        except Exception as e:  # noqa: BLE001
            _, e_eff = call(lambda: curve.df(p['eff']))     # fwd_pvbp reads df(effective date)
            if e_eff != err_kind(e):
                ctx.violation(f'{comp}: valuation_details raised {err_kind(e)}', case, clause='valuation_details')

    # ---- model
    def cb(o, op):
        t = o.split()
        if len(t) != 8:
            tie_broken(ctx, T, comp, f'model answered `{o[:80]}` on {case}')
            return
        bad = []
        for name, tok, val_, err_, sc in (('value', t[0], v, None, scale), ('fixed', t[1], vf, None, scale), ('float', t[2], vl, None, scale),
                                          ('pv01', t[3], p01, e01, 1e-6)):
            m = b2f(tok)
            if err_ == 'E:ZeroDivisionError':
                if not math.isnan(m):
                    bad.append(name)
            elif err_ or not close(m, val_, sc):
                bad.append(name)
        tok = t[4] if kind == 'ibor' else t[5]
        if esr == 'E:ZeroDivisionError' or (sr is not None and not math.isfinite(sr)):
            if not (tok.startswith('E:') or not math.isfinite(b2f(tok))):
                bad.append('swap_rate')
        elif esr:
            if tok != esr:
                bad.append('swap_rate')
        elif tok.startswith('E:') or not close(b2f(tok), sr, abs(sr) * 1e-3 + 1e-7, 1e-8):
            bad.append('swap_rate')
        if bad:
            tie_broken(ctx, T, comp, f'model≠implementation on {bad} (model `{o}`; impl value {v}, pv01 {p01}/{e01}, swap_rate {sr}/{esr}) on {case}')
    fenc = enc_periods(fper)
    lenc = enc_fperiods(lper, [ia if ia == ia else 0.0 for ia in ias], [N] * len(lper))
    B.model(f'SWP {int(fixedIsPay)} {f2b(cpn)} {f2b(N)} {f2b(spread)} {ser(vd)} {enc_opt(ff)} {fenc} {lenc} {dfT.enc()} {idxT.enc()}', cb)
    # ---- the methods generated from the source (IborSwap.pv01 / swap_rate / valuation_details, OIS.pv01 / swap_rate),
    #      evaluated on the implementation's own leg values
    det_rate = None
    if kind == 'ibor' and cpn != 0.0:
        try:
            det_rate = float(sw.valuation_details(vd, curve, pass_idx, ff)['market_rate'])
        except Exception:  # noqa: BLE001
            det_rate = None

    def cb_gsr(o, op):
        t = o.split()
        if len(t) != 4:
            tie_broken(ctx, T, comp, f'generated pv01/swap_rate answered `{o[:80]}` on {case}')
            return
        bad = []
        if e01 is None and not close(b2f(t[0]), p01, 0.0, 1e-12):
            bad.append('pv01')
        tok = t[1] if kind == 'ibor' else t[2]
        if esr is None and math.isfinite(sr):
            if tok.startswith('E:') or not close(b2f(tok), sr, 1e-9, 1e-10):
                bad.append('swap_rate')
        elif esr == 'E:FinError' and tok != esr:
            bad.append('swap_rate(FinError)')
        if det_rate is not None and math.isfinite(det_rate) and not close(b2f(t[3]), det_rate, 1e-9, 1e-10):
            bad.append('valuation_details.market_rate')
        if bad:
            tie_broken(ctx, T, comp, f'GENERATED pv01 / swap_rate (Gen/SwapsF) ≠ implementation on {bad} (answer `{o}`; impl pv01 {p01}/{e01}, '
                                     f'swap_rate {sr}/{esr}, details {det_rate}) on {case}')
    if cpn != 0.0 and vf is not None and vl is not None:
        B.gen(f'GSR {f2b(vf)} {f2b(cpn)} {f2b(N)} {f2b(vl)} {int(not fixedIsPay)} {f2b(N)}', cb_gsr)
    # ---- cash_settled_pv01 (flat annuity; start-index rule as coded) against the hand model
    if kind == 'ibor':
        fq = E.FrequencyTypes[rng.choice(FREQS)]
        fr = rng.choice([0.0, 0.03, rng.uniform(-0.01, 0.08)])
        from financepy.utils.frequency import annual_frequency
        alpha = 1.0 / annual_frequency(fq)
        cs, ecs = call(lambda: sw.cash_settled_pv01(vd, fr, fq))
        pays_enc = f'{len(fper)} ' + ' '.join(str(ser(x[2])) for x in fper)

        def cb_csh(o, op):
            if ecs:
                if o != ecs:
                    tie_broken(ctx, T, comp, f'cash_settled_pv01: model `{o}` vs impl {ecs} on {case}')
            elif o.startswith(('E:', 'bad')) or not close(b2f(o), cs, 0.0, 1e-12):
                tie_broken(ctx, T, comp, f'cash_settled_pv01: model `{o}` vs impl {cs} on {case}')
        B.model(f'CSH {pays_enc} {ser(p["eff"])} {ser(vd)} {f2b(alpha)} {f2b(fr)}', cb_csh)
        T.add(comp + ':cash-pv01-vd<=eff', int(vd <= p['eff']))
    flows = [(ser(pay), yf, cpn, N) for a, b, pay, yf in fper] + \
            [(ser(pay), yf, -(lrows[i][0] + spread), N) for i, (a, b, pay, yf) in enumerate(lper)]

    def cb_spec(o, op):
        if o.startswith(('E:', 'bad')) or not close(b2f(o), v, scale):
            ctx.violation(f'{comp}: implementation disagrees with the specification Σ accrual×rate×notional×df/df(value_dt)',
                          dict(case, impl=v, spec=(b2f(o) if o.isdigit() else o)), clause='value=sum(spec-driver)')
    B.spec(f'PV {int(fixedIsPay)} {ser(vd)} {enc_flows(flows)} {dfT.enc()}', cb_spec)
    T.add(comp + ':lag!=0', int(p['lag'] != 0))
    T.add(comp + ':vd<eff', int(vd < p['eff']))
    T.add(comp + ':vd=eff', int(vd == p['eff']))
    T.add(comp + ':first-fixing', int(ff is not None))
    T.add(comp + ':dual-curve', int(idx is not curve))
    T.add(comp + ':receive-fixed', int(not fixedIsPay))
    T.add(comp + ':curve=' + lab.split('/')[0].split('@')[0])
    return 1 if (ffut or lfut) else 0


def ibor_swap_case(ctx, E, rng, pool, B, T, tag):
    return swap_case(ctx, E, rng, pool, B, T, tag, kind='ibor')


def ois_case(ctx, E, rng, pool, B, T, tag):
    return swap_case(ctx, E, rng, pool, B, T, tag, kind='ois')


def basis_case(ctx, E, rng, pool, B, T, tag):
    comp = 'basis_swap'
    DT = E.DayCountTypes
    p = draw_leg_params(E, rng, ref_date(E, rng, pool))
    p['eom'], p['lag'] = False, 0
    p['l1_freq'], p['l1_dc'] = p.pop('freq'), p.pop('dc')
    p['l2_freq'], p['l2_dc'] = E.FrequencyTypes[rng.choice(FREQS)], rng.choice(list(DT))
    p['s1'], p['s2'] = rng.choice([0.0, rng.uniform(-0.01, 0.02)]), rng.choice([0.0, rng.uniform(-0.01, 0.02)])
    case = describe(p, tag=tag, product='ibor_basis_swap')
    ST = E.SwapTypes
    impl_err = own_err = None
    try:
        sw = E.IborBasisSwap(p['eff'], p['term'], ST.PAY if p['isPay'] else ST.RECEIVE, p['l1_freq'], p['l1_dc'], p['s1'],
                             p['l2_freq'], p['l2_dc'], p['s2'], p['notional'], p['cal'], p['bd'], p['dg'])
    except Exception as e:  # noqa: BLE001
        impl_err = err_kind(e)
    try:
        _, per1 = own_schedule(E, leg_params(p, 'l1'))
        _, per2 = own_schedule(E, leg_params(p, 'l2'))
    except Exception as e:  # noqa: BLE001
        own_err = err_kind(e)
    if impl_err or own_err:
        T.add(comp + ':ctor-error')
        if impl_err != own_err:
            ctx.violation(f'{comp}: constructor outcome {impl_err} but schedule/day count gives {own_err}', case,
                          clause='constructor-error')
        return 0
    N = p['notional']
    vd = draw_value_date(E, rng, p['eff'], [x[2] for x in per1])
    fut = [x for x in per1 + per2 if x[2] > vd]
    first_needed = min([vd] + [x[0] for x in fut])
    lab, curve = draw_curve(E, rng, pool, first_needed, vd)
    _, i1 = draw_curve(E, rng, pool, first_needed, vd)
    _, i2 = draw_curve(E, rng, pool, first_needed, vd)
    ff1 = None if rng.random() < 0.6 else rng.uniform(0.0, 0.04)
    ff2 = None if rng.random() < 0.6 else rng.uniform(0.0, 0.04)
    case = dict(case, value_dt=(vd.d, vd.m, vd.y), curve=lab, ff1=ff1, ff2=ff2)
    dfT, t1, t2 = DfTable(curve), DfTable(i1), DfTable(i2)
    v, impl_err = call(lambda: sw.value(vd, curve, i1, i2, ff1, ff2))
    own_err = None
    try:
        r1, ia1 = own_float(E, per1, vd, dfT, t1, i1.dc_type, ff1, p['s1'], [N] * len(per1))
        r2, ia2 = own_float(E, per2, vd, dfT, t2, i2.dc_type, ff2, p['s2'], [N] * len(per2))
    except Exception as e:  # noqa: BLE001
        own_err = err_kind(e)
    if impl_err or own_err:
        T.add(comp + ':value-error')
        if not same_outcome(impl_err, own_err, v if impl_err is None else None):
            ctx.violation(f'{comp}: value() outcome {impl_err} but own reading gives {own_err}', case, clause='value-error')
        return 0
    sgn = -1.0 if p['isPay'] else 1.0
    exp = sgn * (math.fsum(r[3] for r in r1) - math.fsum(r[3] for r in r2))
    scale = math.fsum(abs(r[3]) for r in r1 + r2) + abs(N) * 1e-6
    if not close(v, exp, scale):
        ctx.violation(f'{comp}: value is not the difference of the two discounted floating flow sums',
                      dict(case, impl=v, expected=exp), clause='value=sum')

    def cb(o, op):
        if o.startswith(('E:', 'bad')) or not close(b2f(o), v, scale):
            tie_broken(ctx, T, comp, f'model≠implementation (model `{o}`, impl {v}) on {case}')
    B.model(f'BAS {int(p["isPay"])} {f2b(p["s1"])} {f2b(p["s2"])} {f2b(N)} {ser(vd)} {enc_opt(ff1)} {enc_opt(ff2)} '
            f'{enc_fperiods(per1, [x if x == x else 0.0 for x in ia1], [N] * len(per1))} '
            f'{enc_fperiods(per2, [x if x == x else 0.0 for x in ia2], [N] * len(per2))} {dfT.enc()} {t1.enc()} {t2.enc()}', cb)
    return 1 if fut else 0


# --------------------------------------------------------------------------- equity swap (EquitySwapLeg + SwapFloatLeg on reset notionals)
# C06/equity-swap-rate-notional-front-aligned is FIXED (fix: commit PENDING): no classifier — a recurrence is a VIOLATION
SAFE_DCS = ['ACT_360', 'ACT_365F', 'THIRTY_E_360', 'ACT_ACT_ISDA', 'THIRTY_360_BOND']


def enc_eperiods(periods, ias):
    return f'{len(periods)} ' + ' '.join(f'{ser(a)} {ser(b)} {ser(pay)} {f2b(y)} {f2b(ia)}' for (a, b, pay, y), ia in zip(periods, ias))


def own_equity(E, eper, vd, dfT, idxT, dvT, idx_dc, price, qty, notional):
    """The harness's own reading of the equity leg: every reset period paid after the valuation date pays the change of
    the position's value price x G x quantity, G compounded at the equity forward (index curve x dividend curve) over
    the periods still to be paid; the first one is measured from strike x quantity.
    Returns rows (fwd, div_fwd, eq_fwd, last_notional, amount, df, pv), index alphas, reset notional per period
    (None for a period not paid after vd)."""
    dcc = E.DayCount(idx_dc)
    dfv = dfT(vd)
    G, L = 1.0, notional
    rows, ias, resets = [], [], []
    for (a, b, pay, yf) in eper:
        if pay > vd:
            ia = float(dcc.year_frac(a, b)[0])
            g = idxT(a) / idxT(b)
            d = dvT(a) / dvT(b)
            eqf = (g * d - 1.0) / ia
            G = (1.0 + eqf * yf) * G
            nn = price * G * qty
            dfp = dfT(pay) / dfv
            rows.append(((g - 1.0) / ia, (d - 1.0) / ia, eqf, L, nn - L, dfp, (nn - L) * dfp))
            ias.append(ia)
            resets.append(L)
            L = nn
        else:
            rows.append((0.0, 0.0, 0.0, notional, 0.0, 0.0, 0.0))
            ias.append(float('nan'))
            resets.append(None)
    return rows, ias, resets


def containing_period(eper, a, b):
    ks = [k for k, (ea, eb, _, _) in enumerate(eper) if ea <= a and b <= eb]
    return ks[0] if len(ks) == 1 else None


def equity_swap_case(ctx, E, rng, pool, B, T, tag):
    comp = 'equity_swap'
    DT, FT, ST = E.DayCountTypes, E.FrequencyTypes, E.SwapTypes
    from financepy.utils.frequency import annual_frequency
    from financepy.products.equity.equity_swap import EquitySwap
    p = draw_leg_params(E, rng, ref_date(E, rng, pool))
    zero = rng.random() < 0.35          # a case that meets the conditions of "worth zero at inception"
    k = rng.random()
    if k < 0.6:
        p['term'] = rng.choice(['1Y', '18M', '2Y', '30M', '3Y', '4Y', '5Y', '15M', '21M', '27M', '7Y'])
    p['eq_freq'] = E.FrequencyTypes[rng.choice(FREQS)]
    if rng.random() < 0.7:              # rate leg pays as often or more often than the equity leg resets
        m_eq = int(annual_frequency(p['eq_freq']))
        p['rate_freq'] = E.FrequencyTypes[rng.choice([f for f in FREQS if int(annual_frequency(E.FrequencyTypes[f])) % m_eq == 0])]
    else:
        p['rate_freq'] = E.FrequencyTypes[rng.choice(FREQS)]
    base_dc = DT[rng.choice(SAFE_DCS)]
    p['eq_dc'] = base_dc if zero else rng.choice(list(DT))
    p['rate_dc'] = base_dc if zero else rng.choice(list(DT))
    p['eq_lag'] = 0 if zero else p['lag']
    p['rate_lag'] = 0 if zero else rng.choice([0, 0, 1, 2, -1])
    p['spread'] = 0.0 if zero else rng.choice([0.0, rng.uniform(-0.01, 0.02), 0.0025])
    p['strike'] = rng.choice([80.0, 100.0, rng.uniform(5.0, 500.0)])
    p['quantity'] = rng.choice([1.0, 100.0, 125000.0, rng.uniform(1.0, 1e5)])
    for kk in ('freq', 'dc', 'lag', 'notional'):
        del p[kk]
    eqIsPay = p['isPay']
    case = describe(p, tag=tag, product='equity_swap')

    def build(isPay=None, quantity=None):
        lt = ST.PAY if (eqIsPay if isPay is None else isPay) else ST.RECEIVE
        return EquitySwap(p['eff'], p['term'], lt, p['eq_freq'], p['eq_dc'], p['strike'],
                          p['quantity'] if quantity is None else quantity, p['eq_lag'], E_ReturnTypes(E).TOTAL_RETURN,
                          p['rate_freq'], p['rate_dc'], p['spread'], p['rate_lag'], p['cal'], p['bd'], p['dg'], p['eom'])
    impl_err = own_err = None
    try:
        sw = build()
    except Exception as e:  # noqa: BLE001
        impl_err = err_kind(e)
    try:
        t0 = p['term'] if not isinstance(p['term'], str) else p['eff'].add_tenor(p['term'])
        mat = E.Calendar(p['cal']).adjust(t0, p['bd'])
        if p['eff'] > mat:
            raise E.FinError('Start date after maturity date')
        q = dict(eff=p['eff'], term=mat, cal=p['cal'], bd=p['bd'], dg=p['dg'], eom=p['eom'])
        _, eper = own_schedule(E, dict(q, freq=p['eq_freq'], dc=p['eq_dc'], lag=p['eq_lag']))
        _, rper = own_schedule(E, dict(q, freq=p['rate_freq'], dc=p['rate_dc'], lag=p['rate_lag']))
    except Exception as e:  # noqa: BLE001
        own_err = err_kind(e)
    if impl_err or own_err:
        T.add(comp + ':ctor-error')
        if impl_err != own_err:
            ctx.violation(f'{comp}: constructor outcome {impl_err} but schedule/day count gives {own_err}', case,
                          clause='constructor-error')
        return 0
    el, rl = sw.equity_leg, sw.rate_leg
    # generated tables of both legs: accrual over consecutive schedule dates, yf over the accrual dates, pay = end + lag
    class _V:      # EquitySwapLeg names its tables differently
        pass
    ev = _V()
    ev.start_accrued_dts, ev.end_accrued_dts, ev.payment_dts, ev.year_fracs = el.start_accd_dts, el.end_accd_dts, el.payment_dts, el.year_fracs
    if not (check_tables(ctx, T, comp + '.equity_leg', ev, eper, case) and check_tables(ctx, T, comp + '.rate_leg', rl, rper, case)):
        return 0
    strike, qty, spread = p['strike'], p['quantity'], p['spread']
    N0 = strike * qty
    if not close(el.notional, N0, 0.0, 1e-13) or not close(rl.notional, N0, 0.0, 1e-13) or rl.principal != 0.0:
        ctx.violation(f'{comp}: leg notionals are not strike × quantity (or a principal is exchanged)',
                      dict(case, equity=float(el.notional), rate=float(rl.notional)), clause='notional')
        return 0
    # ---- valuation date and curves (EquitySwapLeg.value insists on discount_curve.value_dt == value_dt)
    epay = [x[2] for x in eper]
    kv = rng.random()
    if zero or kv < 0.45:
        vd = p['eff']
    elif kv < 0.55:
        vd = p['eff'].add_days(-rng.randint(1, 200))
    else:
        vd = draw_value_date(E, rng, p['eff'], epay)
    idx_dc = base_dc
    ft = rng.choice([FT.CONTINUOUS, FT.ANNUAL, FT.SEMI_ANNUAL, FT.QUARTERLY])
    if rng.random() < 0.7 or zero:
        r0 = rng.choice([rng.uniform(0.005, 0.09), rng.uniform(-0.01, 0.05)])
        curve, lab = E.DiscountCurveFlat(vd, r0, ft, idx_dc), f'flat/{ft.name}/{idx_dc.name}/{r0:.6f}'
    else:
        lab, curve = draw_curve(E, rng, [], vd, vd)
        if curve.value_dt != vd:
            r0 = rng.uniform(0.0, 0.06)
            curve, lab = E.DiscountCurveFlat(vd, r0, ft, idx_dc), f'flat/{ft.name}/{idx_dc.name}/{r0:.6f}'
    if zero or rng.random() < 0.55:
        idx, pass_idx, ilab = curve, None, 'same'
    else:
        r1 = rng.uniform(0.0, 0.08)
        idc = DT[rng.choice(SAFE_DCS)]
        idx = E.DiscountCurveFlat(vd, r1, rng.choice([FT.CONTINUOUS, FT.ANNUAL]), idc)
        pass_idx, ilab = idx, f'flat/{idc.name}/{r1:.6f}'
    if zero or rng.random() < 0.6:
        dv, pass_dv, dlab = E.DiscountCurveFlat(vd, 0), None, 'none'
    else:
        q1 = rng.uniform(0.0, 0.05)
        dv = E.DiscountCurveFlat(vd, q1)
        pass_dv, dlab = dv, f'flat/{q1:.6f}'
    cur = None if (zero or rng.random() < 0.6) else strike * rng.uniform(0.7, 1.4)
    ff = None if (zero or rng.random() < 0.7) else rng.uniform(-0.005, 0.05)
    price = strike if cur is None else cur
    case = dict(case, value_dt=(vd.d, vd.m, vd.y), curve=lab, index_curve=ilab, dividend_curve=dlab, current_price=cur,
                first_fixing=ff, zero_case=zero)
    dfT, idxT, dvT = DfTable(curve), (None), DfTable(dv)
    idxT = dfT if idx is curve else DfTable(idx)
    multiple = int(annual_frequency(p['rate_freq']) // annual_frequency(p['eq_freq']))
    is_multiple = int(annual_frequency(p['rate_freq']) % annual_frequency(p['eq_freq'])) == 0
    v, impl_err = call(lambda: sw.value(vd, curve, pass_idx, pass_dv, cur, ff))
    own_err = None
    try:
        erows, eias, resets = own_equity(E, eper, vd, dfT, idxT, dvT, idx.dc_type, price, qty, N0)
        if not is_multiple:
            raise E.FinError('Invalid frequency type assigned!')
    except Exception as e:  # noqa: BLE001
        own_err = err_kind(e)
    T.add(comp + ':freq-not-multiple', int(not is_multiple))
    if own_err is None:
        # the rate leg on the notional of the equity period each of its periods lies in
        exp_not, ks, unresolved = [], [], 0
        for j, (a, b, pay, yf) in enumerate(rper):
            kq = containing_period(eper, a, b)
            ks.append(kq)
            if pay > vd:
                if kq is None or resets[kq] is None:
                    unresolved += 1
                    exp_not.append(None)
                else:
                    exp_not.append(resets[kq])
            else:
                exp_not.append(N0)        # immaterial: the period is paid
        try:
            rrows, rias = own_float(E, rper, vd, dfT, idxT, idx.dc_type, ff, spread,
                                    [x if x is not None else float('nan') for x in exp_not])
        except Exception as e:  # noqa: BLE001
            own_err = err_kind(e)
    if impl_err or own_err:
        T.add(comp + ':value-error')
        # a zero index-basis year fraction is inf/nan on NumPy scalars (no exception): the frequency test then still raises
        zd_then_freq = own_err == 'E:ZeroDivisionError' and impl_err == 'E:FinError' and not is_multiple
        if not zd_then_freq and not same_outcome(impl_err, own_err, v if impl_err is None else None):
            ctx.violation(f'{comp}: value() outcome {impl_err} but own reading gives {own_err}', case, clause='value-error')
        elif own_err == 'E:FinError' and not is_multiple:
            B.model(f'EQS {int(eqIsPay)} {f2b(strike)} {f2b(qty)} {f2b(spread)} {int(annual_frequency(p["eq_freq"]))} '
                    f'{int(annual_frequency(p["rate_freq"]))} {enc_opt(cur)} {enc_opt(ff)} {ser(vd)} 0 0 0 0 0',
                    lambda o, op: None if o == 'E:FinError' else tie_broken(ctx, T, comp, f'model `{o}` vs impl FinError (frequency test) on {case}'))
        return 0
    sgn = -1.0 if eqIsPay else 1.0
    n_e, n_r = len(eper), len(rper)
    live_r = [j for j in range(n_r) if rper[j][2] > vd]
    live_e = [k_ for k_ in range(n_e) if eper[k_][2] > vd]
    e_eq = sgn * math.fsum(r[6] for r in erows)
    scale = math.fsum(abs(r[6]) for r in erows) + math.fsum(abs(r[3]) for r in rrows if r[3] == r[3]) + abs(N0) * 1e-6
    veq, vrt = float(sw.equity_leg_value), float(sw.rate_leg_value)
    if not close(v, veq + vrt, scale, 1e-13):
        ctx.violation(f'{comp}: value is not equity leg value + rate leg value', dict(case, value=v, equity=veq, rate=vrt),
                      clause='value=equity+rate')
    if not close(veq, e_eq, scale):
        ctx.violation(f'{comp}: equity leg value is not the discounted sum of the changes of the position value after the valuation date',
                      dict(case, impl=veq, expected=e_eq, n_live=len(live_e), n=n_e), clause='value=sum(equity leg)')
    # equity leg rows
    for k_ in range(n_e):
        r = erows[k_]
        im = (float(el.fwd_rates[k_]), float(el.div_fwd_rates[k_]), float(el.eq_fwd_rates[k_]), float(el.last_notionals[k_]),
              float(el.payment_amounts[k_]), float(el.payment_dfs[k_]), float(el.payment_pvs[k_]))
        tol = (1e-4, 1e-4, 1e-4, abs(N0) * 1e-4, abs(N0) * 1e-4, 0.0, abs(N0) * 1e-4)
        if not all(close(im[i], r[i], tol[i]) for i in range(7)):
            ctx.violation(f'{comp}: equity leg row {k_} is not (fwd, div fwd, equity fwd, reset notional, change of position value, df, pv)',
                          dict(case, k=k_, impl=im, expected=r), clause='rows(equity leg)' if eper[k_][2] > vd else 'past-flows')
            break
    # ---- the rate leg's notional array
    impl_arr = [float(x) for x in rl.notional_array]
    impl_last = [float(x) for x in el.last_notionals]
    T.add(comp + ':multiple>1', int(multiple > 1))
    T.add(comp + ':blocks-of-unequal-size (stub)', int(multiple > 0 and any(j // multiple != ks[j] for j in live_r if ks[j] is not None)))
    T.add(comp + ':unresolved-rate-periods', int(unresolved > 0))
    flagged = False
    for j in live_r:
        if exp_not[j] is None:
            continue
        used = impl_arr[j] if j < len(impl_arr) else float('nan')
        e_amt = rrows[j][1]
        if not close(used, exp_not[j], 0.0, 1e-12) or not close(float(rl.payments[j]), e_amt, abs(exp_not[j]) * 1e-9):
            ctx.violation(f'{comp}: rate period {j} does not accrue on the reset notional of the equity period it lies in '
                          f'(flow ≠ accrual × (index forward + spread) × that notional)',
                          dict(case, j=j, accrual=(str(rper[j][0]), str(rper[j][1])), equity_period=ks[j],
                               equity_accrual=(str(eper[ks[j]][0]), str(eper[ks[j]][1])), notional_used=used,
                               reset_notional=exp_not[j], flow=float(rl.payments[j]), expected_flow=e_amt,
                               multiple=multiple, reset_notionals=impl_last, notional_array=impl_arr),
                          clause='rate-notional=reset-notional-of-containing-equity-period')
            flagged = True
            break
    # the rate leg's value as the discounted sum on the expected notionals
    if unresolved == 0:
        e_rt = -sgn * math.fsum(r[3] for r in rrows)
        if not close(vrt, e_rt, scale):
            ctx.violation(f'{comp}: rate leg value is not the discounted sum of accrual × (forward + spread) × reset notional of the '
                          f'containing equity period',
                          dict(case, impl=vrt, expected=e_rt, multiple=multiple, notional_array=impl_arr, reset_notionals=impl_last),
                          clause='value=sum(rate leg)')
            flagged = True
    # ---- worth zero at inception: no spread, no dividends, one curve, matching bases, lag 0, price = strike, all to be paid,
    #      every equity period tiled by rate periods
    tiled = unresolved == 0 and len(live_r) == n_r and len(live_e) == n_e and all(
        [rper[j][0] for j in range(n_r) if ks[j] == k_][:1] == [eper[k_][0]]
        and [rper[j][1] for j in range(n_r) if ks[j] == k_][-1:] == [eper[k_][1]] for k_ in range(n_e)) and all(
        rper[j][1] == rper[j + 1][0] for j in range(n_r - 1))
    zero_ok = (spread == 0.0 and pass_dv is None and idx is curve and ff is None and cur is None and p['eq_lag'] == 0
               and p['rate_lag'] == 0 and p['eq_dc'] == idx.dc_type and p['rate_dc'] == idx.dc_type and tiled)
    if zero_ok:
        T.add(comp + ':zero-at-inception-checked')
        if not close(v, 0.0, scale):
            ctx.violation(f'{comp}: a spread-free, dividend-free equity swap with matching bases on one curve is not worth zero at inception',
                          dict(case, value=v, equity=veq, rate=vrt, multiple=multiple, notional_array=impl_arr, reset_notionals=impl_last),
                          clause='zero-at-inception')
    # ---- model: equity leg rows (hand model + generated loop body), swap value + the notional array itself
    impl_erows = [(float(el.fwd_rates[i]), float(el.div_fwd_rates[i]), float(el.eq_fwd_rates[i]), float(el.last_notionals[i]),
                   float(el.payment_amounts[i]), float(el.payment_dfs[i]), float(el.payment_pvs[i]), float(el.cumulative_pvs[i]))
                  for i in range(n_e)]

    def cb_eql(which):
        def cb(o, op):
            xs = parse_floats(o) if not o.startswith(('E:', 'bad')) else None
            tol = (1e-4, 1e-4, 1e-4, abs(N0) * 1e-4, abs(N0) * 1e-4, 0.0, scale, scale)
            ok = xs is not None and len(xs) == 1 + 8 * n_e and close(xs[0], veq, scale) and all(
                close(xs[1 + 8 * i + j], r[j], tol[j]) for i, r in enumerate(impl_erows) for j in range(8))
            if not ok:
                tie_broken(ctx, T, comp, f'equity leg value/rows: {which} ≠ implementation (answer `{o[:40]}`, impl {veq}) on {case}')
        return cb
    # index-basis year fraction of EVERY period (the model's index curve is one function of the two dates: an equity
    # period already paid and a rate period still to be paid may share their dates when the lags differ)
    _dcc = E.DayCount(idx.dc_type)
    eias = [float(_dcc.year_frac(a, b)[0]) for a, b, _, _ in eper]
    payload = (f'{int(eqIsPay)} {f2b(strike)} {f2b(qty)} {enc_opt(cur)} {ser(vd)} {enc_eperiods(eper, eias)} '
               f'{dfT.enc()} {idxT.enc()} {dvT.enc()}')
    B.model('EQL ' + payload, cb_eql('hand model'))
    B.gen('GEQ ' + payload, cb_eql('fold of the GENERATED loop body (Gen/SwapsF.equity_leg_step)'))

    def cb_eqs(o, op):
        xs = parse_floats(o) if not o.startswith(('E:', 'bad')) else None
        if xs is None or len(xs) != 3 + len(impl_arr):
            tie_broken(ctx, T, comp, f'EquitySwap model answered `{o[:60]}` ({len(impl_arr)} notionals in the implementation) on {case}')
            return
        bad = [nm for nm, m, i_ in (('value', xs[0], v), ('equity leg', xs[1], veq), ('rate leg', xs[2], vrt)) if not close(m, i_, scale)]
        if any(not close(a_, b_, 0.0, 1e-12) for a_, b_ in zip(xs[3:], impl_arr)):
            bad.append('notional_array (reset notional of the equity period containing each accrual start)')
        if bad:
            tie_broken(ctx, T, comp, f'EquitySwap model≠implementation on {bad} (model array {xs[3:11]}, impl array {impl_arr[:8]}) on {case}')
    rias2 = [float(_dcc.year_frac(a, b)[0]) for a, b, _, _ in rper]
    B.model(f'EQS {int(eqIsPay)} {f2b(strike)} {f2b(qty)} {f2b(spread)} {int(annual_frequency(p["eq_freq"]))} '
            f'{int(annual_frequency(p["rate_freq"]))} {enc_opt(cur)} {enc_opt(ff)} {ser(vd)} {enc_eperiods(eper, eias)} '
            f'{enc_fperiods(rper, rias2, [N0] * n_r)} {dfT.enc()} {idxT.enc()} {dvT.enc()}', cb_eqs)

    # ---- spec: the equity leg as a flow list; the repeat structure of the array
    def cb_spec(o, op):
        if o.startswith(('E:', 'bad')) or not close(b2f(o), veq, scale):
            ctx.violation(f'{comp}: equity leg disagrees with the specification (discounted changes of the position value)',
                          dict(case, impl=veq, spec=o), clause='value=sum(equity leg, spec-driver)')
    B.spec(f'EQ {int(eqIsPay)} {ser(vd)} {f2b(price)} {f2b(qty)} {f2b(N0)} {enc_eperiods(eper, eias)} {dfT.enc()} {idxT.enc()} {dvT.enc()}',
           cb_spec)
    cand = [j for j in live_r if exp_not[j] is not None and j < len(impl_arr)]
    if cand:
        jj = rng.choice(cand)
        eq_enc = f'{n_e} ' + ' '.join(f'{ser(a)} {ser(b)} {f2b(resets[k_] if resets[k_] is not None else N0)}'
                                       for k_, (a, b, _, _) in enumerate(eper))

        def cb_rn(o, op):
            if o.startswith(('E:', 'bad', 'none')) or not close(b2f(o), impl_arr[jj], 0.0, 1e-12):
                ctx.violation(f'{comp}: notional_array[{jj}] is not the reset notional of the equity period that contains the '
                              f'accrual start of rate period {jj}',
                              dict(case, j=jj, start=str(rper[jj][0]), impl=impl_arr[jj], spec=(b2f(o) if o.isdigit() else o),
                                   reset_notionals=impl_last, notional_array=impl_arr), clause='rate-notional(spec-driver)')
        B.spec(f'RN {ser(rper[jj][0])} {eq_enc}', cb_rn)
    # ---- pay = -receive, linear in the quantity
    v_opp, eo = call(lambda: build(isPay=not eqIsPay).value(vd, curve, pass_idx, pass_dv, cur, ff))
    if eo or not close(v_opp, -v, scale, 1e-13):
        ctx.violation(f'{comp}: pay-equity value is not minus receive-equity value', dict(case, this=v, opposite=v_opp, err=eo),
                      clause='pay=-receive')
    kq = rng.choice([2.0, 0.5, 3.0])
    v_k, ek = call(lambda: build(quantity=kq * qty).value(vd, curve, pass_idx, pass_dv, cur, ff))
    if ek or not close(v_k, kq * v, kq * scale):
        ctx.violation(f'{comp}: value is not linear in the quantity', dict(case, k=kq, v=v, v_k=v_k, err=ek), clause='linear-notional')
    T.add(comp + ':vd=eff', int(vd == p['eff']))
    T.add(comp + ':vd<eff', int(vd < p['eff']))
    T.add(comp + ':dividends', int(pass_dv is not None))
    T.add(comp + ':current-price', int(cur is not None))
    T.add(comp + ':dual-curve', int(idx is not curve))
    T.add(comp + ':first-fixing', int(ff is not None))
    T.add(comp + ':stub', int(n_r != multiple * n_e))
    return 1 if (live_e or live_r) else 0


def E_ReturnTypes(E):
    from financepy.utils.global_types import ReturnTypes
    return ReturnTypes


# --------------------------------------------------------------------------- deposit, FRA
def draw_short(E, rng, pool):
    d, m, y = ref_date(E, rng, pool)
    start = E.Date(d, m, y)
    if rng.random() < 0.7:
        mat = rng.choice(['1D', '1W', '2W', '1M', '2M', '3M', '6M', '9M', '1Y', '18M'])
    else:
        mat = start.add_days(rng.randint(1, 500))
    return dict(start=start, mat=mat, dc=rng.choice(list(E.DayCountTypes)), cal=rng.choice(list(E.CalendarTypes)),
                bd=rng.choice(list(E.BusDayAdjustTypes)),
                notional=rng.choice([100.0, 1.0, -100.0, 1e6 * rng.uniform(0.1, 10), -1e6 * rng.uniform(0.1, 10)]),
                rate=rng.choice([rng.uniform(-0.01, 0.08), 0.0, 0.03]))


def describe_short(p, **kw):
    d = {k: (v.name if hasattr(v, 'name') else v) for k, v in p.items() if k not in ('start', 'mat')}
    d['start'] = (p['start'].d, p['start'].m, p['start'].y)
    d['mat'] = tenor_or_date(p['mat'])
    d.update(kw)
    return d


def draw_vd_short(rng, start, mat):
    k = rng.random()
    if k < 0.2:
        return start.add_days(-rng.randint(1, 60))
    if k < 0.45:
        return start
    if k < 0.6:
        return mat
    if k < 0.7:
        return mat.add_days(rng.choice([1, 5, 100]))
    return start.add_days(rng.randint(0, max(int(mat - start), 1)))


def deposit_case(ctx, E, rng, pool, B, T, tag):
    comp = 'deposit'
    p = draw_short(E, rng, pool)
    case = describe_short(p, tag=tag, product='deposit')
    dep, impl_err = None, None
    try:
        dep = E.IborDeposit(p['start'], p['mat'], p['rate'], p['dc'], p['notional'], p['cal'], p['bd'])
    except Exception as e:  # noqa: BLE001
        impl_err = err_kind(e)
    own_err = None
    try:
        m0 = p['mat'] if not isinstance(p['mat'], str) else p['start'].add_tenor(p['mat'])
        mat = E.Calendar(p['cal']).adjust(m0, p['bd'])
        if p['start'] > mat:
            raise E.FinError('start after maturity')
        yf = float(E.DayCount(p['dc']).year_frac(p['start'], mat)[0])
    except Exception as e:  # noqa: BLE001
        own_err = err_kind(e)
    if impl_err:
        T.add(comp + ':ctor-error')
        if own_err != impl_err:
            ctx.violation(f'{comp}: constructor outcome {impl_err} but dates/day count give {own_err}', case, clause='constructor-error')
        return 0
    if own_err is None and dep.maturity_dt != mat:
        ctx.violation(f'{comp}: maturity is not the adjusted end date', dict(case, impl=str(dep.maturity_dt), expected=str(mat)),
                      clause='maturity')
        return 0
    mat = dep.maturity_dt
    vd = draw_vd_short(rng, p['start'], mat)
    lab, curve = draw_curve(E, rng, pool, min(vd, p['start']), vd)
    case = dict(case, value_dt=(vd.d, vd.m, vd.y), curve=lab, curve_dt=str(curve.value_dt))
    v, impl_err = call(lambda: dep.value(vd, curve))
    if own_err:      # the day count refuses two-date calls (ACT_ACT_ICMA): value() must fail the same way
        T.add(comp + ':value-error')
        if impl_err != own_err and not (vd > mat and impl_err == 'E:FinError'):
            ctx.violation(f'{comp}: value() outcome {impl_err} but the day count gives {own_err}', case, clause='value-error')
        return 0
    if vd > mat:
        T.add(comp + ':after-maturity')
        if impl_err != 'E:FinError' and not (impl_err is None and v == 0.0):
            ctx.violation(f'{comp}: valued after maturity: neither refused nor zero', dict(case, value=v, err=impl_err),
                          clause='past-flows')
        B.model(f'DEP {ser(p["start"])} {ser(mat)} {f2b(yf)} {f2b(p["rate"])} {f2b(p["notional"])} {ser(vd)} 0',
                lambda o, op: None if o == (impl_err or '') else tie_broken(ctx, T, comp, f'model `{o}` vs impl {impl_err} on {case}'))
        return 0
    dfT = DfTable(curve)
    try:
        dfv, dfs, dfm = dfT(vd), dfT(p['start']), dfT(mat)
    except Exception as e:  # noqa: BLE001
        T.add(comp + ':value-error')
        if impl_err != err_kind(e):
            ctx.violation(f'{comp}: value() outcome {impl_err} but the curve gives {err_kind(e)}', case, clause='value-error')
        return 0
    if impl_err:
        ctx.violation(f'{comp}: value() raised {impl_err}', case, clause='value-error')
        return 0
    N = p['notional']
    repay = (1.0 + yf * p['rate']) * N
    spec = repay * dfm / dfv if mat > vd else 0.0
    coded = repay * dfm / dfs
    scale = abs(repay)
    if not close(v, spec, scale):
        fnd = None
        if close(v, coded, scale) and (vd == mat or not close(dfs, dfv, 0.0, 1e-13)):
            fnd = 'C06/deposit-forward-value'
        ctx.violation(f'{comp}: value is not the repayment discounted to the valuation date '
                      f'({"repayment made on the valuation date still counts" if vd == mat else "it is discounted to the start date"})',
                      dict(case, impl=v, spec=spec, forward_to_start=coded), finding=fnd,
                      clause='past-flows' if vd == mat else 'deposit-value')
    else:
        T.add(comp + ':meets-spec')

        def cb_spec(o, op):
            if o.startswith(('E:', 'bad')) or not close(b2f(o), v, scale):
                ctx.violation(f'{comp}: implementation disagrees with the specification', dict(case, impl=v, spec=o),
                              clause='deposit-value(spec-driver)')
        B.spec(f'PV 0 {ser(vd)} 1 {ser(mat)} {f2b(1.0)} {f2b(1.0 + yf * p["rate"])} {f2b(N)} {dfT.enc()}', cb_spec)

    def cb(o, op):
        if o.startswith(('E:', 'bad')) or not close(b2f(o), v, scale):
            tie_broken(ctx, T, comp, f'model `{o}` vs impl {v} on {case}')
    B.model(f'DEP {ser(p["start"])} {ser(mat)} {f2b(yf)} {f2b(p["rate"])} {f2b(N)} {ser(vd)} {dfT.enc()}', cb)
    v2, e2 = call(lambda: E.IborDeposit(p['start'], p['mat'], p['rate'], p['dc'], -2.5 * N, p['cal'], p['bd']).value(vd, curve))
    if e2 or not close(v2, -2.5 * v, 2.5 * scale):
        ctx.violation(f'{comp}: value is not linear in the notional', dict(case, v=v, v_scaled=v2, err=e2), clause='linear-notional')
    T.add(comp + ':vd=start', int(vd == p['start']))
    T.add(comp + ':vd=maturity', int(vd == mat))
    return 1


def fra_case(ctx, E, rng, pool, B, T, tag):
    comp = 'fra'
    p = draw_short(E, rng, pool)
    p['payFixed'] = rng.random() < 0.5
    case = describe_short(p, tag=tag, product='fra')

    def build(notional=None, payFixed=None):
        return E.IborFRA(p['start'], p['mat'], p['rate'], p['dc'], p['notional'] if notional is None else notional,
                         p['payFixed'] if payFixed is None else payFixed, p['cal'], p['bd'])
    fra, impl_err = None, None
    try:
        fra = build()
    except Exception as e:  # noqa: BLE001
        impl_err = err_kind(e)
    own_err = None
    try:
        if isinstance(p['mat'], str):
            mat = E.Calendar(p['cal']).adjust(p['start'].add_tenor(p['mat']), p['bd'])
        else:
            mat = p['mat']          # an explicit maturity date is taken as is
        if p['start'] > mat:
            raise E.FinError('start after maturity')
    except Exception as e:  # noqa: BLE001
        own_err = err_kind(e)
    if impl_err or own_err:
        T.add(comp + ':ctor-error')
        if own_err != impl_err:
            ctx.violation(f'{comp}: constructor outcome {impl_err} but dates give {own_err}', case, clause='constructor-error')
        return 0
    if fra.maturity_dt != mat:
        ctx.violation(f'{comp}: maturity is not the (adjusted) end of the rate period', dict(case, impl=str(fra.maturity_dt), expected=str(mat)),
                      clause='maturity')
        return 0
    vd = draw_vd_short(rng, p['start'], mat)
    first = min(vd, p['start'])
    lab, curve = draw_curve(E, rng, pool, first, vd)
    if rng.random() < 0.5:
        idx, pass_idx, ilab = curve, None, 'same'
    else:
        ilab, idx = draw_curve(E, rng, pool, first, vd)
        pass_idx = idx
    case = dict(case, value_dt=(vd.d, vd.m, vd.y), curve=lab, curve_dt=str(curve.value_dt), index_curve=ilab)
    v, impl_err = call(lambda: fra.value(vd, curve, pass_idx))
    dfT = DfTable(curve)
    idxT = dfT if idx is curve else DfTable(idx)
    own_err = None
    try:
        yf = float(E.DayCount(p['dc']).year_frac(p['start'], mat)[0])
        i1, i2, dfm, dfv = idxT(p['start']), idxT(mat), dfT(mat), dfT(vd)
        fwd = (i1 / i2 - 1.0) / yf
    except Exception as e:  # noqa: BLE001
        own_err = err_kind(e)
    if impl_err or own_err:
        T.add(comp + ':value-error')
        if not same_outcome(impl_err, own_err, v):
            ctx.violation(f'{comp}: value() outcome {impl_err} but own reading gives {own_err}', case, clause='value-error')
        return 0
    N, K = p['notional'], p['rate']
    payer = yf * (fwd - K) * N * dfm / dfv           # what the payer of the fixed rate receives, discounted
    spec = 0.0 if mat <= vd else (payer if p['payFixed'] else -payer)
    coded = -payer if p['payFixed'] else payer
    scale = abs(N) * (abs(yf * fwd) + abs(yf * K)) * abs(dfm / dfv) + abs(N) * 1e-9
    if mat > vd:
        if not close(v, spec, scale):
            fnd = 'C06/fra-pay-fixed-sign' if (close(v, -spec, scale) and spec != 0.0) else None
            ctx.violation(f'{comp}: value is not acc×(forward − K)×notional×df(maturity)/df(value_dt) seen by the '
                          f'{"payer" if p["payFixed"] else "receiver"} of the fixed rate'
                          + (' (exactly the opposite sign)' if fnd else ''),
                          dict(case, impl=v, spec=spec, forward=fwd), finding=fnd, clause='fra-value')
        else:
            T.add(comp + ':meets-spec')
    else:
        T.add(comp + ':vd>=maturity')
        if v != 0.0:
            fnd = 'C06/fra-valued-after-maturity' if close(abs(v), abs(coded), scale) else None
            ctx.violation(f'{comp}: a FRA whose only flow is paid on or before the valuation date has a non-zero value',
                          dict(case, impl=v, spec=0.0), finding=fnd, clause='past-flows')

    def cb(o, op):
        if o.startswith(('E:', 'bad')) or not close(b2f(o), v, scale):
            tie_broken(ctx, T, comp, f'model `{o}` vs impl {v} on {case}')
    B.model(f'FRA {ser(p["start"])} {ser(mat)} {f2b(yf)} {f2b(K)} {f2b(N)} {int(p["payFixed"])} {ser(vd)} {dfT.enc()} {idxT.enc()}', cb)
    # as a flow list for the spec driver (|value| only: the sign is the finding above)
    def cb_spec(o, op):
        if o.startswith(('E:', 'bad')) or not close(abs(b2f(o)), abs(v), scale):
            ctx.violation(f'{comp}: |value| disagrees with the specification', dict(case, impl=v, spec=o), clause='fra-magnitude(spec-driver)')
    if mat > vd:
        B.spec(f'PV {int(not p["payFixed"])} {ser(vd)} 1 {ser(mat)} {f2b(yf)} {f2b(fwd - K)} {f2b(N)} {dfT.enc()}', cb_spec)
    v2, e2 = call(lambda: build(payFixed=not p['payFixed']).value(vd, curve, pass_idx))
    if e2 or not close(v2, -v, scale, 1e-13):
        ctx.violation(f'{comp}: pay-fixed value is not minus receive-fixed value', dict(case, this=v, opposite=v2, err=e2), clause='pay=-receive')
    v3, e3 = call(lambda: build(notional=-3.0 * N).value(vd, curve, pass_idx))
    if e3 or not close(v3, -3.0 * v, 3 * scale):
        ctx.violation(f'{comp}: value is not linear in the notional', dict(case, v=v, v3=v3, err=e3), clause='linear-notional')
    try:
        fra.value(vd, curve, pass_idx, pv_only=False)
    except AttributeError as e:
        ctx.violation(f'{comp}: value(pv_only=False) raises AttributeError ({e})', case,
                      finding='C06/fra-cashflow-report-raises' if 'acc_factor' in str(e) else None, clause='cashflow-report')
    except Exception as e:  # noqa: BLE001
        ctx.violation(f'{comp}: value(pv_only=False) raises {err_kind(e)}', case, clause='cashflow-report')
    T.add(comp + ':payFixed', int(p['payFixed']))
    T.add(comp + ':dual-curve', int(idx is not curve))
    return 1 if mat > vd else 0


# --------------------------------------------------------------------------- witnesses of the known findings
def witnesses(ctx, E):
    """The concrete witness of every known finding (findings/C06.json), replayed on the implementation on every
    run: while the defect is there it is reported through its classifier; once repaired the entry shows up as stale."""
    D_, DT, FT, ST = E.Date, E.DayCountTypes, E.FrequencyTypes, E.SwapTypes
    vd = D_(15, 3, 2021)
    crv = E.DiscountCurveFlat(vd, 0.03)
    n = 0
    with warnings.catch_warnings():
        warnings.simplefilter('ignore')
        # par rate at coupon 0
        sw = E.IborSwap(vd, '5Y', ST.PAY, 0.0, FT.SEMI_ANNUAL, DT.THIRTY_E_360)
        r, e = call(lambda: sw.swap_rate(vd, crv))
        if nan_or_zerodiv(r, e):
            ctx.violation('witness: IborSwap.swap_rate at coupon 0 is nan (true par rate 0.0300194)', {'tag': 'witness/par-rate'},
                          finding='C06/par-rate-coupon-zero', clause='swap_rate')
        elif e or not close(r, 0.03001943237464559, 0.0, 1e-9):
            ctx.violation('witness: IborSwap.swap_rate at coupon 0 is wrong', {'tag': 'witness/par-rate', 'rate': r, 'err': e}, clause='swap_rate')
        sw2 = E.IborSwap(D_(15, 3, 2010), '5Y', ST.PAY, 0.0, FT.SEMI_ANNUAL, DT.THIRTY_E_360)
        r, e = call(lambda: sw2.pv01(vd, crv))
        if nan_or_zerodiv(r, e):
            ctx.violation('witness: IborSwap.pv01 at coupon 0 with every flow paid raises ZeroDivisionError', {'tag': 'witness/pv01'},
                          finding='C06/par-rate-coupon-zero', clause='pv01')
        elif e or r != 0.0:
            ctx.violation('witness: pv01 of a fully paid swap is not 0', {'tag': 'witness/pv01', 'pv01': r, 'err': e}, clause='pv01')
        # OIS receive-fixed par rate
        o = E.OIS(vd, '5Y', ST.RECEIVE, 0.02, FT.ANNUAL, DT.ACT_360)
        r, e = call(lambda: o.swap_rate(vd, crv))
        rp, _ = call(lambda: E.OIS(vd, '5Y', ST.PAY, 0.02, FT.ANNUAL, DT.ACT_360).swap_rate(vd, crv))
        if e or rp is None or not close(r, rp, 0.0, 1e-9) or not close(r, 0.030021405989532828, 0.0, 1e-9):   # repaired by 2a49ff7
            ctx.violation('witness: OIS.swap_rate differs between pay- and receive-fixed', {'tag': 'witness/ois', 'rate': r, 'pay': rp, 'err': e},
                          clause='swap_rate')
        # FRA
        fra = E.IborFRA(D_(15, 6, 2021), '3M', 0.01, DT.ACT_360, 100.0, True)
        v, e = call(lambda: fra.value(vd, crv))
        if e is None and v < 0 and close(v, -0.49591806045397263, 0.0, 1e-8):
            ctx.violation('witness: FRA paying 1% fixed against a 3% forward has a negative value', {'tag': 'witness/fra-sign', 'value': v},
                          finding='C06/fra-pay-fixed-sign', clause='fra-value')
        elif e or not close(v, 0.49591806045397263, 0.0, 1e-8):
            ctx.violation('witness: FRA value is wrong', {'tag': 'witness/fra-sign', 'value': v, 'err': e}, clause='fra-value')
        v, e = call(lambda: fra.value(D_(15, 3, 2022), crv))
        if e is None and v != 0.0 and close(abs(v), 0.5110210138642151, 0.0, 1e-8):
            ctx.violation('witness: FRA valued six months after its maturity is not worth 0', {'tag': 'witness/fra-past', 'value': v},
                          finding='C06/fra-valued-after-maturity', clause='past-flows')
        elif e or v != 0.0:
            ctx.violation('witness: FRA after maturity', {'tag': 'witness/fra-past', 'value': v, 'err': e}, clause='past-flows')
        try:
            fra.value(vd, crv, pv_only=False)
        except AttributeError as ex:
            ctx.violation(f'witness: IborFRA.value(pv_only=False) raises AttributeError ({ex})', {'tag': 'witness/fra-report'},
                          finding='C06/fra-cashflow-report-raises' if 'acc_factor' in str(ex) else None, clause='cashflow-report')
        except Exception as ex:  # noqa: BLE001
            ctx.violation(f'witness: IborFRA.value(pv_only=False) raises {err_kind(ex)}', {'tag': 'witness/fra-report'}, clause='cashflow-report')
        # deposit
        dep = E.IborDeposit(D_(17, 3, 2021), '6M', 0.03, DT.ACT_360, 100.0)
        vs = [call(lambda d=d: dep.value(d, crv))[0] for d in (vd, D_(17, 3, 2021), dep.maturity_dt)]
        if None not in vs and vs[0] == vs[1] == vs[2] and vs[2] != 0.0:
            ctx.violation('witness: deposit value is the same on every valuation date, including its maturity date',
                          {'tag': 'witness/deposit', 'values': vs}, finding='C06/deposit-forward-value', clause='deposit-value')
        elif None in vs or vs[2] != 0.0 or not close(vs[0], vs[1] * float(crv.df(D_(17, 3, 2021))), 0.0, 1e-10):
            ctx.violation('witness: deposit values', {'tag': 'witness/deposit', 'values': vs}, clause='deposit-value')
        # float leg principal
        fl = E.SwapFloatLeg(vd, '2Y', ST.PAY, 0.0, FT.QUARTERLY, DT.ACT_360, 1e6, 1.0)
        if fl.principal != 1.0:      # repaired by f4e65d4
            ctx.violation('witness: SwapFloatLeg(principal=1.0).principal is not 1.0', {'tag': 'witness/principal', 'stored': fl.principal},
                          clause='principal-argument')
        else:
            v1, e1 = call(lambda: fl.value(vd, crv, crv))
            v0, e0 = call(lambda: E.SwapFloatLeg(vd, '2Y', ST.PAY, 0.0, FT.QUARTERLY, DT.ACT_360, 1e6).value(vd, crv, crv))
            exp = -1e6 * float(crv.df(fl.payment_dts[-1]))      # PAY leg: minus notional x principal x df(last payment)
            if e1 or e0 or not close(v1 - v0, exp, 1e6, 1e-10):
                ctx.violation('witness: the principal passed to SwapFloatLeg is not exchanged on the last payment date',
                              {'tag': 'witness/principal', 'with': v1, 'without': v0, 'expected_difference': exp}, clause='principal-argument')
        # equity swap: rate notionals are laid out in front-aligned blocks of `multiple`; with a front stub the blocks
        # are not the equity periods
        from financepy.products.equity.equity_swap import EquitySwap
        from financepy.utils.global_types import ReturnTypes
        wd = D_(17, 6, 2022)
        wc = E.DiscountCurveFlat(wd, 0.05, FT.ANNUAL, DT.ACT_365F)
        es = EquitySwap(wd, D_(17, 12, 2023), ST.RECEIVE, FT.ANNUAL, DT.ACT_365F, 80.0, 125000.0, 0, ReturnTypes.TOTAL_RETURN,
                        FT.QUARTERLY, DT.ACT_365F, 0.0, 0)
        v, e = call(lambda: es.value(wd, wc, wc))
        if e is None:
            arr, last = [float(x) for x in es.rate_leg.notional_array], [float(x) for x in es.equity_leg.last_notionals]
            j = 3                                   # accrues 19-DEC-2022 -> 20-MAR-2023, inside equity period 1
            inside = (es.equity_leg.start_accd_dts[1] <= es.rate_leg.start_accrued_dts[j]
                      and es.rate_leg.end_accrued_dts[j] <= es.equity_leg.end_accd_dts[1])
            # regression witness of the former finding C06/equity-swap-rate-notional-front-aligned (fixed: commit PENDING)
            if not (inside and len(last) == 2 and len(arr) == 7 and arr[j] == last[1] and arr[2] == last[0] and abs(v) <= 1e-3):
                ctx.violation('witness: 18M equity swap (annual resets, quarterly rate leg, front stub): rate period 3 lies in the second '
                              f'equity period and must accrue on the second reset notional; the swap must be worth 0 at inception (got {v:.2f})',
                              {'tag': 'witness/equity-front-stub', 'value': v, 'notional_array': arr, 'reset_notionals': last,
                               'rate_period_3_inside_equity_period_1': inside},
                              clause='rate-notional=reset-notional-of-containing-equity-period')
        else:
            ctx.violation(f'witness: EquitySwap.value raised {e}', {'tag': 'witness/equity-front-stub'}, clause='value-error')
        n = 9
    ctx.count('witnesses', n, n, sample={'what': 'witnesses of findings/C06.json replayed on the implementation'})


# --------------------------------------------------------------------------- driver of the run
class CaseTimeout(Exception):
    pass


def _alarm(signum, frame):
    raise CaseTimeout()


def run_component(ctx, E, pool, B, T, comp, fn, n, drivers_ok, spec_ok):
    import signal
    nontriv = 0
    done = 0
    sample = None
    old = signal.signal(signal.SIGALRM, _alarm)
    try:
        for i in range(n):
            tag = f'{comp}/{i}'
            rng = ctx.rng(tag)
            signal.alarm(30)
            try:
                with warnings.catch_warnings(), contextlib.redirect_stdout(io.StringIO()):
                    warnings.simplefilter('ignore')
                    nontriv += fn(ctx, E, rng, pool, B, T, tag)
                done += 1
            except CaseTimeout:
                ctx.violation(f'{comp}: the implementation did not return within 30 s', {'tag': tag, 'seed': ctx.seed},
                              clause='hang')
            finally:
                signal.alarm(0)
            if len(B.model_ops) + len(B.spec_ops) + len(B.gen_ops) > 6000:
                B.flush(ctx, drivers_ok, spec_ok)
    finally:
        signal.signal(signal.SIGALRM, old)
    B.flush(ctx, drivers_ok, spec_ok)
    ctx.count(comp, done, nontriv, sample={'tag': f'{comp}/0', 'how': 'case regenerated from VERIF_SEED and this tag'})
    c = ctx.cov['components'][comp]
    c['branches'] = {k.split(':', 1)[1]: v for k, v in sorted(T.n.items()) if k.startswith(comp + ':')}


COMPONENTS = [
    # name, function, quick count, thorough count
    ('fixed_leg', fixed_case, 450, 3600),
    ('float_leg', float_case, 450, 3600),
    ('ibor_swap', ibor_swap_case, 300, 2400),
    ('ois', ois_case, 150, 1200),
    ('basis_swap', basis_case, 60, 500),
    ('ibor_basis_whole', H6.ibor_basis_whole_case, 50, 450),
    ('ois_basis_whole', H6.ois_basis_whole_case, 70, 600),
    ('future_fra', H6.future_case, 80, 700),
    ('equity_swap', equity_swap_case, 160, 1300),
    ('deposit', deposit_case, 120, 1000),
    ('fra', fra_case, 120, 1000),
]


def run(ctx):
    all_ok = C.lean_stage(ctx, GEN, PROPS, DRIVERS + GEN_DRIVERS + SPEC_DRIVERS, extra_files=EXTRA_FILES)
    # which drivers built: the hand-model driver and the spec driver import nothing generated and survive any change of
    # the source; the generated-loop driver needs Gen/SwapsF
    failed = set()
    if not all_ok:
        for b in ctx.broken:
            if b.startswith('model: the executable model'):
                failed |= set(x.strip() for x in b.split(': ')[-1].split(','))
    drivers_ok = not any(d in failed for d in DRIVERS)
    spec_ok = not any(d in failed for d in SPEC_DRIVERS)
    Batch.gen_ok = not any(d in failed for d in GEN_DRIVERS)
    E = load_env(ctx)
    pool = make_pool(E, ctx.rng('pool'))
    B, T = Batch(), Tally()
    witnesses(ctx, E)
    H6.legacy_package(ctx)
    reuse_oracle(ctx, E)
    curve_par_rate_oracle(ctx, E, pool)
    for name, fn, nq, nt in COMPONENTS:
        run_component(ctx, E, pool, B, T, name, fn, nq if ctx.quick() else nt, drivers_ok, spec_ok)
    ctx.assumptions += [
        'theorems are about the model read over a field (exact arithmetic); the gap to IEEE doubles is covered only by '
        'the tolerance of the correspondence (rtol 1e-10 relative to the sum of |flow PVs|)',
        'schedule generation (C16), day-count fractions (C15), business-day arithmetic (C14) and the curve function '
        'df(date) (C02) are inputs here: the harness recomputes them through the public API and feeds them to model '
        'and spec',
        'frequencies ZERO / SIMPLE / CONTINUOUS are not generated: Schedule does not terminate on them (C16)',
        'the loop bodies, after-loop blocks, pv01 / swap_rate methods and deposit / FRA values of the hand model are proved equal '
        'to the functions the translator generates from the current source (Props/C06e); the fold skeleton around them '
        '(initial values, order of the periods, notional fill) is tied by the correspondence only',
        'cross-currency swap classes (products/rates/swaps/Fin*XCcySwap.py, FinIborIborSwap.py) do not import in this tree (legacy module '
        'paths; finding C06/legacy-swaps-package-unimportable, the four imports are tried on every run): a leg with notional exchange is '
        'SwapFixedLeg / SwapFloatLeg with `principal`, which is modelled',
        'the glue of IborBasisSwap / OISBasisSwap (value = leg 1 + leg 2, second leg type, arguments handed to SwapFloatLeg) and of '
        'IborFuture.to_fra is generated from the source (Gen/BasisR) and proved equal to the hand model (Props/C06h); the schedules '
        'of the two legs are tied by the correspondence (ops GEN, BAS)',
    ]
    return C.finish(ctx, 'proof',
                    'lake build ' + ' '.join(PROPS) + ' && lake env lean .cache/audit/Audit_C06.lean',
                    C.TRUSTED_BASE_COMMON + ['Spec: FinVerif/Spec/C06.lean (Σ accrual×rate×notional×df(pay)/df(value date) over '
                                             'flows paid after the value date)',
                                             'hand-written model FinVerif/Model/C06.lean + C06x.lean, tied to the code by the correspondence and, for the loop bodies, '
                                             'by Props/C06e against Gen/SwapsR (regenerated from the source every run)'],
                    RULE)



def curve_par_rate_oracle(ctx, E, pool):
    """DiscountCurve.swap_rate(effective, maturity | [maturities]) is the library's own 'reported par rate' on a curve
    (used by the curve reports and by the par-rate risk engine): for each maturity it must be (df(effective) - df(maturity))
    / sum(accrual x df(payment)) over the unadjusted schedule, whether the maturity is asked alone or as one element of a
    list, in any order (seed C06-11: per-maturity initialisation hoisted out of the loop over maturities)."""
    rng = ctx.rng('curve-par-rate')
    DT, FT = E.DayCountTypes, E.FrequencyTypes
    n = 60 if ctx.quick() else 800
    cnt = 0
    for i in range(n):
        d, m, y = D.interesting_dates(rng, 1, 2004, 2040)[0]
        vd = E.Date(d, m, y)
        eff = vd.add_days(rng.choice([0, 0, 2, 30, 400]))
        _, crv = draw_curve(E, rng, pool, vd, vd)
        if crv.value_dt > eff:
            eff = crv.value_dt.add_days(rng.choice([0, 2, 30]))
        fq = rng.choice([FT.ANNUAL, FT.SEMI_ANNUAL, FT.QUARTERLY, FT.MONTHLY])
        dc = rng.choice([DT.THIRTY_E_360, DT.ACT_360, DT.ACT_365F, DT.ACT_ACT_ISDA, DT.THIRTY_360_BOND])
        mats = [eff.add_months(rng.choice([1, 3, 6, 7, 12, 18, 24, 60, 120, 121])) for _ in range(rng.choice([1, 2, 2, 3, 5]))]
        case = {'curve_value_dt': ser(crv.value_dt), 'curve': type(crv).__name__, 'effective': ser(eff),
                'maturities': [ser(x) for x in mats], 'freq': fq.name, 'dc': dc.name}
        try:
            got = [float(x) for x in crv.swap_rate(eff, list(mats), fq, dc)]
            alone = [float(crv.swap_rate(eff, x, fq, dc)[0]) for x in mats]
            one = [float(crv.swap_rate(eff, [x], fq, dc)[0]) for x in mats]
        except E.FinError:
            continue
        want = []
        for x in mats:
            fl = E.Schedule(eff, x, fq).generate()
            fl[0] = eff
            dcc, pv01, prev = E.DayCount(dc), 0.0, eff
            for nx in fl[1:]:
                pv01 += dcc.year_frac(prev, nx)[0] * float(crv.df(nx))
                prev = nx
            want.append((float(crv.df(eff)) - float(crv.df(fl[-1]))) / pv01 if abs(pv01) >= G_SMALL else 0.0)
        cnt += 1
        for k in range(len(mats)):
            sc = max(abs(want[k]), 1e-4)
            if got[k] != alone[k] or one[k] != alone[k]:
                ctx.violation('DiscountCurve.swap_rate: the par rate of a maturity asked as one element of a list differs from the '
                              'par rate of the same maturity asked alone', dict(case, element=k, in_list=got[k], alone=alone[k],
                                                                                  one_element_list=one[k], expected=want[k]),
                              clause='curve-par-rate')
                break
            if abs(alone[k] - want[k]) > 1e-11 * sc + 1e-15:
                ctx.violation('DiscountCurve.swap_rate is not (df(effective) - df(maturity)) / sum(accrual x df(payment))',
                              dict(case, element=k, swap_rate=alone[k], expected=want[k]), clause='curve-par-rate')
                break
    ctx.count('curve_par_rate (DiscountCurve.swap_rate, scalar / list)', cnt, cnt, sample={'how': 'regenerated from VERIF_SEED'})


def reuse_oracle(ctx, E):
    """One leg / swap object valued against different curve sets must give what a fresh object gives:
    the value depends on the arguments of the call only (C06 'floating rates projected from the index
    curve'; also C18).  Curves of different day-count bases, different valuation dates."""
    rng = ctx.rng('reuse')
    DT, FT, ST = E.DayCountTypes, E.FrequencyTypes, E.SwapTypes
    n = 40 if ctx.quick() else 600
    cnt = 0
    for i in range(n):
        eff = E.Date(rng.randint(1, 28), rng.randint(1, 12), rng.randint(2015, 2035))
        mat = eff.add_months(rng.choice([12, 24, 60, 120]))
        bases = rng.sample([DT.ACT_360, DT.ACT_365F, DT.THIRTY_E_360, DT.ACT_ACT_ISDA], 2)
        vds = [eff.add_days(-rng.choice([0, 5, 40])), eff.add_days(rng.choice([0, 10, 100]))]
        curves = [(vds[j], E.DiscountCurveFlat(vds[j], rng.uniform(0.0, 0.06), rng.choice([FT.CONTINUOUS, FT.ANNUAL]), bases[j]),
                   E.DiscountCurveFlat(vds[j], rng.uniform(0.0, 0.06), rng.choice([FT.CONTINUOUS, FT.SEMI_ANNUAL]), bases[1 - j]))
                  for j in range(2)]
        fq = rng.choice([FT.QUARTERLY, FT.SEMI_ANNUAL])
        lt = rng.choice([ST.PAY, ST.RECEIVE])

        def mk_float():
            return E.SwapFloatLeg(eff, mat, lt, rng_spread, fq, DT.ACT_360)

        def mk_fixed():
            return E.SwapFixedLeg(eff, mat, lt, 0.03, fq, DT.THIRTY_E_360)

        def mk_swap():
            return E.IborSwap(eff, mat, lt, 0.03, fq, DT.THIRTY_E_360)
        rng_spread = rng.choice([0.0, 0.001])
        for name, mk, val in (
                ('SwapFloatLeg', mk_float, lambda o, c: o.value(c[0], c[1], c[2])),
                ('SwapFixedLeg', mk_fixed, lambda o, c: o.value(c[0], c[1])),
                ('IborSwap', mk_swap, lambda o, c: o.value(c[0], c[1], c[2]))):
            try:
                shared = mk()
                a1 = float(val(shared, curves[0]))
                b_shared = float(val(shared, curves[1]))
                b_fresh = float(val(mk(), curves[1]))
                a_again = float(val(shared, curves[0]))
            except E.FinError:
                continue
            cnt += 1
            sc = max(abs(b_fresh), abs(a1), 1.0)
            if abs(b_shared - b_fresh) > 1e-12 * sc or abs(a_again - a1) > 1e-12 * sc:
                ctx.violation(f'{name}: value on a re-used object differs from the value on a fresh object (depends on the earlier call)',
                              {'effective': ser(eff), 'maturity': ser(mat), 'leg_type': lt.name, 'freq': fq.name,
                               'curve_sets': [[ser(c[0]), c[1].dc_type.name, c[2].dc_type.name] for c in curves],
                               'first': a1, 'second_on_shared_object': b_shared, 'second_on_fresh_object': b_fresh,
                               'first_again': a_again}, clause='reuse')
    ctx.count('reuse (same object, different curve sets / valuation dates)', cnt)


def replay(ctx, path):
    import json
    rp = json.load(open(path))
    v = rp.get('violation')
    if not v:
        print('replay: no concrete input in this file:', rp.get('broken'))
        return 1
    tag = v['case'].get('tag')
    seed = rp.get('seed', ctx.seed)
    ctx.seed = seed
    E = load_env(ctx)
    pool = make_pool(E, ctx.rng('pool'))
    fns = {name: fn for name, fn, _, _ in COMPONENTS}
    comp = tag.split('/')[0]
    B, T = Batch(), Tally()
    with warnings.catch_warnings():
        warnings.simplefilter('ignore')
        if comp == 'witness':
            witnesses(ctx, E)
        else:
            fns[comp](ctx, E, ctx.rng(tag), pool, B, T, tag)
    B.flush(ctx, True, True)
    for x in ctx.violations:
        print('replay:', x['what'], json.dumps(x['case'], default=str))
    for x in ctx.broken:
        print('replay (tie):', x)
    if ctx.violations or ctx.broken:
        print(f'VIOLATION property=C06 replay={path}')
        return 1
    print('replay: the case no longer fails')
    return 0
