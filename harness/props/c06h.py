"""C06, growth round 6 — the two basis-swap classes as wholes (IborBasisSwap, OISBasisSwap), the future seen as a linear
product (IborFuture.to_fra -> IborFRA.value) and the legacy `products/rates/swaps/` package.

Components (cases drawn from ctx.rng(tag) only; helpers, curves, own schedule / own projection from props.c06):

  ibor_basis_whole / ois_basis_whole   one basis swap per case, every convention drawn per case (two frequencies, two day counts,
      calendar, adjustment, date-generation rule, stubs, spreads of both signs incl. negative rates, first fixings, three curves,
      valuation date before / on / inside / after, exactly on payment dates; OIS: payment lag on the OIS leg).  Checked:
        value = ± (Σ leg-1 flows − Σ leg-2 flows), flows = accrual × (index forward + spread) × notional × df(pay)/df(value_dt),
          schedules / year fractions / payment dates recomputed by the harness (never read from the legs)
        payment dates of the two legs as the constructors must produce them (lag on the OIS leg only, none on an Ibor leg)
        model tie (op BAS of Driver/C06 = Model.basisSwapValue ∘ mkBasisLegs; Props/C06h reduces mkIborBasis / mkOisBasis to it)
        pay = −receive (opposite first-leg type), linear in the notional (factor −2.5)
        affine in either spread: bumping leg k's spread by δ moves the value by ± δ × (own spread annuity of leg k), opposite signs
          for the two legs (theorems basis_affine_in_spread1/2, basis_spread_on_wrong_leg)
        legs with the same conventions, one index curve, same fixing: value = ± (s₁ − s₂) × spread annuity, 0 for equal spreads
          (theorem basis_same_conventions_spread_gap / _cancel) — any curve, any valuation date
        re-use: the same object valued on a second curve set / valuation date gives what a fresh object gives, and the first value
          comes back afterwards
  future_fra   IborFuture(today, n, '3M', dc, size).to_fra(price, convexity): terms of the FRA (rate period = [delivery, next IMM],
      rate = futures_rate − |convexity|/100, notional = contract size, receiver), its value on a curve set against the as-coded FRA
      model (op FRA) and the sign-free oracles: |value| = |acc × (forward − K) × size × df(end)/df(value_dt)|, linear in the contract
      size, one price point moves the value by acc × 1 % × size × df(end)/df(value_dt) in magnitude, worth 0 at the price whose
      convexity-adjusted rate is the projected forward (theorems future_fra_value_eq / _affine_in_price / _zero_iff).
  legacy package   the four modules of products/rates/swaps/ (IborIborSwap, the three XCcy swaps) are imported: a module that
      imports would be run; one that cannot be imported is the finding C06/legacy-swaps-package-unimportable.

Tolerances: as in props.c06 — |a−b| ≤ 1e-10 × (max(|a|,|b|) + Σ |flow PVs| of the values entering the comparison); differences of two
values (spread slopes, price slopes) are compared on the scale of the two values; pay = −receive at 1e-13.
"""
import math
import sys

from floatcmp import f2b, b2f

LEGACY = ['FinFixedFixedXCcySwap', 'FinFixedIborXCcySwap', 'FinIborIborSwap', 'FinIborIborXCcySwap']
LEGACY_FINDING = 'C06/legacy-swaps-package-unimportable'


def _H():
    return sys.modules['props.c06']


def _classes(E):
    if not hasattr(E, 'OISBasisSwap'):
        from financepy.products.rates.ois_basis_swap import OISBasisSwap
        from financepy.products.rates.ibor_future import IborFuture
        E.OISBasisSwap, E.IborFuture = OISBasisSwap, IborFuture
    return E


# --------------------------------------------------------------------------- basis swaps as wholes
def _build(E, kind, p, isPay=None, s1=None, s2=None, notional=None, l2=None):
    ST = E.SwapTypes
    t = ST.PAY if (p['isPay'] if isPay is None else isPay) else ST.RECEIVE
    s1 = p['s1'] if s1 is None else s1
    s2 = p['s2'] if s2 is None else s2
    N = p['notional'] if notional is None else notional
    f2, d2 = (p['l2_freq'], p['l2_dc']) if l2 is None else l2
    if kind == 'ibor':
        return E.IborBasisSwap(p['eff'], p['term'], t, p['l1_freq'], p['l1_dc'], s1, f2, d2, s2, N, p['cal'], p['bd'], p['dg'])
    return E.OISBasisSwap(p['eff'], p['term'], t, p['l1_freq'], p['l1_dc'], s1, f2, d2, s2, p['ois_lag'], N, p['cal'], p['bd'], p['dg'])


def _legs(kind, sw):
    return (sw.float_leg_1, sw.float_leg_2) if kind == 'ibor' else (sw.float_ibor_leg, sw.float_ois_leg)


def _whole_case(kind, ctx, E, rng, pool, B, T, tag):
    H = _H()
    _classes(E)
    comp = f'{kind}_basis_whole'
    DT = E.DayCountTypes
    p = H.draw_leg_params(E, rng, H.ref_date(E, rng, pool))
    p['eom'] = False
    p['ois_lag'] = p.pop('lag') if kind == 'ois' else 0
    p['lag'] = 0
    p['l1_freq'], p['l1_dc'] = p.pop('freq'), p.pop('dc')
    p['l2_freq'], p['l2_dc'] = E.FrequencyTypes[rng.choice(H.FREQS)], rng.choice(list(DT))
    p['s1'] = rng.choice([0.0, rng.uniform(-0.01, 0.02)])
    p['s2'] = rng.choice([0.0, rng.uniform(-0.01, 0.02)])
    case = H.describe(p, tag=tag, product=f'{kind}_basis_swap')
    impl_err = own_err = None
    try:
        sw = _build(E, kind, p)
    except Exception as e:  # noqa: BLE001
        impl_err = H.err_kind(e)
    try:
        sch1, per1 = H.own_schedule(E, dict(H.leg_params(p, 'l1'), lag=0))
        sch2, per2 = H.own_schedule(E, dict(H.leg_params(p, 'l2'), lag=p['ois_lag']))
    except Exception as e:  # noqa: BLE001
        own_err = H.err_kind(e)
    if impl_err or own_err:
        T.add(comp + ':ctor-error')
        if impl_err != own_err:
            ctx.violation(f'{comp}: constructor outcome {impl_err} but schedule/day count gives {own_err}', case, clause='constructor-error')
        return 0
    N = p['notional']
    leg1, leg2 = _legs(kind, sw)
    # payment dates as the constructor must produce them: no lag on leg 1, the OIS lag on leg 2 only
    for nm, leg, per in (('leg 1', leg1, per1), ('leg 2', leg2, per2)):
        if [H.ser(d) for d in leg.payment_dts] != [H.ser(x[2]) for x in per]:
            ctx.violation(f'{comp}: payment dates of {nm} are not the accrual end dates moved by that leg\'s payment lag '
                          f'({p["ois_lag"] if nm == "leg 2" else 0} business days)',
                          dict(case, impl=[str(d) for d in leg.payment_dts][:6], expected=[str(x[2]) for x in per][:6]), clause='payment-lag')
            return 0
    vd = H.draw_value_date(E, rng, p['eff'], [x[2] for x in per1 + per2])
    fut = [x for x in per1 + per2 if x[2] > vd]
    first_needed = min([vd] + [x[0] for x in fut])
    lab, curve = H.draw_curve(E, rng, pool, first_needed, vd)
    _, i1 = H.draw_curve(E, rng, pool, first_needed, vd)
    _, i2 = H.draw_curve(E, rng, pool, first_needed, vd)
    ff1 = None if rng.random() < 0.6 else rng.uniform(-0.005, 0.04)
    ff2 = None if rng.random() < 0.6 else rng.uniform(-0.005, 0.04)
    case = dict(case, value_dt=(vd.d, vd.m, vd.y), curve=lab, ff1=ff1, ff2=ff2)
    dfT, t1, t2 = H.DfTable(curve), H.DfTable(i1), H.DfTable(i2)
    v, impl_err = H.call(lambda: sw.value(vd, curve, i1, i2, ff1, ff2))
    own_err = None
    try:
        r1, ia1 = H.own_float(E, per1, vd, dfT, t1, i1.dc_type, ff1, p['s1'], [N] * len(per1))
        r2, ia2 = H.own_float(E, per2, vd, dfT, t2, i2.dc_type, ff2, p['s2'], [N] * len(per2))
    except Exception as e:  # noqa: BLE001
        own_err = H.err_kind(e)
    if impl_err or own_err:
        T.add(comp + ':value-error')
        if not H.same_outcome(impl_err, own_err, v if impl_err is None else None):
            ctx.violation(f'{comp}: value() outcome {impl_err} but own reading gives {own_err}', case, clause='value-error')
        return 0
    sgn = -1.0 if p['isPay'] else 1.0
    exp = sgn * (math.fsum(r[3] for r in r1) - math.fsum(r[3] for r in r2))
    scale = math.fsum(abs(r[3]) for r in r1 + r2) + abs(N) * 1e-6
    if not H.close(v, exp, scale):
        ctx.violation(f'{comp}: value is not (leg 1 − leg 2) of accrual × (index forward + spread) × notional × df(pay)/df(value_dt) '
                      'over the payment dates after the valuation date', dict(case, impl=v, expected=exp), clause='value=sum')

    def cb(o, op):
        if o.startswith(('E:', 'bad')) or not H.close(b2f(o), v, scale):
            H.tie_broken(ctx, T, comp, f'model≠implementation (model `{o}`, impl {v}) on {case}')
    B.model(f'BAS {int(p["isPay"])} {f2b(p["s1"])} {f2b(p["s2"])} {f2b(N)} {H.ser(vd)} {H.enc_opt(ff1)} {H.enc_opt(ff2)} '
            f'{H.enc_fperiods(per1, [x if x == x else 0.0 for x in ia1], [N] * len(per1))} '
            f'{H.enc_fperiods(per2, [x if x == x else 0.0 for x in ia2], [N] * len(per2))} {dfT.enc()} {t1.enc()} {t2.enc()}', cb)
    # the periods of both legs (lag 0 / OIS lag) against Model.genPeriods (Props/C06h: mkIborBasis / mkOisBasis = mkBasisLegs ∘ genPeriods)
    for leg, sch, per, lag in ((leg1, sch1, per1, 0), (leg2, sch2, per2, p['ois_lag'])):
        impl_gen = ' '.join(f'{H.ser(leg.start_accrued_dts[i])} {H.ser(leg.end_accrued_dts[i])} {H.ser(leg.payment_dts[i])} '
                            f'{f2b(leg.year_fracs[i])}' for i in range(len(per)))

        def cb_gen(o, op, impl_gen=impl_gen):
            if o != impl_gen:
                H.tie_broken(ctx, T, comp, f'generate_payment_dts model≠implementation on `{op[:200]}`')
        B.model(H.gen_op({'lag': lag}, sch, per), cb_gen)
    val = lambda o: H.call(lambda: o.value(vd, curve, i1, i2, ff1, ff2))  # noqa: E731
    # ---- pay = −receive
    v2, e2 = val(_build(E, kind, p, isPay=not p['isPay']))
    if e2 or not H.close(v2, -v, scale, 1e-13):
        ctx.violation(f'{comp}: value with the opposite first-leg type is not minus the value', dict(case, this=v, opposite=v2, err=e2),
                      clause='pay=-receive')
    # ---- linear in the notional
    v3, e3 = val(_build(E, kind, p, notional=-2.5 * N))
    if e3 or not H.close(v3, -2.5 * v, 2.5 * scale):
        ctx.violation(f'{comp}: value is not linear in the notional', dict(case, v=v, v_at_minus_2_5=v3, err=e3), clause='linear-notional')
    # ---- affine in either spread, slope = the leg's own spread annuity, opposite signs
    delta = rng.choice([0.0025, -0.004, 0.01])
    U1 = math.fsum(yf * N * r[2] for (a, b, pay, yf), r in zip(per1, r1) if pay > vd)
    U2 = math.fsum(yf * N * r[2] for (a, b, pay, yf), r in zip(per2, r2) if pay > vd)
    for k, U, kw, s in ((1, U1, 's1', +1.0), (2, U2, 's2', -1.0)):
        vb, eb = val(_build(E, kind, p, **{kw: p[kw] + delta}))
        want = s * sgn * delta * U
        if eb or not H.close(vb - v, want, 2 * scale + abs(delta * U)):
            ctx.violation(f'{comp}: a spread bump of {delta} on leg {k} does not move the value by {"+" if s > 0 else "−"}(±)δ × that leg\'s '
                          'spread annuity (Σ accrual × notional × df(pay)/df(value_dt) over its unpaid coupons)',
                          dict(case, leg=k, delta=delta, moved=None if eb else vb - v, expected=want, err=eb), clause='affine-spread')
    # ---- same conventions on both legs, one index curve, one fixing: only the spread gap is left
    if p['ois_lag'] == 0:
        same = _build(E, kind, p, l2=(p['l1_freq'], p['l1_dc']))
        vs, es = H.call(lambda: same.value(vd, curve, i1, i1, ff1, ff1))
        want = sgn * (p['s1'] - p['s2']) * U1
        sc = 2 * math.fsum(abs(r[3]) for r in r1) + abs(N) * 1e-6
        if es or not H.close(vs, want, sc):
            ctx.violation(f'{comp}: two legs with the same conventions on one index curve do not cancel down to (s₁ − s₂) × spread annuity',
                          dict(case, impl=vs, expected=want, err=es), clause='legs-cancel')
        T.add(comp + ':legs-cancel')
    # ---- re-use: second curve set / valuation date on the same object vs a fresh object; first value back afterwards
    vdB = H.draw_value_date(E, rng, p['eff'], [x[2] for x in per1 + per2])
    futB = [x for x in per1 + per2 if x[2] > vdB]
    fnB = min([vdB] + [x[0] for x in futB])
    _, cB = H.draw_curve(E, rng, pool, fnB, vdB)
    _, iB = H.draw_curve(E, rng, pool, fnB, vdB)
    ffB = None if rng.random() < 0.5 else 0.0123
    b_shared, eS = H.call(lambda: sw.value(vdB, cB, iB, cB, ffB, ff2))
    b_fresh, eF = H.call(lambda: _build(E, kind, p).value(vdB, cB, iB, cB, ffB, ff2))
    a_again, eA = val(sw)
    if eS != eF or eA is not None or (eS is None and b_shared != b_fresh and not H.close(b_shared, b_fresh, 0.0, 1e-13)) \
            or (a_again != v and not H.close(a_again, v, 0.0, 1e-13)):
        ctx.violation(f'{comp}: the value on a re-used object differs from the value on a fresh object (or the first value does not come back)',
                      dict(case, second_value_dt=(vdB.d, vdB.m, vdB.y), first=v, first_again=a_again, second_on_shared_object=b_shared,
                           second_on_fresh_object=b_fresh, errs=[eS, eF, eA]), clause='reuse')
    T.add(comp + ':lag!=0', int(p['ois_lag'] != 0))
    T.add(comp + ':fixing', int(ff1 is not None or ff2 is not None))
    T.add(comp + ':vd-on-payment-date', int(any(x[2] == vd for x in per1 + per2)))
    T.add(comp + ':negative-forward-or-spread', int(p['s1'] < 0 or p['s2'] < 0 or any(r[0] < 0 for r in r1 + r2)))
    return 1 if fut else 0


def ibor_basis_whole_case(ctx, E, rng, pool, B, T, tag):
    return _whole_case('ibor', ctx, E, rng, pool, B, T, tag)


def ois_basis_whole_case(ctx, E, rng, pool, B, T, tag):
    return _whole_case('ois', ctx, E, rng, pool, B, T, tag)


# --------------------------------------------------------------------------- IborFuture -> FRA -> value
def future_case(ctx, E, rng, pool, B, T, tag):
    H = _H()
    _classes(E)
    comp = 'future_fra'
    DT = E.DayCountTypes
    d, m, y = H.ref_date(E, rng, pool)
    today = E.Date(d, m, y)
    nfut = rng.choice([1, 1, 2, 3, 4, 6, 8, 12])
    dc = rng.choice([DT.ACT_360, DT.ACT_365F, DT.THIRTY_E_360, DT.ACT_ACT_ISDA])
    size = rng.choice([1e6, 1.0, 2.5e5, -1e6, 1e6 * rng.uniform(0.1, 5)])
    price = rng.choice([rng.uniform(94.0, 100.5), 100.0, rng.uniform(97.0, 99.9)])
    cvx = rng.choice([0.0, rng.uniform(0.0, 0.08), -rng.uniform(0.0, 0.08)])
    case = {'tag': tag, 'product': 'ibor_future', 'today': (d, m, y), 'future_number': nfut, 'dc': dc.name, 'contract_size': size,
            'price': price, 'convexity': cvx}
    fut = E.IborFuture(today, nfut, '3M', dc, size)
    fra = fut.to_fra(price, cvx)
    K = (100.0 - price) / 100.0 - abs(cvx) / 100.0
    deliv = today
    for _ in range(nfut):
        deliv = deliv.next_imm_date()
    endp = deliv.next_imm_date()
    terms = {'start': (fra.start_dt == deliv and fut.delivery_dt == deliv), 'end': (fra.maturity_dt == endp),
             'rate': abs(fra.fra_rate - K) <= 1e-15, 'notional': fra.notional == size, 'receiver': fra.pay_fixed_rate is False,
             'dc': fra.dc_type == dc}
    if not all(terms.values()):
        ctx.violation(f'{comp}: to_fra does not give the receiver FRA over [delivery, next IMM date] struck at futures_rate − |convexity|/100 '
                      'on the contract size', dict(case, failed=[k for k, ok in terms.items() if not ok], fra_rate=fra.fra_rate, expected_rate=K,
                                                   start=str(fra.start_dt), end=str(fra.maturity_dt)), clause='future-fra-terms')
        return 0
    vd = today if rng.random() < 0.5 else today.add_days(-rng.randint(0, 200))
    if rng.random() < 0.2:
        vd = deliv.add_days(-rng.choice([0, 1, 10]))
    lab, curve = H.draw_curve(E, rng, pool, vd, vd)
    if rng.random() < 0.5:
        idx, pass_idx, ilab = curve, None, 'same'
    else:
        ilab, idx = H.draw_curve(E, rng, pool, vd, vd)
        pass_idx = idx
    case = dict(case, value_dt=(vd.d, vd.m, vd.y), curve=lab, index_curve=ilab)
    dfT = H.DfTable(curve)
    idxT = dfT if idx is curve else H.DfTable(idx)
    v, err = H.call(lambda: fra.value(vd, curve, pass_idx))
    try:
        yf = float(E.DayCount(dc).year_frac(deliv, endp)[0])
        i1, i2, dfm, dfv = idxT(deliv), idxT(endp), dfT(endp), dfT(vd)
        fwd = (i1 / i2 - 1.0) / yf
    except Exception as e:  # noqa: BLE001
        if err is None:
            ctx.violation(f'{comp}: value() returns although the curve reads raise {H.err_kind(e)}', case, clause='value-error')
        return 0
    if err:
        ctx.violation(f'{comp}: value() raises {err} although every curve read succeeds', case, clause='value-error')
        return 0
    mag = yf * (fwd - K) * size * dfm / dfv
    scale = abs(size) * (abs(yf * fwd) + abs(yf * K)) * abs(dfm / dfv) + abs(size) * 1e-9
    if not H.close(abs(v), abs(mag), scale):
        ctx.violation(f'{comp}: |value| of the FRA made from the future is not |acc × (forward − fra_rate) × contract size × df(end)/df(value_dt)|',
                      dict(case, impl=v, expected_magnitude=abs(mag), forward=fwd, fra_rate=K), clause='future-fra-value')

    def cb(o, op):
        if o.startswith(('E:', 'bad')) or not H.close(b2f(o), v, scale):
            H.tie_broken(ctx, T, comp, f'model `{o}` vs impl {v} on {case}')
    B.model(f'FRA {H.ser(deliv)} {H.ser(endp)} {f2b(yf)} {f2b(K)} {f2b(size)} 0 {H.ser(vd)} {dfT.enc()} {idxT.enc()}', cb)
    # linear in the contract size
    v3, e3 = H.call(lambda: E.IborFuture(today, nfut, '3M', dc, -3.0 * size).to_fra(price, cvx).value(vd, curve, pass_idx))
    if e3 or not H.close(v3, -3.0 * v, 3 * scale):
        ctx.violation(f'{comp}: value is not linear in the contract size', dict(case, v=v, v_at_minus_3=v3, err=e3), clause='linear-notional')
    # one price point = acc × 1 % × size × df(end)/df(value_dt) (magnitude; the direction is IborFRA's sign convention)
    v4, e4 = H.call(lambda: fut.to_fra(price + 1.0, cvx).value(vd, curve, pass_idx))
    slope = yf * 0.01 * size * dfm / dfv
    if e4 or not H.close(abs(v4 - v), abs(slope), 2 * scale):
        ctx.violation(f'{comp}: one futures price point does not move the value by acc × 1 % × contract size × df(end)/df(value_dt)',
                      dict(case, moved=None if e4 else v4 - v, expected_magnitude=abs(slope), err=e4), clause='future-price-point')
    # worth zero where the convexity-adjusted futures rate is the projected forward
    pstar = 100.0 * (1.0 - fwd - abs(cvx) / 100.0)
    v5, e5 = H.call(lambda: fut.to_fra(pstar, cvx).value(vd, curve, pass_idx))
    if e5 or abs(v5) > 1e-10 * (abs(size) * (2 * abs(yf * fwd) + abs(yf) * 1e-3) * abs(dfm / dfv) + abs(size) * 1e-9):
        ctx.violation(f'{comp}: the FRA made at the price whose adjusted rate equals the projected forward is not worth 0',
                      dict(case, price_star=pstar, value=v5, err=e5), clause='future-zero-at-forward')
    T.add(comp + ':dual-curve', int(idx is not curve))
    T.add(comp + ':convexity!=0', int(cvx != 0.0))
    return 1


# --------------------------------------------------------------------------- the legacy package products/rates/swaps
def legacy_package(ctx):
    """Import each module of financepy/products/rates/swaps.  They are the only cross-currency swap classes of the tree (and an older
    Ibor-Ibor basis swap).  A module that cannot even be imported raises for every input: finding, not a model."""
    import importlib
    H = _H()
    n_bad = 0
    for m in LEGACY:
        name = 'financepy.products.rates.swaps.' + m
        try:
            importlib.import_module(name)
            ctx.notes.append(f'legacy module {name} imports on this tree: its classes are NOT covered by a model (growth round 6 found it unimportable)')
        except Exception as e:  # noqa: BLE001
            n_bad += 1
            what = f'witness: `import {name}` raises {type(e).__name__}: {e} — every class of the module is unusable'
            case = {'tag': 'witness/legacy-' + m, 'module': name, 'error': f'{type(e).__name__}: {e}'}
            if isinstance(e, ModuleNotFoundError) and LEGACY_FINDING in ctx.known_ids:
                ctx.violation(what, case, finding=LEGACY_FINDING, clause='import')
            else:
                # the id is not (yet) in known_findings.json on this copy: recorded in the evidence, not an alarm — the defect is
                # outside the valuation clauses (nothing can be valued), see findings/C06.json
                ctx.notes.append(what)
    ctx.count('legacy swaps package (import of the 4 modules)', len(LEGACY), n_bad)
    return n_bad
