"""C07 — bond price, yield, accrued interest and risk measures are mutually consistent.

Theorems: FinVerif/Props/C07a.lean (closed forms = explicit cash-flow sums for every n, accrued identities,
dirty = clean + accrued) and C07b.lean (curve loop = PV sum, schedule position, strict monotonicity, yield
round trip from the solver postcondition, bump formulas, zero / annuity / FRN identities) about the
hand-written model FinVerif/Model/C07Bond.lean.
Growth: C07d (the GENERATED Gen/BondR.lean = the hand model, every YTMCalcType branch; dirty = clean + accrued, risk and
zero/FRN/annuity formulas of the generated text), C07e (strictly decreasing + strictly convex in yield for every branch as
coded, unique yield / round trip of the generated function), C07f (HasDerivAt of the price to every order, central-difference
error bounds dy^2/6 sup|P3| and dy^2/12 sup|P4| for the coded dollar duration / convexity), C07g (ICMA accrued from the
C15 day-count theorems, zero-coupon monotonicity, FRN loop = PV / par at DM = quoted margin / unique DM, curve rescaling).
Tie: the model at Float (Driver/C07) AND the generated formulas at Float (Gen/BondF, Driver/C07Gen, ops G...) against the implementation
on every case; the source-independent spec
(Driver/C07Spec: explicit cash-flow sums) against the implementation; direct oracles on the implementation."""
import contextlib
import io
import json
import math
import os
import sys

sys.path.insert(0, os.path.dirname(os.path.dirname(os.path.abspath(__file__))))
import common as C  # noqa: E402
import dates as D   # noqa: E402
from floatcmp import f2b, b2f, close  # noqa: E402
from parallel import driver_parallel  # noqa: E402

GEN = ['BondF', 'BondR', 'BondLoopR']
PROPS = ['FinVerif.Props.C07a', 'FinVerif.Props.C07b', 'FinVerif.Props.C07c', 'FinVerif.Props.C07d', 'FinVerif.Props.C07e',
         'FinVerif.Props.C07f', 'FinVerif.Props.C07g', 'FinVerif.Props.C07h', 'FinVerif.Props.C07i']
DRIVERS = ['FinVerif.Driver.C07', 'FinVerif.Driver.C07Gen']
SPEC_DRIVERS = ['FinVerif.Driver.C07Spec']

RULE = ('bond cases = (bond, settlement date, yield, convention): bonds drawn over issue/maturity dates biased to '
        'month ends, 29 Feb and short first periods, 6 coupons, 5 frequencies, 10 day counts, 6 calendars, ex-dividend '
        'days 0..10, BACKWARD/FORWARD generation; settlement = issue date, every kind of coupon-date neighbour '
        '(-1, 0, +1 day), ex-dividend date -1/0/+1, random interior, final period, maturity-1; yields -2%..50% '
        'plus {0, +-1e-6, -2%, 50%}; all four YTMCalcType. Each case is compared with the Lean model (Float), '
        'with the Lean spec (explicit cash-flow sum) and run through the direct oracles. Distinct by '
        'construction (case tuples are de-duplicated); non-trivial = settlement strictly inside the life of the '
        'bond with at least one flow to come (all cases) - the count of last-period, ex-dividend, coupon-date '
        'and negative-yield cases is reported per branch. Curve / zero / annuity / FRN components likewise.')

SHIFT = 0.000000000012345
PRINCIPAL_FACE = 1000000.0     # face used for the tie of `Bond.principal` (hard-wired in Driver/C07Gen GBOND too)
CONV_CODES = {'UK_DMO': 1, 'US_STREET': 2, 'US_TREASURY': 3, 'CFETS': 4}

F_TREAS = 'C07/us-treasury-last-period-compounding'
# fixed in /repo (81d60de, dd7e86d, 211a9f6, fa36ff6+ebe01a1): C07/last-period-exdiv-coupon-priced, C07/curve-price-exdiv-later-period,
# C07/zero-curve-price-par-squared, C07/annuity-accrued-frequency-argument - no classifier any more: a recurrence is a VIOLATION
F_YTM_SOLVER = 'C07/ytm-solver-long-bond-low-yield'
F_30EPLUS = 'C07/accrued-nonzero-on-31st-30Eplus360'


# ----------------------------------------------------------------------------------------------- helpers
def fp():
    from financepy.utils.date import Date
    from financepy.products.bonds.bond import Bond, YTMCalcType
    from financepy.products.bonds.bond_zero import BondZero
    from financepy.products.bonds.bond_annuity import BondAnnuity
    from financepy.products.bonds.bond_frn import BondFRN
    from financepy.utils.frequency import FrequencyTypes, annual_frequency
    from financepy.utils.day_count import DayCountTypes, DayCount
    from financepy.utils.calendar import CalendarTypes, Calendar, BusDayAdjustTypes, DateGenRuleTypes
    from financepy.market.curves.discount_curve import DiscountCurve
    from financepy.utils.error import FinError
    return locals()


def ser(dt):
    return int(dt.excel_dt)


def dmy(dt):
    return [dt.d, dt.m, dt.y]


def err_kind(e, F):
    return 'E:FinError' if isinstance(e, F['FinError']) else 'E:' + type(e).__name__


def make_bond(F, p):
    return F['Bond'](F['Date'](*p['issue']), F['Date'](*p['maturity']), p['cpn'], F['FrequencyTypes'][p['freq']],
                     F['DayCountTypes'][p['dc']], p['exdiv'], F['CalendarTypes'][p['cal']],
                     F['BusDayAdjustTypes'].FOLLOWING, F['DateGenRuleTypes'][p['dg']])


def rtol_model(v):
    """The closed form divides by (1 - v); 1 ulp of `pow` is amplified by 1/|1-v| (yields within 1e-6 of 0)."""
    return 1e-10 + 1e-17 / max(abs(1.0 - v), 1e-300)


def rtol_spec(v, n, f):
    """+ the code prices at ytm + 1.2345e-11; |dP/P| <= duration * shift <= ((n+2)/f) * 1.3e-11."""
    return rtol_model(v) + 1.3e-11 * (n + 2) / f


def relclose(a, b, rtol, atol=1e-12):
    return close(float(a), float(b), rtol=rtol, atol=atol)


class TableCurve:
    """A discount curve given by its values on the dates that will be asked for (duck-typed: the bond classes
    only read `.value_dt` and `.df(date)`), so that no interpolation / time-axis convention of the curve
    classes (properties C01/C02) enters the C07 checks."""

    def __init__(self, value_dt, table):
        self.value_dt = value_dt
        self._t = table

    def df(self, dt):
        return self._t[ser(dt)]


# ----------------------------------------------------------------------------------------------- generation
COUPONS = [0.001, 0.01, 0.025, 0.05, 0.0875, 0.15]
FREQS = ['ANNUAL', 'SEMI_ANNUAL', 'TRI_ANNUAL', 'QUARTERLY', 'MONTHLY']
FREQ_MONTHS = {'ANNUAL': 12, 'SEMI_ANNUAL': 6, 'TRI_ANNUAL': 4, 'QUARTERLY': 3, 'MONTHLY': 1}
DCS = ['THIRTY_360_BOND', 'THIRTY_E_360', 'THIRTY_E_360_ISDA', 'THIRTY_E_PLUS_360', 'ACT_ACT_ISDA', 'ACT_ACT_ICMA',
       'ACT_365F', 'ACT_360', 'ACT_365L', 'SIMPLE']
CALS = ['WEEKEND', 'NONE', 'UNITED_KINGDOM', 'TARGET', 'UNITED_STATES', 'JAPAN']


def gen_bond_params(rng, nb):
    out = []
    issues = D.interesting_dates(rng, nb, 1996, 2034)
    for (d, m, y) in issues:
        freq = rng.choice(FREQS)
        k = rng.random()
        if freq == 'MONTHLY':
            years = rng.choice([1, 2, 3, 5])
        else:
            years = rng.choice([1, 2, 3, 5, 7, 10, 15, 20, 30]) if k < 0.9 else 40
        # maturity: regular (issue + whole periods), or irregular (short first period), month end / 29 Feb bias
        kk = rng.random()
        if kk < 0.45:
            md, mm, my = d, m, y + years
        elif kk < 0.6:
            mm = rng.randint(1, 12)
            my = y + years
            md = 31
        elif kk < 0.7:
            md, mm, my = 29, 2, ((y + years + 3) // 4) * 4
        else:
            md, mm, my = rng.randint(1, 28), rng.randint(1, 12), y + years
        # clamp to a valid civil date
        import datetime
        while True:
            try:
                datetime.date(my, mm, md)
                break
            except ValueError:
                md -= 1
        if (my, mm, md) <= (y, m, d):
            my = y + 1
        exd = 0 if rng.random() < 0.45 else rng.choice([1, 2, 3, 5, 6, 7, 7, 10])
        out.append({'issue': [d, m, y], 'maturity': [md, mm, my], 'cpn': rng.choice(COUPONS), 'freq': freq,
                    'dc': rng.choice(DCS + ['ACT_ACT_ICMA', 'ACT_ACT_ICMA']), 'exdiv': exd, 'cal': rng.choice(CALS),
                    'dg': 'BACKWARD' if rng.random() < 0.85 else 'FORWARD'})
    return out


def gen_settles(rng, F, bond, p, nper):
    """Settlement dates from issue to maturity-1: coupon dates and their neighbours, ex-dividend date
    neighbours, interior, final period."""
    cds = bond.cpn_dts
    nd = len(cds)
    cal = F['Calendar'](F['CalendarTypes'][p['cal']])
    c = []
    c.append(cds[0])
    c.append(cds[0].add_days(1))
    for _ in range(3):
        i = rng.randrange(1, nd)
        for off in (-1, 0, 1):
            c.append(cds[i].add_days(off))
        if p['exdiv'] > 0:
            ex = cal.add_business_days(cds[i], -p['exdiv'])
            for off in (-1, 0, 1, rng.choice([2, 3])):
                c.append(ex.add_days(off))
    span = int(cds[-1] - cds[0])
    for _ in range(2):
        c.append(cds[0].add_days(rng.randrange(0, max(span, 1))))
    # final period
    last0 = cds[-2]
    lspan = int(cds[-1] - last0)
    c.append(last0)
    c.append(last0.add_days(1))
    c.append(cds[-1].add_days(-1))
    c.append(last0.add_days(rng.randrange(0, max(lspan, 1))))
    if p['exdiv'] > 0:
        ex = cal.add_business_days(cds[-1], -p['exdiv'])
        c.append(ex.add_days(1))
        c.append(ex)
    lo, hi = cds[0], cds[-1]
    seen, out = set(), []
    for s in c:
        if s >= lo and s < hi and ser(s) not in seen:
            seen.add(ser(s))
            out.append(s)
    if len(out) > nper:
        keep = out[:2] + rng.sample(out[2:], nper - 2)
        out = keep
    return out


def gen_yield(rng):
    k = rng.random()
    if k < 0.12:
        return rng.choice([0.0, 1e-6, -1e-6, -0.02, 0.5, 0.05, 1e-4, -1e-4, 1e-12, -1e-12, 1e-9, -1e-9, 5e-7, -5e-7])
    if k < 0.3:
        return rng.uniform(-0.02, 0.0)
    if k < 0.85:
        return rng.uniform(0.0, 0.12)
    return rng.uniform(0.12, 0.5)


# ----------------------------------------------------------------------------------------------- bond cases
def position(cds_ser, s):
    """independent of the implementation: index of the first coupon date (index >= 1) after settlement, and
    the number of schedule dates after settlement minus one"""
    idx = None
    for i in range(1, len(cds_ser)):
        if cds_ser[i] > s:
            idx = i
            break
    n = sum(1 for x in cds_ser if x > s) - 1
    return idx, n


def derive_case(F, bond, p, settle, conv_name, y):
    """Everything the model/spec need, computed outside the Bond class from bond.cpn_dts, the day count (C15)
    and the calendar (C14)."""
    cds = bond.cpn_dts
    cs = [ser(x) for x in cds]
    s = ser(settle)
    idx, n = position(cs, s)
    freq_type = F['FrequencyTypes'][p['freq']]
    f = float(F['annual_frequency'](freq_type))
    pcd, ncd = cds[idx - 1], cds[idx]
    accf = F['DayCount'](F['DayCountTypes'][p['dc']]).year_frac(pcd, settle, ncd, freq_type)[0]
    cal = F['Calendar'](F['CalendarTypes'][p['cal']])
    exdt = cal.add_business_days(ncd, -p['exdiv'])
    exdiv = settle > exdt
    alpha_cf = 0.0
    if conv_name == 'CFETS' and n == 0:
        last_year = bond.maturity_dt.add_tenor('-12M')
        alpha_cf = 1 - F['DayCount'](F['DayCountTypes'].ACT_365L).year_frac(
            last_year, settle, bond.maturity_dt, freq_type=F['FrequencyTypes'].ANNUAL)[0]
    return {'bond': p, 'settle': dmy(settle), 'conv': conv_name, 'ytm': y, 'cs': cs, 's': s, 'idx': idx, 'n': n,
            'f': f, 'accf': float(accf), 'exdt': ser(exdt), 'exdiv': bool(exdiv), 'alpha_cf': float(alpha_cf),
            'alpha': 1.0 - float(accf) * f, 'on_cpn_date': s == cs[idx - 1]}


def case_ops(k):
    p = k['bond']
    code = CONV_CODES[k['conv']]
    nd = len(k['cs'])
    op_bond = ('BOND %d %d %s %d %d ' % (code, nd, ' '.join(map(str, k['cs'])), k['s'], k['exdt'])
               + ' '.join(f2b(x) for x in (p['cpn'], k['f'], k['ytm'], 100.0, k['accf'], k['alpha_cf'])))
    pay = 0.0 if k['exdiv'] else 1.0
    op_risk = 'RISK %d %d ' % (code, k['n']) + ' '.join(
        f2b(x) for x in (p['cpn'], k['f'], k['ytm'], k['alpha'], pay, k['alpha_cf']))
    op_dp = 'DP %d %d ' % (code, k['n']) + ' '.join(
        f2b(x) for x in (p['cpn'], k['f'], k['ytm'], k['alpha'], k['alpha_cf'], pay))
    op_acc = 'ACC %d ' % (1 if k['exdiv'] else 0) + ' '.join(f2b(x) for x in (k['accf'], k['f'], p['cpn'], 100.0))
    return op_bond, op_risk, op_dp, op_acc


def gen_op(k, risk):
    """op for the GENERATED formulas (Gen/BondF.lean): the translated `accrued_interest`, `dirty_price_from_ytm`,
    `clean_price_from_ytm` and bump formulas composed the way the methods call each other."""
    p = k['bond']
    return ('GBOND %d %d %d %d %d ' % (CONV_CODES[k['conv']], k['n'] + 1, k['s'], k['exdt'], 1 if risk else 0)
            + ' '.join(f2b(x) for x in (p['cpn'], k['f'], k['ytm'], k['accf'], k['alpha_cf'])))


def judge_gen_case(ctx, k, r, ans, stats):
    """tie of the generated text: implementation vs Gen/BondF at Float (same tolerances as the hand model)"""
    if 'error' in r:
        return
    p = k['bond']
    v = 1.0 / (1.0 + (k['ytm'] + SHIFT) / k['f'])
    m = ans.split()
    bad = []
    for nm, tok, val, rt in (('alpha', m[0], r['alpha'], 1e-12), ('accrued', m[1], r['acc'], 1e-12),
                             ('dirty', m[2], r['dp'], rtol_model(v)), ('clean', m[3], r['cp'], rtol_model(v))):
        if tok.startswith('E:'):
            bad.append(f'{nm}: generated {tok} impl {val}')
        elif not relclose(b2f(tok), val, rt, 1e-11):
            bad.append(f'{nm}: generated {b2f(tok)!r} impl {val!r}')
    if 'dd' in r and len(m) >= 8:
        for nm, tok, iv, rt, at in (('dollar_duration', m[4], r['dd'], 1e-7, 1e-8), ('modified_duration', m[5], r['md'], 1e-7, 1e-10),
                                    ('macauley_duration', m[6], r['mac'], 1e-7, 1e-10), ('convexity', m[7], r['cx'], 1e-4, 1e-8)):
            if not relclose(b2f(tok), iv, rt, at):
                bad.append(f'{nm}: generated {b2f(tok)!r} impl {iv!r}')
        if 'principal' in r and len(m) >= 10:
            for nm, tok, iv in (('principal', m[8], r['principal']), ('current_yield', m[9], r['cy'])):
                if not relclose(b2f(tok), iv, rtol_model(v), 1e-9):
                    bad.append(f'{nm}: generated {b2f(tok)!r} impl {iv!r}')
    stats['gen_compared'] = stats.get('gen_compared', 0) + 1
    if bad:
        stats['gen_disagree'] = stats.get('gen_disagree', 0) + 1
        if stats['gen_disagree'] <= 3:
            ctx.broke(f'correspondence bond (generated Gen/BondF): != implementation on {brief(k)}: ' + '; '.join(bad))


def python_cashflow_sum(k):
    """The same explicit sum as the Lean spec, written independently in Python (cross-check of the spec driver)."""
    p = k['bond']
    c, f, y, a, n = p['cpn'], k['f'], k['ytm'], k['alpha'], k['n']
    pay = 0.0 if k['exdiv'] else 1.0
    v = 1.0 / (1.0 + y / f)
    conv = k['conv']

    def disc(j):
        if conv == 'UK_DMO' or (conv in ('US_STREET', 'CFETS') and n > 0):
            return v ** (j + a)
        if conv == 'US_STREET':
            return 1.0 / (1.0 + a * y / f)
        if conv == 'CFETS':
            return 1.0 / (1.0 + k['alpha_cf'] * y)
        return v ** j / (1.0 + a * y / f)
    tot = 0.0
    for j in range(n + 1):
        tot += (c / f) * (pay if j == 0 else 1.0) * disc(j)
    return (tot + disc(n)) * 100.0


def impl_eval(F, bond, k, do_ytm, do_risk):
    """Run the implementation on one case.  Fresh call order as a user would: accrued, dirty, clean, ..."""
    Y = F['YTMCalcType'][k['conv']]
    settle = F['Date'](*k['settle'])
    y = k['ytm']
    r = {}
    try:
        r['acc'] = float(bond.accrued_interest(settle, 100.0))
        r['alpha'] = float(bond.alpha)
        r['pcd'] = ser(bond.pcd)
        r['ncd'] = ser(bond.ncd)
        r['exdt'] = ser(bond.ex_div_dt)
        r['dp'] = float(bond.dirty_price_from_ytm(settle, y, Y))
        r['cp'] = float(bond.clean_price_from_ytm(settle, y, Y))
        r['acc_after'] = float(bond.accrued_int)
    except Exception as e:  # noqa: BLE001
        r['error'] = err_kind(e, F) + ': ' + str(e)[:80]
        return r
    h = 1e-3
    try:
        r['p_m'] = float(bond.dirty_price_from_ytm(settle, y - h, Y))
        r['p_p'] = float(bond.dirty_price_from_ytm(settle, y + h, Y))
    except Exception as e:  # noqa: BLE001
        r['error'] = err_kind(e, F) + ': ' + str(e)[:80]
        return r
    if do_ytm:
        try:
            y2 = bond.yield_to_maturity(settle, r['cp'], Y)
            r['ytm_back'] = float(y2)
            r['dp_back'] = float(bond.dirty_price_from_ytm(settle, float(y2), Y))
        except Exception as e:  # noqa: BLE001
            r['ytm_error'] = err_kind(e, F) + ': ' + str(e)[:80]
    if do_risk:
        try:
            r['dd'] = float(bond.dollar_duration(settle, y, Y))
            r['md'] = float(bond.modified_duration(settle, y, Y))
            r['mac'] = float(bond.macauley_duration(settle, y, Y))
            r['cx'] = float(bond.convexity_from_ytm(settle, y, Y))
            r['p_m2'] = float(bond.dirty_price_from_ytm(settle, y - 2 * h, Y))
            r['p_p2'] = float(bond.dirty_price_from_ytm(settle, y + 2 * h, Y))
            r['principal'] = float(bond.principal(settle, y, PRINCIPAL_FACE, Y))
            r['cy'] = float(bond.current_yield(r['cp']))
        except Exception as e:  # noqa: BLE001
            r['risk_error'] = err_kind(e, F) + ': ' + str(e)[:80]
    return r


def brief(k):
    return {kk: k[kk] for kk in ('bond', 'settle', 'conv', 'ytm', 'n', 'idx', 'accf', 'alpha', 'exdiv', 'alpha_cf')}


def judge_bond_case(ctx, k, r, model, spec_dp, spec_acc, stats):
    """Compare implementation with model (tie), with spec (property) and run the direct oracles."""
    p = k['bond']
    c, f, y, n = p['cpn'], k['f'], k['ytm'], k['n']
    v = 1.0 / (1.0 + (y + SHIFT) / f)
    case = brief(k)
    if 'error' in r:
        ctx.violation('bond pricing raised on a valid settlement date', dict(case, error=r['error']), clause='no-error')
        return
    ok_prop = True

    def viol(what, extra, clause, finding=None):
        nonlocal ok_prop
        ok_prop = False
        ctx.violation(what, dict(case, **extra), finding=finding, clause=clause)

    # --- schedule position / ex-dividend date (which coupon pair the accrual is taken from)
    if r['pcd'] != k['cs'][k['idx'] - 1] or r['ncd'] != k['cs'][k['idx']]:
        viol('accrual period is not the coupon period containing the settlement date',
             {'impl_pcd_ncd': [r['pcd'], r['ncd']], 'expected': [k['cs'][k['idx'] - 1], k['cs'][k['idx']]]}, 'pcd-ncd')
    if r['exdt'] != k['exdt']:
        viol('ex-dividend date is not ncd - ex_div_days business days', {'impl': r['exdt'], 'expected': k['exdt']},
             'ex-div-date')
    # --- spec: accrued
    # (the spec driver is independent of the generated modules; should it be unavailable, the same formula in Python)
    acc_spec = b2f(spec_acc) if spec_acc is not None else ((k['accf'] - 1.0 / f) if k['exdiv'] else k['accf']) * c * 100.0
    if not relclose(r['acc'], acc_spec, 1e-10):
        viol('accrued interest differs from year-fraction x coupon (less one coupon when ex-dividend)',
             {'impl': r['acc'], 'spec': acc_spec}, 'accrued')
    if not relclose(r['alpha'], k['alpha'], 1e-10, 1e-13):
        viol('alpha is not 1 - acc_factor*freq', {'impl': r['alpha'], 'expected': k['alpha']}, 'alpha')
    # --- spec: dirty price = explicit cash-flow sum
    rs = rtol_spec(v, n, f)
    pysum = python_cashflow_sum(k)
    dps = b2f(spec_dp) if spec_dp is not None else pysum
    if not relclose(dps, pysum, 1e-9 + rs):
        ctx.broke(f'spec driver disagrees with the Python cash-flow sum on {case}: {dps} vs {pysum}')
    # model unavailable (its driver does not build): the direct oracles still run; the one model value the known-finding
    # classifier needs (US_TREASURY last period as coded: compound over the fraction) is then evaluated here
    m = model.split() if model is not None else None
    if m is not None:
        model_dp = b2f(m[4]) if not m[4].startswith('E:') else None
    elif n == 0 and k['conv'] == 'US_TREASURY' and v > 0:
        model_dp = (v ** k['alpha']) * (1.0 + (0.0 if k['exdiv'] else 1.0) * c / f) * 100.0
    else:
        model_dp = None
    if not relclose(r['dp'], dps, rs):
        finding = None
        if n == 0 and k['conv'] == 'US_TREASURY':
            finding = F_TREAS
        # excused only if the implementation still does exactly what the (proved-about) model does
        if finding is not None and (model_dp is None or not relclose(r['dp'], model_dp, rtol_model(v))):
            finding = None
        if finding:
            stats['known_' + finding] = stats.get('known_' + finding, 0) + 1
        viol('dirty price from yield differs from the discounted sum of remaining coupons and principal',
             {'impl': r['dp'], 'cashflow_sum': dps, 'rel_diff': (r['dp'] - dps) / dps}, 'cashflow-sum', finding)
    # --- direct oracles
    if not relclose(r['dp'] - r['cp'], r['acc'], 1e-10, 1e-9):
        viol('dirty - clean != accrued', {'dirty': r['dp'], 'clean': r['cp'], 'accrued': r['acc']}, 'dirty-clean-accrued')
    if not relclose(r['acc_after'], r['acc'], 1e-12, 1e-12):
        viol('accrued_int attribute after clean_price_from_ytm is not the accrued for par',
             {'attr': r['acc_after'], 'accrued': r['acc']}, 'accrued-state')
    if k['on_cpn_date'] and not k['exdiv'] and abs(r['acc']) > 1e-12:
        # 30E+/360 counts one day from a 31st to itself (d1: 31 -> 30, d2: 31 -> 1st of next month)
        # The published 30E+/360 rule itself gives one day from a 31st to itself (theorem
        # FinVerif.Props.C15.thirty_E_plus_360_equal_31st); the code follows the rule, so this is not a
        # defect of the implementation and is not reported (neither as violation nor as finding).
        by_rule = (p['dc'] == 'THIRTY_E_PLUS_360' and k['settle'][0] == 31
                   and relclose(r['acc'], c * 100.0 / 360.0, 1e-10))
        if not by_rule:
            viol('accrued is not zero on a coupon date', {'accrued': r['acc']}, 'accrued-zero-on-coupon-date', None)
    if not k['exdiv'] and r['acc'] < -1e-12:
        viol('accrued negative outside the ex-dividend window', {'accrued': r['acc']}, 'accrued-nonneg')
    if p['dc'] == 'ACT_ACT_ICMA':
        one = c / f * 100.0
        if not k['exdiv'] and not (r['acc'] < one):
            viol('ICMA accrued not strictly below one coupon', {'accrued': r['acc'], 'coupon': one}, 'icma-lt-coupon')
        if k['exdiv'] and not (-one - 1e-12 <= r['acc'] < 0):
            viol('ICMA ex-dividend accrued outside [-coupon, 0)', {'accrued': r['acc'], 'coupon': one}, 'icma-exdiv')
    # monotone decreasing, convex (hypothesis of the theorem: alpha >= 0 and some flow strictly in the future)
    if k['alpha'] >= 0 and (k['alpha'] > 1e-9 or n > 0):
        stats['mono'] = stats.get('mono', 0) + 1
        if not (r['p_m'] > r['dp'] > r['p_p']):
            viol('price not strictly decreasing in yield', {'P(y-h)': r['p_m'], 'P(y)': r['dp'], 'P(y+h)': r['p_p']},
                 'monotone')
        sd = r['p_m'] + r['p_p'] - 2 * r['dp']
        if not (sd > -1e-11 * abs(r['dp'])):
            viol('price not convex in yield', {'second_difference': sd}, 'convex')
    else:
        stats['mono_skipped_negative_alpha'] = stats.get('mono_skipped_negative_alpha', 0) + 1
    # yield round trip (hypothesis of ytm_roundtrip_of_postcondition: the price depends on the yield)
    determined = k['alpha'] > 1e-9 or n > 0
    years_left = (k['cs'][-1] - k['s']) / 365.25

    def solver_finding(returned):
        """long bonds at low yields: the secant iteration started at 5% overshoots (RuntimeError after 50
        iterations) or returns its second starting point 0.050105 silently"""
        if years_left >= 30 and y <= 0.006 and (returned is None or abs(returned - 0.050105) < 1e-9):
            return F_YTM_SOLVER
        return None
    if not determined:
        stats['ytm_skipped_price_independent_of_yield'] = stats.get('ytm_skipped_price_independent_of_yield', 0) + 1
    elif 'ytm_back' in r:
        stats['ytm'] = stats.get('ytm', 0) + 1
        resid = abs(r['dp_back'] - r['dp'])
        slope = abs(r['p_m'] - r['p_p']) / 2e-3
        if resid > 1e-6 + 1e-7 * slope:
            viol('yield solver returned without meeting its postcondition (repriced dirty price differs)',
                 {'ytm_back': r['ytm_back'], 'residual': resid}, 'ytm-postcondition', solver_finding(r['ytm_back']))
        elif abs(r['ytm_back'] - y) > 2e-7 + 1e-9 / max(slope, 1e-12):
            viol('yield_to_maturity(clean_price_from_ytm(y)) != y', {'ytm_back': r['ytm_back']}, 'ytm-roundtrip')
    elif 'ytm_error' in r:
        stats['ytm_fail'] = stats.get('ytm_fail', 0) + 1
        fnd = solver_finding(None) if 'Failed to converge after 50' in r['ytm_error'] else None
        viol('yield_to_maturity raised on a price produced by clean_price_from_ytm', {'error': r['ytm_error']},
             'ytm-solver', fnd)
    # risk measures = derivatives of the reported price (5-point stencils on the implementation's own price)
    if 'dd' in r:
        stats['risk'] = stats.get('risk', 0) + 1
        h = 1e-3
        d1 = (-r['p_p2'] + 8 * r['p_p'] - 8 * r['p_m'] + r['p_m2']) / (12 * h)
        d2 = (-r['p_p2'] + 16 * r['p_p'] - 30 * r['dp'] + 16 * r['p_m'] - r['p_m2']) / (12 * h * h)
        noise = 1e-17 / max(abs(1.0 - v), 1e-300) + 4e-16      # relative noise of one price evaluation
        if not relclose(r['dd'], -d1, 2e-5, 1e-7 + noise * abs(r['dp']) * 2e4):
            viol('dollar_duration is not -dP/dy', {'impl': r['dd'], 'minus_dPdy': -d1}, 'dollar-duration')
        if not relclose(r['md'], -d1 / r['dp'], 2e-5, 1e-9 + noise * 2e4):
            viol('modified_duration is not -dP/dy / P', {'impl': r['md'], 'expected': -d1 / r['dp']}, 'modified-duration')
        if not relclose(r['mac'], r['md'] * (1.0 + y / f), 1e-9, 1e-12):
            viol('macauley_duration is not modified_duration x (1 + y/f)', {'mac': r['mac'], 'md': r['md']}, 'macauley')
        if not relclose(r['cx'], d2 / r['dp'] / 100.0, 5e-4, 2e-8 + noise * 4e6):
            viol('convexity is not d2P/dy2 / P / par', {'impl': r['cx'], 'expected': d2 / r['dp'] / 100.0}, 'convexity')
    elif 'risk_error' in r:
        viol('risk measure raised', {'error': r['risk_error']}, 'risk-error')
    # price from a curve made of the yield's own discount factors = yield price
    if 'flat_curve_price' in r:
        stats['flat_curve'] = stats.get('flat_curve', 0) + 1
        if not relclose(r['flat_curve_price'], r['dp'], 1e-9 + rtol_model(v)):
            viol('price from the curve of yield discount factors differs from the yield price',
                 {'curve_price': r['flat_curve_price'], 'yield_price': r['dp']}, 'flat-curve')
    elif 'flat_curve_error' in r:
        viol('price from flat-yield curve raised', {'error': r['flat_curve_error']}, 'flat-curve')
    # --- tie: model vs implementation
    if m is None:
        stats['model_unavailable'] = stats.get('model_unavailable', 0) + 1
        return
    bad = []
    exp_idx = str(k['idx'])
    if m[0] != exp_idx or int(m[1]) != n:
        bad.append(f'position model ({m[0]},{m[1]}) vs harness ({exp_idx},{n})')
    for nm, tok, val, rt in (('alpha', m[2], r['alpha'], 1e-12), ('accrued', m[3], r['acc'], 1e-12),
                             ('dirty', m[4], r['dp'], rtol_model(v)), ('clean', m[5], r['cp'], rtol_model(v))):
        if tok.startswith('E:'):
            bad.append(f'{nm}: model {tok} impl {val}')
        elif not relclose(b2f(tok), val, rt, 1e-11):
            bad.append(f'{nm}: model {b2f(tok)!r} impl {val!r}')
    if bad:
        stats['model_disagree'] = stats.get('model_disagree', 0) + 1
        if ok_prop and stats['model_disagree'] <= 3:
            ctx.broke(f'correspondence bond: model != implementation on {case}: ' + '; '.join(bad))
    return


def judge_risk_model(ctx, k, r, ans, stats):
    if 'dd' not in r:
        return
    m = [b2f(x) for x in ans.split()]
    for nm, mv, iv, rt, at in (('dollar_duration', m[0], r['dd'], 1e-7, 1e-8), ('modified_duration', m[1], r['md'], 1e-7, 1e-10),
                               ('macauley_duration', m[2], r['mac'], 1e-7, 1e-10), ('convexity', m[3], r['cx'], 1e-4, 1e-8)):
        if not relclose(mv, iv, rt, at):
            stats['risk_model_disagree'] = stats.get('risk_model_disagree', 0) + 1
            if stats['risk_model_disagree'] <= 3:
                ctx.broke(f'correspondence risk: model {nm} {mv!r} != implementation {iv!r} on {brief(k)}')


# ----------------------------------------------------------------------------------------------- curve cases
def curve_case(rng, F, bond, p, settle):
    """A discount curve given by its values on the coupon dates (read back from the curve object, so the
    interpolation scheme plays no role)."""
    cds = bond.cpn_dts
    cs = [ser(x) for x in cds]
    s = ser(settle)
    back = rng.choice([0, 0, 1, 30, 200])
    value_dt = settle.add_days(-back)
    r0 = rng.uniform(-0.01, 0.12)
    slope = rng.uniform(-0.001, 0.003)
    table = {ser(value_dt): 1.0}
    for x in list(cds) + [settle]:
        t = (x - value_dt) / 365.0
        table[ser(x)] = math.exp(-(r0 + slope * t) * t) if t > 0 else 1.0
    curve = TableCurve(value_dt, table)
    df_at = [table[ser(x)] for x in cds]
    df_settle = table[ser(settle)]
    idx, n = position(cs, s)
    cal = F['Calendar'](F['CalendarTypes'][p['cal']])
    exdt = cal.add_business_days(cds[idx], -p['exdiv'])
    k = {'bond': p, 'settle': dmy(settle), 'value_dt': dmy(value_dt), 'cs': cs, 's': s, 'idx': idx, 'n': n,
         'exdt': ser(exdt), 'exdiv': bool(settle > exdt), 'dfs': df_at, 'df_settle': df_settle,
         'f': float(F['annual_frequency'](F['FrequencyTypes'][p['freq']])), 'r0': r0, 'slope': slope}
    try:
        k['impl'] = float(bond.dirty_price_from_discount_curve(settle, curve))
        k['impl_clean'] = float(bond.clean_price_from_discount_curve(settle, curve))
        k['acc'] = float(bond.accrued_interest(settle, 100.0))
    except Exception as e:  # noqa: BLE001
        k['error'] = err_kind(e, F) + ': ' + str(e)[:80]
    return k


def curve_ops(k):
    nd = len(k['cs'])
    p = k['bond']
    tail = ' '.join(f2b(x) for x in (k['df_settle'], p['cpn'], k['f']))
    op_m = ('CURVE %d %s %d %d ' % (nd, ' '.join(map(str, k['cs'])), k['s'], k['exdt'])
            + ' '.join(f2b(x) for x in k['dfs']) + ' ' + tail)
    op_s = ('CURVE %d %s %d %d ' % (nd - 1, ' '.join(map(str, k['cs'][1:])), k['s'], k['exdt'])
            + ' '.join(f2b(x) for x in k['dfs'][1:]) + ' ' + tail)
    return op_m, op_s


def judge_curve(ctx, k, model, spec, stats):
    case = {kk: k[kk] for kk in ('bond', 'settle', 'value_dt', 'idx', 'n', 'exdiv', 'r0', 'slope')}
    if 'error' in k:
        ctx.violation('price from discount curve raised', dict(case, error=k['error']), clause='curve-no-error')
        return
    ok = True
    sp = b2f(spec)
    if not relclose(k['impl'], sp, 1e-10):
        ok = False
        finding = None
        ctx.violation('price from discount curve differs from the PV of the flows the buyer receives',
                      dict(case, impl=k['impl'], pv_of_flows=sp), finding=finding, clause='curve-pv')
    if not relclose(k['impl'] - k['impl_clean'], k['acc'], 1e-10, 1e-9):
        ok = False
        ctx.violation('curve dirty - clean != accrued', dict(case, dirty=k['impl'], clean=k['impl_clean'], acc=k['acc']),
                      clause='curve-dirty-clean')
    if model is None:
        return
    if model.startswith('E:') or not relclose(k['impl'], b2f(model), 1e-10):
        stats['curve_model_disagree'] = stats.get('curve_model_disagree', 0) + 1
        if ok and stats['curve_model_disagree'] <= 3:
            ctx.broke(f'correspondence curve: model {model if model.startswith("E:") else b2f(model)} != implementation {k["impl"]} on {case}')


def flat_curve_consistency(ctx, F, bond, p, k, r, stats):
    """A curve whose discount factors on the coupon dates ARE the UK-DMO compound factors v^(j+alpha) must give
    the UK-DMO yield price."""
    if k['conv'] != 'UK_DMO' or 'dp' not in r:
        return
    settle = F['Date'](*k['settle'])
    y, f, a = k['ytm'] + SHIFT, k['f'], k['alpha']
    if a <= 1e-9:
        return
    v = 1.0 / (1.0 + y / f)
    cds = bond.cpn_dts
    fut = cds[k['idx']:]
    table = {ser(x): 1.0 for x in cds}
    table[ser(settle)] = 1.0
    for j, x in enumerate(fut):
        table[ser(x)] = v ** (j + a)
    try:
        curve = TableCurve(settle, table)
        pc = float(bond.dirty_price_from_discount_curve(settle, curve))
    except Exception as e:  # noqa: BLE001
        r['flat_curve_error'] = err_kind(e, F) + ': ' + str(e)[:80]
        return
    r['flat_curve_price'] = pc


# ----------------------------------------------------------------------------------------------- zero / annuity / FRN
def zero_cases(ctx, rng, F, nz, drivers_ok):
    Date, BondZero, DayCount, DCT, FT = F['Date'], F['BondZero'], F['DayCount'], F['DayCountTypes'], F['FrequencyTypes']
    Y0 = F['YTMCalcType'].ZERO
    ops, impl, cases = [], [], []
    gops, gimpl, gcases = [], [], []
    stats = {}
    for (d, m, y) in D.interesting_dates(rng, nz, 1996, 2034):
        issue = Date(d, m, y)
        mat = issue.add_days(rng.choice([30, 91, 182, 364, 365, 366, 367, 730, 1826, 3652, rng.randint(20, 7000)]))
        ip = rng.choice([50.0, 80.0, 95.0, 99.5, 100.0])
        z = BondZero(issue, mat, ip)
        span = int(mat - issue)
        for s_off in {0, 1, span - 1, rng.randrange(0, span), rng.randrange(0, span), max(span - 365, 0), max(span - 366, 0)}:
            if not (0 <= s_off < span):
                continue
            settle = issue.add_days(s_off)
            yv = gen_yield(rng)
            case = {'issue': dmy(issue), 'maturity': dmy(mat), 'issue_price': ip, 'settle': dmy(settle), 'ytm': yv}
            try:
                acc = float(z.accrued_interest(settle, 100.0))
                dp = float(z.dirty_price_from_ytm(settle, yv, Y0))
                cp = float(z.clean_price_from_ytm(settle, yv, Y0))
                t = DayCount(DCT.ZERO).year_frac(settle, mat, mat, FT.ZERO)[0]
                yb = float(z.yield_to_maturity(settle, cp, Y0))
                value_dt = settle.add_days(-rng.choice([0, 0, 10]))
                r0 = rng.uniform(-0.01, 0.1)
                dfm = math.exp(-r0 * (mat - value_dt) / 365.0)
                dfs0 = math.exp(-r0 * (settle - value_dt) / 365.0)
                curve = TableCurve(value_dt, {ser(value_dt): 1.0, ser(settle): dfs0, ser(mat): dfm})
                dfs, dfmm = float(curve.df(settle)), float(curve.df(mat))
                pcv = float(z.dirty_price_from_discount_curve(settle, curve))
            except Exception as e:  # noqa: BLE001
                ctx.violation('zero-coupon bond raised', dict(case, error=err_kind(e, F) + ': ' + str(e)[:80]), clause='zero-no-error')
                continue
            ys = yv + SHIFT
            # own quoting terms: simple yield up to a year, annual compounding beyond
            expect = 100.0 / (1.0 + ys * t) if t <= 1 else 100.0 / (1.0 + ys) ** t
            if not relclose(dp, expect, 1e-10):
                ctx.violation('zero-coupon price is not par discounted at the yield', dict(case, impl=dp, expected=expect, t=t),
                              clause='zero-price')
            if not relclose(dp - cp, acc, 1e-10, 1e-9):
                ctx.violation('zero: dirty - clean != accrued', dict(case, dirty=dp, clean=cp, acc=acc), clause='zero-dirty-clean')
            exp_acc = (s_off / span) * ((100.0 - ip) / 100.0) * 100.0
            if not relclose(acc, exp_acc, 1e-10, 1e-12):
                ctx.violation('zero: accrued is not the linear accretion of the issue discount', dict(case, impl=acc, expected=exp_acc),
                              clause='zero-accrued')
            if abs(yb - yv) > 2e-7 * max(1.0, 1.0 / max(t, 1e-3)):
                ctx.violation('zero: yield_to_maturity(clean_price_from_ytm(y)) != y', dict(case, ytm_back=yb), clause='zero-ytm')
            pv = dfmm / dfs * 100.0
            if not relclose(pcv, pv, 1e-10):
                ctx.violation('zero: price from curve is not par x df(maturity)/df(settle)', dict(case, impl=pcv, expected=pv, r0=r0),
                              clause='zero-curve')
            ops += ['ZERO %s %s %d' % (f2b(yv), f2b(t), 1 if t <= 1 else 0),
                    'ZACC %s %s %s %s' % (f2b(float(s_off)), f2b(float(span)), f2b(ip), f2b(100.0)),
                    'ZCURVE %s %s' % (f2b(dfmm), f2b(dfs))]
            impl += [dp, acc, pcv]
            cases += [case] * 3
            gops.append('GZERO %d %d %d %d ' % (sum(1 for x in z.cpn_dts if x > settle), ser(settle), ser(issue), ser(mat))
                        + ' '.join(f2b(x) for x in (yv, float(t), ip)))
            gimpl.append((dp, acc, cp))
            gcases.append(case)
    model_compare(ctx, 'zero', ops, impl, cases, drivers_ok, 1e-10)
    gen_compare(ctx, 'zero', gops, gimpl, gcases, drivers_ok, 1e-10)
    ctx.count('zero-coupon bond', len(ops), len(ops), sample={'op': ops[0] if ops else None})
    return stats


def model_compare(ctx, comp, ops, impl, cases, drivers_ok, rtol):
    if not AVAIL.get('C07') or not ops:
        return
    try:
        ans = driver_parallel('C07', ops)
    except C.DriverError as e:
        ctx.broke(f'model driver failed on component {comp}: {str(e)[:300]}')
        return
    nbad = 0
    for o, a, i, cs in zip(ops, ans, impl, cases):
        if a.startswith('E:') or a == 'bad-op' or not relclose(b2f(a), i, rtol, 1e-11):
            nbad += 1
            if nbad <= 3:
                ctx.broke(f'correspondence {comp}: model {a if not a[0].isdigit() else b2f(a)} != implementation {i} on {cs} ({o.split()[0]})')
    ctx.cov['components'].setdefault(comp + ' (model)', {})['disagree_model'] = nbad


def gen_compare(ctx, comp, ops, impls, cases, drivers_ok, rtol, atol=1e-11):
    """tie of the generated formulas (Gen/BondF, ops `G...`): every answer token against the implementation's value"""
    if not AVAIL.get('C07Gen') or not ops:
        return
    try:
        ans = driver_parallel('C07Gen', ops)
    except C.DriverError as e:
        ctx.broke(f'model driver failed on component {comp} (generated ops): {str(e)[:300]}')
        return
    nbad = 0
    for o, a, iv, cs in zip(ops, ans, impls, cases):
        toks = a.split()
        ok = a != 'bad-op' and len(toks) == len(iv)
        if ok:
            for t, x in zip(toks, iv):
                if t.startswith('E:') or not relclose(b2f(t), x, rtol, atol):
                    ok = False
        if not ok:
            nbad += 1
            if nbad <= 3:
                shown = [t if t.startswith('E:') or t == 'bad-op' else b2f(t) for t in toks]
                ctx.broke(f'correspondence {comp} (generated Gen/BondF): {shown} != implementation {list(iv)} on {cs} ({o.split()[0]})')
    ctx.cov['components'].setdefault(comp + ' (generated)', {}).update({'compared': len(ops), 'disagree': nbad})


def annuity_cases(ctx, rng, F, na, drivers_ok):
    Date, BondAnnuity, DayCount, DCT, FT = F['Date'], F['BondAnnuity'], F['DayCount'], F['DayCountTypes'], F['FrequencyTypes']
    ops, impl, cases = [], [], []
    gops, gimpl = [], []
    for (d, m, y) in D.interesting_dates(rng, na, 2000, 2030):
        settle = Date(d, m, y)
        mat = settle.add_days(rng.randint(40, 8000))
        freq = rng.choice(['ANNUAL', 'SEMI_ANNUAL', 'QUARTERLY'])
        dc = rng.choice(['ACT_360', 'ACT_365F', 'THIRTY_E_360', 'ACT_ACT_ISDA', 'THIRTY_360_BOND', 'ACT_ACT_ICMA', 'ACT_365L'])
        cal = rng.choice(['WEEKEND', 'NONE', 'TARGET'])
        cpn = rng.choice(COUPONS)
        case = {'maturity': dmy(mat), 'settle': dmy(settle), 'cpn': cpn, 'freq': freq, 'dc': dc, 'cal': cal}
        a = BondAnnuity(mat, cpn, FT[freq], F['CalendarTypes'][cal], dc_type=DCT[dc])
        r0 = rng.uniform(-0.01, 0.1)
        try:
            class ExpCurve:
                value_dt = settle

                def df(self, dt, _s=settle, _r=r0):
                    return math.exp(-_r * (dt - _s) / 365.0)
            curve = ExpCurve()
            with contextlib.redirect_stdout(io.StringIO()):     # the library prints "FinFrequency: 2.0" before raising
                dp = float(a.dirty_price_from_discount_curve(settle, curve))
                cp = float(a.clean_price_from_discount_curve(settle, curve))
                acc_state = float(a.accrued_int)      # the state `clean_price_from_discount_curve` read
                acc = float(a.accrued_interest(settle, 100.0))
        except Exception as e:  # noqa: BLE001
            ctx.violation('annuity pricing raised', dict(case, error=err_kind(e, F) + ': ' + str(e)[:80]), clause='annuity-no-error')
            continue
        cds = a.cpn_dts
        basis = DayCount(DCT[dc])
        pairs, tot = [], 0.0
        for i in range(1, len(cds)):
            al = float(basis.year_frac(cds[i - 1], cds[i], cds[i], FT[freq])[0])   # as calculate_payments (ebe01a1)
            df = float(curve.df(cds[i]))
            pairs += [al, df]
            tot += cpn * al * df
        if not relclose(dp, tot * 100.0, 1e-10):
            ctx.violation('annuity price is not the PV of its coupons', dict(case, impl=dp, pv=tot * 100.0), clause='annuity-pv')
        if not relclose(dp - cp, acc, 1e-10, 1e-9):
            ctx.violation('annuity: dirty - clean != accrued', dict(case, dirty=dp, clean=cp, acc=acc), clause='annuity-dirty-clean')
        ops.append('ANN %s ' % f2b(cpn) + ' '.join(f2b(x) for x in pairs))
        impl.append(dp)
        cases.append(case)
        gops.append('GANN %s %s' % (f2b(dp), f2b(acc_state)))
        gimpl.append((cp,))
    model_compare(ctx, 'annuity', ops, impl, cases, drivers_ok, 1e-10)
    gen_compare(ctx, 'annuity', gops, gimpl, cases, drivers_ok, 1e-12, 1e-12)
    ctx.count('annuity', len(ops), len(ops), sample={'op': ops[0][:120] if ops else None})


def frn_cases(ctx, rng, F, nf, drivers_ok):
    Date, BondFRN, DayCount, DCT, FT = F['Date'], F['BondFRN'], F['DayCount'], F['DayCountTypes'], F['FrequencyTypes']
    ops, impl, cases = [], [], []
    gops, gimpl, gcases = [], [], []
    for (d, m, y) in D.interesting_dates(rng, nf, 2000, 2030):
        issue = Date(d, m, y)
        freq = rng.choice(['ANNUAL', 'SEMI_ANNUAL', 'QUARTERLY'])
        years = rng.choice([1, 2, 3, 5, 10])
        mat = issue.add_tenor(f'{years}Y')
        dc = rng.choice(['ACT_360', 'ACT_365F', 'THIRTY_E_360', 'ACT_ACT_ISDA'])
        q = rng.choice([0.0, 0.001, 0.0125, -0.002])
        frn = BondFRN(issue, mat, q, FT[freq], DCT[dc], F['CalendarTypes'][rng.choice(['WEEKEND', 'NONE'])])
        cds = frn.cpn_dts
        span = int(mat - issue)
        settles = [cds[rng.randrange(0, len(cds) - 1)], issue.add_days(rng.randrange(0, span)), mat.add_days(-1)]
        for settle in settles:
            nc, cur, fut = rng.uniform(0.0, 0.08), rng.uniform(-0.005, 0.08), rng.uniform(-0.005, 0.08)
            dm = rng.choice([0.0, 0.001, 0.01, -0.001, 0.03])
            case = {'issue': dmy(issue), 'maturity': dmy(mat), 'q': q, 'freq': freq, 'dc': dc, 'settle': dmy(settle),
                    'next_cpn': nc, 'current_ibor': cur, 'future_ibor': fut, 'dm': dm}
            try:
                frn.accrued_interest(settle, nc)          # sets pcd/ncd (state the pricer reads)
                dp = float(frn.dirty_price_from_dm(settle, nc, cur, fut, dm))
                cp = float(frn.clean_price_from_dm(settle, nc, cur, fut, dm))
                accf = float(frn.accrual_factor)
                dmb = None
            except Exception as e:  # noqa: BLE001
                ctx.violation('FRN pricing raised', dict(case, error=err_kind(e, F) + ': ' + str(e)[:80]), clause='frn-no-error')
                continue
            cs = [ser(x) for x in cds]
            idx, _ = position(cs, ser(settle))
            basis = DayCount(DCT[dc])
            a0 = float(basis.year_frac(settle, cds[idx])[0])
            a1 = float(basis.year_frac(cds[idx - 1], cds[idx])[0])
            alphas = [float(basis.year_frac(cds[i - 1], cds[i])[0]) for i in range(idx + 1, len(cds))]
            # explicit cash-flow sum, independently
            df = 1.0 / (1.0 + a0 * (cur + dm))
            pv = nc * a1 * df
            for al in alphas:
                df = df / (1.0 + al * (fut + dm))
                pv += (fut + q) * al * df
            pv = (pv + df) * 100.0
            if not relclose(dp, pv, 1e-10):
                ctx.violation('FRN price is not the discounted sum of projected coupons and principal', dict(case, impl=dp, pv=pv),
                              clause='frn-pv')
            exp_accf = float(basis.year_frac(cds[idx - 1], settle, cds[idx], FT[freq])[0])
            if not relclose(dp - cp, exp_accf * nc * 100.0, 1e-10, 1e-9) or not relclose(accf, exp_accf, 1e-12, 1e-14):
                ctx.violation('FRN: dirty - clean != accrual factor x next coupon x par', dict(case, dirty=dp, clean=cp, accf=accf,
                                                                                                expected_accf=exp_accf),
                              clause='frn-dirty-clean')
            if a0 > 1e-9 or alphas:      # otherwise the price does not depend on the margin
                try:
                    dmb = float(frn.discount_margin(settle, nc, cur, fut, cp))
                    if abs(dmb - dm) > 1e-8:
                        ctx.violation('FRN: discount_margin(clean_price_from_dm(dm)) != dm', dict(case, dm_back=dmb),
                                      clause='frn-dm-roundtrip')
                except Exception as e:  # noqa: BLE001
                    ctx.violation('FRN: discount_margin raised on a price produced by clean_price_from_dm',
                                  dict(case, error=err_kind(e, F) + ': ' + str(e)[:80]), clause='frn-dm-solver')
            # par on a reset date when coupons equal the discounting rates
            if ser(settle) == cs[idx - 1]:
                frn0 = BondFRN(issue, mat, 0.0, FT[freq], DCT[dc], frn.cal_type)
                frn0.accrued_interest(settle, cur)
                p0 = float(frn0.dirty_price_from_dm(settle, cur, cur, fut, 0.0))
                if not relclose(p0, 100.0, 1e-10):
                    ctx.violation('FRN with zero margins does not reprice to par on a reset date', dict(case, price=p0), clause='frn-par')
            ops.append('FRN ' + ' '.join(f2b(x) for x in [a0, a1, nc, cur, fut, q, dm] + alphas))
            impl.append(dp)
            cases.append(case)
            # generated formulas: clean price, bump-and-reprice risk (in current_ibor), principal - fed with the implementation's own prices
            try:
                dyf = 0.0001
                frn.accrued_interest(settle, nc)
                p_up = float(frn.dirty_price_from_dm(settle, nc, cur + dyf, fut, dm))
                p_dn = float(frn.dirty_price_from_dm(settle, nc, cur - dyf, fut, dm))
                fdd = float(frn.dollar_duration(settle, nc, cur, fut, dm))
                fmd = float(frn.modified_duration(settle, nc, cur, fut, dm))
                fmac = float(frn.macauley_duration(settle, nc, cur, fut, dm))
                fcx = float(frn.convexity_from_dm(settle, nc, cur, fut, dm))
                fpr = float(frn.principal(settle, nc, cur, fut, dm, PRINCIPAL_FACE))
                gops.append('GFRN ' + ' '.join(f2b(x) for x in (nc, dm, dp, accf, p_up, p_dn, float(frn.freq), PRINCIPAL_FACE)))
                gimpl.append((cp, fdd, fmd, fmac, fcx, fpr))
                gcases.append(case)
            except Exception as e:  # noqa: BLE001
                ctx.violation('FRN risk measure raised', dict(case, error=err_kind(e, F) + ': ' + str(e)[:80]), clause='frn-risk-no-error')
    model_compare(ctx, 'frn', ops, impl, cases, drivers_ok, 1e-10)
    gen_compare(ctx, 'frn', gops, gimpl, gcases, drivers_ok, 1e-9, 1e-9)
    ctx.count('FRN', len(ops), len(ops), sample={'op': ops[0][:120] if ops else None})


# ----------------------------------------------------------------------------------------------- main
_WB = {'issue': [15, 5, 2010], 'maturity': [15, 5, 2027], 'cpn': 0.05, 'freq': 'SEMI_ANNUAL', 'dc': 'ACT_ACT_ICMA', 'exdiv': 0,
       'cal': 'WEEKEND', 'dg': 'BACKWARD'}
_WL = {'issue': [15, 5, 2020], 'maturity': [15, 5, 2070], 'cpn': 0.01, 'freq': 'SEMI_ANNUAL', 'dc': 'ACT_ACT_ICMA', 'exdiv': 0,
       'cal': 'WEEKEND', 'dg': 'BACKWARD'}
_W31 = {'issue': [31, 7, 2004], 'maturity': [31, 7, 2007], 'cpn': 0.05, 'freq': 'MONTHLY', 'dc': 'THIRTY_E_PLUS_360', 'exdiv': 0,
        'cal': 'TARGET', 'dg': 'BACKWARD'}
WITNESSES = [
    (_WB, [15, 2, 2027], 'US_TREASURY', 0.05),                       # C07/us-treasury-last-period-compounding
    (dict(_WB, exdiv=7), [10, 5, 2027], 'US_STREET', 0.04),          # regression: fixed 81d60de (last-period ex-div coupon)
    (dict(_WB, exdiv=7), [10, 11, 2020], 'UK_DMO', 0.04),            # regression: fixed dd7e86d (curve component)
    (_WL, [15, 6, 2020], 'UK_DMO', -0.02),                           # C07/ytm-solver-long-bond-low-yield (silent 0.050105)
    (_WL, [15, 6, 2020], 'US_STREET', -0.01),                        # C07/ytm-solver-long-bond-low-yield (RuntimeError)
    (_W31, [31, 8, 2004], 'UK_DMO', 0.03),                           # C07/accrued-nonzero-on-31st-30Eplus360
]


AVAIL = {}


def driver_availability(ctx, drivers_ok):
    """Which of the two model drivers were built THIS run (lean_stage builds each target separately when the joint build
    fails and names the failed ones in one broken-obligation line).  A driver that did not build is not run at all - a stale
    olean of an earlier run must not be taken for the model of the present source."""
    failed = set()
    for b in ctx.broken:
        if b.startswith('model: the executable model (driver) no longer builds:'):
            failed |= {x.strip() for x in b.split(':', 2)[2].split(',')}
    AVAIL.clear()
    for d in ('C07', 'C07Gen', 'C07Spec'):
        AVAIL[d] = bool(drivers_ok) or ('FinVerif.Driver.' + d) not in failed
    return AVAIL


# yields at and around zero, every convention on the same bond and date (closely spaced pairs for strict monotonicity; +-1e-4
# = +-dy of the bump formulas, so that a bumped yield is exactly 0)
LADDER = [-1e-4, -1e-6, -5e-7, -5e-8, -1e-9, -1e-12, 0.0, 1e-12, 1e-9, 5e-8, 5e-7, 1e-6, 1e-4]
LADDER_PAIRS = [(-1e-6, -5e-7), (-5e-7, -5e-8), (-5e-8, 5e-8), (5e-8, 5e-7), (5e-7, 1e-6),
                (-1e-9, 0.0), (0.0, 1e-9), (-1e-12, 0.0), (0.0, 1e-12), (-1e-9, 1e-9)]


def price_noise(y, f):
    """relative noise of one evaluation of the closed form (as in the risk oracle): one ulp of `pow` amplified by 1/|1-v|"""
    v = 1.0 / (1.0 + (y + SHIFT) / f)
    return 1e-17 / max(abs(1.0 - v), 1e-300) + 4e-16


def judge_ladder(ctx, group, stats):
    """Strict monotonicity on closely spaced yields around zero.  `group` = [(k, r)] of one (bond, settlement, convention) over
    LADDER.  The slope is taken from the far points +-1e-4; a pair whose expected price difference is resolvable (10 x the noise of
    the two evaluations) must show at least half and at most twice that difference - a price that is flat, or jumps, inside
    (-1e-6, 1e-6) fails; an unresolvable pair must at least not increase beyond the noise."""
    P = {}
    for k, r in group:
        if 'error' in r or 'dp' not in r:
            return
        P[k['ytm']] = r['dp']
    k0 = group[0][0]
    if len(P) != len(LADDER) or not (k0['alpha'] >= 0 and (k0['alpha'] > 1e-9 or k0['n'] > 0)):
        stats['ladder_skipped'] = stats.get('ladder_skipped', 0) + 1
        return
    f = k0['f']
    slope = (P[-1e-4] - P[1e-4]) / 2e-4
    stats['ladder_groups'] = stats.get('ladder_groups', 0) + 1
    # price at (essentially) zero yield = the plain sum of the remaining flows, up to the code's own +1.2345e-11 yield offset:
    # |P - sum| <= offset x |dP/dy| (slope from the far points; 1 % for its truncation) + 1e-13 relative.  No closed-form
    # cancellation term here: for |y| <= 1e-12 the shifted v is 1 - k 2^-53 with k < 2^17 and v**(n-1) is exactly representable, so the
    # series is evaluated to a few ulp (measured excess over offset x slope: <= 7e-16 relative over 2400 bond/convention pairs).
    for k, r in group:
        y = k['ytm']
        if abs(y) <= 1e-12:
            flows = python_cashflow_sum(k)
            tol = 1.01 * SHIFT * abs(slope) + 1e-13 * abs(flows)
            stats['zero_yield_sum'] = stats.get('zero_yield_sum', 0) + 1
            if not abs(r['dp'] - flows) <= tol:
                ctx.violation('dirty price at zero yield is not the sum of the remaining coupons and principal (beyond the 1.2345e-11 '
                              'yield offset x dP/dy)', dict(brief(k), impl=r['dp'], sum_of_flows=flows, difference=r['dp'] - flows,
                                                           allowed=tol, slope=slope), clause='cashflow-sum-at-zero-yield')
    for a, b in LADDER_PAIRS:
        d = P[a] - P[b]
        expect = slope * (b - a)
        noise = abs(P[0.0]) * (price_noise(a, f) + price_noise(b, f))
        case = dict(brief(k0), ytm=a, y1=a, y2=b, P1=P[a], P2=P[b], slope=slope)
        if expect > 10.0 * noise:
            stats['ladder_pairs_resolved'] = stats.get('ladder_pairs_resolved', 0) + 1
            if not (0.5 * expect <= d <= 2.0 * expect):
                ctx.violation('price not strictly decreasing in yield on closely spaced yields around zero: P(y1) - P(y2) is not '
                              'slope x (y2 - y1)', dict(case, difference=d, expected=expect), clause='monotone-near-zero')
        elif d < -noise:
            ctx.violation('price increases with yield around zero beyond the evaluation noise', dict(case, difference=d, noise=noise),
                          clause='monotone-near-zero')


def run(ctx):
    drivers_ok = C.lean_stage(ctx, GEN, PROPS, DRIVERS + SPEC_DRIVERS,
                              extra_files=['FinVerif/Lemmas/C07Real.lean', 'FinVerif/Lemmas/C07Loop.lean', 'FinVerif/Lemmas/C07Calc.lean', 'FinVerif/Lemmas/C07FD.lean',
                                           'FinVerif/Model/C07Bond.lean', 'FinVerif/Spec/C07.lean'])
    driver_availability(ctx, drivers_ok)
    C.import_financepy()
    F = fp()
    F['Date'](1, 1, 2120)  # extend the date table once (table-extension history is C13/C18's subject)
    rng = ctx.rng('bonds')
    quick = ctx.quick()
    nb = 800 if quick else 4000
    nper = 9 if quick else 16
    params = gen_bond_params(rng, nb)
    cases, impls = [], []
    stats = {}
    branch = {}
    seen = set()
    convs = list(CONV_CODES)
    curve_cases = []
    def add_case(bi, bond, p, settle, conv, y, do_ytm, do_risk, ladder=False):
        key = (bi, ser(settle), conv, y) if ladder else (bi, ser(settle), conv)
        if key in seen:
            return None
        seen.add(key)
        k = derive_case(F, bond, p, settle, conv, y)
        r = impl_eval(F, bond, k, do_ytm, do_risk)
        flat_curve_consistency(ctx, F, bond, p, k, r, stats)
        cases.append(k)
        impls.append(r)
        for tag, cond in (('last-period', k['n'] == 0), ('ex-dividend', k['exdiv']), ('coupon-date', k['on_cpn_date']),
                          ('negative-yield', y < 0), ('zero-yield', y == 0.0), ('first-period', k['idx'] == 1),
                          ('negative-alpha', k['alpha'] < 0), (conv, True), (p['dc'], True), (p['freq'], True)):
            if cond:
                branch[tag] = branch.get(tag, 0) + 1
        if ladder:
            branch['near-zero-ladder'] = branch.get('near-zero-ladder', 0) + 1
        return k, r

    # witnesses of the known findings are replayed on the implementation on every run
    wrng = ctx.rng('witness')
    for wi, (p, sdmy, conv, y) in enumerate(WITNESSES):
        bond = make_bond(F, p)
        settle = F['Date'](*sdmy)
        add_case(-1 - wi, bond, p, settle, conv, y, True, True)
        if p['exdiv'] > 0 and conv == 'UK_DMO':
            curve_cases.append(curve_case(wrng, F, bond, p, settle))

    # yields at and around zero: every convention x LADDER on the same bond and settlement date, yield round trip and risk
    # measures at each of them (own random stream: the cases of the main stream are unchanged)
    zrng = ctx.rng('nearzero')
    ladder_groups = []
    for zi, p in enumerate(gen_bond_params(zrng, 24 if quick else 200)):
        try:
            bond = make_bond(F, p)
        except Exception:  # noqa: BLE001  (constructor failures are reported by the main stream)
            continue
        if len(bond.cpn_dts) < 2:
            continue
        settles = gen_settles(zrng, F, bond, p, 9)
        settle = zrng.choice(settles)
        for conv in convs:
            grp = []
            for y in LADDER:
                kr = add_case(-1000 - zi, bond, p, settle, conv, y, True, True, ladder=True)
                if kr is not None:
                    grp.append(kr)
            ladder_groups.append(grp)
    for grp in ladder_groups:
        if grp:
            judge_ladder(ctx, grp, stats)

    # bonds are processed in chunks so that the op strings of the thorough tier stay small
    CH = 400
    tot_cases = tot_curve = 0
    sample_bond = sample_curve = None
    cstats = {}
    exdiv_later = 0
    indexed = list(enumerate(params))
    for c0 in range(0, len(indexed), CH):
        chunk = indexed[c0:c0 + CH]
        for bi, p in chunk:
            try:
                bond = make_bond(F, p)
            except Exception as e:  # noqa: BLE001
                ctx.violation('Bond constructor raised on valid arguments', {'bond': p, 'error': err_kind(e, F) + ': ' + str(e)[:80]},
                              clause='constructor')
                continue
            if len(bond.cpn_dts) < 2:
                continue
            for settle in gen_settles(rng, F, bond, p, nper):
                y = gen_yield(rng)
                cv = [rng.choice(convs)] if (quick and rng.random() < 0.5) else convs
                for conv in cv:
                    add_case(bi, bond, p, settle, conv, y, (not quick) or rng.random() < 0.6, (not quick) or rng.random() < 0.35)
                if rng.random() < 0.5:
                    curve_cases.append(curve_case(rng, F, bond, p, settle))
        # ---- drivers
        m_ops, s_ops, g_ops = [], [], []
        for k, r in zip(cases, impls):
            ob, orisk, odp, oacc = case_ops(k)
            m_ops += [ob, orisk]
            g_ops.append(gen_op(k, 'dd' in r))
            s_ops += [odp, oacc]
        model = spec = None
        if AVAIL['C07Spec']:
            try:
                spec = driver_parallel('C07Spec', s_ops, chunk=4000)
            except C.DriverError as e:
                ctx.broke(f'spec driver failed: {str(e)[:300]}')
        gmodel = None
        if AVAIL['C07']:
            try:
                model = driver_parallel('C07', m_ops, chunk=4000)
            except C.DriverError as e:
                ctx.broke(f'model driver failed: {str(e)[:300]}')
        if AVAIL['C07Gen']:
            try:
                gmodel = driver_parallel('C07Gen', g_ops, chunk=4000)
            except C.DriverError as e:
                ctx.broke(f'driver of the generated formulas failed: {str(e)[:300]}')
        # the direct oracles (spec sum, dirty-clean-accrued, monotone/convex, yield round trip, risk = derivatives, flat curve) run
        # on every case whether or not the model drivers are available
        for i, (k, r) in enumerate(zip(cases, impls)):
            judge_bond_case(ctx, k, r, model[2 * i] if model is not None else None,
                            spec[2 * i] if spec is not None else None, spec[2 * i + 1] if spec is not None else None, stats)
            if model is not None:
                judge_risk_model(ctx, k, r, model[2 * i + 1], stats)
            if gmodel is not None:
                judge_gen_case(ctx, k, r, gmodel[i], stats)
        # ---- curve
        cm, cs_ = [], []
        for k in curve_cases:
            a, b = curve_ops(k)
            cm.append(a)
            cs_.append(b)
        try:
            cspec = driver_parallel('C07Spec', cs_, chunk=4000) if (cs_ and AVAIL['C07Spec']) else None
            cmodel = driver_parallel('C07', cm, chunk=4000) if (cm and AVAIL['C07']) else None
            if cspec is not None:
                for i, k in enumerate(curve_cases):
                    judge_curve(ctx, k, cmodel[i] if cmodel is not None else None, cspec[i], cstats)
        except C.DriverError as e:
            ctx.broke(f'driver failed on curve component: {str(e)[:300]}')
        tot_cases += len(cases)
        tot_curve += len(curve_cases)
        exdiv_later += sum(1 for k in curve_cases if k['exdiv'] and k['idx'] != 1)
        if sample_bond is None and cases:
            mid = len(cases) // 2
            sample_bond = dict(brief(cases[mid]), impl={kk: vv for kk, vv in impls[mid].items() if kk in ('dp', 'cp', 'acc')})
        if sample_curve is None and curve_cases and 'impl' in curve_cases[0]:
            sample_curve = {kk: curve_cases[0][kk] for kk in ('bond', 'settle', 'impl')}
        del cases[:], impls[:], curve_cases[:]
    ctx.count('bond: dirty/clean/accrued/yield/risk', tot_cases, tot_cases, sample=sample_bond)
    comp = ctx.cov['components']['bond: dirty/clean/accrued/yield/risk']
    comp['branches'] = branch
    comp['oracle_counts'] = stats
    ctx.count('bond: price from discount curve', tot_curve, tot_curve, sample=sample_curve)
    ctx.cov['components']['bond: price from discount curve']['oracle_counts'] = dict(cstats, exdiv_later_period=exdiv_later)
    # ---- other instruments
    zero_cases(ctx, ctx.rng('zero'), F, 120 if quick else 1500, drivers_ok)
    annuity_cases(ctx, ctx.rng('annuity'), F, 150 if quick else 1500, drivers_ok)
    frn_cases(ctx, ctx.rng('frn'), F, 120 if quick else 1500, drivers_ok)

    ctx.assumptions += [
        'theorems are about the formulas read over the real numbers (v**n = monoid power, v**alpha = Real.rpow); the floating-point '
        'implementation is tied to them by the correspondence at rtol 1e-10 (+1e-17/|1-v| for the closed form\'s cancellation near y=0)',
        'the code prices at ytm + 1.2345e-11; the spec is evaluated at the user\'s yield and the comparison allows duration x 1.3e-11',
        'coupon schedule (C16), day-count fractions (C15), business-day arithmetic for the ex-dividend date (C14) and Date arithmetic (C13) '
        'are inputs of the model, taken from the library',
        'convergence of scipy.optimize.newton in yield_to_maturity / discount_margin is validated per case (postcondition checked), not proved',
        'settlement on the maturity date is outside the explored domain (fresh object: AttributeError, used object: FinError - object state, C18)',
        'monotonicity/convexity oracles are run where alpha >= 0 (hypothesis of price_strictAnti_in_yield); cases with acc_factor*freq > 1 '
        '(non-ICMA day counts) are counted in oracle_counts.mono_skipped_negative_alpha',
    ]
    return C.finish(ctx, 'proof',
                    'lake build ' + ' '.join(PROPS) + ' && lake env lean .cache/audit/Audit_C07.lean',
                    C.TRUSTED_BASE_COMMON + ['Spec/C07.lean: the conventions\' discounting rules (UK DMO compound; US Street compound, '
                                             'money-market last period; US Treasury simple first fraction; CFETS ACT/365 last period)',
                                             'hand-written model Model/C07Bond.lean, tied to bond.py by the per-run correspondence and, for the '
                                             'loop-free formulas, by theorems gen = model about Gen/BondR.lean (regenerated from bond*.py each run)',
                                             'tools/py2lean/registry/bonds.py: the listed glue statements (schedule loops, day-count / calendar calls, '
                                             'method calls replaced by parameters) - each must occur verbatim exactly once or generation fails'],
                    RULE)


# ----------------------------------------------------------------------------------------------- replay
def replay(ctx, path):
    rp = json.load(open(path))
    v = rp.get('violation')
    if not v:
        print('replay: no concrete input in this file:', rp.get('broken'))
        return 1
    C.import_financepy()
    F = fp()
    F['Date'](1, 1, 2120)
    case = v['case']
    print('replay case:', json.dumps(case, default=str)[:600])
    if 'bond' in case and 'conv' in case and v.get('clause') in ('monotone-near-zero', 'cashflow-sum-at-zero-yield'):
        p = case['bond']
        settle = F['Date'](*case['settle'])
        grp = []
        for y in LADDER:
            bond = make_bond(F, p)
            k = derive_case(F, bond, p, settle, case['conv'], y)
            grp.append((k, impl_eval(F, bond, k, False, False)))
        print('prices on the ladder:', [(k['ytm'], r.get('dp')) for k, r in grp])
        judge_ladder(ctx, grp, {})
    elif 'bond' in case and 'conv' in case:
        p = case['bond']
        bond = make_bond(F, p)
        k = derive_case(F, bond, p, F['Date'](*case['settle']), case['conv'], case['ytm'])
        r = impl_eval(F, bond, k, True, True)
        ob, orisk, odp, oacc = case_ops(k)
        model = C.run_driver('C07', [ob, orisk])
        spec = C.run_driver('C07Spec', [odp, oacc])
        stats = {}
        judge_bond_case(ctx, k, r, model[0], spec[0], spec[1], stats)
        flat_curve_consistency(ctx, F, bond, p, k, r, stats)
        print('implementation:', {kk: r.get(kk) for kk in ('dp', 'cp', 'acc', 'alpha', 'ytm_back', 'dd', 'cx', 'error')})
        print('spec dirty:', b2f(spec[0]), 'spec accrued:', b2f(spec[1]))
    elif 'bond' in case and 'value_dt' in case:
        p = case['bond']
        bond = make_bond(F, p)
        settle = F['Date'](*case['settle'])
        value_dt = F['Date'](*case['value_dt'])
        table = {ser(value_dt): 1.0}
        for x in list(bond.cpn_dts) + [settle]:
            t = (x - value_dt) / 365.0
            table[ser(x)] = math.exp(-(case['r0'] + case['slope'] * t) * t) if t > 0 else 1.0
        curve = TableCurve(value_dt, table)
        impl = float(bond.dirty_price_from_discount_curve(settle, curve))
        print('implementation price from curve:', impl, 'recorded PV of flows:', case.get('pv_of_flows'))
        if case.get('pv_of_flows') is not None and not relclose(impl, case['pv_of_flows'], 1e-10):
            ctx.violation('price from discount curve differs from the PV of the flows', case, clause='curve-pv')
    else:
        print('replay: re-run `./check C07` with VERIF_SEED=%s for this component' % rp.get('seed'))
        return 1
    if ctx.violations:
        print(f'VIOLATION property=C07 replay={path}')
        for x in ctx.violations[:5]:
            print('  ', x['what'], '| clause', x['clause'])
        return 1
    print('replay: the case no longer fails')
    return 0
