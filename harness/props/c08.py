"""C08 — rate options satisfy parity with their underlying swap, FRA strip or bond.

Theorems: FinVerif/Props/C08a.lean (caplet - floorlet = alpha*df*(F-K)*notional for Black, shifted Black, Bachelier,
SABR, shifted SABR and the Hull-White zero-coupon-bond option as coded; cap - floor = strip by induction over the
caplet list with the first-period intrinsic branch; payer - receiver = pv01*(F-K)*notional = forward swap value;
Jamshidian put - call; the Black clamp at zero volatility), C08b.lean (backward induction without exercise is a linear
operator => call - put on the HW/BK/BDT trees = tree value of (underlying - strike); pay - receive on the swaption
trees; bermudan >= european; non-negativity), C08c.lean (each model's own GENERATED price function - black.py, black_shifted.py,
bachelier.py, sabr.py, sabr_shifted.py, hw_tree.py option_on_zcb - is a Black form / normal form: intrinsic <= value <= annuity
bound, vega >= 0, monotone in vol and strike, zero-vol limit = discounted intrinsic; hand sabrValue / hwZcb = generated),
C08d.lean (lift to caplets, to cap/floor over any number of caplets by induction, to swaptions), C08e.lean (tree options monotone
in payoff/strike, bounded by the underlying, European swaption kernel from the root, BDT bermudan >= european), C08n.lean (the
standard normal cdf satisfies the hypothesis bundle).
Correspondence: IborCapFloor per-caplet tables and totals, IborSwaption values vs the hand model (Driver/C08) built on
the GENERATED Black-family kernels (Gen/BSF).
Direct oracles on the implementation (every run): see the oracle_* functions."""
import json
import math
import os
import sys
import warnings

sys.path.insert(0, os.path.dirname(os.path.dirname(os.path.abspath(__file__))))
import common as C  # noqa: E402
from floatcmp import f2b, b2f, close  # noqa: E402

GEN = ['BSF', 'BSR', 'BSP', 'RateOptF', 'RateOptP']
PROPS = ['FinVerif.Props.C08a', 'FinVerif.Props.C08b', 'FinVerif.Props.C08c', 'FinVerif.Props.C08d', 'FinVerif.Props.C08e',
         'FinVerif.Props.C08n']
DRIVERS = ['FinVerif.Driver.C08']
EXTRA_FILES = ['FinVerif/Model/C08.lean', 'FinVerif/Spec/C08.lean', 'FinVerif/Lemmas/C08.lean']

RULE = ('model functions: (forward x strike/forward in {0.4..2.5} x expiry in {1M..10Y} x discount factor) x (Black, shifted Black, Bachelier, SABR, shifted SABR) valued by the model class itself, call with put; '
        'HWTree.option_on_zcb on (curve shape x sigma x a incl. the SMALL clamp x expiry x bond maturity x strike around the forward price). '
        'every cap/floor, swaption and Bermudan: calendar (6) x business-day rule (5) x date generation BACKWARD/FORWARD x whole / non-whole number of periods; '
        'cap/floor last_fixing in {None, 0.0, negative, at / around the strike, curve level, large}. '
        'cap/floor: seed-chosen (curve kind x value date x start x tenor x frequency x day count x notional x strike '
        'ITM/ATM/OTM/zero x first fixing) x every model the product accepts (Black, shifted Black, Bachelier, SABR, shifted '
        'SABR, HW); every cap is valued together with its floor and with the independently built FRA strip. swaption: '
        '(curve x settle x exercise x maturity x fixed frequency/day count x float frequency/day count x notional x strike) '
        'x (Black, shifted Black, SABR, shifted SABR, HW-Jamshidian, BK tree, BDT tree), payer with receiver and with '
        'IborSwap on the same dates. bond option: (curve x bond x expiry strictly between coupon dates x strikes) x (HW '
        'expiry-tree / expiry-only / Jamshidian, BK, BDT). bermudan: bermudan vs european, pay and receive, three trees. re-use: every product object (cap/floor x 6 models, '
        'swaption x 7, bond option x 3, bermudan x 3) valued on (date A, curve A) and then on (date B, curve B) vs a fresh object on B. '
        'evaluations = oracle clauses evaluated; non-trivial = clauses on a case with positive volatility and a strike '
        'within a factor 3 of the forward (both legs have time value). All cases distinct by construction (continuous '
        'parameters).')

F_HWCAP = 'C08/hw-caplet-expiry-from-cap-start'
F_SWSET = 'C08/tree-swaption-expiry-from-settlement'
F_AXIS = 'C08/short-rate-models-365-time-axis'
F_BERM = 'C08/bermudan-coupon-index-shift'
F_JAM = 'C08/jamshidian-root-period-mismatch'

BLACKLIKE = ('black', 'shifted', 'bachelier', 'sabr', 'sabrshifted')
TREES = ('hw', 'bk', 'bdt')


class E:
    """financepy names, filled by load()."""


def load():
    if getattr(E, 'ok', False):
        return
    C.import_financepy()
    import numpy as np
    from financepy.utils.date import Date
    from financepy.utils.frequency import FrequencyTypes, annual_frequency
    from financepy.utils.day_count import DayCountTypes, DayCount
    from financepy.utils.calendar import CalendarTypes, BusDayAdjustTypes, DateGenRuleTypes, Calendar
    from financepy.utils.schedule import Schedule
    from financepy.utils.global_types import FinCapFloorTypes, SwapTypes, OptionTypes, FinExerciseTypes
    from financepy.utils.error import FinError
    from financepy.market.curves.discount_curve_flat import DiscountCurveFlat
    from financepy.market.curves.discount_curve import DiscountCurve
    from financepy.market.curves.interpolator import _uinterpolate, InterpTypes
    from financepy.products.rates.ibor_cap_floor import IborCapFloor
    from financepy.products.rates.ibor_swaption import IborSwaption
    from financepy.products.rates.ibor_bermudan_swaption import IborBermudanSwaption
    from financepy.products.rates.ibor_swap import IborSwap
    from financepy.products.rates.ibor_deposit import IborDeposit
    from financepy.products.rates.ibor_fra import IborFRA
    from financepy.products.rates.ibor_single_curve import IborSingleCurve
    from financepy.products.bonds.bond import Bond
    from financepy.products.bonds.bond_option import BondOption
    from financepy.models.black import Black
    from financepy.models.black_shifted import BlackShifted
    from financepy.models.bachelier import Bachelier
    from financepy.models.sabr import SABR
    from financepy.models.sabr_shifted import SABRShifted
    from financepy.models.hw_tree import HWTree, FinHWEuropeanCalcType
    from financepy.models.bk_tree import BKTree
    from financepy.models.bdt_tree import BDTTree
    for k, v in list(locals().items()):
        setattr(E, k, v)
    E.ok = True


# ------------------------------------------------------------------------------------------ curves
def zero_shape(rng, shape):
    lvl = rng.uniform(0.01, 0.06)
    amp = rng.uniform(0.005, 0.03)
    tau = rng.uniform(1.5, 8.0)
    if shape == 'up':
        return lambda t: lvl + amp * (1 - math.exp(-t / tau))
    if shape == 'inv':
        return lambda t: lvl + amp - 0.9 * amp * (1 - math.exp(-t / tau))
    if shape == 'hump':
        return lambda t: lvl + amp * (t / tau) * math.exp(1 - t / tau)
    raise ValueError(shape)


def make_curve(rng, vd, kind):
    """(description, curve).  kinds: flat (continuous / annual / semi-annual compounding), sloped (DiscountCurve on
    pillars, flat-forward interpolation: up / inverted / humped zero curves), ibor (IborSingleCurve bootstrapped from
    deposits, a FRA and swaps), negflat (flat negative rate, for the shifted / normal models)."""
    if kind == 'flat':
        r = rng.uniform(0.005, 0.08)
        ft = rng.choice([E.FrequencyTypes.CONTINUOUS, E.FrequencyTypes.ANNUAL, E.FrequencyTypes.SEMI_ANNUAL])
        return {'kind': 'flat', 'rate': r, 'compounding': ft.name}, E.DiscountCurveFlat(vd, r, ft)
    if kind == 'negflat':
        r = rng.uniform(-0.006, -0.001)
        return {'kind': 'negflat', 'rate': r, 'compounding': 'CONTINUOUS'}, E.DiscountCurveFlat(vd, r, E.FrequencyTypes.CONTINUOUS)
    if kind == 'sloped':
        shape = rng.choice(['up', 'inv', 'hump'])
        z = zero_shape(rng, shape)
        ts = [0.25, 0.5, 1.0, 2.0, 3.0, 5.0, 7.0, 10.0, 15.0, 20.0, 30.0]
        dts = [vd.add_days(int(round(t * 365))) for t in ts]
        dfs = [math.exp(-z(t) * t) for t in ts]
        desc = {'kind': 'sloped', 'shape': shape, 'pillar_days': [int(round(t * 365)) for t in ts], 'dfs': dfs}
        return desc, E.DiscountCurve(vd, dts, E.np.array(dfs), E.InterpTypes.FLAT_FWD_RATES)
    if kind == 'ibor':
        DT = E.DayCountTypes
        settle = vd
        dr = sorted(rng.uniform(0.005, 0.03) for _ in range(3))       # increasing quotes: positive forwards
        fr = dr[2] + rng.uniform(0.0, 0.005)
        base = max(dr[2], fr) + rng.uniform(0.0, 0.004)
        bumps = [rng.uniform(0, 0.001) for _ in range(8)]
        fdc = rng.choice([DT.THIRTY_E_360, DT.ACT_365F])
        depos = [E.IborDeposit(settle, t, r, DT.ACT_360) for t, r in zip(('1M', '3M', '6M'), dr)]
        fras = [E.IborFRA(settle.add_tenor('6M'), '3M', fr, DT.ACT_360)]
        swaps = [E.IborSwap(settle, t, E.SwapTypes.PAY, base + 0.0015 * i + bumps[i], E.FrequencyTypes.SEMI_ANNUAL, fdc)
                 for i, t in enumerate(('1Y', '2Y', '3Y', '5Y', '7Y', '10Y', '15Y', '20Y'))]
        try:
            with warnings.catch_warnings():
                warnings.simplefilter('ignore')
                crv = E.IborSingleCurve(vd, depos, fras, swaps)
        except E.FinError as e:
            # the bootstrap's own input validation ("Swap coupons are not on the same date grid": on some valuation dates the
            # adjusted coupon dates of the 1Y..20Y swaps do not nest) - a precondition of the curve class (C01), not of C08
            if 'same date grid' not in str(e):
                raise
            return make_curve(rng, vd, 'sloped')
        desc = {'kind': 'ibor', 'deposits': dr, 'fra': fr, 'swap_base': base, 'swap_bumps': bumps, 'swap_dc': fdc.name}
        return desc, crv
    raise ValueError(kind)


def rebuild_curve(desc, vd):
    """the curve of a stored case (replay)."""
    k = desc['kind']
    if k in ('flat', 'negflat'):
        return E.DiscountCurveFlat(vd, desc['rate'], E.FrequencyTypes[desc['compounding']])
    if k == 'sloped':
        dts = [vd.add_days(n) for n in desc['pillar_days']]
        return E.DiscountCurve(vd, dts, E.np.array(desc['dfs']), E.InterpTypes.FLAT_FWD_RATES)
    DT = E.DayCountTypes
    depos = [E.IborDeposit(vd, t, r, DT.ACT_360) for t, r in zip(('1M', '3M', '6M'), desc['deposits'])]
    fras = [E.IborFRA(vd.add_tenor('6M'), '3M', desc['fra'], DT.ACT_360)]
    swaps = [E.IborSwap(vd, t, E.SwapTypes.PAY, desc['swap_base'] + 0.0015 * i + desc['swap_bumps'][i],
                        E.FrequencyTypes.SEMI_ANNUAL, DT[desc['swap_dc']])
             for i, t in enumerate(('1Y', '2Y', '3Y', '5Y', '7Y', '10Y', '15Y', '20Y'))]
    with warnings.catch_warnings():
        warnings.simplefilter('ignore')
        return E.IborSingleCurve(vd, depos, fras, swaps)


def P365(curve, t):
    """what the short-rate models read: flat-forward interpolation of the curve's knots at t = days/365."""
    return float(E._uinterpolate(float(t), curve._times, curve._dfs, E.InterpTypes.FLAT_FWD_RATES.value))


def date_of(s):
    d, m, y = s
    return E.Date(d, m, y)


def dmy(dt):
    return [dt.d, dt.m, dt.y]


# ------------------------------------------------------------------------------------------ models
def make_model(spec):
    k = spec['kind']
    if k == 'black':
        return E.Black(spec['vol'])
    if k == 'shifted':
        return E.BlackShifted(spec['vol'], spec['shift'])
    if k == 'bachelier':
        return E.Bachelier(spec['vol'])
    if k == 'sabr':
        return E.SABR(spec['alpha'], spec['beta'], spec['rho'], spec['nu'])
    if k == 'sabrshifted':
        return E.SABRShifted(spec['alpha'], spec['beta'], spec['rho'], spec['nu'], spec['shift'])
    if k == 'hw':
        ct = {'tree': E.FinHWEuropeanCalcType.EXPIRY_TREE, 'jamshidian': E.FinHWEuropeanCalcType.JAMSHIDIAN,
              'expiry_only': E.FinHWEuropeanCalcType.EXPIRY_ONLY}[spec.get('calc', 'tree')]
        return E.HWTree(spec['sigma'], spec['a'], spec['n'], ct)
    if k == 'bk':
        return E.BKTree(spec['sigma'], spec['a'], spec['n'])
    if k == 'bdt':
        return E.BDTTree(spec['sigma'], spec['n'])
    raise ValueError(k)


def gen_model(rng, kind, level, small_tree=True):
    """model parameters around a rate level `level` (so that both legs keep time value)."""
    if kind == 'black':
        return {'kind': kind, 'vol': rng.choice([0.05, 0.15, 0.3, 0.6, 1.2])}
    if kind == 'shifted':
        return {'kind': kind, 'vol': rng.choice([0.05, 0.15, 0.3, 0.6]), 'shift': rng.choice([0.0, 0.005, 0.01, 0.03])}
    if kind == 'bachelier':
        return {'kind': kind, 'vol': rng.choice([0.002, 0.006, 0.012, 0.03])}
    if kind in ('sabr', 'sabrshifted'):
        beta = rng.choice([0.0, 0.5, 0.7, 1.0])
        sh = rng.choice([0.005, 0.01, 0.02]) if kind == 'sabrshifted' else 0.0
        lv = max(level + sh, 0.002)
        alpha = rng.choice([0.1, 0.2, 0.4]) * lv ** (1.0 - beta)
        m = {'kind': kind, 'alpha': alpha, 'beta': beta, 'rho': rng.choice([-0.5, -0.2, 0.0, 0.3]), 'nu': rng.choice([0.1, 0.3, 0.5])}
        if kind == 'sabrshifted':
            m['shift'] = sh
        return m
    n = rng.choice([20, 30, 40] if small_tree else [40, 60, 100])
    if kind == 'hw':
        return {'kind': kind, 'sigma': rng.choice([0.002, 0.006, 0.01, 0.02]), 'a': rng.choice([0.03, 0.1, 0.3]), 'n': n}
    if kind == 'bk':
        return {'kind': kind, 'sigma': rng.choice([0.1, 0.2, 0.35]), 'a': rng.choice([0.05, 0.1, 0.3]), 'n': n}
    if kind == 'bdt':
        return {'kind': kind, 'sigma': rng.choice([0.1, 0.2, 0.3]), 'n': n}
    raise ValueError(kind)


def with_vol(spec, v):
    s = dict(spec)
    s['vol'] = v
    return s


class Fails(list):
    def add(self, clause, what, finding=None, **kw):
        self.append({'clause': clause, 'what': what, 'finding': finding, 'detail': kw})


def isda_vs_365(vd, dts):
    """largest |ACT/ACT ISDA time - days/365| over the dates (0 when no leap day is involved)."""
    dc = E.DayCount(E.DayCountTypes.ACT_ACT_ISDA)
    return max(abs(dc.year_frac(vd, d)[0] - (d - vd) / 365.0) for d in dts) if dts else 0.0


# ------------------------------------------------------------------------------------------ schedule conventions
CALS = ['WEEKEND', 'NONE', 'TARGET', 'UNITED_STATES', 'UNITED_KINGDOM', 'JAPAN']
BDS = ['FOLLOWING', 'MODIFIED_FOLLOWING', 'PRECEDING', 'MODIFIED_PRECEDING', 'NONE']
DGS = ['BACKWARD', 'FORWARD']


def conv(case):
    """(cal_type, bd_type, dg_type) of the contract; cases recorded before these were drawn have the library defaults."""
    return (E.CalendarTypes[case.get('cal', 'WEEKEND')], E.BusDayAdjustTypes[case.get('bd', 'FOLLOWING')],
            E.DateGenRuleTypes[case.get('dg', 'BACKWARD')])


def gen_conv(rng):
    """every member of the three enums the products accept is reachable; defaults and non-defaults about equally often"""
    return {'cal': rng.choice(CALS[:1] * 3 + CALS[1:]), 'bd': rng.choice(BDS[:1] * 2 + BDS[1:]), 'dg': rng.choice(DGS)}


def conv_kw(case):
    cal, bd, dg = conv(case)
    return dict(cal_type=cal, bd_type=bd, dg_type=dg)


# ------------------------------------------------------------------------------------------ cap / floor
def capfloor_objects(case):
    vd = date_of(case['value_dt'])
    start = date_of(case['start_dt'])
    args = (start, date_of(case['maturity_dt']) if case.get('maturity_dt') else case['tenor'])
    kw = dict(last_fixing=case.get('last_fixing'), freq_type=E.FrequencyTypes[case['freq']],
              dc_type=E.DayCountTypes[case['dc']], notional=case['notional'], **conv_kw(case))
    return vd, start, args, kw


def capfloor_schedule(case):
    """the caplet dates of the CONTRACT, built independently of the product object: the public Schedule class with the
    contract's frequency, calendar, business-day rule and date-generation rule passed explicitly (a tenor is rolled to a
    business day with the same calendar and rule, as the contract says)."""
    cal, bd, dg = conv(case)
    start = date_of(case['start_dt'])
    if case.get('maturity_dt'):
        mat = date_of(case['maturity_dt'])
    else:
        mat = E.Calendar(cal).adjust(start.add_tenor(case['tenor']), bd)
    return list(E.Schedule(start, mat, E.FrequencyTypes[case['freq']], cal, bd, dg).adjusted_dts)


def strip_reference(curve, dts, dc_type, K, N, last_fixing):
    """the strip of forward-rate payments struck at K, from the curve's public df(date) only."""
    dc = E.DayCount(dc_type)
    rows = []
    for i in range(1, len(dts)):
        a = dc.year_frac(dts[i - 1], dts[i])[0]
        d0, d1 = float(curve.df(dts[i - 1])), float(curve.df(dts[i]))
        F = (d0 / d1 - 1.0) / a
        if i == 1 and last_fixing is not None:
            F = last_fixing
        rows.append({'alpha': a, 'df': d1, 'fwd': F, 'pv': N * a * d1 * (F - K)})
    return rows


def oracle_capfloor(case, curve=None, collect=None):
    out = Fails()
    vd, start, args, kw = capfloor_objects(case)
    if curve is None:
        curve = rebuild_curve(case['curve'], vd)
    spec = case['model']
    mk = spec['kind']
    K, N = case['strike'], case['notional']
    cap = E.IborCapFloor(args[0], args[1], E.FinCapFloorTypes.CAP, K, **kw)
    flo = E.IborCapFloor(args[0], args[1], E.FinCapFloorTypes.FLOOR, K, **kw)
    with warnings.catch_warnings():
        warnings.simplefilter('ignore')
        vc = float(cap.value(vd, curve, make_model(spec)))
        vf = float(flo.value(vd, curve, make_model(spec)))
    dts = capfloor_schedule(case)          # NOT the product's own dates: the contract's conventions, passed explicitly
    for nm, obj in (('cap', cap), ('floor', flo)):
        own = list(obj.capFloorLetDates)
        if own != dts:
            out.add('schedule', f'{nm}: caplet dates {[str(d) for d in own][:8]} differ from Schedule(start, maturity, {case["freq"]}, '
                    f'{case.get("cal", "WEEKEND")}, {case.get("bd", "FOLLOWING")}, {case.get("dg", "BACKWARD")}) = {[str(d) for d in dts][:8]}')
            return out
    rows = strip_reference(curve, dts, E.DayCountTypes[case['dc']], K, N, case.get('last_fixing'))
    strip = sum(r['pv'] for r in rows)
    scale = N * sum(r['alpha'] * r['df'] * max(abs(r['fwd']), K, 1e-4) for r in rows)
    tol = 1e-9 * scale + 1e-12 * N
    if K == 0.0:
        # the code replaces a zero strike by 1e-10 in the model branch (not in the first-period branch)
        tol += 1.01e-10 * N * sum(r['alpha'] * r['df'] for r in rows)
    n = len(dts)
    if not (math.isfinite(vc) and math.isfinite(vf)):
        out.add('finite', f'cap {vc!r} / floor {vf!r} not finite under {mk}', cap=vc, floor=vf)
        return out
    # ---- tables
    for nm, obj, tot in (('cap', cap, vc), ('floor', flo, vf)):
        tv = [float(x) for x in obj.cap_floor_let_values]
        if len(tv) != n or len(obj.cap_floor_let_alphas) != n or len(obj.cap_floor_let_dfs) != n:
            out.add('tables', f'{nm}: per-caplet tables have {len(tv)} rows for {n} schedule dates')
            continue
        if not close(sum(tv), tot, rtol=1e-12, atol=tol):
            out.add('tables', f'{nm}: caplet values sum to {sum(tv)!r}, value() returned {tot!r}')
        if not close(float(obj.cap_floor_pv[-1]), tot, rtol=1e-12, atol=tol):
            out.add('tables', f'{nm}: cumulative PV table ends at {obj.cap_floor_pv[-1]!r}, value() returned {tot!r}')
        for i in range(1, n):
            r = rows[i - 1]
            if not close(float(obj.cap_floor_let_alphas[i]), r['alpha'], rtol=1e-12, atol=1e-15):
                out.add('tables', f'{nm}: accrual of caplet {i} is {obj.cap_floor_let_alphas[i]!r}, day count gives {r["alpha"]!r}', i=i)
                break
            if not close(float(obj.cap_floor_let_dfs[i]), r['df'], rtol=1e-12, atol=1e-15):
                out.add('tables', f'{nm}: discount factor of caplet {i} is {obj.cap_floor_let_dfs[i]!r}, curve df(end) {r["df"]!r}', i=i)
                break
            if not close(float(obj.cap_floor_let_fwd_rates[i]), r['fwd'], rtol=1e-9, atol=1e-13):
                out.add('tables', f'{nm}: forward of caplet {i} is {obj.cap_floor_let_fwd_rates[i]!r}, curve gives {r["fwd"]!r}', i=i)
                break
            sgn = 1.0 if nm == 'cap' else -1.0
            intr = N * r['alpha'] * r['df'] * max(sgn * (r['fwd'] - K), 0.0)
            if not close(float(obj.cap_floor_let_intrinsic[i]), intr, rtol=1e-9, atol=tol):
                out.add('tables', f'{nm}: intrinsic of caplet {i} is {obj.cap_floor_let_intrinsic[i]!r}, expected {intr!r}', i=i)
                break
    cv = [float(x) for x in cap.cap_floor_let_values]
    fv = [float(x) for x in flo.cap_floor_let_values]
    # ---- parity, per caplet and in total
    if mk != 'hw':
        for i in range(1, min(n, len(cv), len(fv))):
            if abs(cv[i] - fv[i] - rows[i - 1]['pv']) > tol:
                out.add('caplet-parity', f'{mk}: caplet {i} - floorlet {i} = {cv[i] - fv[i]!r}, forward-rate payment '
                        f'alpha*df*(F-K)*N = {rows[i - 1]["pv"]!r}', i=i, caplet=cv[i], floorlet=fv[i], **rows[i - 1])
                break
        if abs(vc - vf - strip) > tol:
            out.add('cap-floor-parity', f'{mk}: cap - floor = {vc - vf!r}, strip of forward-rate payments = {strip!r}',
                    cap=vc, floor=vf, strip=strip)
    else:
        # Hull-White reads the curve at t = days/365 (flat-forward on the knots): reference on that axis first
        def ref365(te_from):
            tot = rows[0]['pv']
            for i in range(2, n):
                a = rows[i - 1]['alpha']
                tot += N * (P365(curve, (dts[i - 1] - te_from) / 365.0) - (1.0 + K * a) * P365(curve, (dts[i] - vd) / 365.0))
            return tot
        r365 = ref365(vd)
        tol_hw = 1e-8 * scale + 1e-10 * N
        res = vc - vf - r365
        if abs(res) > tol_hw:
            fid = None
            if start != vd and abs(vc - vf - ref365(start)) <= tol_hw:
                fid = F_HWCAP
            out.add('cap-floor-parity', f'hw: cap - floor = {vc - vf!r}, strip of forward-rate payments (curve read at days/365) = {r365!r}',
                    fid, cap=vc, floor=vf, strip=r365)
        elif abs(vc - vf - strip) > tol_hw + 1e-7 * scale:
            gap = isda_vs_365(vd, list(dts))
            fid = F_AXIS if (gap > 0.0 and abs(r365 - strip) <= 0.2 * gap * N * 1.05 * len(dts)) else None
            out.add('cap-floor-parity-calendar', f'hw: cap - floor = {vc - vf!r}, strip from curve.df(date) = {strip!r} '
                    f'(the model reads the curve at days/365, df(date) at ACT/ACT ISDA times)', fid, cap=vc, floor=vf, strip=strip)
    # ---- sign and bounds
    eps = tol if mk != 'hw' else 1e-8 * scale
    if vc < -eps or vf < -eps:
        out.add('nonneg', f'{mk}: negative value: cap {vc!r}, floor {vf!r}')
    for i in range(1, min(n, len(cv), len(fv))):
        if cv[i] < -eps or fv[i] < -eps:
            out.add('nonneg', f'{mk}: negative caplet/floorlet {i}: {cv[i]!r} / {fv[i]!r}', i=i)
            break
    if mk != 'hw':
        for i in range(1, min(n, len(cv), len(fv))):
            r = rows[i - 1]
            ic = N * r['alpha'] * r['df'] * max(r['fwd'] - K, 0.0)
            ip = N * r['alpha'] * r['df'] * max(K - r['fwd'], 0.0)
            if cv[i] < ic - eps or fv[i] < ip - eps:
                out.add('ge-intrinsic', f'{mk}: caplet/floorlet {i} below discounted intrinsic: {cv[i]!r} < {ic!r} or {fv[i]!r} < {ip!r}', i=i)
                break
            sh = spec.get('shift', 0.0) if mk == 'shifted' else 0.0
            if mk in ('black', 'shifted', 'sabr', 'sabrshifted') and r['fwd'] + sh > 0:
                ub_c = N * r['alpha'] * r['df'] * (r['fwd'] + sh)
                ub_p = N * r['alpha'] * r['df'] * (max(K, 1e-10) + sh)
                if cv[i] > ub_c + eps or fv[i] > ub_p + eps:
                    out.add('annuity-bound', f'{mk}: caplet {i} {cv[i]!r} > alpha*df*F*N = {ub_c!r} or floorlet {fv[i]!r} > alpha*df*K*N = {ub_p!r}', i=i)
                    break
            if mk == 'bachelier' and i >= 2:
                te = (dts[i - 1] - start) / 365.0
                ub = N * r['alpha'] * r['df'] * spec['vol'] * math.sqrt(max(te, 0.0)) * 0.3989422804014327
                if cv[i] > ic + ub + eps or fv[i] > ip + ub + eps:
                    out.add('annuity-bound', f'bachelier: caplet/floorlet {i} time value above alpha*df*N*vol*sqrt(t)/sqrt(2pi)', i=i)
                    break
    if collect is not None:
        collect.update({'cap': cap, 'floor': flo, 'rows': rows, 'dts': dts, 'vc': vc, 'vf': vf, 'scale': scale, 'curve': curve})
    return out


def oracle_capfloor_monotone(case, curve=None):
    """monotone in strike; Black-type: monotone in volatility, zero volatility = discounted intrinsic."""
    out = Fails()
    vd, start, args, kw = capfloor_objects(case)
    if curve is None:
        curve = rebuild_curve(case['curve'], vd)
    spec = case['model']
    mk = spec['kind']
    N = case['notional']

    def val(tp, K, sp):
        o = E.IborCapFloor(args[0], args[1], tp, K, **kw)
        with warnings.catch_warnings():
            warnings.simplefilter('ignore')
            return float(o.value(vd, curve, make_model(sp))), o

    CAP, FLOOR = E.FinCapFloorTypes.CAP, E.FinCapFloorTypes.FLOOR
    ks = sorted(case['strikes'])
    vcs = [val(CAP, k, spec)[0] for k in ks]
    vfs = [val(FLOOR, k, spec)[0] for k in ks]
    scale = N * case.get('annuity', 1.0) * max(max(ks), 1e-3)
    eps = 1e-9 * scale if mk != 'hw' else 1e-7 * scale
    for i in range(1, len(ks)):
        if vcs[i] > vcs[i - 1] + eps:
            out.add('monotone-strike', f'{mk}: cap value rises with the strike: K={ks[i - 1]!r} -> {vcs[i - 1]!r}, K={ks[i]!r} -> {vcs[i]!r}',
                    strikes=ks, caps=vcs)
            break
        if vfs[i] < vfs[i - 1] - eps:
            out.add('monotone-strike', f'{mk}: floor value falls with the strike: K={ks[i - 1]!r} -> {vfs[i - 1]!r}, K={ks[i]!r} -> {vfs[i]!r}',
                    strikes=ks, floors=vfs)
            break
    if mk in ('black', 'shifted', 'bachelier'):
        K = case['strike']
        vols = sorted(case['vols'])
        for tp, nm in ((CAP, 'cap'), (FLOOR, 'floor')):
            vs = [val(tp, K, with_vol(spec, v))[0] for v in vols]
            for i in range(1, len(vols)):
                if vs[i] < vs[i - 1] - eps:
                    out.add('monotone-vol', f'{mk}: {nm} value falls when volatility rises: vol={vols[i - 1]!r} -> {vs[i - 1]!r}, vol={vols[i]!r} -> {vs[i]!r}',
                            vols=vols, values=vs)
                    break
        # zero volatility: discounted intrinsic (Black clamps vol at 1e-12; the other two divide by vol*sqrt(t))
        for tp, nm, sgn in ((CAP, 'cap', 1.0), (FLOOR, 'floor', -1.0)):
            v0, o = val(tp, K, with_vol(spec, 0.0))
            intr = float(sum(float(x) for x in o.cap_floor_let_intrinsic))
            atm = any(abs(float(f) - K) < 1e-12 for f in o.cap_floor_let_fwd_rates[2:])
            if atm:
                continue
            if not (math.isfinite(v0) and abs(v0 - intr) <= 1e-7 * scale):
                out.add('zero-vol-intrinsic', f'{mk}: {nm} at zero volatility = {v0!r}, discounted intrinsic = {intr!r}', value=v0, intrinsic=intr)
    return out


# ------------------------------------------------------------------------------------------ swaptions
def swaption_kw(case):
    return dict(notional=case['notional'], float_freq_type=E.FrequencyTypes[case['float_freq']],
                float_dc_type=E.DayCountTypes[case['float_dc']], **conv_kw(case))


def swaption_pair(case, K=None, spec=None, curve=None):
    vd = date_of(case['value_dt'])
    settle, ex, mat = date_of(case['settle_dt']), date_of(case['exercise_dt']), date_of(case['maturity_dt'])
    if curve is None:
        curve = rebuild_curve(case['curve'], vd)
    K = case['strike'] if K is None else K
    spec = case['model'] if spec is None else spec
    ff, fdc = E.FrequencyTypes[case['fixed_freq']], E.DayCountTypes[case['fixed_dc']]
    res = {}
    for lt in (E.SwapTypes.PAY, E.SwapTypes.RECEIVE):
        sw = E.IborSwaption(settle, ex, mat, lt, K, ff, fdc, **swaption_kw(case))
        mdl = make_model(spec)
        idx = tree_swaption_overrun(sw, vd, mdl)
        if idx is not None:
            raise TreeIndexOverrun(f'index {idx} of arrays with {int(mdl.num_time_steps) + 2} entries')
        with warnings.catch_warnings():
            warnings.simplefilter('ignore')
            res[lt.name] = (float(sw.value(vd, curve, mdl)), sw)
    return res, curve, (vd, settle, ex, mat, ff, fdc)


def fixed_leg_reference(case, curve, K):
    """independent IborSwap on the same dates: annuity from its schedule and the curve's df(date)."""
    vd = date_of(case['value_dt'])
    ex, mat = date_of(case['exercise_dt']), date_of(case['maturity_dt'])
    ff, fdc = E.FrequencyTypes[case['fixed_freq']], E.DayCountTypes[case['fixed_dc']]
    cal, bd, dg = conv(case)
    swp = E.IborSwap(ex, mat, E.SwapTypes.PAY, K, ff, fdc, case['notional'], 0.0, E.FrequencyTypes[case['float_freq']],
                     E.DayCountTypes[case['float_dc']], cal, bd, dg)
    fl = swp.fixed_leg
    dc = E.DayCount(fdc)
    alphas = [dc.year_frac(a, b)[0] for a, b in zip(fl.start_accrued_dts, fl.end_accrued_dts)]
    pays = list(fl.payment_dts)
    return swp, alphas, pays


def fixed_schedule(case):
    """payment dates of the fixed leg of the CONTRACT from the public Schedule class, conventions passed explicitly"""
    cal, bd, dg = conv(case)
    ex, mat = date_of(case['exercise_dt']), date_of(case['maturity_dt'])
    return list(E.Schedule(ex, mat, E.FrequencyTypes[case['fixed_freq']], cal, bd, dg).adjusted_dts)[1:]


def check_underlying(out, nm, obj, case, A, vd, ex):
    """the swap the option object built for itself must be the contract's swap: payment dates from an independent Schedule with
    the contract's calendar / business-day / date-generation conventions, pv01 = the independently computed annuity"""
    us = getattr(obj, 'underlying_swap', None)
    ref = fixed_schedule(case)
    if us is not None:
        own = list(us.fixed_leg.payment_dts)
        if own != ref:
            out.add('schedule', f'{nm}: fixed-leg payment dates of the underlying swap {[str(d) for d in own][:6]}… differ from Schedule(exercise, maturity, '
                    f'{case["fixed_freq"]}, {case.get("cal", "WEEKEND")}, {case.get("bd", "FOLLOWING")}, {case.get("dg", "BACKWARD")}) = {[str(d) for d in ref][:6]}…')
            return
    if obj.pv01 is not None and not close(float(obj.pv01), A, rtol=1e-10, atol=1e-14):
        out.add('tables', f'{nm}.pv01 = {obj.pv01!r}, annuity of the fixed leg from the schedule = {A!r}', pv01=float(obj.pv01), annuity=A)
    ct = getattr(obj, 'cpn_times', None)
    if ct is not None and len(ct) > 1:
        want = [(d - vd) / 365.0 for d in ref if d > ex]
        got = [float(x) for x in ct][1:]
        if len(got) != len(want) or any(abs(a - b) > 1e-12 for a, b in zip(got, want)):
            out.add('tables', f'{nm}.cpn_times[1:] = {got[:6]}…, fixed-leg payment times after exercise of the contract = {want[:6]}…')


def jamshidian_strike_sum(curve, spec, te, cps):
    """sum_i c_i X_i + X_n: the zero-coupon strikes of european_bond_option_jamshidian (p_fast with the 1e-6 period)
    at the root r* that fwd_dirty_bond_price (p_fast with the 0.001 period) returns for strike 1, face 1."""
    from financepy.models.hw_tree import fwd_dirty_bond_price, p_fast
    from scipy import optimize
    np = E.np
    ct = np.array([te] + [t for _, t in cps])
    cf = np.array([0.0] + [c for c, _ in cps])
    model = make_model(spec)
    rstar = optimize.newton(fwd_dirty_bond_price, x0=0.05, fprime=None, tol=1e-10, maxiter=50, fprime2=None,
                            args=(model, te, ct, cf, curve._times, curve._dfs, 1.0, 1.0))
    dt = 1e-6
    pte, ptd = P365(curve, te), P365(curve, te + dt)
    tot = 0.0
    x = 1.0
    for c, t in zip(cf, ct):
        if t >= te:
            x = float(p_fast(te, t, rstar, dt, pte, ptd, P365(curve, t), spec['sigma'], spec['a']))
            tot += c * x
    return tot + x


def jamshidian_bond_strike(curve, spec, bond, vd, te, K, face):
    """face x (sum_i c_i X_i + X_n) for the coupon vector BondOption.value builds (previous coupon first)."""
    from financepy.models.hw_tree import fwd_dirty_bond_price, p_fast
    from scipy import optimize
    np = E.np
    ct, cf = [], []
    dts, fa = bond.cpn_dts, bond.flow_amounts
    for i in range(1, len(dts)):
        if dts[i - 1] < vd and dts[i] > vd:
            ct.append((dts[i - 1] - vd) / 365.0)
            cf.append(fa[i])
            break
    for i in range(1, len(dts)):
        if dts[i] == vd:
            ct.append(0.0)
            cf.append(fa[i])
    for i in range(1, len(dts)):
        if dts[i] > vd:
            ct.append((dts[i] - vd) / 365.0)
            cf.append(fa[i])
    ct, cf = np.array(ct), np.array(cf)
    model = make_model(spec)
    rstar = optimize.newton(fwd_dirty_bond_price, x0=0.05, fprime=None, tol=1e-10, maxiter=50, fprime2=None,
                            args=(model, te, ct, cf, curve._times, curve._dfs, K, face))
    dt = 1e-6
    pte, ptd = P365(curve, te), P365(curve, te + dt)
    tot, x = 0.0, 1.0
    for c, t in zip(cf, ct):
        if t >= te:
            x = float(p_fast(te, t, rstar, dt, pte, ptd, P365(curve, t), spec['sigma'], spec['a']))
            tot += c * x
    return face * (tot + x)


def oracle_swaption(case, curve=None, collect=None):
    out = Fails()
    res, curve, (vd, settle, ex, mat, ff, fdc) = swaption_pair(case, curve=curve)
    spec = case['model']
    mk = spec['kind']
    K, N = case['strike'], case['notional']
    vp, swp_p = res['PAY']
    vr, swp_r = res['RECEIVE']
    swp, alphas, pays = fixed_leg_reference(case, curve, K)
    dfs = float(curve.df(settle))
    A = sum(a * float(curve.df(d)) for a, d in zip(alphas, pays))          # annuity, independent of the product
    with warnings.catch_warnings():
        warnings.simplefilter('ignore')
        v_swap = float(swp.value(vd, curve, curve))                         # forward-starting payer swap, today
        s_ref = float(swp.swap_rate(vd, curve))
    scale = N * A * max(abs(s_ref), K, 1e-3) / dfs
    if not (math.isfinite(vp) and math.isfinite(vr)):
        out.add('finite', f'{mk}: payer {vp!r} / receiver {vr!r} not finite', payer=vp, receiver=vr)
        return out
    # ---- tables
    if pays != fixed_schedule(case):
        out.add('schedule', f'IborSwap built with the contract\'s conventions pays the fixed leg on {[str(d) for d in pays][:6]}…, Schedule gives '
                f'{[str(d) for d in fixed_schedule(case)][:6]}…')
    for nm, o in (('payer', swp_p), ('receiver', swp_r)):
        check_underlying(out, nm, o, case, A, vd, ex)
        if not close(float(o.fwd_swap_rate), s_ref, rtol=1e-9, atol=1e-13):
            out.add('tables', f'{nm}.fwd_swap_rate = {o.fwd_swap_rate!r}, IborSwap.swap_rate on the same dates = {s_ref!r}')
    if mk in BLACKLIKE:
        tol = 1e-9 * scale
        ref_swap = v_swap / dfs
        ref_pv01 = A * (s_ref - K) * N / dfs
        if abs(vp - vr - ref_swap) > tol:
            out.add('payer-receiver-parity', f'{mk}: payer - receiver = {vp - vr!r}, forward-starting IborSwap value / df(settle) = {ref_swap!r}',
                    payer=vp, receiver=vr, swap=ref_swap)
        if abs(vp - vr - ref_pv01) > tol:
            out.add('payer-receiver-parity', f'{mk}: payer - receiver = {vp - vr!r}, annuity*(F-K)*N/df(settle) = {ref_pv01!r}',
                    payer=vp, receiver=vr, ref=ref_pv01)
        eps = tol
        ip, ir = A * max(s_ref - K, 0.0) * N / dfs, A * max(K - s_ref, 0.0) * N / dfs
        if vp < ip - eps or vr < ir - eps:
            out.add('ge-intrinsic', f'{mk}: payer {vp!r} < {ip!r} or receiver {vr!r} < {ir!r} (annuity x intrinsic)')
        sh = spec.get('shift', 0.0) if mk == 'shifted' else 0.0
        if s_ref + sh > 0 and (vp > A * (s_ref + sh) * N / dfs + eps or vr > A * (K + sh) * N / dfs + eps):
            out.add('annuity-bound', f'{mk}: payer {vp!r} > annuity*F*N = {A * (s_ref + sh) * N / dfs!r} or receiver {vr!r} > annuity*K*N = {A * (K + sh) * N / dfs!r}')
    else:
        # fixed leg against par at expiry, read where the short-rate models read the curve (days/365)
        cps = [(a * K, (d - vd) / 365.0) for a, d in zip(alphas, pays) if d > ex]
        t_mat = (mat - vd) / 365.0

        def ref365(te):
            return (P365(curve, te) - sum(c * P365(curve, t) for c, t in cps) - P365(curve, cps[-1][1])) * N / dfs
        te = (ex - vd) / 365.0
        r365 = ref365(te)
        n = spec['n']
        dt = t_mat / n
        fmax = max(0.12, 3 * abs(s_ref))
        tol_tree = {'hw': 1e-8 * N / dfs, 'bk': N * dt * (fmax + K) / dfs, 'bdt': N * dt * (fmax + K) / dfs + N * t_mat * fmax * fmax * dt / dfs}[mk]
        res_ = vp - vr - r365
        te_code = (ex - settle) / 365.0
        explained = 0.0
        if mk == 'hw':
            # Jamshidian: put - call = K' x P(expiry) - PV(flows), K' = bond value at the root r* with the strikes' own period
            t8 = 1e-8 * N / dfs
            hit = None
            for te_try in [te] + ([te_code] if settle != vd else []):
                kp = jamshidian_strike_sum(curve, spec, te_try, cps)
                base = ref365(te_try)
                exact = base + (kp - 1.0) * P365(curve, te_try) * N / dfs
                if abs(vp - vr - exact) <= t8:
                    hit = (te_try, kp, base, exact)
                    break
            if hit is None:
                out.add('payer-receiver-parity', f'hw: payer - receiver = {vp - vr!r}; Jamshidian decomposition gives K\' x P(expiry) - PV(fixed leg + par) = {float(exact)!r} '
                        f'(K\' = {float(kp)!r})', payer=vp, receiver=vr, ref=float(exact))
            else:
                te_try, kp, base, exact = hit
                if abs(exact - base) > t8:
                    fid = F_JAM if abs(kp - 1.0) <= 5e-4 else None
                    out.add('payer-receiver-parity', f'hw: payer - receiver = {vp - vr!r}, fixed leg against par at expiry (curve read at days/365) = {base!r}: '
                            f'the Jamshidian strikes sum to {float(kp)!r}, not to the strike 1', fid, payer=vp, receiver=vr, ref=base, strike_sum=float(kp))
                if te_try != te and abs(base - r365) > t8:
                    out.add('payer-receiver-parity', f'hw: payer - receiver = {vp - vr!r} prices the par leg at P((exercise - settle)/365); fixed leg against par at '
                            f'expiry = {r365!r}', F_SWSET, payer=vp, receiver=vr, ref=r365)
                explained = exact - r365
            res_ = 0.0
        if abs(res_) > tol_tree:
            fid = None
            if settle != vd and abs(vp - vr - ref365(te_code)) <= tol_tree:
                fid = F_SWSET
            out.add('payer-receiver-parity', f'{mk}: payer - receiver = {vp - vr!r}, fixed leg against par at expiry (curve read at days/365) = {r365!r}, '
                    f'tolerance {tol_tree:.3e}', fid, payer=vp, receiver=vr, ref=r365)
        else:
            r_cal = (float(curve.df(ex)) - sum(a * K * float(curve.df(d)) for a, d in zip(alphas, pays)) - float(curve.df(pays[-1]))) * N / dfs
            if abs(vp - vr - explained - r_cal) > tol_tree + 1e-7 * scale:
                gap = isda_vs_365(vd, [ex] + pays)
                fid = F_AXIS if (gap > 0.0 and abs(r365 - r_cal) <= 0.2 * gap * N * 1.05 * (len(pays) + 2) / dfs) else None
                out.add('payer-receiver-parity-calendar', f'{mk}: payer - receiver = {vp - vr!r}, fixed leg against par from curve.df(date) = {r_cal!r}',
                        fid, payer=vp, receiver=vr, ref=r_cal)
        eps = 1e-9 * N
        ub_p = N * P365(curve, te) / dfs
        ub_r = N * (sum(c * P365(curve, t) for c, t in cps) + P365(curve, cps[-1][1])) / dfs
        if vp > ub_p * (1 + 1e-6) or vr > ub_r * (1 + 1e-6):
            out.add('annuity-bound', f'{mk}: payer {vp!r} > N*P(expiry) = {ub_p!r} or receiver {vr!r} > N*PV(fixed leg + par) = {ub_r!r}')
    if vp < -eps or vr < -eps:
        out.add('nonneg', f'{mk}: negative swaption value: payer {vp!r}, receiver {vr!r}')
    if collect is not None:
        collect.update({'A': A, 's': s_ref, 'dfs': dfs, 'scale': scale, 'vp': vp, 'vr': vr, 'curve': curve})
    return out


def oracle_swaption_monotone(case, curve=None):
    out = Fails()
    spec = case['model']
    mk = spec['kind']
    N = case['notional']
    ks = sorted(case['strikes'])
    vals = []
    for k in ks:
        r, curve, _ = swaption_pair(case, K=k, curve=curve)
        vals.append((r['PAY'][0], r['RECEIVE'][0]))
    A, s = case.get('annuity', 1.0), case.get('fwd', 0.03)
    scale = N * A * max(abs(s), max(ks), 1e-3)
    eps = 1e-9 * scale if mk in BLACKLIKE else 3e-5 * N
    for i in range(1, len(ks)):
        if vals[i][0] > vals[i - 1][0] + eps:
            out.add('monotone-strike', f'{mk}: payer value rises with the strike: K={ks[i - 1]!r} -> {vals[i - 1][0]!r}, K={ks[i]!r} -> {vals[i][0]!r}', strikes=ks)
            break
        if vals[i][1] < vals[i - 1][1] - eps:
            out.add('monotone-strike', f'{mk}: receiver value falls with the strike: K={ks[i - 1]!r} -> {vals[i - 1][1]!r}, K={ks[i]!r} -> {vals[i][1]!r}', strikes=ks)
            break
    if mk in ('black', 'shifted'):
        vols = sorted(case['vols'])
        vv = []
        for v in vols:
            r, curve, _ = swaption_pair(case, spec=with_vol(spec, v), curve=curve)
            vv.append((r['PAY'][0], r['RECEIVE'][0]))
        for i in range(1, len(vols)):
            if vv[i][0] < vv[i - 1][0] - eps or vv[i][1] < vv[i - 1][1] - eps:
                out.add('monotone-vol', f'{mk}: swaption value falls when volatility rises from {vols[i - 1]!r} to {vols[i]!r}: {vv[i - 1]!r} -> {vv[i]!r}', vols=vols)
                break
        K = case['strike']
        if abs(s - K) > 1e-9 * abs(s):          # exactly at the money the zero-volatility formula is 0/0 (not a limit statement)
            r0, curve, _ = swaption_pair(case, spec=with_vol(spec, 0.0), curve=curve)
            dfs = float(curve.df(date_of(case['settle_dt'])))
            for nm, v0, intr in (('payer', r0['PAY'][0], A * max(s - K, 0.0) * N / dfs), ('receiver', r0['RECEIVE'][0], A * max(K - s, 0.0) * N / dfs)):
                if not (math.isfinite(v0) and abs(v0 - intr) <= 1e-7 * scale):
                    out.add('zero-vol-intrinsic', f'{mk}: {nm} swaption at zero volatility = {v0!r}, annuity x intrinsic = {intr!r}', value=v0, intrinsic=intr)
    return out


# ------------------------------------------------------------------------------------------ bond options
def bond_of(case):
    return E.Bond(date_of(case['issue_dt']), date_of(case['bond_maturity_dt']), case['coupon'], E.FrequencyTypes[case['freq']],
                  E.DayCountTypes[case['dc']])


def oracle_bondoption(case, curve=None):
    """call - put = df x (forward clean price - K); linear in K with slope -P(expiry) exactly; values >= 0, monotone in K;
    american >= european."""
    out = Fails()
    vd = date_of(case['value_dt'])
    if curve is None:
        curve = rebuild_curve(case['curve'], vd)
    bond = bond_of(case)
    exp = date_of(case['expiry_dt'])
    spec = case['model']
    mk = spec['kind'] + ('/' + spec.get('calc', 'tree') if spec['kind'] == 'hw' else '')
    OT = E.OptionTypes
    model = make_model(spec)
    ks = sorted(case['strikes'])
    te = (exp - vd) / 365.0

    def val(ot, K):
        with warnings.catch_warnings():
            warnings.simplefilter('ignore')
            return float(E.BondOption(bond, exp, K, ot).value(vd, curve, model))
    calls = [val(OT.EUROPEAN_CALL, k) for k in ks]
    puts = [val(OT.EUROPEAN_PUT, k) for k in ks]
    face = 100.0
    if not all(math.isfinite(x) for x in calls + puts):
        out.add('finite', f'{mk}: bond option values not finite: calls {calls!r}, puts {puts!r}')
        return out
    # discount factor to expiry as the valuation itself sees it
    if spec['kind'] == 'hw' and spec.get('calc') == 'jamshidian':
        pte = P365(curve, te)
    else:
        es = int(te / model.dt + 0.5)
        pte = float(model.Q[es].sum())
    # ---- the tree's own underlying: call - put is affine in K with slope -P(0, expiry)
    jam = spec['kind'] == 'hw' and spec.get('calc') == 'jamshidian'
    kps = [jamshidian_bond_strike(curve, spec, bond, vd, te, k, face) for k in ks] if jam else ks
    d0 = calls[0] - puts[0]
    for i in range(1, len(ks)):
        di = calls[i] - puts[i]
        if abs((di - d0) + (kps[i] - kps[0]) * pte) > 1e-8 * face:
            out.add('call-put-linear', f'{mk}: (call - put)(K={ks[i]!r}) - (call - put)(K={ks[0]!r}) = {di - d0!r}, expected -(K2-K1) x P(0,expiry) = {-(kps[i] - kps[0]) * pte!r}',
                    strikes=ks, calls=calls, puts=puts, p_expiry=pte)
            break
        if jam and abs((kps[i] - kps[0]) - (ks[i] - ks[0])) * pte > 1e-8 * face:
            fid = F_JAM if abs((kps[i] - kps[0]) / (ks[i] - ks[0]) - 1.0) <= 5e-4 else None
            out.add('call-put-linear', f'hw/jamshidian: (call - put)(K={ks[i]!r}) - (call - put)(K={ks[0]!r}) = {di - d0!r}, expected -(K2-K1) x P(0,expiry) = '
                    f'{-(ks[i] - ks[0]) * pte!r}: the Jamshidian strikes sum to {kps[i]!r} and {kps[0]!r}', fid, strikes=ks, strike_sums=kps)
            break
    # ---- against the curve: discounted forward clean price minus strike (365 axis)
    flows = [(bond.flow_amounts[i] * face, (bond.cpn_dts[i] - vd) / 365.0) for i in range(1, len(bond.cpn_dts)) if bond.cpn_dts[i] > exp]
    tm = (bond.maturity_dt - vd) / 365.0
    dirty_fwd_pv = sum(c * P365(curve, t) for c, t in flows) + face * P365(curve, tm)
    accrued = float(bond.accrued_interest(exp, face))
    n = spec['n']
    dt = tm / n
    zmax = max(0.12, -math.log(P365(curve, tm)) / tm * 3)
    # Tree-vs-curve tolerance, proportional to the step.  The constant was 0.75 (measured on seeds 0-2); seed 3 produced
    # a European HW-tree case (n = 100 only; n = 50, 101, 150, 200, 400, 800 agree) where accrual/coupon placement on the
    # time grid moved call - put by 2.2x that bound; convergence is validated, not proved, so the constant is 2.0.
    tol = face * (case['coupon'] + zmax) * dt * 2.0 + 2e-4 * face
    for i, k in enumerate(ks):
        ref = dirty_fwd_pv - (accrued + k) * P365(curve, te)
        if abs(calls[i] - puts[i] - ref) > tol:
            out.add('call-put-parity', f'{mk}: call - put = {calls[i] - puts[i]!r} at K={k!r}; df x (forward clean price - K) = {ref!r}; tolerance {tol:.3e}',
                    strike=k, call=calls[i], put=puts[i], ref=ref)
            break
    eps = 1e-9 * face
    for i in range(len(ks)):
        if calls[i] < -eps or puts[i] < -eps:
            out.add('nonneg', f'{mk}: negative bond option value at K={ks[i]!r}: call {calls[i]!r}, put {puts[i]!r}')
            break
        if calls[i] > dirty_fwd_pv * (1 + 1e-3) + tol or puts[i] > ks[i] * pte * (1 + 1e-6) + eps:
            out.add('annuity-bound', f'{mk}: call {calls[i]!r} > PV of the bond flows after expiry {dirty_fwd_pv!r} or put {puts[i]!r} > K x P(0,expiry) = {ks[i] * pte!r}')
            break
        if i and (calls[i] > calls[i - 1] + eps or puts[i] < puts[i - 1] - eps):
            out.add('monotone-strike', f'{mk}: call rises / put falls with the strike between K={ks[i - 1]!r} and K={ks[i]!r}: calls {calls!r}, puts {puts!r}')
            break
    if case.get('american') and not (spec['kind'] == 'hw' and spec.get('calc', 'tree') != 'tree'):
        # (HW european values by Jamshidian / expiry-only come from a different numerical method than the american tree)
        k = ks[len(ks) // 2]
        i = ks.index(k)
        ac, ap = val(OT.AMERICAN_CALL, k), val(OT.AMERICAN_PUT, k)
        if ac < calls[i] - eps or ap < puts[i] - eps:
            out.add('american-ge-european', f'{mk}: american call/put {ac!r}/{ap!r} below european {calls[i]!r}/{puts[i]!r} at K={k!r}')
    return out



class TreeIndexOverrun(Exception):
    """predicted out-of-bounds write of the compiled BK/BDT swaption routine (not executed)"""


def tree_swaption_overrun(o, vd, model):
    """`IborSwaption.value` with a BK/BDT tree builds the tree to (maturity − SETTLEMENT)/365 but maps the coupon
    times, measured from the VALUATION date, to tree steps (finding C08/tree-swaption-expiry-from-settlement).  The
    routine then indexes arrays of num_time_steps + 2 entries at int(t_cpn/dt + 0.5): when the valuation date precedes
    settlement by more than about 1.5 tree steps that index is past the end — the interpreter raises IndexError, the
    compiled code writes outside the array and corrupts the heap of the process (observed: `free(): invalid next size`,
    abort).  The harness therefore predicts the index and does not execute such a call."""
    if not isinstance(model, (E.BKTree, E.BDTTree)):
        return None
    n = int(model.num_time_steps)
    t_mat = (o.maturity_dt - o.settle_dt) / 365.0
    if t_mat <= 0:
        return None
    dt = t_mat / n
    t_last = (o.maturity_dt - vd) / 365.0          # the last fixed payment is on or after the maturity date
    idx = int(t_last / dt + 0.5)
    return idx if idx >= n + 2 else None

# ------------------------------------------------------------------------------------------ bermudan
def bermudan_kw(case):
    return dict(float_freq_type=E.FrequencyTypes[case.get('float_freq', 'QUARTERLY')],
                float_dc_type=E.DayCountTypes[case.get('float_dc', 'THIRTY_E_360')], **conv_kw(case))


def oracle_bermudan(case, curve=None):
    out = Fails()
    vd = date_of(case['value_dt'])
    if curve is None:
        curve = rebuild_curve(case['curve'], vd)
    settle, ex, mat = date_of(case['settle_dt']), date_of(case['exercise_dt']), date_of(case['maturity_dt'])
    ff, fdc = E.FrequencyTypes[case['fixed_freq']], E.DayCountTypes[case['fixed_dc']]
    spec = case['model']
    mk = spec['kind']
    K, N = case['strike'], case['notional']
    vals, objs = {}, {}
    for lt in (E.SwapTypes.PAY, E.SwapTypes.RECEIVE):
        for et in (E.FinExerciseTypes.EUROPEAN, E.FinExerciseTypes.BERMUDAN):
            o = E.IborBermudanSwaption(settle, ex, mat, lt, et, K, ff, fdc, N, **bermudan_kw(case))
            with warnings.catch_warnings():
                warnings.simplefilter('ignore')
                vals[(lt.name, et.name)] = float(o.value(vd, curve, make_model(spec)))
            objs[(lt.name, et.name)] = o
    _, alphas, pays = fixed_leg_reference(dict(case, float_freq=case.get('float_freq', 'QUARTERLY'), float_dc=case.get('float_dc', 'THIRTY_E_360')), curve, K)
    A = sum(a * float(curve.df(d)) for a, d in zip(alphas, pays))
    for key, o in objs.items():
        check_underlying(out, 'bermudan ' + '/'.join(key), o, case, A, vd, ex)
        if out:
            break
    eps = 1e-9 * N
    for lt in ('PAY', 'RECEIVE'):
        e, b = vals[(lt, 'EUROPEAN')], vals[(lt, 'BERMUDAN')]
        if not (math.isfinite(e) and math.isfinite(b)):
            out.add('finite', f'{mk}: bermudan swaption values not finite: {vals!r}')
            return out
        if e < -eps:
            out.add('nonneg', f'{mk}: european-exercise IborBermudanSwaption {lt} is negative: {e!r}')
        if b < e - eps:
            out.add('bermudan-ge-european', f'{mk}: bermudan {lt} {b!r} < european {lt} {e!r} with the same first exercise date', bermudan=b, european=e)
    # the same european contract through IborSwaption (same kernels for BK / BDT)
    if mk in ('bk', 'bdt') and settle == vd:
        sc = dict(case, float_freq='QUARTERLY', float_dc='THIRTY_E_360')
        r, _, _ = swaption_pair(sc, curve=curve)
        for lt in ('PAY', 'RECEIVE'):
            a, b = r[lt][0], vals[(lt, 'EUROPEAN')]
            if abs(a - b) > 1e-9 * N:
                o = r[lt][1]
                pm = [float(x) for x in o.underlying_swap.fixed_leg.payments]
                uneven = (max(pm) - min(pm)) > 1e-9 * N * K
                # narrow classifier: coupons of unequal size, and the difference is bounded by the spread of the coupon amounts
                fid = F_BERM if (uneven and abs(a - b) <= 1.05 * (max(pm) - min(pm)) * len(pm) + 1e-9 * N) else None
                out.add('bermudan-european-equals-swaption', f'{mk}: european {lt}: IborBermudanSwaption {b!r} != IborSwaption {a!r} on the same tree', fid,
                        bermudan_class=b, swaption_class=a)
                break
            if vals[(lt, 'BERMUDAN')] < a - eps:
                out.add('bermudan-ge-european', f'{mk}: bermudan {lt} {vals[(lt, "BERMUDAN")]!r} < IborSwaption european {a!r}')
    return out



# ------------------------------------------------------------------------------------------ re-use of product objects
def _snapshot(kind, objs, vals):
    """everything a valuation leaves on the objects that the property observes"""
    snap = {'values': [float(v) for v in vals]}
    if kind == 'capfloor':
        for nm, o in zip(('cap', 'floor'), objs):
            for tab in ('cap_floor_let_values', 'cap_floor_let_alphas', 'cap_floor_let_fwd_rates', 'cap_floor_let_intrinsic',
                        'cap_floor_let_dfs', 'cap_floor_pv'):
                snap[f'{nm}.{tab}'] = [float(x) for x in getattr(o, tab)]
            snap[f'{nm}.dates'] = [dmy(d) for d in o.capFloorLetDates]
    elif kind == 'swaption':
        for nm, o in zip(('payer', 'receiver'), objs):
            snap[f'{nm}.tables'] = [float(o.pv01), float(o.fwd_swap_rate), float(o.forward_df)]
            snap[f'{nm}.payments'] = [float(x) for x in o.underlying_swap.fixed_leg.payments]
    elif kind == 'bermudan':
        for i, o in enumerate(objs):
            snap[f'obj{i}.tables'] = [float(o.pv01)] + [float(x) for x in o.cpn_times] + [float(x) for x in o.cpn_flows]
    return snap


def _reuse_build(case):
    """(objects, value function) of the product of a re-use case; `value(objs, vd, curve, model)` -> list of values"""
    kind = case['product']
    if kind == 'capfloor':
        _, start, args, kw = capfloor_objects(case)
        objs = [E.IborCapFloor(args[0], args[1], tp, case['strike'], **kw) for tp in (E.FinCapFloorTypes.CAP, E.FinCapFloorTypes.FLOOR)]
    elif kind == 'swaption':
        settle, ex, mat = date_of(case['settle_dt']), date_of(case['exercise_dt']), date_of(case['maturity_dt'])
        ff, fdc = E.FrequencyTypes[case['fixed_freq']], E.DayCountTypes[case['fixed_dc']]
        objs = [E.IborSwaption(settle, ex, mat, lt, case['strike'], ff, fdc, **swaption_kw(case)) for lt in (E.SwapTypes.PAY, E.SwapTypes.RECEIVE)]
    elif kind == 'bondoption':
        bond = bond_of(case)
        exp = date_of(case['expiry_dt'])
        k = case['strikes'][2]
        objs = [E.BondOption(bond, exp, k, ot) for ot in (E.OptionTypes.EUROPEAN_CALL, E.OptionTypes.EUROPEAN_PUT,
                                                           E.OptionTypes.AMERICAN_CALL, E.OptionTypes.AMERICAN_PUT)]
    elif kind == 'bermudan':
        settle, ex, mat = date_of(case['settle_dt']), date_of(case['exercise_dt']), date_of(case['maturity_dt'])
        ff, fdc = E.FrequencyTypes[case['fixed_freq']], E.DayCountTypes[case['fixed_dc']]
        objs = [E.IborBermudanSwaption(settle, ex, mat, lt, et, case['strike'], ff, fdc, case['notional'], **bermudan_kw(case))
                for lt in (E.SwapTypes.PAY, E.SwapTypes.RECEIVE) for et in (E.FinExerciseTypes.EUROPEAN, E.FinExerciseTypes.BERMUDAN)]
    else:
        raise ValueError(kind)

    def value(objs, vd, curve, model):
        if kind == 'swaption':
            for o in objs:
                idx = tree_swaption_overrun(o, vd, model)
                if idx is not None:
                    raise TreeIndexOverrun(f'index {idx} of arrays with {int(model.num_time_steps) + 2} entries')
        with warnings.catch_warnings():
            warnings.simplefilter('ignore')
            return [float(o.value(vd, curve, model)) for o in objs]
    return objs, value


def oracle_reuse(case):
    """A product object is a contract, not a valuation: valued on (date A, curve A) and then on (date B, curve B), the SAME
    object must report on B exactly what a freshly built object reports on B (value and every per-caplet / per-trade
    table), and parity must hold on the second valuation too."""
    out = Fails()
    kind = case['product']
    spec = case['model']
    mk = spec['kind']
    vda, vdb = date_of(case['value_dt']), date_of(case['value_dt_b'])
    ca, cb = rebuild_curve(case['curve'], vda), rebuild_curve(case['curve_b'], vdb)
    used, value = _reuse_build(case)
    m_used = make_model(spec)
    va = value(used, vda, ca, m_used)                  # first valuation (leaves its traces on the objects)
    vb = value(used, vdb, cb, m_used)                  # second valuation of the same objects (and the same model object)
    snap_used = _snapshot(kind, used, vb)
    fresh, _ = _reuse_build(case)
    vf = value(fresh, vdb, cb, make_model(spec))
    snap_fresh = _snapshot(kind, fresh, vf)
    N = case.get('notional', 100.0)
    for key in snap_fresh:
        a, b = snap_used.get(key), snap_fresh[key]
        if a is None or len(a) != len(b):
            out.add('reuse-equals-fresh', f'{kind}[{mk}]: {key} has a different shape on a re-used object', key=key, reused=a, fresh=b)
            continue
        for i, (x, y) in enumerate(zip(a, b)):
            same = (x == y) if not isinstance(x, float) else close(x, y, rtol=1e-11, atol=1e-13 * max(N, 1.0))
            if not same:
                out.add('reuse-equals-fresh', f'{kind}[{mk}]: {key}[{i}] = {x!r} on an object first valued on {case["value_dt"]} / curve A, '
                        f'{y!r} on a fresh object (both valued on {case["value_dt_b"]} / curve B)', key=key, index=i, reused=x, fresh=y,
                        first_valuation=va)
                break
    # ---- parity on the second valuation (Black-type models; the short-rate models are compared with fresh objects above
    #      and have their own parity oracles with the listed time-axis findings)
    if mk in BLACKLIKE and all(math.isfinite(x) for x in vb):
        if kind == 'capfloor':
            dts = capfloor_schedule(case)
            rows = strip_reference(cb, dts, E.DayCountTypes[case['dc']], case['strike'], N, case.get('last_fixing'))
            strip = sum(r['pv'] for r in rows)
            scale = N * sum(r['alpha'] * r['df'] * max(abs(r['fwd']), case['strike'], 1e-4) for r in rows)
            tol = 1e-9 * scale + 1e-12 * N + (1.01e-10 * N * sum(r['alpha'] * r['df'] for r in rows) if case['strike'] == 0.0 else 0.0)
            if abs(vb[0] - vb[1] - strip) > tol:
                out.add('reuse-parity', f'capfloor[{mk}]: second valuation of the same objects: cap - floor = {vb[0] - vb[1]!r}, strip of '
                        f'forward-rate payments on curve B = {strip!r} (first caplet forward in the table {used[0].cap_floor_let_fwd_rates[1]!r}, '
                        f'curve B gives {rows[0]["fwd"]!r})', cap=vb[0], floor=vb[1], strip=strip)
        elif kind == 'swaption':
            swp, alphas, pays = fixed_leg_reference(case, cb, case['strike'])
            with warnings.catch_warnings():
                warnings.simplefilter('ignore')
                ref = float(swp.value(vdb, cb, cb)) / float(cb.df(date_of(case['settle_dt'])))
            A = sum(a * float(cb.df(d)) for a, d in zip(alphas, pays))
            if abs(vb[0] - vb[1] - ref) > 1e-9 * N * A * max(case['strike'], 1e-3) + 1e-9 * abs(ref):
                out.add('reuse-parity', f'swaption[{mk}]: second valuation of the same objects: payer - receiver = {vb[0] - vb[1]!r}, forward-starting '
                        f'IborSwap on curve B = {ref!r}', payer=vb[0], receiver=vb[1], swap=ref)
    return out



# ------------------------------------------------------------------------------------------ model price functions (one option)
PHI0 = 0.3989422804014327
N_ERR = 2e-7          # utils.math.N is Hull's polynomial: |N - Phi| < 7.5e-8; a bound df*(a*N(d1) - b*N(d2)) moves by < 1.5e-7*df*(a+b)
MODELFN = ('black', 'shifted', 'bachelier', 'sabr', 'sabrshifted')


def modelfn_value(case, ty, k=None, vol=None):
    """the model class's own price function on one option: Black.value / BlackShifted.value / Bachelier.value / SABR.value /
    SABRShifted.value(f, k, t, df, type)."""
    spec = dict(case['model'])
    if vol is not None:
        spec['vol'] = vol
    typ = E.OptionTypes.EUROPEAN_CALL if ty == 1 else E.OptionTypes.EUROPEAN_PUT
    return float(make_model(spec).value(case['f'], case['k'] if k is None else k, case['t'], case['df'], typ))


def oracle_modelfn(case, curve=None, collect=None):
    """executable reading of Props/C08c on the implementation: parity, intrinsic <= value <= bound, monotone in strike and
    (constant-vol models) in vol, vega >= 0, for the model class's price function itself."""
    out = Fails()
    spec = case['model']
    mk = spec['kind']
    f, k, t, df = case['f'], case['k'], case['t'], case['df']
    sh = spec.get('shift', 0.0) if mk == 'shifted' else 0.0
    call, put = modelfn_value(case, 1), modelfn_value(case, 2)
    nerr = 0.0 if mk == 'bachelier' else N_ERR * df * (f + k + 2 * sh)
    tol = 1e-12 * df * (abs(f) + abs(k) + sh) + nerr
    if abs(call - put - df * (f - k)) > tol:
        out.add('model-parity', f'{mk}.value: call - put = {call - put!r}, df*(F-K) = {df * (f - k)!r}', call=call, put=put)
    ic, ip = df * max(f - k, 0.0), df * max(k - f, 0.0)
    if call < ic - tol or put < ip - tol:
        out.add('model-ge-intrinsic', f'{mk}.value below discounted intrinsic: call {call!r} < {ic!r} or put {put!r} < {ip!r}', call=call, put=put)
    if mk == 'bachelier':
        ub = df * spec['vol'] * math.sqrt(t) * PHI0
        if call > ic + ub + tol or put > ip + ub + tol:
            out.add('model-bound', f'bachelier.value time value above df*vol*sqrt(t)/sqrt(2pi): call {call!r}, put {put!r}', call=call, put=put)
    elif call > df * (f + sh) + tol or put > df * (k + sh) + tol:
        out.add('model-bound', f'{mk}.value: call {call!r} > df*(F+s) = {df * (f + sh)!r} or put {put!r} > df*(K+s) = {df * (k + sh)!r}',
                call=call, put=put)
    if mk in ('black', 'shifted', 'bachelier'):
        k2 = k * 1.07 + (0.0005 if mk == 'bachelier' else 0.0)
        c2, p2 = modelfn_value(case, 1, k=k2), modelfn_value(case, 2, k=k2)
        if c2 > call + tol or p2 < put - tol:
            out.add('model-monotone-strike', f'{mk}.value: strike {k!r} -> {k2!r}: call {call!r} -> {c2!r}, put {put!r} -> {p2!r}')
        v2 = spec['vol'] * 1.25
        c3, p3 = modelfn_value(case, 1, vol=v2), modelfn_value(case, 2, vol=v2)
        if c3 < call - tol or p3 < put - tol:
            out.add('model-monotone-vol', f'{mk}.value: vol {spec["vol"]!r} -> {v2!r}: call {call!r} -> {c3!r}, put {put!r} -> {p3!r}')
    if mk == 'black':
        from financepy.models.black import black_vega
        r = -math.log(df) / t
        vg = float(black_vega(f, t, k, r, spec['vol'], E.OptionTypes.EUROPEAN_CALL))
        if vg < 0.0:
            out.add('model-vega', f'black_vega = {vg!r} < 0')
        h = 1e-5
        num = (modelfn_value(case, 1, vol=spec['vol'] + h) - modelfn_value(case, 1, vol=spec['vol'] - h)) / (2 * h)
        if abs(vg - num) > 1e-6 * max(abs(vg), df * f * math.sqrt(t) * PHI0) + nerr / h:
            out.add('model-vega', f'black_vega = {vg!r}, central difference of Black.value in vol = {num!r}')
        if collect is not None:
            collect['vega'] = vg
    if collect is not None:
        collect.update({'call': call, 'put': put})
    return out


def hwzcb_inputs(case):
    ts = E.np.array(case['df_times'], dtype=float)
    vs = E.np.array(case['df_values'], dtype=float)
    pe = float(E._uinterpolate(float(case['texp']), ts, vs, E.InterpTypes.FLAT_FWD_RATES.value))
    pm = float(E._uinterpolate(float(case['tmat']), ts, vs, E.InterpTypes.FLAT_FWD_RATES.value))
    return ts, vs, pe, pm


def oracle_hwzcb(case, curve=None, collect=None):
    """HWTree.option_on_zcb: put - call = strike*P(t_exp) - face*P(t_mat); intrinsic <= value <= face*P(t_mat) / strike*P(t_exp);
    call falls / put rises with the strike (Props/C08a hw_zcb_put_minus_call, C08c hw_zcb_bounds, hw_zcb_monotone_in_strike)."""
    out = Fails()
    ts, vs, pe, pm = hwzcb_inputs(case)
    m = E.HWTree(case['sigma'], case['a'])
    X, face = case['strike'], case['face']
    v = m.option_on_zcb(case['texp'], case['tmat'], X, face, ts, vs)
    c, p = float(v['call']), float(v['put'])
    A, B = face * pm, X * pe
    tol = 1e-12 * (A + B) + N_ERR * (A + B)
    if abs(p - c - (B - A)) > tol:
        out.add('hwzcb-parity', f'option_on_zcb: put - call = {p - c!r}, strike*P(t_exp) - face*P(t_mat) = {B - A!r}', call=c, put=p)
    if c < max(A - B, 0.0) - tol or p < max(B - A, 0.0) - tol or c > A + tol or p > B + tol:
        out.add('hwzcb-bounds', f'option_on_zcb: call {c!r} not in [{max(A - B, 0.0)!r}, {A!r}] or put {p!r} not in [{max(B - A, 0.0)!r}, {B!r}]', call=c, put=p)
    v2 = m.option_on_zcb(case['texp'], case['tmat'], X * 1.03, face, ts, vs)
    if float(v2['call']) > c + tol or float(v2['put']) < p - tol:
        out.add('hwzcb-monotone-strike', f'option_on_zcb: strike {X!r} -> {X * 1.03!r}: call {c!r} -> {float(v2["call"])!r}, put {p!r} -> {float(v2["put"])!r}')
    if collect is not None:
        collect.update({'call': c, 'put': p, 'pe': pe, 'pm': pm})
    return out


def gen_modelfn(rng, mkind):
    f = rng.uniform(0.002, 0.09)
    k = f * rng.choice([0.4, 0.7, 0.9, 1.0, 1.1, 1.5, 2.5]) * rng.uniform(0.97, 1.03)
    t = rng.choice([0.08, 0.25, 1.0, 3.0, 10.0]) * rng.uniform(0.9, 1.1)
    df = math.exp(-rng.uniform(0.0, 0.06) * t)
    return {'model': gen_model(rng, mkind, f), 'f': f, 'k': k, 't': t, 'df': df}


def gen_hwzcb(rng):
    z = zero_shape(rng, rng.choice(['up', 'inv', 'hump']))
    ts = [0.0] + [0.25 * i for i in range(1, 9)] + [2.0 + 0.5 * i for i in range(1, 17)] + [12.0, 15.0, 20.0, 30.0]
    vs = [math.exp(-z(x) * x) for x in ts]
    texp = rng.choice([0.1, 0.5, 1.0, 2.5, 5.0]) * rng.uniform(0.9, 1.1)
    tmat = texp + rng.choice([0.25, 0.5, 1.0, 3.0, 8.0]) * rng.uniform(0.9, 1.1)
    face = rng.choice([1.0, 100.0])
    case = {'model': {'kind': 'hw'}, 'sigma': rng.choice([0.002, 0.006, 0.01, 0.02]), 'a': rng.choice([1e-12, 0.03, 0.1, 0.3]),
            'texp': texp, 'tmat': tmat, 'face': face, 'df_times': ts, 'df_values': vs}
    _, _, pe, pm = hwzcb_inputs(dict(case, strike=1.0))
    case['strike'] = face * pm / pe * rng.choice([0.9, 0.98, 1.0, 1.02, 1.1])
    return case


def modelfn_ops(case, got):
    spec = case['model']
    mk = spec['kind']
    code = {'black': 1, 'shifted': 2, 'bachelier': 3, 'sabr': 4, 'sabrshifted': 5}[mk]
    if mk in ('sabr', 'sabrshifted'):
        p1, p2 = float(make_model(spec).black_vol(case['f'], case['k'], case['t'])), 0.0
    else:
        p1, p2 = spec['vol'], spec.get('shift', 0.0)
    ops = [f'MODELVAL {code} {ty} ' + fl([case['f'], case['k'], case['t'], case['df'], p1, p2]) for ty in (1, 2)]
    if mk == 'black':
        r = -math.log(case['df']) / case['t']
        ops.append('BLACKVEGA ' + fl([case['f'], case['t'], case['k'], r, spec['vol']]) + ' 1')
    return ops


def hwzcb_op(case, got):
    return 'HWZCB ' + fl([case['texp'], case['tmat'], case['strike'], case['face'], got['pe'], got['pm'], case['sigma'], case['a']])


def compare_modelfn(ctx, ops, keep):
    """generated price functions (and the hand model beside them) vs the implementation, one option at a time."""
    try:
        import exedriver
        ans = exedriver.run('c08driver', 'C08', ops, par=False)
    except Exception as e:  # noqa: BLE001
        ctx.broke(f'model driver failed on MODELVAL/HWZCB ops: {str(e)[:300]}')
        return
    ncmp = nbad = nhand = 0
    for (what, case, iv), op, a in zip(keep, ops, ans):
        t = a.split()
        mk = case['model']['kind']
        if not t or t[0].startswith('E:') or t[0] == 'bad-op':
            ctx.broke(f'correspondence {what}[{mk}]: model answered {a[:60]} on {short(case)}')
            continue
        vals = [b2f(x) for x in t]
        rt = 1e-7 if mk == 'bachelier' else 1e-9
        if mk == 'hw':
            # option_on_zcb evaluates (1 - exp(-a*tau))/a and (1 - exp(-2*a*t))/(2a) directly; for tiny mean reversion (the code
            # clamps a at 1e-10) that is a cancellation with relative rounding error ~ eps/(a*tau): two correctly rounded
            # evaluations (numpy / Lean Float) then differ by up to that much in sigma_p, hence in the price (vega-bounded by
            # the price scale).  The tolerance follows that condition number; it is 1e-9 again for a*tau >= 1e-6.
            a_eff = max(abs(case['a']), 1e-10)
            tau = max(min(case['texp'], case['tmat'] - case['texp']), 1e-6)
            rt = max(rt, 8 * 2.3e-16 / (a_eff * tau))
        scale = abs(case.get('face', 1.0)) if mk == 'hw' else case['df'] * (case['f'] + case['k'])
        at = (1e-8 if mk == 'bachelier' else 1e-10) * scale
        if mk == 'hw' and rt > 1e-9:
            at = max(at, rt * scale)
        gen = vals[:len(iv)]
        for i, (x, y) in enumerate(zip(iv, gen)):
            ncmp += 1
            if not close(x, y, rtol=rt, atol=at):
                nbad += 1
                if nbad <= 3:
                    ctx.broke(f'correspondence {what}[{mk}]: generated {y!r} vs implementation {x!r} (output {i}) on {short(case)}')
        hand = vals[len(iv):]
        for i, (y, h) in enumerate(zip(gen, hand)):
            nhand += 1
            if not close(y, h, rtol=1e-13, atol=1e-15 * scale):
                nbad += 1
                if nbad <= 3:
                    ctx.broke(f'correspondence {what}[{mk}]: hand model {h!r} vs generated {y!r} (output {i}) on {short(case)}')
    ctx.count('modelfn-vs-generated', ncmp, ncmp, sample={'op': ops[0][:100] + ' ...'})
    ctx.cov['components']['modelfn-vs-generated']['disagree_model'] = nbad
    ctx.cov['components']['modelfn-vs-generated']['hand_vs_generated'] = nhand


ORACLES = {'modelfn': oracle_modelfn, 'hwzcb': oracle_hwzcb, 'capfloor': oracle_capfloor, 'capfloor_monotone': oracle_capfloor_monotone, 'swaption': oracle_swaption,
           'swaption_monotone': oracle_swaption_monotone, 'bondoption': oracle_bondoption, 'bermudan': oracle_bermudan,
           'reuse': oracle_reuse}


def report(ctx, comp, case, fails):
    for f in fails:
        c = dict(case)
        c['component'] = comp
        c['detail'] = f['detail']
        ctx.violation(f'{comp}: {f["what"]}', c, finding=f['finding'], clause=f['clause'])


# ------------------------------------------------------------------------------------------ case generation
FREQS = ['MONTHLY', 'QUARTERLY', 'SEMI_ANNUAL', 'ANNUAL']
DCS = ['ACT_360', 'ACT_365F', 'THIRTY_E_360_ISDA', 'THIRTY_E_360', 'ACT_ACT_ISDA', 'THIRTY_360_BOND']


def gen_date(rng):
    return E.Date(rng.randint(1, 28), rng.randint(1, 12), rng.randint(2012, 2032))


def level_of(curve, vd, years):
    d = vd.add_years(years)
    return -math.log(float(curve.df(d))) / max(years, 0.25)


def strikes_around(rng, f):
    f = max(abs(f), 0.002)
    return [f * m for m in (0.4, 0.75, 1.0, 1.3, 2.2)]


def gen_last_fixing(rng, K, lvl):
    """the contract's known first fixing over its whole range: absent, exactly zero, negative, at / around the strike, around the
    curve level, large"""
    u = rng.random()
    if u < 0.35:
        return None
    if u < 0.50:
        return 0.0
    if u < 0.60:
        return -rng.uniform(0.0001, 0.004)
    if u < 0.68:
        return float(K)
    if u < 0.80:
        return K * rng.uniform(0.8, 1.2) + rng.choice([0.0, 1e-6])
    if u < 0.90:
        return lvl * rng.uniform(0.5, 1.5)
    return rng.uniform(0.15, 0.6)


def cap_in_domain(case, curve):
    """the lognormal models price a caplet only for a positive (shifted) forward - Black and SABR raise FinError otherwise, the
    shifted ones take the log of a negative number: the model's own domain, not a defect.  Checked on the contract's schedule."""
    spec = case['model']
    mk = spec['kind']
    if mk not in ('black', 'shifted', 'sabr', 'sabrshifted'):
        return True
    sh = spec.get('shift', 0.0) if mk == 'shifted' else 0.0
    dts = capfloor_schedule(case)
    rows = strip_reference(curve, dts, E.DayCountTypes[case['dc']], case['strike'], 1.0, None)
    return all(r['fwd'] + sh > 1e-5 for r in rows[1:])


def gen_capfloor(rng, ckind, mkind):
    for _ in range(8):
        case, curve = gen_capfloor_any(rng, ckind, mkind)
        if cap_in_domain(case, curve):
            break
    return case, curve


def gen_capfloor_any(rng, ckind, mkind):
    vd = gen_date(rng)
    desc, curve = make_curve(rng, vd, ckind)
    fwdstart = rng.random() < 0.2
    start = vd.add_months(rng.choice([1, 3, 6, 12])) if fwdstart else vd
    tenor = rng.choice(['1Y', '2Y', '3Y', '5Y', '7Y'])
    freq = rng.choice(FREQS[:3] if tenor != '1Y' else FREQS[1:3])
    if freq == 'MONTHLY' and tenor in ('5Y', '7Y'):
        freq = 'QUARTERLY'
    lvl = level_of(curve, vd, int(tenor[:-1]))
    ks = strikes_around(rng, lvl)
    K = rng.choice(ks + [0.0] if (mkind not in ('hw',) and ckind != 'negflat') else ks)
    case = {'value_dt': dmy(vd), 'start_dt': dmy(start), 'tenor': tenor, 'freq': freq, 'dc': rng.choice(DCS),
            'notional': rng.choice([1.0, 100.0, 1e6, 2.5e7]), 'strike': K, 'strikes': ks,
            'last_fixing': gen_last_fixing(rng, K, lvl),
            'curve': desc, 'model': gen_model(rng, mkind, lvl), 'annuity': float(int(tenor[:-1]))}
    case.update(gen_conv(rng))
    # lengths that are not a whole number of periods (front stub under BACKWARD, back stub under FORWARD generation),
    # given as a tenor string (rolled to a business day by the constructor) or as a maturity date (taken as it is)
    if rng.random() < 0.4:
        months = 12 * int(tenor[:-1]) + rng.choice([1, 2, 4, 5, 7])
        if rng.random() < 0.5:
            case['tenor'] = f'{months}M'
        else:
            case['maturity_dt'] = dmy(start.add_months(months))
        case['annuity'] = months / 12.0
    if mkind in ('black', 'shifted', 'bachelier'):
        v = case['model']['vol']
        case['vols'] = [v * 0.25, v * 0.5, v, v * 2.0]
    return case, curve


def gen_swaption(rng, ckind, mkind):
    vd = gen_date(rng)
    desc, curve = make_curve(rng, vd, ckind)
    settle = vd.add_days(2) if rng.random() < 0.15 else vd
    ex = settle.add_months(rng.choice([3, 6, 12, 24, 36, 60]))
    tail = rng.choice([1, 2, 3, 5, 7, 10] if mkind in BLACKLIKE else [1, 2, 3, 5])
    mat = ex.add_years(tail)
    if rng.random() < 0.4:                      # a swap length that is not a whole number of fixed (and floating) periods
        mat = mat.add_months(rng.choice([1, 2, 3, 4, 5, 7, 9]))
    case = {'value_dt': dmy(vd), 'settle_dt': dmy(settle), 'exercise_dt': dmy(ex), 'maturity_dt': dmy(mat),
            'fixed_freq': rng.choice(['ANNUAL', 'SEMI_ANNUAL', 'QUARTERLY']), 'fixed_dc': rng.choice(DCS[:5]),
            'float_freq': rng.choice(['QUARTERLY', 'SEMI_ANNUAL']), 'float_dc': rng.choice(['THIRTY_E_360', 'ACT_360', 'ACT_365F']),
            'notional': rng.choice([1.0, 1e6, 5e7]), 'curve': desc}
    case.update(gen_conv(rng))
    swp, alphas, pays = fixed_leg_reference(dict(case, strike=0.03), curve, 0.03)
    with warnings.catch_warnings():
        warnings.simplefilter('ignore')
        s = float(swp.swap_rate(vd, curve))
    A = sum(a * float(curve.df(d)) for a, d in zip(alphas, pays))
    ks = strikes_around(rng, s)
    case.update({'strikes': ks, 'strike': rng.choice(ks), 'model': gen_model(rng, mkind, s), 'annuity': A, 'fwd': s})
    if mkind in ('black', 'shifted'):
        v = case['model']['vol']
        case['vols'] = [v * 0.25, v * 0.5, v, v * 2.0]
    return case, curve


def gen_bondoption(rng, ckind, mkind, calc=None):
    vd = gen_date(rng)
    desc, curve = make_curve(rng, vd, ckind)
    issue = vd.add_months(-rng.randint(1, 5))
    years = rng.choice([3, 5, 8])
    mat = issue.add_years(years)
    cpn = rng.choice([0.02, 0.04, 0.06])
    freq = rng.choice(['ANNUAL', 'SEMI_ANNUAL'])
    case = {'value_dt': dmy(vd), 'issue_dt': dmy(issue), 'bond_maturity_dt': dmy(mat), 'coupon': cpn, 'freq': freq,
            'dc': rng.choice(['ACT_ACT_ICMA', 'THIRTY_E_360', 'ACT_365F']), 'curve': desc}
    bond = bond_of(case)
    cd = [d for d in bond.cpn_dts if d > vd.add_months(3)]
    if len(cd) < 3:
        return None, None
    i = rng.randrange(0, len(cd) - 2)
    gap = cd[i + 1] - cd[i]
    exp = cd[i].add_days(int(gap * rng.uniform(0.3, 0.7)))
    fwd = float(bond.clean_price_from_discount_curve(exp, curve))
    m = gen_model(rng, mkind, 0.03, small_tree=False)
    if mkind == 'hw':
        m['calc'] = calc or 'tree'
    case.update({'expiry_dt': dmy(exp), 'strikes': [fwd * x for x in (0.6, 0.9, 1.0, 1.08)], 'model': m,
                 'american': rng.random() < 0.3})
    return case, curve


def gen_bermudan(rng, ckind, mkind):
    vd = gen_date(rng)
    desc, curve = make_curve(rng, vd, ckind)
    ex = vd.add_years(rng.choice([1, 2]))
    mat = ex.add_years(rng.choice([2, 3, 5]))
    if rng.random() < 0.4:
        mat = mat.add_months(rng.choice([1, 3, 4, 7, 9]))
    case = {'value_dt': dmy(vd), 'settle_dt': dmy(vd), 'exercise_dt': dmy(ex), 'maturity_dt': dmy(mat),
            'fixed_freq': rng.choice(['ANNUAL', 'SEMI_ANNUAL']), 'fixed_dc': rng.choice(['ACT_365F', 'THIRTY_E_360', 'ACT_360']),
            'float_freq': 'QUARTERLY', 'float_dc': 'THIRTY_E_360', 'notional': 1e6, 'curve': desc}
    case.update(gen_conv(rng))
    lvl = level_of(curve, vd, 4)
    case.update({'strike': lvl * rng.choice([0.7, 1.0, 1.3]), 'model': gen_model(rng, mkind, lvl)})
    return case, curve


def bump_desc(desc, rng):
    """curve B of a bump-and-reprice: the same curve kind, the same pillar grid, other discount factors"""
    b = rng.choice([-1.0, 1.0]) * rng.uniform(0.001, 0.01)
    d = json.loads(json.dumps(desc))
    k = d['kind']
    if k == 'flat':
        d['rate'] = max(d['rate'] + b, 0.0005)
    elif k == 'negflat':
        d['rate'] = d['rate'] - abs(b) * 0.1
    elif k == 'sloped':
        d['dfs'] = [x * math.exp(-abs(b) * n / 365.0) for x, n in zip(d['dfs'], d['pillar_days'])]
    else:
        d['deposits'] = [x + abs(b) for x in d['deposits']]
        d['fra'] += abs(b)
        d['swap_base'] += abs(b)
    return d


def gen_reuse(rng, product, mkind):
    ckind = rng.choice(['flat', 'sloped', 'ibor'])
    if product == 'capfloor':
        case, _ = gen_capfloor(rng, ckind, mkind)
    elif product == 'swaption':
        case, _ = gen_swaption(rng, ckind, mkind)
    elif product == 'bondoption':
        case, _ = gen_bondoption(rng, ckind, mkind, 'tree' if mkind == 'hw' else None)
        if case is None:
            return None
    else:
        case, _ = gen_bermudan(rng, ckind, mkind)
    vda = date_of(case['value_dt'])
    # the other scenario: another curve, on the same date or on an earlier valuation date
    shift = rng.choice([0, 0, 0, 1, 7, 30] if product != 'bondoption' else [0, 0, 1, 7])
    vdo = vda.add_days(-shift)
    desc_o, _ = make_curve(rng, vdo, rng.choice(['flat', 'sloped', 'ibor']))
    case['product'] = product
    if rng.random() < 0.4:
        # bump-and-reprice: the same date, the same pillar grid, other discount factors (the commonest re-use of one object)
        case['value_dt_b'], case['curve_b'] = case['value_dt'], bump_desc(case['curve'], rng)
    elif rng.random() < 0.5:
        case['value_dt_b'], case['curve_b'] = dmy(vdo), desc_o                       # second valuation: other curve (earlier date)
    else:
        case['value_dt_b'], case['curve_b'] = case['value_dt'], case['curve']        # second valuation back on the contract's own date
        case['value_dt'], case['curve'] = dmy(vdo), desc_o
    if product == 'capfloor':
        case['last_fixing'] = None if rng.random() < 0.8 else case.get('last_fixing')
    return case


def short(case):
    return json.dumps({k: v for k, v in case.items() if k not in ('curve',)}, default=str)[:500]


def nontrivial(case, f):
    m = case['model']
    vol = m.get('vol', m.get('sigma', m.get('alpha', 1.0)))
    K = case.get('strike', 0.0)
    return vol > 0 and (f is None or (abs(f) / 3 <= K <= 3 * abs(f)))


# ------------------------------------------------------------------------------------------ model correspondence
def fl(xs):
    return ' '.join(f2b(float(x)) for x in xs)


def model_params(spec):
    """(code, 5 floats) of a caplet / swaption model for the driver."""
    k = spec['kind']
    if k == 'black':
        return 1, [spec['vol'], 0, 0, 0, 0]
    if k == 'shifted':
        return 2, [spec['vol'], spec['shift'], 0, 0, 0]
    if k == 'bachelier':
        return 3, [spec['vol'], 0, 0, 0, 0]
    if k == 'hw':
        return 6, [spec['sigma'], spec['a'], 0, 0, 0]
    raise ValueError(k)


def capfloor_op(case, got):
    """CAPFLOOR op: the hand model of IborCapFloor.value on the glue inputs (accruals, forwards, discount factors,
    expiry times; SABR: the Black vol of each caplet from the implementation's black_vol; HW: the two curve reads)."""
    spec = case['model']
    mk = spec['kind']
    vd, start = date_of(case['value_dt']), date_of(case['start_dt'])
    dts, rows, curve = got['dts'], got['rows'], got['curve']
    K, N = case['strike'], case['notional']
    n = len(dts)
    per = []
    model = make_model(spec)
    for i in range(1, n):
        r = rows[i - 1]
        te = (dts[i - 1] - start) / 365.0
        tm = (dts[i] - vd) / 365.0
        f = float(curve.fwd_rate(dts[i - 1], dts[i], E.DayCountTypes[case['dc']]))
        extra = [0.0, 0.0, 0.0]
        if i >= 2:
            if mk in ('sabr', 'sabrshifted'):
                kk = K if K != 0.0 else 1e-10
                extra[0] = float(model.black_vol(f, kk, te))
            if mk == 'hw':
                extra[1], extra[2] = P365(curve, te), P365(curve, tm)
        per += [r['alpha'], f, r['df'], te, tm] + extra
    if mk in ('sabr', 'sabrshifted'):
        code, pars = (4 if mk == 'sabr' else 5), [0, 0, 0, 0, 0]
    else:
        code, pars = model_params(spec)
    lf = case.get('last_fixing')
    # the contract's last_fixing is an argument of the op: `None` -> (0, 0), a number x (0.0 included) -> (1, x); the model applies it
    return f'CAPFLOOR {code} {n - 1} ' + fl(pars + [K, N] + ([0.0, 0.0] if lf is None else [1.0, lf]) + per)


def swaption_op(case, got):
    spec = case['model']
    mk = spec['kind']
    vd, settle, ex = date_of(case['value_dt']), date_of(case['settle_dt']), date_of(case['exercise_dt'])
    te = (ex - settle) / 365.0
    K = case['strike']
    if mk in ('sabr', 'sabrshifted'):
        code, pars = (4 if mk == 'sabr' else 5), [float(make_model(spec).black_vol(got['s'], K, te)), 0, 0, 0, 0]
    else:
        code, pars = model_params(spec)
    return f'SWAPTION {code} ' + fl(pars + [got['s'], K, te, got['A'], got['dfs'], case['notional']])


# ------------------------------------------------------------------------------------------ run
def run(ctx):
    nolean = bool(os.environ.get('C08_NOLEAN'))
    drivers_ok = False if nolean else C.lean_stage(ctx, GEN, PROPS, DRIVERS, extra_files=EXTRA_FILES)
    load()
    np = E.np
    quick = ctx.quick()

    # ---- listed findings: replay their witnesses on the implementation at every run
    for k in ctx.known:
        w = k.get('witness', {})
        if w.get('oracle') in ORACLES:
            try:
                fails = ORACLES[w['oracle']](dict(w['case']))
                report(ctx, 'witness/' + w['oracle'], w['case'], fails)
                ctx.count('witness', 1, 1)
                if not any(f['finding'] == k['id'] for f in fails):
                    ctx.notes.append(f'witness of {k["id"]} no longer fails its clause')
            except Exception as e:  # noqa: BLE001
                ctx.notes.append(f'witness of {k["id"]} raised {type(e).__name__}: {e}')

    hist = {}
    rejected = []

    def guarded(comp, case, fn):
        """product valuations on tame inputs must not raise"""
        try:
            return fn()
        except TreeIndexOverrun as e:
            # consequence of the known finding (times from settlement vs coupon times from valuation): memory-unsafe, not run
            ctx.violation(f'{comp}: IborSwaption.value on a BK/BDT tree would index past the end of the tree arrays ({e}): '
                          'IndexError in the interpreter, heap corruption in the compiled routine',
                          dict(case, component=comp), finding=F_SWSET, clause='memory-safety')
            return None
        except Exception as e:  # noqa: BLE001
            import traceback
            if isinstance(e, E.FinError) and case['model']['kind'] in ('bk', 'bdt') and (
                    'derivative is zero' in str(e) or 'FAILED to find' in str(e) or 'Failed to find' in str(e)):
                # the tree's own drift search gave up (C03's subject): counted, not a C08 violation
                rejected.append((comp, short(case), str(e)))
                return None
            tb = traceback.extract_tb(e.__traceback__)[-1]
            ctx.violation(f'{comp}: valuation raised {type(e).__name__}: {e} at {os.path.basename(tb.filename)}:{tb.lineno}',
                          dict(case, component=comp), clause='raises')
            return None

    # ---- the model classes' own price functions, one option at a time (Props/C08c) + generated-kernel correspondence
    rng = ctx.rng('modelfn')
    nfn = 40 if quick else 400
    ops, keep = [], []
    for it in range(nfn):
        for mkind in MODELFN:
            case = gen_modelfn(rng, mkind)
            got = {}
            fails = guarded('modelfn', case, lambda: oracle_modelfn(case, None, got))
            if fails is None:
                continue
            report(ctx, 'modelfn', case, fails)
            ctx.count('modelfn-oracles/' + mkind, 8, 8, sample={'model': case['model'], 'f': case['f'], 'k': case['k'], 't': case['t'],
                                                                 'df': case['df'], 'call': got.get('call'), 'put': got.get('put')})
            if drivers_ok and got:
                new = modelfn_ops(case, got)
                ops += new
                keep += [('modelfn', case, [got['call']]), ('modelfn', case, [got['put']])] + \
                    ([('black_vega', case, [got['vega']])] if len(new) == 3 else [])
        case = gen_hwzcb(rng)
        got = {}
        fails = guarded('hwzcb', case, lambda: oracle_hwzcb(case, None, got))
        if fails is not None:
            report(ctx, 'hwzcb', case, fails)
            ctx.count('modelfn-oracles/hw', 4, 4, sample={k: case[k] for k in ('sigma', 'a', 'texp', 'tmat', 'strike', 'face')})
            if drivers_ok and got:
                ops.append(hwzcb_op(case, got))
                keep.append(('option_on_zcb', case, [got['call'], got['put']]))
    if drivers_ok and ops:
        compare_modelfn(ctx, ops, keep)

    # ---- caps and floors
    rng = ctx.rng('capfloor')
    cap_models = ['black', 'shifted', 'bachelier', 'sabr', 'sabrshifted', 'hw']
    ncap = 36 if quick else 240
    ops, keep = [], []
    for it in range(ncap):
        for mkind in cap_models:
            ckind = rng.choice(['flat', 'sloped', 'ibor', 'sloped'])
            if mkind in ('shifted', 'bachelier') and rng.random() < 0.15:
                ckind = 'negflat'
            case, curve = gen_capfloor(rng, ckind, mkind)
            if ckind == 'negflat':
                case['model']['shift'] = 0.03
            got = {}
            fails = guarded('capfloor', case, lambda: oracle_capfloor(case, curve, got))
            if fails is None:
                continue
            report(ctx, 'capfloor', case, fails)
            hist[f'capfloor/{mkind}/{ckind}'] = hist.get(f'capfloor/{mkind}/{ckind}', 0) + 1
            lf = case.get('last_fixing')
            fk = 'none' if lf is None else 'zero' if lf == 0.0 else 'negative' if lf < 0 else 'at-strike' if lf == case['strike'] else 'positive'
            for key in (f'capfloor-last-fixing/{fk}', f'capfloor-conv/{case["dg"]}/{"stub" if (case.get("maturity_dt") or case["tenor"].endswith("M")) else "whole"}',
                        f'conv-cal/{case["cal"]}', f'conv-bd/{case["bd"]}'):
                hist[key] = hist.get(key, 0) + 1
            ncl = 6 + 4 * (len(got.get('dts', [])) - 1)
            ctx.count('capfloor-oracles/' + mkind, ncl, ncl if nontrivial(case, case['strikes'][2]) else 0,
                      sample={'model': case['model'], 'curve': ckind, 'tenor': case['tenor'], 'freq': case['freq'], 'dc': case['dc'],
                              'strike': case['strike'], 'cap': got.get('vc'), 'floor': got.get('vf')})
            if it % 2 == 0 and mkind != 'hw':
                f2 = guarded('capfloor_monotone', case, lambda: oracle_capfloor_monotone(case, curve))
                if f2 is not None:
                    report(ctx, 'capfloor_monotone', case, f2)
                    ctx.count('capfloor-monotone/' + mkind, 12, 12)
            # (HW caps valued before their start date: the expiry time is the subject of finding F_HWCAP; the tie is checked on the others)
            if drivers_ok and got and not (mkind == 'hw' and case['start_dt'] != case['value_dt']):
                try:
                    ops.append(capfloor_op(case, got))
                    keep.append((case, got))
                except Exception as e:  # noqa: BLE001
                    ctx.notes.append(f'capfloor model op could not be built: {type(e).__name__}: {e}')
    if drivers_ok and ops:
        compare_capfloor(ctx, ops, keep)

    # ---- swaptions
    rng = ctx.rng('swaption')
    sw_models = ['black', 'shifted', 'sabr', 'sabrshifted', 'hw', 'bk', 'bdt']
    nsw = 24 if quick else 160
    ops, keep = [], []
    for it in range(nsw):
        for mkind in sw_models:
            ckind = rng.choice(['flat', 'sloped', 'ibor'])
            case, curve = gen_swaption(rng, ckind, mkind)
            got = {}
            fails = guarded('swaption', case, lambda: oracle_swaption(case, curve, got))
            if fails is None:
                continue
            report(ctx, 'swaption', case, fails)
            hist[f'swaption/{mkind}/{ckind}'] = hist.get(f'swaption/{mkind}/{ckind}', 0) + 1
            whole = (case['maturity_dt'][1] == case['exercise_dt'][1])
            for key in (f'swaption-conv/{case["dg"]}/{"whole" if whole else "stub"}', f'conv-cal/{case["cal"]}', f'conv-bd/{case["bd"]}'):
                hist[key] = hist.get(key, 0) + 1
            ctx.count('swaption-oracles/' + mkind, 9, 9 if nontrivial(case, case['fwd']) else 0,
                      sample={'model': case['model'], 'curve': ckind, 'exercise': case['exercise_dt'], 'maturity': case['maturity_dt'],
                              'strike': case['strike'], 'fwd': case['fwd'], 'payer': got.get('vp'), 'receiver': got.get('vr')})
            if (it % 2 == 0 and mkind in BLACKLIKE) or (it % 5 == 0 and mkind == 'hw'):
                f2 = guarded('swaption_monotone', case, lambda: oracle_swaption_monotone(case, curve))
                if f2 is not None:
                    report(ctx, 'swaption_monotone', case, f2)
                    ctx.count('swaption-monotone/' + mkind, 10, 10)
            if drivers_ok and got and mkind in BLACKLIKE:
                ops.append(swaption_op(case, got))
                keep.append((case, got))
    if drivers_ok and ops:
        compare_swaption(ctx, ops, keep)

    # ---- bond options
    rng = ctx.rng('bondoption')
    nbo = 10 if quick else 60
    for it in range(nbo):
        for mkind, calc in (('hw', 'tree'), ('hw', 'jamshidian'), ('hw', 'expiry_only'), ('bk', None), ('bdt', None)):
            ckind = rng.choice(['flat', 'sloped', 'ibor'])
            case, curve = gen_bondoption(rng, ckind, mkind, calc)
            if case is None:
                continue
            fails = guarded('bondoption', case, lambda: oracle_bondoption(case, curve))
            if fails is None:
                continue
            report(ctx, 'bondoption', case, fails)
            hist[f'bondoption/{mkind}/{ckind}'] = hist.get(f'bondoption/{mkind}/{ckind}', 0) + 1
            ctx.count('bondoption-oracles/' + mkind, 16, 16, sample={'model': case['model'], 'curve': ckind, 'expiry': case['expiry_dt'],
                                                                     'strikes': case['strikes'], 'coupon': case['coupon']})

    # ---- bermudan >= european
    rng = ctx.rng('bermudan')
    nbm = 10 if quick else 60
    for it in range(nbm):
        for mkind in TREES:
            ckind = rng.choice(['flat', 'sloped', 'ibor'])
            case, curve = gen_bermudan(rng, ckind, mkind)
            fails = guarded('bermudan', case, lambda: oracle_bermudan(case, curve))
            if fails is None:
                continue
            report(ctx, 'bermudan', case, fails)
            ctx.count('bermudan-oracles/' + mkind, 6, 6, sample={'model': case['model'], 'curve': ckind, 'exercise': case['exercise_dt'],
                                                                 'maturity': case['maturity_dt'], 'strike': case['strike']})
    # ---- re-use: the same product objects on a second (date, curve) vs fresh objects
    rng = ctx.rng('reuse')
    nru = 6 if quick else 40
    plan = [('capfloor', m) for m in ('black', 'shifted', 'bachelier', 'sabr', 'sabrshifted', 'hw')] + \
           [('swaption', m) for m in ('black', 'shifted', 'sabr', 'sabrshifted', 'hw', 'bk', 'bdt')] + \
           [('bondoption', m) for m in TREES] + [('bermudan', m) for m in TREES]
    for it in range(nru):
        for product, mkind in plan:
            if product in ('bondoption', 'bermudan') and it % 2:
                continue
            case = gen_reuse(rng, product, mkind)
            if case is None:
                continue
            if os.environ.get('C08_TRACE'):
                open(os.environ['C08_TRACE'], 'a').write(json.dumps(case, default=str) + '\n')
            fails = guarded('reuse', case, lambda: oracle_reuse(case))
            if fails is None:
                continue
            report(ctx, 'reuse', case, fails)
            hist[f'reuse/{product}/{mkind}'] = hist.get(f'reuse/{product}/{mkind}', 0) + 1
            ctx.count(f'reuse-oracles/{product}', 8, 8, sample={'product': product, 'model': case['model'], 'value_dt': case['value_dt'],
                                                                'value_dt_b': case['value_dt_b'], 'curve_a': case['curve']['kind'],
                                                                'curve_b': case['curve_b']['kind']})
    ctx.cov['histogram'] = hist
    if rejected:
        ctx.notes.append(f'{len(rejected)} BK/BDT tree builds were rejected by the library (drift search gave up; C03), e.g. {rejected[0][2]} on {rejected[0][1][:200]}')
        if len(rejected) > 0.25 * (nsw + nbo + nbm) * 2:
            ctx.violation(f'tree construction raised on {len(rejected)} admissible inputs; first: {rejected[0][2]}', {'component': 'tree', 'case': rejected[0][1]}, clause='builds')

    ctx.assumptions += [
        'theorems are about the model read over the reals; floating-point rounding is covered only by the tolerances of the correspondence and of the oracles',
        'the normal cdf enters the parity theorems only through Phi(x) + Phi(-x) = 1 at the arguments that occur (true for the coded Hull polynomial N at x != 0, and for any exact cdf)',
        'bounds, monotonicity, vega and zero-volatility theorems (C08c, C08d) are about the exact normal cdf: hypothesis bundle IsNormalCdf (Phi\' = phi = c exp(-x^2/2), '
        'c > 0, symmetry, Phi(+inf) = 1), satisfied by the standard normal (C08n, exists_normalCdf); the coded Hull polynomial differs from it by < 7.5e-8, which the '
        'model-function oracles allow for (N_ERR)',
        'SABR / shifted SABR: the Black volatility returned by the (njit) Hagan formula is a parameter of the model; parity needs only that both legs use the same number',
        'Jamshidian root r*: parameter with the postcondition "bond price at r* = strike + accrued"; BK/BDT drift searches: C03',
        'convergence of tree prices to the curve-implied forward is validated numerically only: tolerance (coupon + rate bound) x dt x 2.0 x face (bond options), '
        '(rate bound + K) x dt x notional (swaption trees): the expiry and the coupons are moved to the nearest tree date (|shift| <= dt/2)',
        'schedule generation (C16), day-count fractions (C15) and curve interpolation (C02) are inputs of the model (glue)',
    ]
    return C.finish(ctx, 'proof',
                    'lake build ' + ' '.join(PROPS) + ' && lake env lean .cache/audit/Audit_C08.lean',
                    C.TRUSTED_BASE_COMMON + ['Spec/C08.lean: strip of forward-rate payments, forward swap value, linear pricing operator',
                                             'translator tools/py2lean for the Black-family kernels (Gen/BSF executed, Gen/BSR, Gen/BSP in the theorems) and for SABR.value, '
                                             'SABRShifted.value, HWTree.option_on_zcb (Gen/RateOptF executed next to the hand model, Gen/RateOptP in the theorems)',
                                             'hand model Model/C08.lean tied to IborCapFloor / IborSwaption by per-caplet and per-trade correspondence'],
                    RULE)


def compare_capfloor(ctx, ops, keep):
    try:
        import exedriver
        ans = exedriver.run('c08driver', 'C08', ops, par=False)
    except Exception as e:  # noqa: BLE001
        ctx.broke(f'model driver failed on CAPFLOOR ops: {str(e)[:300]}')
        return
    ncmp = nbad = 0
    for (case, got), a in zip(keep, ans):
        t = a.split()
        mk = case['model']['kind']
        n = len(got['dts'])
        if len(t) != 2 * (n - 1) + 2:
            ctx.broke(f'correspondence capfloor[{mk}]: model answered {a[:60]} on {short(case)}')
            continue
        vals = [b2f(x) for x in t]
        mc, mf = vals[0], vals[1]
        cv = [float(x) for x in got['cap'].cap_floor_let_values][1:]
        fv = [float(x) for x in got['floor'].cap_floor_let_values][1:]
        rt = 1e-9 if mk != 'bachelier' else 1e-7
        at = 1e-10 * got['scale'] if mk != 'bachelier' else 1e-8 * got['scale']
        pairs = [('cap', got['vc'], mc), ('floor', got['vf'], mf)]
        pairs += [(f'caplet[{i + 1}]', cv[i], vals[2 + i]) for i in range(n - 1)]
        pairs += [(f'floorlet[{i + 1}]', fv[i], vals[2 + (n - 1) + i]) for i in range(n - 1)]
        for nm, iv, mv in pairs:
            ncmp += 1
            if not close(iv, mv, rtol=rt, atol=at):
                nbad += 1
                if nbad <= 3:
                    ctx.broke(f'correspondence capfloor[{mk}]: {nm} model {mv!r} vs implementation {iv!r} on {short(case)}')
                break
    ctx.count('capfloor-vs-model', ncmp, ncmp, sample={'op': ops[0][:100] + ' ...'})
    ctx.cov['components']['capfloor-vs-model']['disagree_model'] = nbad


def compare_swaption(ctx, ops, keep):
    try:
        import exedriver
        ans = exedriver.run('c08driver', 'C08', ops, par=False)
    except Exception as e:  # noqa: BLE001
        ctx.broke(f'model driver failed on SWAPTION ops: {str(e)[:300]}')
        return
    ncmp = nbad = 0
    for (case, got), a in zip(keep, ans):
        t = a.split()
        mk = case['model']['kind']
        if len(t) != 2:
            ctx.broke(f'correspondence swaption[{mk}]: model answered {a[:60]} on {short(case)}')
            continue
        for nm, iv, mv in (('payer', got['vp'], b2f(t[0])), ('receiver', got['vr'], b2f(t[1]))):
            ncmp += 1
            if not close(iv, mv, rtol=1e-9, atol=1e-10 * got['scale']):
                nbad += 1
                if nbad <= 3:
                    ctx.broke(f'correspondence swaption[{mk}]: {nm} model {mv!r} vs implementation {iv!r} on {short(case)}')
    ctx.count('swaption-vs-model', ncmp, ncmp, sample={'op': ops[0][:100] + ' ...'})
    ctx.cov['components']['swaption-vs-model']['disagree_model'] = nbad


def replay(ctx, path):
    rp = json.load(open(path))
    load()
    v = rp.get('violation')
    if not v:
        print('replay: no concrete input in this file:', rp.get('broken'))
        return 1
    case = v['case']
    comp = case.get('component', '').split('/')[-1]
    if comp not in ORACLES:
        print('replay: unknown component', comp)
        return 1
    try:
        fails = ORACLES[comp](case)
    except Exception as e:  # noqa: BLE001
        print(f'FAIL raises: {type(e).__name__}: {e}')
        print(f'VIOLATION property=C08 replay={path}')
        return 1
    bad = [f for f in fails if f['finding'] is None or f['finding'] not in ctx.known_ids]
    for f in fails:
        print(('KNOWN-FINDING ' if f not in bad else 'FAIL ') + f['clause'] + ': ' + f['what'])
    if bad:
        print(f'VIOLATION property=C08 replay={path}')
        return 1
    print('replay: the case passes now')
    return 0
