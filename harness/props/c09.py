"""C09 — CDS valuation is consistent and the bootstrapped credit curve reprices its CDS.

Theorems: FinVerif/Props/C09.lean (value decomposition, long = -short, linearity, dirty - clean = accrued,
par spread zeroes the clean PV, locality of both legs, flat-forward survival kernel monotone / in (0,1] / starts at 1),
C09b.lean (bootstrap `_build_curve` as a fold with the solver as a parameter: earlier knots never rewritten, every quoted
CDS repriced within the solver's post-condition on the final curve, par spread = quote, survival locality, starts at 1),
C09c.lean (protection-leg scheme as coded: sign, bound (1-R)(1-Q(T)), exact flat-hazard closed form for every step count,
monotone in the hazard, zero hazard, recovery linearity), C09d.lean (accrual-on-default sign/bound, annuity sandwich,
zero hazard, clean price / premium leg / upfront identities, flat knots interpolate to the exponential),
C09e.lean (`value_fast_approx` = the flat-hazard closed form: identities, par coupon = hazard x (1-R) x 360/365, short-protection
sensitivities off by -2 x accrued; `survival_prob` on vectors = element-wise scalar), C09f.lean (annuity = first coupon + survival
sum + accrual-on-default sum exactly; all but the last non-increasing in a flat hazard; accrual on default <= HALF a period's accrual
on the period's default probability), C09g.lean (the solver's root: unique per pass / same curve for any exact root finder when the
objective is strictly monotone; a root with non-negative forward hazard exists iff the clean PV at zero forward hazard is <= 0;
knots non-increasing iff that sign holds at every pillar), C09h.lean (the FULL annuity as coded is non-increasing, and the clean PV
of the coded legs strictly increasing, in a flat hazard while h x period + discounting from the first coupon <= 1 per period),
C09i.lean (first pillar of the bootstrap: the solver's objective is that flat-hazard clean PV, strictly decreasing in the knot => the
first knot is unique), C09j.lean (GENERATED LOOPS: Gen/CdsLoopR.lean is cut from the `for` statements of `_risky_pv01_numba`,
`_prot_leg_pv_numba`, `_build_curve`, `f` and the CDS glue methods on every run; the hand model's loops ARE those loops — range, indices,
initial state, step, tail, whole function — plus time-grid / index-range / telescoping / monotone-accumulator invariants on the generated steps).
Model: FinVerif/Model/C09.lean + C09Boot.lean (+C09F Float glue), run as `c09driver` against `_risky_pv01_numba` /
`_prot_leg_pv_numba` called directly with arrays (ops RPV, PROT), against the CDS object's methods for every premium-leg
convention (op VAL; the accrued fraction is the contract's own day-count fraction computed by the harness) and against the
real `_build_curve` with the solver call intercepted (op BOOT).  Direct oracles on full CDS / CDSCurve."""
import json
import math
import os
import sys
import warnings

sys.path.insert(0, os.path.dirname(os.path.dirname(os.path.abspath(__file__))))
import common as C  # noqa: E402
import exedriver    # noqa: E402
from props import c09_rebuild as R  # noqa: E402
from props import c09_fast as FA  # noqa: E402
from floatcmp import f2b, b2f, close  # noqa: E402

PROPS = ['FinVerif.Props.C09', 'FinVerif.Props.C09b', 'FinVerif.Props.C09c', 'FinVerif.Props.C09d', 'FinVerif.Props.C09e',
         'FinVerif.Props.C09f', 'FinVerif.Props.C09g', 'FinVerif.Props.C09h', 'FinVerif.Props.C09i', 'FinVerif.Props.C09j']
GEN = ['CdsLoopR']      # tools/py2lean/registry/cdsloops.py: loop headers / indices / init / bodies / tails + CDS glue, cut from the source every run
DRIVERS = ['FinVerif.Driver.C09']
MEASURE = bool(os.environ.get('C09_MEASURE'))
# witnesses of findings of the main component (C09/rolled-last-coupon-reads-beyond-own-knot, C09/inverted-quotes-negative-forward-hazard)
CORPUS_MAIN = [
    {'value_dt': [20, 12, 2030], 'tenors': ['6M', '1Y', '2Y', '3Y', '5Y'],
     'spreads': [0.2908190548729381, 0.39260572407846644, 0.4943923932839947, 0.5, 0.5], 'recovery': 0.0, 'flat_rate': 0.05},
    {'value_dt': [9, 8, 2016], 'tenors': ['1Y', '3Y', '5Y', '7Y', '10Y'],
     'spreads': [0.3432974964181068, 0.3295655965613825, 0.3158336967046583, 0.302101796847934, 0.2883698969912097], 'recovery': 0.6, 'flat_rate': 0.08},
]
RULE = ('seeded CDS curves: valuation dates on and +-1..3 days around the 20 Mar/Jun/Sep/Dec rolls and random dates, tenor '
        'sets from 6M..10Y, spread term structures flat / steep / mildly inverted from 1bp to 5000bp, recoveries 0..0.9, '
        'flat discount rates -1%..8%; for each curve every input CDS is repriced and a second CDS with a different coupon, '
        'notional and direction is valued; both kernels are called directly with the arrays and compared with the Lean '
        'model. Re-use: the same CDS objects are used on two valuation dates / with two curves (bootstrap and mark-to-market) '
        'and every observable is compared, exactly, with freshly constructed identical contracts. Conventions: curves of 1-4 '
        'quotes and a trade whose premium-leg day count is drawn from every DayCountTypes member a CDS accepts (all but '
        'ACT_ACT_ICMA), frequency from every FrequencyTypes member with a period, all 15 calendars, all 5 business-day rules, '
        'both date-generation rules, long/short, step-in on or 1..45 days after the valuation date, IMM and off-cycle '
        'maturities (incl. single-coupon contracts); each curve is bootstrapped with the solver call intercepted. Curve-free '
        'valuation: value_fast_approx on contracts of every convention, flat rates -0.5%..8%, flat spreads 1bp..5000bp, curve and '
        'contract recoveries equal or different, both directions; survival_prob on lists/arrays of times for the three supported '
        'interpolation methods. Non-trivial '
        '= curve with >= 2 instruments; cases are distinct draws of one PRNG stream per component.')


def arr(a):
    return f'{len(a)} ' + ' '.join(f2b(float(x)) for x in a)


def run(ctx):
    drivers_ok = C.lean_stage(ctx, GEN, PROPS, DRIVERS, extra_files=['FinVerif/Lemmas/C09Loop.lean'])
    C.import_financepy()
    import numpy as np
    from financepy.utils.date import Date
    from financepy.utils.day_count import DayCount
    from financepy.utils.global_vars import g_days_in_year
    from financepy.market.curves.discount_curve_flat import DiscountCurveFlat
    from financepy.products.credit.cds import CDS, _risky_pv01_numba, _prot_leg_pv_numba
    from financepy.products.credit.cds_curve import CDSCurve

    quick = ctx.quick()
    rng = ctx.rng('main')
    worst = {}

    def see(k, v):
        if v == v:
            worst[k] = max(worst.get(k, 0.0), float(v))

    _DRIVER_OK['ok'] = bool(drivers_ok)
    rebuild_cases, rebuild_proc = R.rebuild_start(ctx, quick)      # the fresh subprocess runs while the other components do
    def curve_oracles(cs, vd, tenors, spreads, cdss, curve, libor, rec, rate):
        """survival shape and repricing of one bootstrapped curve (main component and its corpus)"""
        vals = np.array(curve._values, float)
        # ---- survival curve: starts at 1, non-increasing, in (0,1]
        q0 = float(curve.survival_prob(vd))
        if q0 != 1.0:
            ctx.violation('survival probability at the valuation date is not 1', dict(cs, q0=q0), clause='starts-at-one')
        grid = [vd.add_days(int(k)) for k in np.linspace(0, 365 * 12, 60)]
        qs = [float(curve.survival_prob(d)) for d in grid]
        inc = max(qs[i + 1] - qs[i] for i in range(len(qs) - 1))
        see('survival.increase', max(inc, 0.0))
        if inc > 1e-12 or min(qs) <= 0.0 or max(qs) > 1.0 + 1e-12 or any(v != v for v in qs):
            fnd, extra = ('C09/nonpositive-rates-wrong-root', {}) if rate <= 0.0 else (None, {})
            if fnd is None and q0 == 1.0 and min(qs) > 0.0 and max(qs) <= 1.0 and not any(v != v for v in qs):
                fnd, extra = _inverted_finding(vd, lambda: [CDS(vd, t, s) for t, s in zip(tenors, spreads)], libor, rec, rate, vals, see)
            ctx.violation('survival curve is not non-increasing within (0,1]',
                          dict(cs, knots=vals.tolist(), max_increase=inc, min=min(qs), max=max(qs), **extra),
                          finding=fnd, clause='survival-monotone')
        # ---- every input CDS is repriced: par spread = quote, clean PV = 0
        for k, (cds, s) in enumerate(zip(cdss, spreads)):
            ps = float(cds.par_spread(vd, curve, rec))
            v = cds.value(vd, curve, rec)
            see('reprice.rel', abs(ps - s) / s)
            see('reprice.cleanpv/notional', abs(float(v['clean_pv'])) / cds.notional)
            if not (abs(ps - s) <= 2e-4 * s + 1e-7):   # secant tol 1e-7 on the knot; measured worst 1.3e-4 relative (R = 0.9)
                fnd = ('C09/nonpositive-rates-wrong-root' if rate <= 0.0 else
                       'C09/low-spread-solver-tolerance' if (s < 1e-3 and abs(ps - s) < 2e-5) else None)
                extra = {}
                if fnd is None and k < len(cdss) - 1 and cds.payment_dts[-1] > cds.maturity_dt and abs(ps - s) <= 1e-3 * s:
                    # C09/rolled-last-coupon-reads-beyond-own-knot: the quote IS repriced (same tolerance) by the curve truncated after
                    # its own pillar; its last coupon is paid after its maturity knot; later pillars moved it
                    try:
                        head = [CDS(vd, t, x) for t, x in zip(tenors[:k + 1], spreads[:k + 1])]
                        pt = float(head[k].par_spread(vd, CDSCurve(vd, head, libor, rec), rec))
                    except Exception:  # noqa: BLE001
                        pt = float('nan')
                    extra = {'last_payment': str(cds.payment_dts[-1]), 'par_spread_on_curve_truncated_after_own_pillar': pt}
                    if abs(pt - s) <= 2e-4 * s + 1e-7:
                        fnd = FINDING_ROLLED
                ctx.violation('bootstrapped curve does not return the input spread as par spread',
                              dict(cs, maturity=str(cds.maturity_dt), quote=s, par_spread=ps, **extra), finding=fnd, clause='reprices')

    # ---- corpus: witnesses of past findings of this component, run first on every run
    for w in CORPUS_MAIN:
        vd = Date(*w['value_dt'])
        libor = DiscountCurveFlat(vd, w['flat_rate'])
        cdss = [CDS(vd, t, s) for t, s in zip(w['tenors'], w['spreads'])]
        try:
            corpus_curve = CDSCurve(vd, cdss, libor, w['recovery'])
        except Exception as e:  # noqa: BLE001 — both corpus curves build on the unchanged tree; a raise is a concrete failing input
            ctx.violation('corpus curve (built by the unchanged code) can no longer be bootstrapped',
                          dict(w, corpus=True, error=f'{type(e).__name__}: {e}'), clause='corpus-bootstrap-completes')
            continue
        curve_oracles(dict(w, corpus=True), vd, w['tenors'], w['spreads'], cdss, corpus_curve, libor,
                      w['recovery'], w['flat_rate'])
    ctx.count('corpus_main', len(CORPUS_MAIN), len(CORPUS_MAIN), sample=CORPUS_MAIN[0])

    ops, impl, cases = [], [], []
    n_curves = 220 if quick else 3000
    built = failed = 0
    tenor_sets = [['1Y', '3Y', '5Y', '7Y', '10Y'], ['6M', '1Y', '2Y', '3Y', '5Y'], ['5Y'], ['1Y', '5Y'], ['3Y', '5Y', '10Y'],
                  ['1Y', '2Y', '3Y', '4Y', '5Y', '7Y', '10Y']]
    for it in range(n_curves):
        y = rng.randint(2005, 2035)
        if it % 3:
            m = rng.choice([3, 6, 9, 12])
            vd = Date(20, m, y).add_days(rng.choice([-3, -2, -1, 0, 0, 1, 2, 3]))
        else:
            vd = Date(rng.randint(1, 28), rng.randint(1, 12), y)
        tenors = rng.choice(tenor_sets)
        rec = rng.choice([0.0, 0.2, 0.4, 0.4, 0.6, 0.9])
        rate = rng.choice([0.0, 0.01, 0.03, 0.05, 0.08, -0.01])
        base = 10 ** rng.uniform(-4, math.log10(0.5))
        shape = rng.choice(['flat', 'flat', 'steep', 'inverted'])
        if shape == 'flat':
            spreads = [base] * len(tenors)
        elif shape == 'steep':
            spreads = [min(0.5, base * (1 + 0.35 * k)) for k in range(len(tenors))]
        else:
            spreads = [base * (1 - 0.04 * k) for k in range(len(tenors))]
        libor = DiscountCurveFlat(vd, rate)
        cs = {'value_dt': [vd.d, vd.m, vd.y], 'tenors': tenors, 'spreads': spreads, 'recovery': rec, 'flat_rate': rate}
        try:
            cdss = [CDS(vd, t, s) for t, s in zip(tenors, spreads)]
            curve = CDSCurve(vd, cdss, libor, rec)
        except Exception as e:  # noqa: BLE001
            failed += 1
            ctx.violation(f'CDSCurve bootstrap raised {type(e).__name__}: {e}', cs,
                          finding='C09/bootstrap-raises-at-distressed-spreads' if (isinstance(e, ZeroDivisionError) and max(spreads) / (1 - rec) > 0.15) else None,
                          clause='bootstrap-completes')
            continue
        built += 1
        times, vals = np.array(curve._times, float), np.array(curve._values, float)
        curve_oracles(cs, vd, tenors, spreads, cdss, curve, libor, rec, rate)
        # ---- value identities on a second contract
        mat = vd.add_tenor(rng.choice(['1Y', '2Y', '4Y', '5Y', '9Y']))
        if rng.random() < 0.5:
            mat = mat.next_cds_date()
        cpn = rng.choice([0.01, 0.05, 10 ** rng.uniform(-4, -0.3)])
        nl = rng.choice([1.0, 1e6, 10 ** rng.uniform(0, 8)])
        lg = CDS(vd, mat, cpn, nl, True)
        sh = CDS(vd, mat, cpn, nl, False)
        vl, vs = lg.value(vd, curve, rec), sh.value(vd, curve, rec)
        rp = lg.risky_pv01(vd, curve)
        prot = float(lg.prot_leg_pv(vd, curve, rec))
        c2 = dict(cs, maturity=[mat.d, mat.m, mat.y], coupon=cpn, notional=nl)
        sc = abs(prot) + abs(cpn * nl * rp['dirty_rpv01']) + 1e-300
        for key, r in (('dirty_pv', rp['dirty_rpv01']), ('clean_pv', rp['clean_rpv01'])):
            want = prot - cpn * nl * float(r)
            if not (abs(float(vl[key]) - want) <= 1e-12 * sc):
                ctx.violation(f'{key} is not protection leg minus coupon x risky annuity', dict(c2, value=float(vl[key]), expected=want),
                              clause='value-decomposition')
            if not (abs(float(vl[key]) + float(vs[key])) <= 1e-12 * sc):
                ctx.violation(f'long protection {key} is not minus short protection', dict(c2, long=float(vl[key]), short=float(vs[key])),
                              clause='long-short')
        for who, cdsx, vx in (('long', lg, vl), ('short', sh, vs)):
            d = float(vx['dirty_pv']) - float(vx['clean_pv'])
            acc = float(cdsx.accrued_interest())
            see('dirty-clean-accrued', abs(d - acc) / sc)
            if not (abs(d - acc) <= 1e-10 * sc):
                ctx.violation('dirty PV minus clean PV is not the accrued coupon', dict(c2, side=who, dirty_minus_clean=d, accrued=acc),
                              clause='dirty-clean-accrued')
        k = rng.choice([2.0, 0.5, 7.0])
        v2 = CDS(vd, mat, cpn, nl * k, True).value(vd, curve, rec)
        if not (abs(float(v2['clean_pv']) - k * float(vl['clean_pv'])) <= 1e-11 * sc * k):
            ctx.violation('value is not linear in notional', dict(c2, factor=k), clause='linear-notional')
        ca, cb = cpn * 0.5, cpn * 2.0
        va = float(CDS(vd, mat, ca, nl, True).value(vd, curve, rec)['clean_pv'])
        vb = float(CDS(vd, mat, cb, nl, True).value(vd, curve, rec)['clean_pv'])
        lam = (cb - cpn) / (cb - ca)
        if not (abs(float(vl['clean_pv']) - (lam * va + (1 - lam) * vb)) <= 1e-10 * sc):
            ctx.violation('value is not affine in the coupon', dict(c2, coupons=[ca, cpn, cb]), clause='linear-coupon')
        psd = float(lg.par_spread(vd, curve, rec))
        vz = float(CDS(vd, mat, psd, nl, True).value(vd, curve, rec)['clean_pv'])
        see('par-zero/notional', abs(vz) / nl)
        if not (abs(vz) <= 1e-10 * (abs(prot) + 1e-300)):
            ctx.violation('clean PV at the par spread is not zero', dict(c2, par_spread=psd, clean_pv=vz), clause='par-spread')
        # ---- flat hazard closed forms (flat quotes, flat rates): protection leg integral and par spread ~ h(1-R)
        if shape == 'flat' and len(tenors) >= 1:
            T = float(times[-1])
            h = -math.log(float(vals[-1])) / T
            cdl = cdss[-1]
            teff = (cdl.step_in_dt - vd) / g_days_in_year
            tm = (cdl.maturity_dt - vd) / g_days_in_year
            a = h + rate
            ref = (1 - rec) * (h / a * (math.exp(-a * teff) - math.exp(-a * tm)) if abs(a) > 1e-12 else h * (tm - teff))
            got = float(cdl.prot_leg_pv(vd, curve, rec)) / cdl.notional
            hz = [-math.log(float(vals[i + 1] / vals[i])) / float(times[i + 1] - times[i]) for i in range(len(vals) - 1)]
            flat = max(hz) - min(hz) <= 1e-3 * h
            if flat:
                see('flat.prot.rel', abs(got - ref) / ref)
                if not (abs(got - ref) <= 2e-3 * ref):
                    ctx.violation('protection leg differs from the flat-hazard closed form (1-R) h/(h+r) (e^{-(h+r)t0}-e^{-(h+r)T})',
                                  dict(cs, hazard=h, closed_form=ref, prot_leg=got), clause='flat-hazard-protection')
                ratio = spreads[-1] * (365.0 / 360.0) / (h * (1 - rec))
                see('flat.parspread-ratio-1', abs(ratio - 1))
                if not (abs(ratio - 1) <= 0.03 + 0.2 * h):
                    ctx.violation('par spread is not approximately hazard x (1 - recovery)', dict(cs, hazard=h, ratio=ratio),
                                  clause='flat-hazard-par-spread')
        # ---- kernels called directly with arrays (as CDS.risky_pv01 / prot_leg_pv do) vs the Lean model
        if it < (150 if quick else 1500):
            pt = np.array([(d - vd) / g_days_in_year for d in lg.payment_dts if (d - vd) / g_days_in_year > 0.0])
            yf = np.array(lg.accrual_factors, float)
            if len(pt) >= 2 and len(yf) >= 2:
                accf = DayCount(lg.dc_type).year_frac(lg.accrual_start_dts[0], lg.step_in_dt)[0]
                teff = (lg.step_in_dt - vd) / g_days_in_year
                lt, ld = np.array(libor._times, float), np.array(libor._dfs, float)
                r = _risky_pv01_numba(teff, accf, pt, yf, lt, ld, times, vals, 0)
                ops.append(f'RPV {f2b(teff)} {f2b(accf)} {arr(pt)} {arr(yf)} {arr(lt)} {arr(ld)} {arr(times)} {arr(vals)}')
                impl.append([float(r[0]), float(r[1])])
                cases.append(('_risky_pv01_numba', c2))
                tm = (lg.maturity_dt - vd) / g_days_in_year
                pv = _prot_leg_pv_numba(teff, tm, lt, ld, times, vals, rec, 25, 0)
                ops.append(f'PROT {f2b(teff)} {f2b(tm)} {f2b(rec)} 25 {arr(lt)} {arr(ld)} {arr(times)} {arr(vals)}')
                impl.append([float(pv)])
                cases.append(('_prot_leg_pv_numba', c2))
    ctx.count('CDSCurve_bootstrap_and_identities', n_curves, built,
              sample={'value_dt': [20, 3, 2024], 'tenors': ['1Y', '3Y', '5Y'], 'spreads': [0.01, 0.012, 0.015], 'recovery': 0.4})
    ctx.cov['components']['CDSCurve_bootstrap_and_identities']['bootstrap_failed'] = failed

    reuse_oracle(ctx, see, quick)
    conv_ops, conv_checks = conventions_oracle(ctx, see, quick)
    fa_ops, fa_checks = FA.run_component(ctx, see, quick, _mk_cds, _conv_enums)     # own stream `fast`; ops FAST / SURV
    conv_ops, conv_checks = conv_ops + fa_ops, conv_checks + fa_checks
    R.rebuild_finish(ctx, see, rebuild_cases, rebuild_proc)

    if drivers_ok and conv_ops:
        try:
            outs = exedriver.run('c09driver', 'C09', conv_ops)
        except C.DriverError as e:
            outs = None
            ctx.broke(f'model driver failed on VAL/BOOT ops: {str(e)[:300]}')
        if outs is not None:
            nbad = {}
            for o, (comp, chk) in zip(outs, conv_checks):
                got = [b2f(x) for x in o.split()] if not o.startswith('bad') else None
                msg = chk(got, see)
                if msg:
                    nbad[comp] = nbad.get(comp, 0) + 1
                    if nbad[comp] <= 2:
                        ctx.broke(f'correspondence {comp}: {msg}'[:900])
            ctx.count('objects_and_bootstrap_vs_model', len(conv_ops), len(conv_ops))
            ctx.cov['components']['objects_and_bootstrap_vs_model']['disagree_model'] = sum(nbad.values())

    if drivers_ok and ops:
        try:
            outs = exedriver.run('c09driver', 'C09', ops)
        except C.DriverError as e:
            outs = None
            ctx.broke(f'model driver failed: {str(e)[:300]}')
        if outs is not None:
            nbad = {}
            for o, want, (comp, cs) in zip(outs, impl, cases):
                got = [b2f(x) for x in o.split()] if not o.startswith('bad') else []
                ok = len(got) == len(want) and all(close(a, b, 1e-9, 1e-12) for a, b in zip(got, want))
                if len(got) == len(want):
                    see('model.' + comp, max(abs(a - b) for a, b in zip(got, want)))
                if not ok:
                    nbad[comp] = nbad.get(comp, 0) + 1
                    if nbad[comp] <= 2:
                        ctx.broke(f'correspondence {comp}: model {got} != implementation {want} on ' + json.dumps(cs, default=str)[:500])
            ctx.count('kernels_vs_model', len(ops), len(ops))
            ctx.cov['components']['kernels_vs_model']['disagree_model'] = sum(nbad.values())

    if MEASURE:
        with open(os.path.join(C.CACHE, 'c09_violations.json'), 'w') as fh:
            json.dump(ctx.violations, fh, default=str)
        for k in sorted(worst):
            print(f'MEASURE {k:40s} {worst[k]:.3e}')
    ctx.cov['measured_worst'] = {k: float(f'{v:.3e}') for k, v in sorted(worst.items())}
    ctx.assumptions += [
        'theorems are over the reals for arbitrary survival/discount functions; Newton convergence of the bootstrap is '
        'validated (par spread returns the quote to 2e-6 relative), not proved',
        'the flat-hazard comparison is approximate by nature: protection leg 2e-3 relative (daily vs continuous grid, 1e-8 '
        'regulariser), par spread within 3% + 0.2h of h(1-R) x 360/365 (accrual-on-default and day-count effects)',
        'locality theorems take "curves agree up to the maturity" as hypothesis (interp_local); that the flat-forward '
        'interpolator is local is C02',
        'history independence of CDS objects (no state carried between valuations) is checked by the re-use oracle on sampled '
        'date pairs only; the general discipline is C18',
        'bootstrap theorems (C09b) take the solver as a parameter: SolverOK = the post-condition |f(x)| <= eps held at every '
        'solver call of the run, x = the value left in the knot; and WF = every time at which a quoted contract reads the '
        'survival curve lies in [0, its own maturity knot] (false when the maturity date is rolled forward: known finding '
        'C09/rolled-last-coupon-reads-beyond-own-knot)',
        'C09g (root uniqueness / existence / knots non-increasing) ASSUMES that the solver objective is strictly decreasing in the '
        'knot (strictly increasing in the forward hazard) and, for existence, continuous; that is PROVED for the first pillar '
        '(C09i, from C09h: flat Ibor knots, spot-starting quote, h x period + discounting from the first coupon date <= 1 in every '
        'period) and assumed for later pillars',
        'C09c/C09d read log/exp/abs as the real functions (opsR); sign/bound theorems assume positive, non-increasing '
        'survival (and, for upper bounds, discount) curves from the step-in time on',
    ]
    return C.finish(ctx, 'proof', 'lake build FinVerif.Props.C09 && lake env lean .cache/audit/Audit_C09.lean',
                    C.TRUSTED_BASE_COMMON + ['hand-written model FinVerif/Model/C09.lean + C09F.lean tied to the Numba kernels by this run'],
                    RULE)


def reuse_oracle(ctx, see, quick):
    """A CDS valuation depends only on (contract terms, valuation date, curve), not on what the contract OBJECT was used
    for before: the same objects used for two valuation dates / two curves must give exactly what freshly built,
    identical contracts give.  Exact comparison: both sides run the same arithmetic on the same inputs."""
    from financepy.utils.date import Date
    from financepy.market.curves.discount_curve_flat import DiscountCurveFlat
    from financepy.products.credit.cds import CDS
    from financepy.products.credit.cds_curve import CDSCurve
    rng = ctx.rng('reuse')
    n_cases = 40 if quick else 500

    def observe(cds, vd, curve, rec):
        """every observable of the property's observe_at list for one contract"""
        v = cds.value(vd, curve, rec)
        r = cds.risky_pv01(vd, curve)
        return {'clean_pv': float(v['clean_pv']), 'dirty_pv': float(v['dirty_pv']),
                'dirty_rpv01': float(r['dirty_rpv01']), 'clean_rpv01': float(r['clean_rpv01']),
                'prot_leg_pv': float(cds.prot_leg_pv(vd, curve, rec)),
                'premium_leg_pv': float(cds.premium_leg_pv(vd, curve)),
                'par_spread': float(cds.par_spread(vd, curve, rec)),
                'accrued_interest': float(cds.accrued_interest()), 'accrued_days': float(cds.accrued_days())}

    def same(a, b):
        return a == b or (a != a and b != b)

    done = skipped = 0
    for it in range(n_cases):
        y = rng.randint(2008, 2032)
        if it % 2:
            day1 = Date(20, rng.choice([3, 6, 9, 12]), y).add_days(rng.choice([-30, -3, -1, 0, 1, 3, 20]))
        else:
            day1 = Date(rng.randint(1, 28), rng.randint(1, 12), y)
        gap = rng.choice([1, 2, 7, 30, 65, 91, 120, rng.randint(1, 200)])
        day2 = day1.add_days(gap)
        order = rng.choice(['forward', 'forward', 'backward'])        # which date the objects see first
        first, second = (day1, day2) if order == 'forward' else (day2, day1)
        step_in = rng.choice([day2, day2, day2.add_days(1)])          # spot on the later date, forward starting on the earlier
        rec = rng.choice([0.2, 0.4, 0.4, 0.6])
        rate = rng.choice([0.01, 0.03, 0.05])                         # positive rates, 20bp..800bp: outside the known findings
        base = 10 ** rng.uniform(math.log10(0.002), math.log10(0.08))
        tenors = rng.choice([['1Y', '3Y', '5Y', '10Y'], ['6M', '2Y', '5Y'], ['5Y'], ['1Y', '2Y', '3Y', '5Y', '7Y']])
        mats = [step_in.add_tenor(t).next_cds_date() for t in tenors]
        shape = rng.choice([0.0, 0.1, -0.03])
        quotes = [base * (1 + shape * k) for k in range(len(mats))]
        tmat = rng.choice(mats).add_months(rng.choice([0, 0, 3, -3]))
        if tmat <= step_in:
            tmat = mats[-1]
        cpn = rng.choice([0.01, 0.05, base * 2.5])
        nl = rng.choice([1e6, 5e6, 1.0])
        lp = rng.random() < 0.7

        def mk_contracts():
            return [CDS(step_in, m, q) for m, q in zip(mats, quotes)]

        def mk_trade():
            return CDS(step_in, tmat, cpn, nl, lp)

        cs = {'first_valuation_dt': [first.d, first.m, first.y], 'second_valuation_dt': [second.d, second.m, second.y],
              'step_in_dt': [step_in.d, step_in.m, step_in.y], 'maturities': [[m.d, m.m, m.y] for m in mats], 'quotes': quotes,
              'recovery': rec, 'flat_rate': rate,
              'trade': {'maturity': [tmat.d, tmat.m, tmat.y], 'coupon': cpn, 'notional': nl, 'long_protect': lp}}
        lib1, lib2 = DiscountCurveFlat(first, rate), DiscountCurveFlat(second, rate)
        # ---- reference: everything built fresh for the second date only
        try:
            fresh_contracts = mk_contracts()
            curve_fresh = CDSCurve(second, fresh_contracts, lib2, rec)
            want_trade = observe(mk_trade(), second, curve_fresh, rec)
            want_quotes = [observe(c, second, curve_fresh, rec) for c in mk_contracts()]
            used_contracts = mk_contracts()
            used_trade = mk_trade()
            curve_first = CDSCurve(first, used_contracts, lib1, rec)     # first use of the objects
            observe(used_trade, first, curve_first, rec)
        except Exception:  # noqa: BLE001  (bootstrap failures are the main component's subject)
            skipped += 1
            continue
        done += 1
        # ---- risk calls on the curve: the bump-and-rebuild inside credit_dv01 must work on its own copy. Afterwards the
        # curve's own quote contracts still carry their quotes and are still worth zero on it, and asking again gives the
        # same number (seed C09-10: a shallow copy left +1bp per call on the caller's contracts)
        try:
            dv_a = float(used_trade.credit_dv01(second, curve_fresh, rec))
            dv_b = float(used_trade.credit_dv01(second, curve_fresh, rec))
            dv_f = float(mk_trade().credit_dv01(second, CDSCurve(second, mk_contracts(), lib2, rec), rec))
        except Exception:  # noqa: BLE001  (bumped rebuild may fail where the base build is marginal: main component's subject)
            dv_a = dv_b = dv_f = None
        if dv_a is not None:
            cp = [float(c.running_cpn) for c in curve_fresh.cds_contracts]
            kn = [float(x) for x in curve_fresh._values]
            kw = [float(x) for x in CDSCurve(second, mk_contracts(), lib2, rec)._values]
            see('risk.credit_dv01-repeat', abs(dv_a - dv_b))
            if cp != [float(q) for q in quotes] or not all(same(a, b) for a, b in zip(kn, kw)):
                ps = [float(c.par_spread(second, curve_fresh, rec)) for c in curve_fresh.cds_contracts]
                ctx.violation('CDS.credit_dv01 changed the issuer curve it was given: after the call the curve\'s own quote contracts '
                              'no longer carry their quotes / the knots moved, so the curve no longer values its inputs at zero',
                              dict(cs, coupons_of_curve_contracts_after=cp, par_spreads_on_curve=ps, knots_after=kn, knots_fresh=kw,
                                   credit_dv01=[dv_a, dv_b]), clause='risk-call-leaves-curve')
            elif not (same(dv_a, dv_b) and same(dv_a, dv_f)):
                ctx.violation('CDS.credit_dv01 is not repeatable: two calls with the same arguments, or the same call on fresh '
                              'identical objects, give different numbers',
                              dict(cs, credit_dv01_first=dv_a, credit_dv01_second=dv_b, credit_dv01_fresh_objects=dv_f),
                              clause='risk-call-leaves-curve')
        # ---- the same contract objects bootstrapped again on the second date
        try:
            curve_used = CDSCurve(second, used_contracts, lib2, rec)
        except Exception as e:  # noqa: BLE001
            ctx.violation(f'CDSCurve built from contract objects already used on another date raised {type(e).__name__}: {e} '
                          '(fresh identical contracts bootstrap fine)', cs, clause='reuse-bootstrap')
            continue
        kf = [float(x) for x in curve_fresh._values]
        ku = [float(x) for x in curve_used._values]
        dev = max(abs(a - b) for a, b in zip(kf, ku)) if len(kf) == len(ku) else float('inf')
        see('reuse.curve-knots', dev)
        if not (len(kf) == len(ku) and all(same(a, b) for a, b in zip(kf, ku))):
            ps = [float(c.par_spread(second, curve_used, rec)) for c in mk_contracts()]
            ctx.violation('a CDSCurve bootstrapped from contract objects that were already used for another valuation date differs '
                          'from the curve bootstrapped from fresh identical contracts, and does not reprice its quotes',
                          dict(cs, knots_fresh=kf, knots_reused_objects=ku, par_spreads_of_fresh_contracts_on_reused_curve=ps),
                          clause='reuse-bootstrap')
        else:
            for c, q in zip(mk_contracts(), quotes):
                ps = float(c.par_spread(second, curve_used, rec))
                if not (abs(ps - q) <= 2e-4 * q + 1e-7):
                    ctx.violation('curve rebuilt from re-used contract objects does not reprice its quotes',
                                  dict(cs, quote=q, par_spread=ps), clause='reuse-bootstrap')
        # ---- the trade object marked on the first date, then on the second, against a fresh twin (same curve object)
        try:
            got_trade = observe(used_trade, second, curve_fresh, rec)
            got_quotes = [observe(c, second, curve_fresh, rec) for c in used_contracts]
        except Exception as e:  # noqa: BLE001
            ctx.violation(f're-used CDS object raised {type(e).__name__}: {e} where a fresh identical contract does not', cs,
                          clause='reuse-valuation')
            continue
        for who, want, got in [('trade', want_trade, got_trade)] + [(f'quote[{i}]', w, g) for i, (w, g) in
                                                                   enumerate(zip(want_quotes, got_quotes))]:
            diff = {k: {'fresh': want[k], 'reused_object': got[k]} for k in want if not same(want[k], got[k])}
            for k in want:
                if want[k] == want[k] and got[k] == got[k]:
                    see('reuse.' + k, abs(want[k] - got[k]) / (abs(want[k]) + 1e-300))
            if diff:
                ctx.violation(f'{who}: a CDS object already valued on another date gives different results from a freshly '
                              'constructed identical contract (valuation depends on the object\'s history): '
                              + ', '.join(sorted(diff)), dict(cs, contract=who, differences=diff), clause='reuse-valuation')
                break
        # ---- two different curves on the same date through the same object
        try:
            bumped = CDSCurve(second, [CDS(step_in, m, q * 1.5) for m, q in zip(mats, quotes)], lib2, rec)
            a1 = observe(used_trade, second, bumped, rec)
            a2 = observe(used_trade, second, curve_fresh, rec)
            b1 = observe(mk_trade(), second, bumped, rec)
        except Exception:  # noqa: BLE001
            continue
        if any(not same(a1[k], b1[k]) for k in a1) or any(not same(a2[k], want_trade[k]) for k in a2):
            ctx.violation('a CDS object valued against two curves on the same date differs from fresh identical contracts',
                          dict(cs, bumped_curve={'reused': a1, 'fresh': b1}, base_curve={'reused': a2, 'fresh': want_trade}),
                          clause='reuse-valuation')
    ctx.count('reuse_of_contract_objects', n_cases, done,
              sample={'first_valuation_dt': [4, 1, 2022], 'second_valuation_dt': [10, 3, 2022], 'step_in_dt': [10, 3, 2022],
                      'quotes': [0.01, 0.01, 0.01, 0.01]})
    ctx.cov['components']['reuse_of_contract_objects']['skipped_bootstrap_failed'] = skipped


# ----------------------------------------------------------------------------------------------------------------------
# conventions: every premium-leg convention a CDS accepts, non-standard step-in dates, off-cycle maturities; the bootstrap
# with the solver call intercepted
FINDING_SINGLE = 'C09/single-coupon-year-fracs-out-of-bounds'
FINDING_ROLLED = 'C09/rolled-last-coupon-reads-beyond-own-knot'
FINDING_MISINDEX = 'C09/annuity-accrual-factor-misindexed'
FINDING_ZEROACC = 'C09/zero-accrual-period-divides-by-zero'


def _conv_enums():
    from financepy.utils.day_count import DayCountTypes
    from financepy.utils.frequency import FrequencyTypes
    from financepy.utils.calendar import CalendarTypes, BusDayAdjustTypes, DateGenRuleTypes
    dcs = [d for d in DayCountTypes if d != DayCountTypes.ACT_ACT_ICMA]     # CDS() raises FinError for ACT_ACT_ICMA
    freqs = [f for f in FrequencyTypes if f not in (FrequencyTypes.CONTINUOUS, FrequencyTypes.SIMPLE)]  # no period
    return dcs, freqs, list(CalendarTypes), list(BusDayAdjustTypes), list(DateGenRuleTypes)


def _mk_cds(step_in, spec):
    """spec = {'maturity': [d,m,y], 'coupon', 'notional', 'long', 'freq', 'dc', 'cal', 'bd', 'dg'} (enum values)"""
    from financepy.utils.date import Date
    from financepy.utils.day_count import DayCountTypes
    from financepy.utils.frequency import FrequencyTypes
    from financepy.utils.calendar import CalendarTypes, BusDayAdjustTypes, DateGenRuleTypes
    from financepy.products.credit.cds import CDS
    return CDS(step_in, Date(*spec['maturity']), spec['coupon'], spec['notional'], spec['long'], FrequencyTypes(spec['freq']),
               DayCountTypes(spec['dc']), CalendarTypes(spec['cal']), BusDayAdjustTypes(spec['bd']), DateGenRuleTypes(spec['dg']))


def _record_build(vd, contracts, libor, rec, use_cache=False, interp=1):
    """CDSCurve(vd, contracts, libor, rec) with `scipy.optimize.newton` as seen by cds_curve.py intercepted: per solver
    call the start value, the objective at two probe points, the value left in the knot, the objective there, and the
    returned root."""
    import types
    import financepy.products.credit.cds_curve as cc
    calls = []
    real = cc.optimize

    def newton(f, x0=None, fprime=None, args=(), tol=1.48e-8, maxiter=50, fprime2=None, **kw):
        curve = args[0]
        probes = [float(x0) * 0.97, float(x0) * 0.999]
        fp = [float(f(q, *args)) for q in probes]
        root = real.newton(f, x0=x0, fprime=fprime, args=args, tol=tol, maxiter=maxiter, fprime2=fprime2, **kw)
        left = float(curve._values[-1])
        calls.append({'x0': float(x0), 'probes': probes, 'f_probes': fp, 'left': left, 'f_left': float(f(left, *args)),
                      'root': float(root), 'tol': tol, 'n_knots': len(curve._times)})
        return root
    cc.optimize = types.SimpleNamespace(newton=newton)
    try:
        from financepy.market.curves.interpolator import InterpTypes
        curve = cc.CDSCurve(vd, contracts, libor, rec, use_cache, InterpTypes(interp))
    finally:
        cc.optimize = real
    return curve, calls


def _contract_arrays(c, vd):
    """what CDS.risky_pv01 / prot_leg_pv hand to the kernels, with the accrual fractions recomputed by the harness from
    the contract's own day count"""
    from financepy.utils.day_count import DayCount
    from financepy.utils.global_vars import g_days_in_year
    dc = DayCount(c.dc_type)
    pt = [(d - vd) / g_days_in_year for d in c.payment_dts if (d - vd) / g_days_in_year > 0.0]
    yf = [dc.year_frac(a, b.add_days(1))[0] for a, b in zip(c.accrual_start_dts, c.accrual_end_dts)]
    acc = dc.year_frac(c.accrual_start_dts[0], c.step_in_dt)[0]
    teff = (c.step_in_dt - vd) / g_days_in_year
    tmat = (c.maturity_dt - vd) / g_days_in_year
    return pt, yf, acc, teff, tmat


def _boot_op(vd, quotes, calls, curve, libor, rec, case):
    """the BOOT op for a recorded build and the check of the driver's answer against the recording"""
    import numpy as np
    lt, ld = np.array(libor._times, float), np.array(libor._dfs, float)
    vals = np.array(curve._values, float)
    parts, scales = [], []
    for c in quotes:
        pt, yf, acc, teff, tmat = _contract_arrays(c, vd)
        parts.append(f'{arr([teff, acc, tmat, c.running_cpn, c.notional, 1.0 if c.long_protect else 0.0])} {arr(pt)} {arr(yf)}')
        scales.append(abs(float(c.prot_leg_pv(vd, curve, rec))) + abs(c.running_cpn * c.notional * float(c.risky_pv01(vd, curve)['dirty_rpv01'])) + 1e-300)
    knots = [cl['left'] for cl in calls]
    probes = [p for cl in calls for p in cl['probes']]
    op = f'BOOT {f2b(rec)} 25 {arr(lt)} {arr(ld)} {arr(knots)} {arr(probes)} ' + ' '.join(parts)
    fin = [float(c.value(vd, curve, rec)['clean_pv']) for c in quotes]
    n = len(quotes)

    def chkb(got, see, calls=calls, fin=fin, scales=scales, vals=vals.tolist(), n=n, case=case):
        if got is None or len(got) != 4 * n + n + (n + 1):
            return f'BOOT: driver answered {None if got is None else len(got)} numbers for {n} pillars'
        msgs = []
        for i, cl in enumerate(calls):
            x0, fl, f1, f2 = got[4 * i: 4 * i + 4]
            if x0 != cl['x0']:
                msgs.append(f'pass {i}: start value model {x0!r} != solver call {cl["x0"]!r}')
            for nm, g_, w_ in (('f(left)', fl, cl['f_left']), ('f(probe1)', f1, cl['f_probes'][0]), ('f(probe2)', f2, cl['f_probes'][1])):
                see('model.BOOT.objective', abs(g_ - w_) / scales[i])
                if not (abs(g_ - w_) <= 1e-9 * scales[i]):
                    msgs.append(f'pass {i}: objective {nm} model {g_!r} != implementation {w_!r}')
        for i in range(n):
            g_, w_ = got[4 * n + i], fin[i]
            see('model.BOOT.final-residual', abs(g_ - w_) / scales[i])
            if not (abs(g_ - w_) <= 1e-9 * scales[i]):
                msgs.append(f'final clean PV of quote {i}: model {g_!r} != implementation {w_!r}')
        if got[5 * n:] != vals:
            msgs.append(f'final knot values model {got[5 * n:]} != implementation {vals}')
        return ('BOOT: ' + '; '.join(msgs[:3]) + ' on ' + json.dumps(case, default=str)[:600]) if msgs else None
    return op, chkb


FINDING_INVERTED = 'C09/inverted-quotes-negative-forward-hazard'
_DRIVER_OK = {'ok': False}


def _inverted_finding(vd, mk_contracts, libor, rec, rate, vals, see):
    """Classifier of C09/inverted-quotes-negative-forward-hazard for a curve whose survival probability increases.  True only if
    (a) the rate is positive and every knot is in (0,1]; (b) re-running the build with the solver intercepted gives the same knots;
    (c) every pillar whose knot is ABOVE the previous one is quoted BELOW the previous pillar (inverted), its solver call ended on
    a root (|clean PV| <= 2e-7 x notional) and the objective at (almost) zero forward hazard is already positive and grows with
    the hazard (so no non-negative forward hazard reprices the quote: the quotes themselves imply the negative forward hazard);
    (d) the Lean model of the fold reproduces start values, objective values and final knots (op BOOT)."""
    if rate <= 0.0 or not _DRIVER_OK['ok'] or any(not (0.0 < float(v) <= 1.0) for v in vals):
        return None, {}
    quotes = mk_contracts()
    if any(len([d for d in c.payment_dts if d > vd]) < 2 or not c.long_protect for c in quotes):
        return None, {}
    try:
        curve, calls = _record_build(vd, quotes, libor, rec)
    except Exception:  # noqa: BLE001
        return None, {}
    kn = [float(x) for x in curve._values]
    if kn != [float(v) for v in vals] or len(calls) != len(quotes):
        return None, {}
    up = [k for k in range(1, len(kn)) if kn[k] > kn[k - 1]]
    if not up:
        return None, {}
    detail = []
    for k in up:                       # knot k belongs to pillar k-1
        i = k - 1
        cl, c = calls[i], quotes[i]
        if i == 0 or not (c.running_cpn < quotes[i - 1].running_cpn):
            return None, {}
        if not (abs(cl['f_left']) <= 2e-7 * c.notional and cl['f_probes'][1] > 0.0 and cl['f_probes'][0] > cl['f_probes'][1]):
            return None, {}
        t0, t1 = float(curve._times[k - 1]), float(curve._times[k])
        detail.append({'pillar': i, 'quote': c.running_cpn, 'previous_quote': quotes[i - 1].running_cpn, 'knot': kn[k], 'previous_knot': kn[k - 1],
                       'forward_hazard': -math.log(kn[k] / kn[k - 1]) / (t1 - t0),
                       'clean_pv_at_0.999x_and_0.97x_previous_knot': [cl['f_probes'][1], cl['f_probes'][0]], 'clean_pv_at_solved_knot': cl['f_left']})
    op, chkb = _boot_op(vd, quotes, calls, curve, libor, rec, {'knots': kn})
    try:
        out = exedriver.run('c09driver', 'C09', [op], par=False)[0]
    except C.DriverError:
        return None, {}
    got = [b2f(x) for x in out.split()] if not out.startswith('bad') else None
    if chkb(got, see) is not None:
        return None, {}
    return FINDING_INVERTED, {'negative_forward_hazard_segments': detail, 'lean_fold_reproduces_knots': True}


def _conv_eval(case, want_ops=True):
    """Rebuild the case from its JSON description, run every direct oracle; returns (failures, ops, checks, stats).
    failure = (clause, what, details, finding-or-None).  Used by run() and replay()."""
    import numpy as np
    from financepy.utils.date import Date
    from financepy.utils.day_count import DayCount
    from financepy.market.curves.interpolator import _uinterpolate, InterpTypes
    from financepy.market.curves.discount_curve_flat import DiscountCurveFlat
    fails, ops, checks, stats = [], [], [], {}
    vd, step_in = Date(*case['value_dt']), Date(*case['step_in_dt'])
    rec, rate = case['recovery'], case['flat_rate']
    libor = DiscountCurveFlat(vd, rate)
    lt, ld = np.array(libor._times, float), np.array(libor._dfs, float)
    quotes = [_mk_cds(step_in, q) for q in case['quotes']]
    n_pay = [len([d for d in c.payment_dts if d > vd]) for c in quotes]
    single_q = any(n == 1 for n in n_pay)

    def misindexed(c):
        # the kernel weights the first coupon with year_fracs[1]: material when the second period is not a regular one
        pt, yf, _, _, _ = _contract_arrays(c, vd)
        return len(pt) >= 2 and len(yf) >= 2 and (len(yf) != len(pt) or abs(yf[1] - yf[0]) > 5.0 / 360.0)
    mis_q = any(misindexed(c) for c in quotes)

    def exc_finding(cs, e):
        if isinstance(e, ZeroDivisionError) and any(af <= 0.0 for c in cs for af in c.accrual_factors):
            return FINDING_ZEROACC
        if isinstance(e, ZeroDivisionError) and max(q['coupon'] for q in case['quotes']) / (1 - rec) > 0.15:
            return 'C09/bootstrap-raises-at-distressed-spreads'
        if isinstance(e, RuntimeError) and 'converge' in str(e) and any(misindexed(c) for c in cs) and not single_q:
            return FINDING_MISINDEX      # the mis-weighted first coupon leaves an annuity so small that the secant search finds no root
        return FINDING_SINGLE if any(len([d for d in c.payment_dts if d > vd]) == 1 for c in cs) else None
    try:
        curve, calls = _record_build(vd, quotes, libor, rec, case.get('use_cache', False), case.get('interp', 1))
    except Exception as e:  # noqa: BLE001
        fails.append(('conv-bootstrap-completes', f'CDSCurve bootstrap raised {type(e).__name__}: {e}',
                      {'accrual_factors_tail': [c.accrual_factors[-2:] for c in quotes]}, exc_finding(quotes, e)))
        return fails, ops, checks, stats
    times, vals = np.array(curve._times, float), np.array(curve._values, float)
    method = InterpTypes.FLAT_FWD_RATES.value

    def Qf(t):
        return float(_uinterpolate(float(t), times, vals, method))

    def Zf(t):
        return float(_uinterpolate(float(t), lt, ld, method))

    # ---- survival shape
    grid = np.linspace(0.0, float(times[-1]) + 2.0, 80)
    qs = [Qf(t) for t in grid]
    inc = max(qs[i + 1] - qs[i] for i in range(len(qs) - 1))
    shape_ok = not (Qf(0.0) != 1.0 or inc > 1e-12 or min(qs) <= 0.0 or max(qs) > 1.0 + 1e-12 or any(v != v for v in qs))
    if not shape_ok:
        fails.append(('conv-survival-monotone', 'bootstrapped survival curve does not start at 1 / is not non-increasing within (0,1]',
                      {'knots': vals.tolist(), 'max_increase': inc, 'min': min(qs), 'max': max(qs)},
                      FINDING_SINGLE if single_q else FINDING_MISINDEX if mis_q else
                      _inverted_finding(vd, lambda: [_mk_cds(step_in, q) for q in case['quotes']], libor, rec, rate, vals, lambda *_: None)[0]))
    # ---- every quoted contract repriced by the final curve; locality against the pass that solved it
    for i, (c, q, call) in enumerate(zip(quotes, case['quotes'], calls)):
        s = q['coupon']
        ps = float(c.par_spread(vd, curve, rec))
        v = c.value(vd, curve, rec)
        prot = abs(float(c.prot_leg_pv(vd, curve, rec)))
        scale = prot + abs(s * c.notional * float(c.risky_pv01(vd, curve)['dirty_rpv01'])) + 1e-300
        rolled = c.payment_dts[-1] > c.maturity_dt
        later = i < len(quotes) - 1
        stats['conv.reprice.rel'] = max(stats.get('conv.reprice.rel', 0.0), abs(ps - s) / s)
        if not (abs(ps - s) <= 2e-4 * s + 1e-7):
            fails.append(('conv-reprices', 'bootstrapped curve does not return the input spread as par spread',
                          {'contract': i, 'quote': s, 'par_spread': ps, 'knots': vals.tolist(), 'maturity': str(c.maturity_dt),
                           'last_payment': str(c.payment_dts[-1]), 'clean_pv_when_solved': call['f_left']},
                          FINDING_SINGLE if (n_pay[i] == 1 or single_q) else
                          FINDING_ROLLED if (rolled and later and abs(ps - s) <= 1e-3 * s and abs(call['f_left']) <= 2e-7 * c.notional) else
                          FINDING_MISINDEX if (misindexed(c) and abs(call['f_left']) <= 2e-7 * c.notional) else None))
        drift = abs(float(v['clean_pv']) - call['f_left'])
        key = 'conv.locality.rolled' if rolled else 'conv.locality.wf'
        stats[key] = max(stats.get(key, 0.0), drift / scale)
        if not (drift <= 1e-9 * scale):
            fails.append(('conv-locality', 'clean PV of a quoted CDS on the final curve differs from its clean PV when its own pillar '
                          'was solved: later pillars changed the valuation of an earlier instrument',
                          {'contract': i, 'maturity': str(c.maturity_dt), 'last_payment': str(c.payment_dts[-1]),
                           'clean_pv_when_solved': call['f_left'], 'clean_pv_final': float(v['clean_pv']),
                           'relative_to_legs': drift / scale},
                          FINDING_ROLLED if (rolled and later and drift <= 1e-3 * scale) else
                          FINDING_SINGLE if single_q else None))
        stats['conv.knot-minus-returned-root'] = max(stats.get('conv.knot-minus-returned-root', 0.0), abs(call['left'] - call['root']))
        # the ASSUMPTION of Props/C09g (objective strictly decreasing in the knot), observed at the two recorded probe points
        # 0.97 x0 < 0.999 x0 of every solver pass: a statistic (count of passes where it does not hold), not an oracle
        fp = call['f_probes']
        stats['boot.passes-objective-not-decreasing-at-probes'] = (stats.get('boot.passes-objective-not-decreasing-at-probes', 0.0)
                                                                    + (0.0 if fp[0] > fp[1] else 1.0))
    # ---- the trade and every quote: identities with the accrued fraction computed independently
    trade = _mk_cds(step_in, case['trade'])
    for who, c in [('trade', trade)] + [(f'quote[{i}]', c) for i, c in enumerate(quotes)]:
        pt, yf, acc, teff, tmat = _contract_arrays(c, vd)
        single = len(pt) == 1
        fnd = FINDING_SINGLE if single else None
        try:
            v = c.value(vd, curve, rec)
            rp = c.risky_pv01(vd, curve)
            prot = float(c.prot_leg_pv(vd, curve, rec))
            ps = float(c.par_spread(vd, curve, rec))
            prem = float(c.premium_leg_pv(vd, curve))
            cpx = float(c.clean_price(vd, curve, rec))
            ai = float(c.accrued_interest())
        except Exception as e:  # noqa: BLE001
            fails.append(('conv-valuation-completes', f'{who}: valuation raised {type(e).__name__}: {e}',
                          {'contract': who, 'accrual_factors_tail': c.accrual_factors[-2:]}, exc_finding([c], e)))
            continue
        dirty, clean = float(v['dirty_pv']), float(v['clean_pv'])
        rf, rc = float(rp['dirty_rpv01']), float(rp['clean_rpv01'])
        sgn = -1.0 if c.long_protect else 1.0
        ind = acc * c.notional * c.running_cpn * sgn
        sc = abs(prot) + abs(c.running_cpn * c.notional) * (abs(rf) + abs(acc)) + 1e-300
        info = {'contract': who, 'day_count': c.dc_type.name, 'accrued_fraction_independent': acc}
        stats['conv.dirty-clean-accrued'] = max(stats.get('conv.dirty-clean-accrued', 0.0), abs((dirty - clean) - ind) / sc)
        if not (abs((dirty - clean) - ind) <= 1e-10 * sc):
            fails.append(('conv-dirty-clean-accrued', f'{who}: dirty PV minus clean PV is not the accrued coupon computed with the '
                          "contract's day count", dict(info, dirty_minus_clean=dirty - clean, accrued_independent=ind,
                                                       accrued_interest_method=ai), fnd))
        if not (abs(ai - ind) <= 1e-12 * (abs(ind) + 1e-300)):
            fails.append(('conv-accrued-interest', f'{who}: accrued_interest() is not day-count fraction x notional x coupon',
                          dict(info, accrued_interest=ai, expected=ind), None))
        if not (abs((rf - rc) - acc) <= 1e-12 * (1.0 + abs(rf))):
            fails.append(('conv-rpv01-gap', f'{who}: dirty_rpv01 - clean_rpv01 is not the day-count fraction from the previous '
                          'coupon date to step-in', dict(info, gap=rf - rc), fnd))
        for key, val, r in (('dirty_pv', dirty, rf), ('clean_pv', clean, rc)):
            want = -sgn * (prot - c.running_cpn * c.notional * r)
            if not (abs(val - want) <= 1e-12 * sc):
                fails.append(('conv-value-decomposition', f'{who}: {key} is not +-(protection leg - coupon x risky annuity)',
                              dict(info, value=val, expected=want), fnd))
        if not (abs(prem - rf * c.notional * c.running_cpn) <= 1e-12 * sc):
            fails.append(('conv-premium-leg', f'{who}: premium_leg_pv is not dirty annuity x notional x coupon', dict(info, premium=prem), fnd))
        want_px = (c.notional - (prot - c.running_cpn * c.notional * rc)) / c.notional * 100.0
        if not (abs(cpx - want_px) <= 1e-10 * (100.0 + abs(want_px))):
            fails.append(('conv-clean-price', f'{who}: clean_price is not 100 x (1 - long clean PV / notional)', dict(info, clean_price=cpx, expected=want_px), fnd))
        if rc != 0.0 and ps == ps and abs(ps) < 1e6:
            twin = dict(case['trade'] if who == 'trade' else case['quotes'][int(who[6:-1])], coupon=ps)
            vz = float(_mk_cds(step_in, twin).value(vd, curve, rec)['clean_pv'])
            stats['conv.par-zero/notional'] = max(stats.get('conv.par-zero/notional', 0.0), abs(vz) / c.notional)
            if not (abs(vz) <= 1e-10 * (abs(prot) + abs(ps * c.notional * rf) + 1e-300)):
                fails.append(('conv-par-spread', f'{who}: clean PV at the par spread is not zero', dict(info, par_spread=ps, clean_pv=vz), fnd))
        # annuity sandwich (rpv01_full_sandwich read on the object): survival-weighted coupons <= dirty annuity <= the same plus
        # one full accrual on each period's discounted default probability.  SPECIFICATION pairing: payment j carries the accrual
        # factor of ITS OWN period.  AS CODED: the first coupon is weighted with year_fracs[1] and payment_times[j] is paired with
        # year_fracs[j] even when a payment date on/before the valuation date was dropped from payment_times.
        if len(pt) >= 1 and len(yf) >= len(pt) and rate >= 0.0 and shape_ok:   # premise of the theorem: non-increasing survival
            off = len(yf) - len(pt)
            q = [Qf(t) for t in pt]
            z = [Zf(t) for t in pt]
            dq0 = max(Qf(teff) - q[0], 0.0)

            def sandwich(y_first, y_of):
                lo_ = q[0] * z[0] * y_first - z[0] * dq0 * max(-(acc + y_first) / 2.0, 0.0) + sum(q[j] * z[j] * y_of(j) for j in range(1, len(pt)))
                hi_ = (q[0] * z[0] * y_first + z[0] * dq0 * max((acc + y_first) / 2.0, 0.0)
                       + sum((q[j] * z[j] + z[0] * max(q[j - 1] - q[j], 0.0)) * y_of(j) for j in range(1, len(pt))))
                return lo_, hi_
            lower, upper = sandwich(yf[off], lambda j: yf[j + off])
            inside = lower * (1 - 1e-9) - 1e-12 <= rf <= upper * (1 + 1e-9) + 1e-12
            if not inside:
                f2 = fnd
                if not single and len(yf) > 1:
                    lc, uc = sandwich(yf[1], lambda j: yf[j])
                    if lc * (1 - 1e-9) - 1e-12 <= rf <= uc * (1 + 1e-9) + 1e-12 and (yf[1] != yf[off] or off > 0):
                        f2 = FINDING_MISINDEX
                fails.append(('conv-annuity-bounds', f'{who}: dirty risky annuity is outside [sum of survival-weighted coupons, that plus one '
                              'full accrual on each period\'s discounted default probability] with every coupon weighted by its own accrual factor',
                              dict(info, dirty_rpv01=rf, lower=lower, upper=upper, payments=len(pt), accrual_factors=yf[:4],
                                   payments_dropped_before_valuation=off), f2))
        # ---- model correspondence at object level (VAL): accrued fraction = the contract's own day-count fraction
        if want_ops and len(pt) >= 2 and len(yf) >= 2:
            scal = [teff, acc, tmat, c.running_cpn, c.notional, 1.0 if c.long_protect else 0.0]
            ops.append(f'VAL {f2b(rec)} 25 {arr(scal)} {arr(pt)} {arr(yf)} {arr(lt)} {arr(ld)} {arr(times)} {arr(vals)}')
            want = [rf, rc, prot, dirty, clean, ps, prem, cpx, ai]
            names = ['dirty_rpv01', 'clean_rpv01', 'prot_leg_pv', 'dirty_pv', 'clean_pv', 'par_spread', 'premium_leg_pv', 'clean_price',
                     'accrued_interest']

            def chk(got, see, want=want, names=names, sc=sc, who=who, case=case):
                if got is None or len(got) != len(want):
                    return f'VAL {who}: driver answered {got}'
                # PVs are differences of legs: compare relative to the leg sizes; the others relative to themselves
                tol = [1e-9 * (1 + abs(want[0])), 1e-9 * (1 + abs(want[0])), 1e-9 * sc, 1e-9 * sc, 1e-9 * sc,
                       1e-9 * sc / (abs(want[1] * case['trade']['notional']) + 1e-300) + 1e-9 * abs(want[5]), 1e-9 * sc,
                       1e-7 * sc / abs(c.notional) + 1e-9, 1e-12 * (abs(want[8]) + 1e-300)]
                bad = [(n, g, w) for n, g, w, t in zip(names, got, want, tol) if not (abs(g - w) <= t)]
                for n, g, w, t in zip(names, got, want, tol):
                    see('model.VAL.' + n, abs(g - w) / (t / 1e-9 if t > 0 else 1.0) * 1.0 if n != 'accrued_interest' else abs(g - w))
                if bad:
                    return f'VAL {who}: model != implementation {bad[:3]} on ' + json.dumps(case, default=str)[:600]
                return None
            checks.append(('CDS_methods(VAL)', chk))
    # ---- the bootstrap fold (BOOT): real `_build_curve` with the solver intercepted vs the Lean fold replayed with the values the
    # solver left in the knots
    if want_ops and all(n >= 2 for n in n_pay) and len(calls) == len(quotes):
        op, chkb = _boot_op(vd, quotes, calls, curve, libor, rec, case)
        ops.append(op)
        checks.append(('CDSCurve._build_curve(BOOT)', chkb))
    return fails, ops, checks, stats


def conventions_oracle(ctx, see, quick):
    from financepy.utils.date import Date
    from financepy.utils.day_count import DayCountTypes
    from financepy.utils.error import FinError
    from financepy.products.credit.cds import CDS
    rng = ctx.rng('conv')
    frng = ctx.rng('convflags')         # CDSCurve constructor flags: own stream, the `conv` cases stay what they were
    from financepy.market.curves.interpolator import InterpTypes
    dcs, freqs, cals, bds, dgs = _conv_enums()
    n_cases = 170 if quick else 2500
    ops, checks = [], []
    done = nontriv = 0
    seen_dc, seen_fq = set(), set()
    # a CDS rejects ACT_ACT_ICMA (needs a third date); every other member is drawn below
    try:
        CDS(Date(7, 5, 2024), '3Y', 0.01, 1e6, True, freqs[0], DayCountTypes.ACT_ACT_ICMA)
        ctx.cov['ACT_ACT_ICMA_accepted'] = True
    except FinError:
        ctx.cov['ACT_ACT_ICMA_accepted'] = False
    for it in range(n_cases):
        y = rng.randint(2006, 2034)
        if it % 2:
            vd = Date(20, rng.choice([3, 6, 9, 12]), y).add_days(rng.choice([-30, -3, -2, -1, 0, 1, 2, 3, 20]))
        else:
            vd = Date(rng.randint(1, 28), rng.randint(1, 12), y)
        step_in = vd.add_days(rng.choice([0, 0, 0, 0, 1, rng.randint(2, 45)]))

        def conv():
            return {'freq': rng.choice(freqs).value, 'dc': rng.choice(dcs).value, 'cal': rng.choice(cals).value,
                    'bd': rng.choice(bds).value, 'dg': rng.choice(dgs).value}
        shared = conv() if rng.random() < 0.5 else None
        tenors = rng.choice([['1Y', '3Y', '5Y', '10Y'], ['6M', '2Y', '5Y'], ['5Y'], ['1Y', '2Y', '3Y', '5Y'], ['3M', '1Y'], ['2Y', '7Y']])
        mats = []
        for t in tenors:
            m = step_in.add_tenor(t)
            m = m.next_cds_date() if rng.random() < 0.7 else m.add_days(rng.randint(-20, 20))
            if m > step_in.add_days(5) and (not mats or m > mats[-1]):
                mats.append(m)
        if not mats:
            mats = [step_in.add_tenor('1Y').next_cds_date()]
        base = 10 ** rng.uniform(math.log10(0.002), math.log10(0.08))
        shape = rng.choice([0.0, 0.15, -0.04])
        quotes = []
        for k, m in enumerate(mats):
            cv = dict(shared or conv())
            quotes.append(dict(cv, maturity=[m.d, m.m, m.y], coupon=base * (1 + shape * k), notional=1e6, long=True))
        tm = rng.choice(mats).add_months(rng.choice([0, 0, 3, -3, -12]))
        if rng.random() < 0.15:
            tm = step_in.add_days(rng.randint(5, 80))          # short-dated: often a single remaining coupon
        if tm <= step_in.add_days(2):
            tm = mats[-1]
        trade = dict(shared if (shared and rng.random() < 0.5) else conv(), maturity=[tm.d, tm.m, tm.y],
                     coupon=rng.choice([0.01, 0.05, base * 2.5, 10 ** rng.uniform(-4, -0.5)]),
                     notional=rng.choice([1.0, 1e6, 10 ** rng.uniform(0, 8)]), long=rng.random() < 0.6)
        case = {'value_dt': [vd.d, vd.m, vd.y], 'step_in_dt': [step_in.d, step_in.m, step_in.y], 'recovery': rng.choice([0.2, 0.4, 0.4, 0.6]),
                'flat_rate': rng.choice([0.01, 0.03, 0.05]), 'quotes': quotes, 'trade': trade,
                'use_cache': frng.random() < 0.5, 'interp': frng.choice([m.value for m in InterpTypes])}
        with warnings.catch_warnings():      # single-coupon contracts (known finding) divide by a zero / NaN annuity
            warnings.simplefilter('ignore', RuntimeWarning)
            fails, o, c, stats = _conv_eval(case, want_ops=it < (120 if quick else 1500))
        done += 1
        nontriv += len(quotes) >= 2
        for q in quotes + [trade]:
            seen_dc.add(q['dc'])
            seen_fq.add(q['freq'])
        for k, v in stats.items():
            see(k, v)
        for clause, what, details, finding in fails:
            ctx.violation(what, dict(case, **details), finding=finding, clause=clause)
        ops += o
        checks += c
    ctx.count('conventions_and_intercepted_bootstrap', n_cases, nontriv,
              sample={'value_dt': [18, 9, 2026], 'step_in_dt': [18, 9, 2026], 'recovery': 0.4, 'flat_rate': 0.03,
                      'quotes': [{'maturity': [20, 12, 2029], 'coupon': 0.01, 'freq': 4, 'dc': 7, 'cal': 13, 'bd': 3, 'dg': 2}]})
    ctx.cov['components']['conventions_and_intercepted_bootstrap']['day_counts_drawn'] = len(seen_dc)
    ctx.cov['components']['conventions_and_intercepted_bootstrap']['frequencies_drawn'] = len(seen_fq)
    return ops, checks


def replay(ctx, path):
    rp = json.load(open(path))
    v = rp.get('violation')
    if not v:
        print('replay: no concrete input in this file:', rp.get('broken'))
        return 1
    C.import_financepy()
    from financepy.utils.date import Date
    from financepy.market.curves.discount_curve_flat import DiscountCurveFlat
    from financepy.products.credit.cds import CDS
    from financepy.products.credit.cds_curve import CDSCurve
    cs = v['case']
    if str(v.get('clause', '')).startswith('rebuild'):
        case = {'history': cs['history'], 'changed': cs['changed']}
        try:
            wobs = R.finish_worker(R.start_worker([case['history'][1]]))[0]
        except C.DriverError as e:
            print('replay: fresh subprocess failed:', e)
            wobs = None
        fails, _ = R.evaluate(case, wobs)
        for clause, what, details, finding in fails:
            print(f'replay: {clause}: {what} {json.dumps(details, default=str)[:600]} (classifier {finding})')
        if any(f[0] == v['clause'] for f in fails):
            print(f'VIOLATION property=C09 replay={path}')
            return 1
        return 0
    if str(v.get('clause', '')).startswith(('fast-', 'surv-')):
        fails = FA.eval_fast(cs, _mk_cds)[0] if v['clause'].startswith('fast-') else FA.eval_surv(cs)[0]
        for clause, what, details, finding in fails:
            print(f'replay: {clause}: {what} {json.dumps(details, default=str)[:600]} (classifier {finding})')
        if any(f[0] == v['clause'] for f in fails):
            print(f'VIOLATION property=C09 replay={path}')
            return 1
        return 0
    if str(v.get('clause', '')).startswith('conv'):
        fails, _, _, _ = _conv_eval(cs, want_ops=False)
        for clause, what, details, finding in fails:
            print(f'replay: {clause}: {what} {json.dumps(details, default=str)[:400]} (classifier {finding})')
        if any(f[0] == v['clause'] for f in fails):
            print(f'VIOLATION property=C09 replay={path}')
            return 1
        return 0
    if str(v.get('clause', '')).startswith('reuse'):
        first, second, step_in = Date(*cs['first_valuation_dt']), Date(*cs['second_valuation_dt']), Date(*cs['step_in_dt'])
        mats = [Date(*m) for m in cs['maturities']]
        rec, rate, tr = cs['recovery'], cs['flat_rate'], cs['trade']

        def mk():
            return [CDS(step_in, m, q) for m, q in zip(mats, cs['quotes'])]
        lib1, lib2 = DiscountCurveFlat(first, rate), DiscountCurveFlat(second, rate)
        used = mk()
        trade = CDS(step_in, Date(*tr['maturity']), tr['coupon'], tr['notional'], tr['long_protect'])
        c1 = CDSCurve(first, used, lib1, rec)
        trade.value(first, c1, rec)
        fresh_curve = CDSCurve(second, mk(), lib2, rec)
        used_curve = CDSCurve(second, used, lib2, rec)
        kf, ku = [float(x) for x in fresh_curve._values], [float(x) for x in used_curve._values]
        twin = CDS(step_in, Date(*tr['maturity']), tr['coupon'], tr['notional'], tr['long_protect'])
        a, b = trade.value(second, fresh_curve, rec), twin.value(second, fresh_curve, rec)
        print('replay: knots fresh ', kf)
        print('replay: knots reused', ku)
        print(f"replay: trade clean PV reused object {float(a['clean_pv'])!r} fresh twin {float(b['clean_pv'])!r}")
        if kf != ku or float(a['clean_pv']) != float(b['clean_pv']) or float(a['dirty_pv']) != float(b['dirty_pv']):
            print(f'VIOLATION property=C09 replay={path}')
            return 1
        return 0
    vd = Date(*cs['value_dt'])
    libor = DiscountCurveFlat(vd, cs['flat_rate'])
    cdss = [CDS(vd, t, s) for t, s in zip(cs['tenors'], cs['spreads'])]
    curve = CDSCurve(vd, cdss, libor, cs['recovery'])
    bad = False
    for c, s in zip(cdss, cs['spreads']):
        ps = float(c.par_spread(vd, curve, cs['recovery']))
        print(f'replay: maturity {c.maturity_dt} quote {s!r} par spread {ps!r}')
        bad = bad or abs(ps - s) > 2e-6 * s + 1e-9
    print('replay clause:', v['clause'], '-', v['what'])
    if bad or v['clause'] != 'reprices':
        print(f'VIOLATION property=C09 replay={path}')
        return 1
    return 0
