"""C09 — component `fast_approx_and_survival_vector` (own PRNG stream `fast`; the other components' streams are untouched).

Ties two model pieces added in the second growth round to the code, and runs the property's identities on them:
  * `CDS.value_fast_approx` (curve-free flat-hazard valuation) vs `Model/C09Fast.lean: valueFastApprox` (op FAST), all four outputs;
    direct oracles on the implementation: full - clean = accrued_interest(); long = -short (full, clean); linear in the notional;
    clean PV = +-N (z/w)(h(1-R) - coupon 365/360) recomputed independently (the flat-hazard closed form); zero clean PV at the coupon
    spread x 360/365 when curve and contract recoveries coincide; credit01 / ir01 of long = -(short) — FAILS on the unchanged code
    whenever something has accrued (known finding C09/fast-approx-short-dv01-double-counts-accrued, classifier: short-minus-long
    discrepancy equals -2 x accrued for BOTH sensitivities).
  * `CDSCurve.survival_prob` on a list / ndarray of times vs the scalar call element by element (exact) and vs
    `Model/C09Fast.lean: survivalProbs` over C02's `_uinterpolate` model (op SURV) for the three interpolation methods it has a
    branch for; survival_prob(Date) = survival_prob((date - value_dt)/365).
"""
import json
import math

from floatcmp import f2b, close

FINDING_DV01 = 'C09/fast-approx-short-dv01-double-counts-accrued'


def _arr(a):
    return f'{len(a)} ' + ' '.join(f2b(float(x)) for x in a)


def run_component(ctx, see, quick, mk_cds, conv_enums):
    """returns (ops, checks) for the model driver; direct oracles are evaluated here"""
    import numpy as np
    from financepy.utils.date import Date
    from financepy.utils.day_count import DayCount
    from financepy.utils.global_vars import g_days_in_year
    from financepy.market.curves.discount_curve_flat import DiscountCurveFlat
    from financepy.market.curves.interpolator import InterpTypes
    from financepy.products.credit.cds import CDS
    from financepy.products.credit.cds_curve import CDSCurve
    from financepy.utils.error import FinError
    rng = ctx.rng('fast')
    dcs, freqs, cals, bds, dgs = conv_enums()
    n_cases = 60 if quick else 1500
    ops, checks = [], []
    nontriv = skipped = 0
    for it in range(n_cases):
        y = rng.randint(2006, 2034)
        if it % 2:
            vd = Date(20, rng.choice([3, 6, 9, 12]), y).add_days(rng.choice([-30, -3, -2, -1, 0, 1, 2, 3, 20]))
        else:
            vd = Date(rng.randint(1, 28), rng.randint(1, 12), y)
        step_in = vd.add_days(rng.choice([0, 0, 1, rng.randint(2, 45)]))
        mat = step_in.add_tenor(rng.choice(['6M', '1Y', '3Y', '5Y', '10Y']))
        mat = mat.next_cds_date() if rng.random() < 0.7 else mat.add_days(rng.randint(-20, 20))
        spec = {'maturity': [mat.d, mat.m, mat.y], 'coupon': rng.choice([0.01, 0.05, 10 ** rng.uniform(-4, -0.5)]),
                'notional': rng.choice([1.0, 1e6, 10 ** rng.uniform(0, 8)]), 'long': rng.random() < 0.5,
                'freq': rng.choice(freqs).value, 'dc': rng.choice(dcs).value, 'cal': rng.choice(cals).value,
                'bd': rng.choice(bds).value, 'dg': rng.choice(dgs).value}
        r = rng.choice([0.0, 0.01, 0.03, rng.uniform(-0.005, 0.08)])
        s = 10 ** rng.uniform(-4, math.log10(0.5))
        rcurve = rng.choice([0.0, 0.2, 0.4, 0.4, 0.6, 0.9])
        rcon = rcurve if rng.random() < 0.6 else rng.choice([0.0, 0.25, 0.4, 0.75])
        case = {'value_dt': [vd.d, vd.m, vd.y], 'step_in_dt': [step_in.d, step_in.m, step_in.y], 'trade': spec, 'flat_rate': r,
                'flat_spread': s, 'curve_recovery': rcurve, 'contract_recovery': rcon}
        try:
            fails, op, chk = eval_fast(case, mk_cds)
        except FinError:
            skipped += 1        # the contract could not be constructed with these conventions (C16's domain)
            continue
        for clause, what, details, finding in fails:
            ctx.violation(what, dict(case, **details), finding=finding, clause=clause)
        if op:
            ops.append(op)
            checks.append(('CDS.value_fast_approx(FAST)', chk))
        nontriv += 1
        # ---- survival_prob on vectors: one curve every third case
        if it % 3 == 0:
            tenors = rng.choice([['1Y', '3Y', '5Y', '10Y'], ['6M', '2Y', '5Y'], ['5Y'], ['1Y', '2Y', '3Y', '5Y']])
            base = 10 ** rng.uniform(math.log10(0.002), math.log10(0.05))
            shape = rng.choice([0.0, 0.15, -0.03])
            quotes = [base * (1 + shape * k) for k in range(len(tenors))]
            method = rng.choice([1, 2, 4])
            rate = rng.choice([0.01, 0.03, 0.05])
            tlist = [0.0] + [rng.uniform(0.0, 12.0) for _ in range(rng.randint(0, 6))]
            scase = {'value_dt': [vd.d, vd.m, vd.y], 'tenors': tenors, 'spreads': quotes, 'recovery': 0.4, 'flat_rate': rate,
                     'interp': method, 'times': tlist}
            fails, op, chk = eval_surv(scase)
            for clause, what, details, finding in fails:
                ctx.violation(what, dict(scase, **details), finding=finding, clause=clause)
            if op:
                ops.append(op)
                checks.append(('CDSCurve.survival_prob(SURV)', chk))
    ctx.count('fast_approx_and_survival_vector', n_cases, nontriv,
              sample={'value_dt': [7, 5, 2024], 'step_in_dt': [7, 5, 2024], 'flat_rate': 0.03, 'flat_spread': 0.012,
                      'curve_recovery': 0.4, 'contract_recovery': 0.4,
                      'trade': {'maturity': [20, 6, 2029], 'coupon': 0.01, 'notional': 1e6, 'long': False}})
    ctx.cov['components']['fast_approx_and_survival_vector']['contract_not_constructible'] = skipped
    return ops, checks


def eval_fast(case, mk_cds):
    from financepy.utils.date import Date
    from financepy.utils.day_count import DayCount
    from financepy.utils.global_vars import g_days_in_year
    vd, step_in, spec = Date(*case['value_dt']), Date(*case['step_in_dt']), case['trade']
    r, s, rcurve, rcon = case['flat_rate'], case['flat_spread'], case['curve_recovery'], case['contract_recovery']
    fails = []

    def val(sp):
        c = mk_cds(step_in, sp)
        return c, [float(x) for x in c.value_fast_approx(vd, r, s, rcurve, rcon)]
    c, v = val(spec)
    c2, v2 = val(dict(spec, long=not spec['long']))
    n, cpn, long = spec['notional'], spec['coupon'], spec['long']
    acc = DayCount(c.dc_type).year_frac(c.accrual_start_dts[0], c.step_in_dt)[0]
    teff = (c.step_in_dt - vd) / g_days_in_year
    tmat = (c.maturity_dt - vd) / g_days_in_year
    h = s / (1.0 - rcurve)
    w = r + h
    zw = (math.exp(-w * teff) - math.exp(-w * tmat)) / w
    scale = abs(n) * (abs(zw) * (abs(h) + abs(cpn) + 1e-4) + abs(acc * cpn)) + 1e-300
    # z = exp(-w teff) - exp(-w tmat) cancels when |w|(tmat - teff) is tiny: a few ulps of the two exponentials, carried through the legs
    cond = 1e-15 * abs(n) * (abs(h) + abs(cpn) * 365.0 / 360.0) * (math.exp(-w * teff) + math.exp(-w * tmat)) / abs(w)
    info = {'fast': v, 'fast_other_direction': v2, 'accrued_fraction': acc}
    ai = float(c.accrued_interest())
    if not abs((v[0] - v[1]) - ai) <= 1e-10 * scale:
        fails.append(('fast-dirty-clean-accrued', 'value_fast_approx: full_pv - clean_pv != accrued_interest()', dict(info, accrued=ai), None))
    if not (abs(v[0] + v2[0]) <= 1e-10 * scale and abs(v[1] + v2[1]) <= 1e-10 * scale):
        fails.append(('fast-long-short', 'value_fast_approx: long protection != -short protection (full / clean PV)', info, None))
    want = (1.0 if long else -1.0) * n * zw * (h * (1.0 - rcon) - cpn * 365.0 / 360.0)
    if not abs(v[1] - want) <= 1e-10 * scale + cond:
        fails.append(('fast-flat-closed-form', 'value_fast_approx: clean PV != +-N (z/w)(h(1-R) - coupon 365/360) with the flat-hazard integral z/w',
                      dict(info, closed_form=want), None))
    # linear in the notional
    k = 3.0
    _, v3 = val(dict(spec, notional=k * n))
    if not all(abs(a - k * b) <= 1e-10 * k * scale for a, b in zip(v3, v)):
        fails.append(('fast-linear-notional', 'value_fast_approx: outputs do not scale with the notional', dict(info, scaled=v3, factor=k), None))
    # par coupon = spread x 360/365 when both recoveries coincide
    if rcurve == rcon:
        _, v4 = val(dict(spec, coupon=s * 360.0 / 365.0))
        if not abs(v4[1]) <= 1e-10 * abs(n) * (abs(zw) * abs(h) + 1e-300) + 1e-300:
            fails.append(('fast-par-coupon', 'value_fast_approx: clean PV at coupon = spread x 360/365 is not zero', dict(info, at_par=v4), None))
    # sensitivities: long = -short.  As coded the bumped full PVs add long_protect x accrued with an accrued that is already signed.
    lg, sh = (v, v2) if long else (v2, v)
    dc, di = lg[2] + sh[2], lg[3] + sh[3]
    if not (abs(dc) <= 1e-9 * scale and abs(di) <= 1e-9 * scale):
        expected = -2.0 * acc * n * cpn
        finding = FINDING_DV01 if (acc != 0.0 and abs(dc - expected) <= 1e-9 * scale and abs(di - expected) <= 1e-9 * scale) else None
        fails.append(('fast-dv01-long-short', 'value_fast_approx: credit01 / ir01 of long protection != -(short protection): the sums are '
                      f'{dc!r} and {di!r}; -2 x accrued = {expected!r}', dict(info, credit01_long_plus_short=dc, ir01_long_plus_short=di), finding))
    op = (f'FAST {1 if long else 0} ' + ' '.join(f2b(float(x)) for x in [teff, tmat, r, s, rcurve, rcon, cpn, n, acc]))

    def chk(got, see, want=v, scale=scale, cond=cond, case=case):
        if got is None or len(got) != 4:
            return f'FAST: driver answered {got}'
        for nm, g, w_ in zip(['full_pv', 'clean_pv', 'credit01', 'ir01'], got, want):
            see('model.FAST.' + nm, abs(g - w_) / scale)
        bad = [(g, w_) for g, w_ in zip(got, want) if not abs(g - w_) <= 1e-9 * scale + cond]
        if bad:
            return f'FAST: model != implementation {bad[:2]} on ' + json.dumps(case, default=str)[:500]
        return None
    return fails, op, chk


def eval_surv(case):
    import numpy as np
    from financepy.utils.date import Date
    from financepy.utils.global_vars import g_days_in_year
    from financepy.market.curves.discount_curve_flat import DiscountCurveFlat
    from financepy.market.curves.interpolator import InterpTypes
    from financepy.products.credit.cds import CDS
    from financepy.products.credit.cds_curve import CDSCurve
    vd = Date(*case['value_dt'])
    libor = DiscountCurveFlat(vd, case['flat_rate'])
    cdss = [CDS(vd, t, s) for t, s in zip(case['tenors'], case['spreads'])]
    curve = CDSCurve(vd, cdss, libor, case['recovery'], False, InterpTypes(case['interp']))
    ts = [float(t) for t in case['times']] + [float(x) for x in curve._times]
    fails = []
    vec = curve.survival_prob(list(ts))
    vec2 = curve.survival_prob(np.array(ts))
    sca = [float(curve.survival_prob(t)) for t in ts]
    if len(vec) != len(ts) or [float(x) for x in vec] != sca or [float(x) for x in vec2] != sca:
        fails.append(('surv-vector-elementwise', 'CDSCurve.survival_prob(list/array of times) is not the scalar survival_prob element by element',
                      {'vector': [float(x) for x in vec], 'scalar': sca}, None))
    d = vd.add_days(400)
    if float(curve.survival_prob(d)) != float(curve.survival_prob((d - vd) / g_days_in_year)):
        fails.append(('surv-date-vs-time', 'CDSCurve.survival_prob(date) != survival_prob((date - value_dt)/365)', {}, None))
    op = f"SURV {case['interp']} {_arr(curve._times)} {_arr(curve._values)} {_arr(ts)}"

    def chk(got, see, want=sca, case=case):
        if got is None or len(got) != len(want):
            return f'SURV: driver answered {None if got is None else len(got)} numbers for {len(want)} times'
        for g, w_ in zip(got, want):
            see('model.SURV', abs(g - w_))
        if not all(close(g, w_, 1e-9, 1e-12) for g, w_ in zip(got, want)):
            return f'SURV: model {got[:6]} != implementation {want[:6]} on ' + json.dumps(case, default=str)[:500]
        return None
    return fails, op, chk
