"""C09 — re-build oracle: a bootstrapped CDSCurve is a function of its inputs only.

The same quote set is bootstrapped twice in ONE process with exactly one input changed (interest-rate curve, recovery, one
spread, valuation date, one contract convention, interpolation method, or nothing), with every constructor flag of CDSCurve in
both states (`use_cache` True/False, every `InterpTypes` member).  Both curves must reprice their own contracts, and the second
must equal — bit for bit, the build is deterministic — the curve built (i) in the same process from fresh objects without the
cache flag and (ii) in a FRESH SUBPROCESS from the same description with the same flags (module-level state cannot leak there;
the worker builds only the second curve of each history).  Survival probabilities through `CDSCurve.survival_prob` are compared
the same way and, for the curve's own interpolation method, checked for the shape the property promises.

Run as `python c09_rebuild.py --worker` it is the subprocess: build descriptions (JSON) on stdin, observations on stdout."""
import contextlib
import json
import math
import os
import subprocess
import sys

sys.path.insert(0, os.path.dirname(os.path.dirname(os.path.abspath(__file__))))
import common as C  # noqa: E402

FINDING_ROLLED = 'C09/rolled-last-coupon-reads-beyond-own-knot'
FINDING_INTERP_SHAPE = 'C09/interp-method-not-used-by-valuation'
FINDING_INTERP_UNSUPPORTED = 'C09/unsupported-interp-method-accepted'
SUPPORTED_INTERP = (1, 2, 4)            # the branches `_uinterpolate` has: FLAT_FWD_RATES, LINEAR_FWD_RATES, LINEAR_ZERO_RATES
# witnesses of findings of this component, run first on every run
_Q = {'freq': 4, 'dc': 8, 'cal': 2, 'bd': 2, 'dg': 2, 'notional': 1e6, 'long': True}
_W = {'value_dt': [7, 5, 2024], 'step_in_dt': [7, 5, 2024], 'recovery': 0.4, 'flat_rate': 0.03, 'use_cache': False,
      'quotes': [dict(_Q, maturity=[20, 6, 2025], coupon=0.01), dict(_Q, maturity=[20, 6, 2027], coupon=0.03),
                 dict(_Q, maturity=[20, 6, 2029], coupon=0.02), dict(_Q, maturity=[20, 6, 2034], coupon=0.012)]}
CORPUS = [{'history': [dict(_W, interp=2), dict(_W, interp=4, use_cache=True)], 'changed': 'interp'},       # C09/interp-method-not-used-by-valuation
          {'history': [dict(_W, interp=1), dict(_W, interp=10, use_cache=True)], 'changed': 'interp'}]      # C09/unsupported-interp-method-accepted
PROBE_DAYS = [0, 1, 45, 200, 365, 500, 900, 1500, 2200, 3000, 3700, 4400]


@contextlib.contextmanager
def quiet_fd():
    """Numba-compiled code prints the method number on C stdout before raising for an unsupported interpolation method."""
    sys.stdout.flush()
    saved, dn = os.dup(1), os.open(os.devnull, os.O_WRONLY)
    os.dup2(dn, 1)
    try:
        yield
    finally:
        sys.stdout.flush()
        os.dup2(saved, 1)
        os.close(saved)
        os.close(dn)


def mk_cds(step_in, q):
    from financepy.utils.date import Date
    from financepy.utils.day_count import DayCountTypes
    from financepy.utils.frequency import FrequencyTypes
    from financepy.utils.calendar import CalendarTypes, BusDayAdjustTypes, DateGenRuleTypes
    from financepy.products.credit.cds import CDS
    return CDS(step_in, Date(*q['maturity']), q['coupon'], q['notional'], q['long'], FrequencyTypes(q['freq']),
               DayCountTypes(q['dc']), CalendarTypes(q['cal']), BusDayAdjustTypes(q['bd']), DateGenRuleTypes(q['dg']))


def build(spec, use_cache=None, quotes=None):
    """CDSCurve from a description, every object fresh; returns (curve, contracts, libor)"""
    from financepy.utils.date import Date
    from financepy.market.curves.interpolator import InterpTypes
    from financepy.market.curves.discount_curve_flat import DiscountCurveFlat
    from financepy.products.credit.cds_curve import CDSCurve
    vd, step_in = Date(*spec['value_dt']), Date(*spec['step_in_dt'])
    libor = DiscountCurveFlat(vd, spec['flat_rate'])
    contracts = [mk_cds(step_in, q) for q in (spec['quotes'] if quotes is None else quotes)]
    uc = spec['use_cache'] if use_cache is None else use_cache
    curve = CDSCurve(vd, contracts, libor, spec['recovery'], uc, InterpTypes(spec['interp']))
    return curve, contracts, libor


def observe(spec, curve):
    """knots and survival probabilities through the curve's own interpolation method, as exact hex strings"""
    from financepy.utils.date import Date
    from financepy.utils.error import FinError
    vd = Date(*spec['value_dt'])
    out = {'times': [float(x).hex() for x in curve._times], 'knots': [float(x).hex() for x in curve._values]}
    surv = []
    with quiet_fd():
        for d in PROBE_DAYS:
            try:
                surv.append(float(curve.survival_prob(vd.add_days(d))).hex())
            except FinError as e:
                surv.append('E:FinError:' + str(e)[:40])
            except Exception as e:  # noqa: BLE001
                surv.append('E:' + type(e).__name__)
    out['surv'] = surv
    return out


def worker():
    specs = json.load(sys.stdin)
    C.import_financepy()
    res = []
    for spec in specs:
        try:
            curve, _, _ = build(spec)
            res.append(observe(spec, curve))
        except Exception as e:  # noqa: BLE001
            res.append({'error': type(e).__name__ + ': ' + str(e)[:200]})
    sys.stdout.flush()
    print('\nC09REBUILD ' + json.dumps(res))


def start_worker(specs):
    """the fresh subprocess (same interpreter, same FINVERIF_REPO, same Numba cache); collected later by `finish_worker`"""
    p = subprocess.Popen([sys.executable, os.path.abspath(__file__), '--worker'], stdin=subprocess.PIPE, stdout=subprocess.PIPE,
                         stderr=subprocess.PIPE, text=True, env=dict(os.environ))
    p.stdin.write(json.dumps(specs))
    p.stdin.close()
    return p


def finish_worker(p, timeout=900):
    try:
        out = p.stdout.read()
        err = p.stderr.read()
        p.wait(timeout=timeout)
    except Exception as e:  # noqa: BLE001
        p.kill()
        raise C.DriverError(f'C09 rebuild worker: {e}')
    for line in out.split('\n'):
        if line.startswith('C09REBUILD '):
            return json.loads(line[len('C09REBUILD '):])
    raise C.DriverError('C09 rebuild worker gave no answer: rc=%s %s' % (p.returncode, err[-1500:]))


def _reprice_fails(spec, curve, libor, tag):
    """every quote of the description repriced by `curve` (fresh twin contracts); returns failures"""
    from financepy.utils.date import Date
    from financepy.products.credit.cds_curve import CDSCurve
    vd, step_in, rec = Date(*spec['value_dt']), Date(*spec['step_in_dt']), spec['recovery']
    fails, worst = [], 0.0
    for k, q in enumerate(spec['quotes']):
        s = q['coupon']
        c = mk_cds(step_in, q)
        try:
            ps = float(c.par_spread(vd, curve, rec))
            cp = float(c.value(vd, curve, rec)['clean_pv'])
        except Exception as e:  # noqa: BLE001
            fails.append(('rebuild-reprices', f'{tag}: valuing quote {k} on the curve raised {type(e).__name__}: {e}', {'build': tag, 'quote_index': k}, None))
            continue
        if ps == ps:
            worst = max(worst, abs(ps - s) / s)
        if not (abs(ps - s) <= 2e-4 * s + 1e-7):
            fnd, extra = None, {}
            if k < len(spec['quotes']) - 1 and c.payment_dts[-1] > c.maturity_dt and abs(ps - s) <= 1e-3 * s:
                # same test as the main component: the curve truncated after the quote's own pillar returns the quote
                try:
                    head = [mk_cds(step_in, x) for x in spec['quotes'][:k + 1]]
                    pt = float(mk_cds(step_in, q).par_spread(vd, CDSCurve(vd, head, libor, rec), rec))
                except Exception:  # noqa: BLE001
                    pt = float('nan')
                extra = {'par_spread_on_curve_truncated_after_own_pillar': pt, 'last_payment': str(c.payment_dts[-1])}
                if abs(pt - s) <= 2e-4 * s + 1e-7:
                    fnd = FINDING_ROLLED
            fails.append(('rebuild-reprices', f'{tag}: the bootstrapped curve does not return the input spread of its own contract as par spread',
                          dict({'build': tag, 'quote_index': k, 'quote': s, 'par_spread': ps, 'clean_pv': cp,
                                'knots': [float(x) for x in curve._values]}, **extra), fnd))
    return fails, worst


def _shape_fails(spec, curve, obs, tag):
    """survival_prob through the curve's OWN interpolation method: 1 at the valuation date, non-increasing, in (0,1]"""
    from financepy.utils.date import Date
    m = spec['interp']
    fails = []
    errs = [x for x in obs['surv'] if x.startswith('E:')]
    if errs:
        fails.append(('rebuild-survival-prob', f'{tag}: CDSCurve.survival_prob raised ({errs[0]}) on a curve that was built without complaint',
                      {'build': tag, 'interp': m}, FINDING_INTERP_UNSUPPORTED if (m not in SUPPORTED_INTERP and 'FinError' in errs[0]) else None))
        return fails
    kn = [float(x) for x in curve._values]
    if any(kn[i + 1] > kn[i] for i in range(len(kn) - 1)) or any(not (0.0 < v <= 1.0) for v in kn):
        fails.append(('rebuild-survival-shape', f'{tag}: the solved survival knots are not non-increasing within (0,1]', {'build': tag, 'knots': kn}, None))
        return fails
    vd = Date(*spec['value_dt'])
    T = int(float(curve._times[-1]) * 365) + 800
    with quiet_fd():
        qs = [float(curve.survival_prob(vd.add_days(int(d)))) for d in [T * i / 120.0 for i in range(121)]]
    inc = max(qs[i + 1] - qs[i] for i in range(len(qs) - 1))
    if qs[0] != 1.0 or inc > 1e-12 or min(qs) <= 0.0 or max(qs) > 1.0 + 1e-12 or any(v != v for v in qs):
        # the valuation kernels always read the knots with FLAT_FWD_RATES; with another method survival_prob is a different function
        fnd = FINDING_INTERP_SHAPE if (m in (2, 4) and qs[0] == 1.0 and min(qs) > 0.0 and not any(v != v for v in qs)) else None
        fails.append(('rebuild-survival-shape', f'{tag}: CDSCurve.survival_prob (the curve\'s own interpolation method) does not start at 1 / is not '
                      'non-increasing within (0,1] although the solved knots are', {'build': tag, 'interp': m, 'knots': kn, 'max_increase': inc,
                                                                                  'min': min(qs), 'max': max(qs)}, fnd))
    return fails


def evaluate(case, worker_obs=None):
    """run the history of `case` in this process and every oracle; returns (failures, stats).  failure = (clause, what, details, finding)"""
    fails, stats = [], {}
    A, B = case['history']
    try:
        curveA, _, liborA = build(A)
    except Exception as e:  # noqa: BLE001
        return [('rebuild-completes', f'first build raised {type(e).__name__}: {e}', {'build': 'first'}, None)], stats
    obsA = observe(A, curveA)
    f, w = _reprice_fails(A, curveA, liborA, 'first build')
    fails += f
    stats['rebuild.reprice.rel'] = w
    fails += _shape_fails(A, curveA, obsA, 'first build')
    try:
        curveB, _, liborB = build(B)
    except Exception as e:  # noqa: BLE001
        return fails + [('rebuild-completes', f'second build (changed: {case["changed"]}) raised {type(e).__name__}: {e}', {'build': 'second'}, None)], stats
    obsB = observe(B, curveB)
    f, w = _reprice_fails(B, curveB, liborB, f'second build in the same process (changed: {case["changed"]})')
    fails += f
    stats['rebuild.reprice.rel'] = max(stats['rebuild.reprice.rel'], w)
    fails += _shape_fails(B, curveB, obsB, 'second build')
    # ---- fresh objects, same process, cache flag off
    try:
        curveR, _, _ = build(B, use_cache=False)
        obsR = observe(B, curveR)
    except Exception as e:  # noqa: BLE001
        obsR = {'error': type(e).__name__ + ': ' + str(e)[:200]}
    for name, ref in (('the same description built from fresh objects with use_cache=False', obsR),
                      ('the same description built in a fresh subprocess', worker_obs)):
        if ref is None:
            continue
        if 'error' in ref:
            fails.append(('rebuild-history', f'second build succeeded but {name} failed: {ref["error"]}', {}, None))
            continue
        for key, label in (('times', 'knot times'), ('knots', 'survival knots'), ('surv', 'survival_prob values')):
            if obsB[key] != ref[key]:
                def num(l):
                    return [float.fromhex(x) if not x.startswith('E:') else x for x in l]
                fails.append(('rebuild-history', f'the {label} of the second curve of the history (changed: {case["changed"]}) differ from {name}: '
                              'the curve depends on what was built before it', {'second_build': num(obsB[key]), 'reference': num(ref[key]),
                                                                                'first_build': num(obsA[key])}, None))
                break
    if case['changed'] == 'nothing' and (obsA['knots'] != obsB['knots'] or obsA['surv'] != obsB['surv']):
        fails.append(('rebuild-history', 'the same description built twice gives two different curves', {}, None))
    return fails, stats


def gen_case(rng):
    from financepy.utils.date import Date
    from financepy.market.curves.interpolator import InterpTypes
    y = rng.randint(2006, 2034)
    vd = (Date(20, rng.choice([3, 6, 9, 12]), y).add_days(rng.choice([-3, -1, 0, 1, 3, 20])) if rng.random() < 0.5
          else Date(rng.randint(1, 28), rng.randint(1, 12), y))
    tenors = rng.choice([['1Y', '3Y', '5Y', '10Y'], ['1Y', '2Y', '5Y'], ['5Y'], ['1Y', '2Y', '3Y', '5Y', '7Y'], ['2Y', '10Y']])
    rec = rng.choice([0.0, 0.2, 0.4, 0.4, 0.6])
    base = 10 ** rng.uniform(math.log10(0.002), math.log10(0.05)) * (1 - rec) / 0.6
    shape = rng.choice([0.0, 0.15, -0.04])
    conv = ({'freq': 4, 'dc': 8, 'cal': 2, 'bd': 2, 'dg': 2} if rng.random() < 0.6 else
            {'freq': rng.choice([2, 4, 12]), 'dc': rng.choice([0, 1, 2, 3, 4, 5, 7, 8, 9, 10]), 'cal': rng.randint(1, 15),
             'bd': rng.randint(1, 5), 'dg': 2})

    def mat(dt0, t):
        m = dt0.add_tenor(t).next_cds_date()
        return [m.d, m.m, m.y]
    quotes = [dict(conv, maturity=mat(vd, t), coupon=base * (1 + shape * k) * rng.uniform(0.97, 1.03), notional=1e6, long=True)
              for k, t in enumerate(tenors)]
    members = [m.value for m in InterpTypes]
    A = {'value_dt': [vd.d, vd.m, vd.y], 'step_in_dt': [vd.d, vd.m, vd.y], 'recovery': rec, 'flat_rate': rng.choice([0.01, 0.03, 0.05]),
         'quotes': quotes, 'use_cache': rng.random() < 0.5, 'interp': 1 if rng.random() < 0.6 else rng.choice(members)}
    B = json.loads(json.dumps(A))
    B['use_cache'] = rng.random() < 0.7
    changed = rng.choice(['libor', 'libor', 'recovery', 'spread', 'value_dt', 'convention', 'interp', 'nothing'])
    if changed == 'libor':
        B['flat_rate'] = A['flat_rate'] + rng.choice([0.0001, 0.01, 0.02])
    elif changed == 'recovery':
        B['recovery'] = rng.choice([r for r in (0.0, 0.2, 0.4, 0.6) if r != rec and base * 1.6 / (1 - r) < 0.14] or [rec / 2 + 0.1])
    elif changed == 'spread':
        k = rng.randrange(len(quotes))
        B['quotes'][k]['coupon'] = quotes[k]['coupon'] * rng.choice([1.0001, 1.01, 0.97])
    elif changed == 'value_dt':
        v2 = vd.add_days(rng.choice([1, 1, 7, 30]))
        if all(Date(*q['maturity']) > v2.add_days(200) for q in quotes):
            B['value_dt'] = B['step_in_dt'] = [v2.d, v2.m, v2.y]
        else:
            changed = 'nothing'
    elif changed == 'convention':
        k = rng.randrange(len(quotes))
        fld = rng.choice(['dc', 'freq', 'cal', 'bd'])
        alt = {'dc': [0, 1, 2, 3, 4, 5, 7, 8, 9, 10], 'freq': [2, 4, 12], 'cal': list(range(1, 16)), 'bd': [1, 2, 3, 4, 5]}[fld]
        B['quotes'][k][fld] = rng.choice([a for a in alt if a != quotes[k][fld]])
        changed = f'{fld} of quote {k}'
    elif changed == 'interp':
        B['interp'] = rng.choice([m for m in members if m != A['interp']])
    return {'history': [A, B], 'changed': changed}


def rebuild_start(ctx, quick):
    """generate the histories and start the fresh subprocess; `rebuild_finish` runs the histories in-process and compares"""
    rng = ctx.rng('rebuild')
    cases = json.loads(json.dumps(CORPUS)) + [gen_case(rng) for _ in range(40 if quick else 500)]
    try:
        proc = start_worker([c['history'][1] for c in cases])
    except Exception as e:  # noqa: BLE001
        proc = None
        ctx.broke(f'C09 rebuild worker could not be started: {e}')
    return cases, proc


def rebuild_finish(ctx, see, cases, proc):
    wobs = None
    if proc is not None:
        try:
            wobs = finish_worker(proc)
        except C.DriverError as e:
            ctx.broke(str(e)[:600])
    if wobs is not None and len(wobs) != len(cases):
        ctx.broke(f'C09 rebuild worker answered {len(wobs)} of {len(cases)} builds')
        wobs = None
    flags, interps, nontriv = set(), set(), 0
    for i, case in enumerate(cases):
        fails, stats = evaluate(case, None if wobs is None else wobs[i])
        for k, v in stats.items():
            see(k, v)
        for clause, what, details, finding in fails:
            ctx.violation(what, dict(case, **details), finding=finding, clause=clause)
        A, B = case['history']
        flags.add((A['use_cache'], B['use_cache']))
        interps.update([A['interp'], B['interp']])
        nontriv += case['changed'] != 'nothing'
    ctx.count('rebuild_histories', len(cases), nontriv, sample=cases[0] if cases else None)
    comp = ctx.cov['components']['rebuild_histories']
    comp['use_cache_flag_pairs_drawn'] = len(flags)
    comp['interp_methods_drawn'] = len(interps)
    comp['fresh_subprocess_reference'] = wobs is not None


if __name__ == '__main__' and '--worker' in sys.argv:
    worker()
