"""C10 — FX products respect covered interest parity and foreign/domestic symmetry.

Theorems (FinVerif/Props/C10a..d) are about the GENERATED real models of FXForward.forward/value,
FXVanillaOption.value/delta/fast_delta, the module-level fast_delta, the strike objective `g` and solve_for_strike
(Gen/FXR = the code's own N; Gen/FXP = same source with the cdf / inverse cdf abstracted; tied by rfl): CIP forward,
forward at par = 0, premium views, call - put = forward (partial: t_exp = t_del; counterexample), FOR/DOM symmetry,
the four quoted deltas = derivatives, strike-from-delta returns the delta (closed forms; solver given its postcondition),
DOM-notional forward = FOR-notional forward on N/K (since /repo d214945).
Growth round (Props/C10e..h, Lemmas/C10): module fast_delta = the class's delta dictionary, relations between the four
conventions, delta parity and FOR/DOM symmetry of deltas / vega / gamma, solve_for_strike as a left inverse + monotonicity
and uniqueness of the strike, no zero-vol / zero-time branch and the limits of the closed form (discounted forward
intrinsic, not spot intrinsic), the inline gamma / vega / theta of the class = the bs_* kernels, FX digital call + put,
premium-currency relabelling, forward worth zero only at the forward.
Correspondence: the implementation (classes and compiled functions) vs the Float instantiation of the same generated
code (Driver/C10) on every key of value(...), delta(...), FXForward.forward/value, fast_delta, g, solve_for_strike.
Direct oracles on the implementation (the executable reading of the property), every run: CIP with the harness's own
delivery date, forward at par, call - put = forward value at the strike (own-curve and through FXForward), FOR/DOM
symmetry through a reciprocal DOM/FOR option with the curves exchanged, premium views, each delta vs central
differences of the reported value, delta_bump, strike solved from a delta returns that delta (through fast_delta and
through FXVanillaOption.delta), zero / tiny volatility and expiry = valuation date (parity, discounted forward intrinsic,
finiteness), a re-used FXForward under other curves, FX digital call + put.
"""
import datetime
import json
import math
import os
import sys

import numpy as np

sys.path.insert(0, os.path.dirname(os.path.dirname(os.path.abspath(__file__))))
import common as C  # noqa: E402
from floatcmp import f2b, b2f  # noqa: E402
from parallel import driver_parallel  # noqa: E402
from props import c05 as K5  # noqa: E402   (noise model of the Hull N for bump derivatives)

GEN = ['BSF', 'BSR', 'BSP', 'FXF', 'FXR', 'FXP']
PROPS = ['FinVerif.Props.C10t', 'FinVerif.Props.C10a', 'FinVerif.Props.C10b', 'FinVerif.Props.C10c', 'FinVerif.Props.C10d',
         'FinVerif.Props.C10e', 'FinVerif.Props.C10f', 'FinVerif.Props.C10g', 'FinVerif.Props.C10h', 'FinVerif.Props.C10w']
# modules whose theorems STATE a known defect (they stop building when it is repaired): module -> (finding, oracle clause)
DEFECT_PROPS = {'FinVerif.Props.C10w': ('C10/forward-cash-double-notional', 'forward:cash')}
DRIVERS = ['FinVerif.Driver.C10']

RULE = ('cases drawn from VERIF_SEED: valuation date uniform 2016-2026 (any weekday), expiry 1 day..10y (log-uniform, plus '
        '1,2,3,7 days / 10y), spot-day lag 0-3, spot log-uniform [0.005,500], r_d, r_f uniform [-2%,20%] (flat curves) or '
        'pillar curves with zero rates in that range, vol log-uniform [1%,100%], strike mostly within a few std-devs of '
        'the forward (some far, some at spot/forward), notional currency DOM/FOR, call and put. One correspondence '
        'evaluation = one (method, key, input) compared between implementation and the Float model; all inputs are '
        'distinct draws; non-trivial = numeric result that is not 0/underflow. Oracle evaluations are counted per component.')

E0 = K5.E0
F_PARITY = 'C10/parity-texp-vs-tdel'
F_LAG = 'C10/forward-option-spot-lag-mismatch'
F_CASH = 'C10/forward-cash-double-notional'
F_SOLVER = 'C10/strike-solver-divergence'
VALUE_KEYS = ['v', 'cash_dom', 'cash_for', 'pips_dom', 'pips_for', 'pct_dom', 'pct_for', 'not_dom', 'not_for']
FWD_KEYS = ['value', 'cash_dom', 'cash_for', 'not_dom', 'not_for']
DELTA_KEYS = ['pips_spot_delta', 'pips_fwd_delta', 'pct_spot_delta_prem_adj', 'pct_fwd_delta_prem_adj']
DOM, FOR = 1, 2     # integer codes of the currency names in the generated kernels


def fl(xs):
    return ' '.join(f2b(float(x)) for x in xs)


def own_add_weekdays(d: datetime.date, n: int) -> datetime.date:
    """the property's own reading of a spot lag: n weekdays forward (weekends skipped), independent of utils/date.py"""
    while n > 0:
        d = d + datetime.timedelta(days=1)
        if d.weekday() < 5:
            n -= 1
    return d


def secant_replay(f, x0, tol=1e-7, maxiter=50):
    """utils/solver_1d.py:newton_secant as documented (same start points, same update, same stopping rules), used only
    to classify a raise of solve_for_strike"""
    eps = 1e-4
    p0 = 1.0 * x0
    p1 = x0 * (1.0 + eps)
    p1 = p1 + eps if p1 > 0.0 else p1 - eps
    q0, q1 = f(p0), f(p1)
    if abs(q1) < abs(q0):
        p0, p1, q0, q1 = p1, p0, q1, q0
    for _ in range(maxiter):
        if q1 == q0:
            return ('flat', p1) if p1 != p0 else ('converged', (p1 + p0) / 2.0)
        if abs(q1) > abs(q0):
            p = (-q0 / q1 * p1 + p0) / (1.0 - q0 / q1)
        else:
            p = (-q1 / q0 * p0 + p1) / (1.0 - q1 / q0)
        if abs(p - p1) < tol:
            return ('converged', p)
        p0, q0 = p1, q1
        p1 = p
        q1 = f(p1)
        if q1 != q1:
            return ('nan', p1)
    return ('maxiter', p1)


def err_kind(e):
    from financepy.utils.error import FinError
    return 'E:FinError' if isinstance(e, FinError) else 'E:Other'


class Corr:
    """implementation-vs-model comparisons (tuples of floats or error kinds)"""

    def __init__(self, ctx):
        self.ctx = ctx
        self.items = []     # (component, op, impl (list of floats | str), scales (list), case)

    def add(self, comp, op, impl, scales, case=None):
        self.items.append((comp, op, impl, scales, case))

    def run(self, drivers_ok):
        ctx = self.ctx
        if not self.items:
            return
        model = None
        if drivers_ok:
            try:
                model = driver_parallel('C10', [it[1] for it in self.items], chunk=30000)
            except C.DriverError as e:
                ctx.broke(f'model driver failed: {str(e)[:300]}')
        per = {}
        for idx, (comp, op, impl, scales, case) in enumerate(self.items):
            st = per.setdefault(comp, {'n': 0, 'nt': 0, 'bad': 0, 'worst': 0.0, 'sample': None})
            n = 1 if isinstance(impl, str) else len(impl)
            st['n'] += n
            if not isinstance(impl, str):
                st['nt'] += sum(1 for x in impl if x == x and abs(x) > 1e-300)
            if st['sample'] is None:
                st['sample'] = {'op': K5.decode_op(op), 'impl': impl if isinstance(impl, str) else [float(x) for x in impl][:9]}
            if model is None:
                continue
            mo = model[idx]
            ok = True
            if isinstance(impl, str) or mo.startswith('E:') or mo == 'bad-op':
                ok = (impl == mo)
            else:
                ms = [b2f(x) for x in mo.split()]
                if len(ms) != len(impl):
                    ok = False
                else:
                    for m, im, sc in zip(ms, impl, scales):
                        if math.isnan(m) or math.isnan(im) or math.isinf(m) or math.isinf(im):
                            ok = ok and ((math.isnan(m) and math.isnan(im)) or m == im)
                            continue
                        tol = 1e-9 * max(abs(m), abs(im)) + 1e-10 * sc
                        dev = abs(m - im) / tol if tol > 0 else (0.0 if m == im else 1e9)
                        st['worst'] = max(st['worst'], dev)
                        ok = ok and abs(m - im) <= tol
            if not ok:
                st['bad'] += 1
                if st['bad'] <= 2:
                    ms = mo if (mo.startswith('E') or mo == 'bad-op') else [b2f(x) for x in mo.split()]
                    ctx.broke(f'correspondence {comp}: model≠implementation on `{K5.decode_op(op)}` (model {ms!r}, impl {impl!r})')
        for comp, st in per.items():
            ctx.count('K:' + comp, st['n'], st['nt'], sample=st['sample'])
            c = ctx.cov['components']['K:' + comp]
            c['disagree_model'] = st['bad']
            c['worst_dev_over_tol'] = round(st['worst'], 4)


def viol(ctx, what, case, clause, finding=None):
    case = {k: (v.item() if hasattr(v, 'item') else v) for k, v in case.items()}
    ctx.violation(what, case, finding=finding, clause=clause)


def run(ctx):
    drivers_ok = C.lean_stage(ctx, GEN, PROPS, DRIVERS,
                              extra_files=['FinVerif/Lemmas/C05.lean', 'FinVerif/Lemmas/C10.lean', 'FinVerif/Spec/C05.lean', 'FinVerif/Spec/C10.lean',
                                           'FinVerif/Props/C05a.lean', 'FinVerif/Props/C05b.lean', 'FinVerif/Props/C05c.lean'])
    C.import_financepy()
    from financepy.utils.date import Date
    from financepy.market.curves.discount_curve_flat import DiscountCurveFlat
    from financepy.market.curves.discount_curve import DiscountCurve
    from financepy.products.fx.fx_vanilla_option import FXVanillaOption, fast_delta
    from financepy.products.fx.fx_forward import FXForward
    from financepy.products.fx.fx_digital_option import FXDigitalOption
    from financepy.products.fx.fx_mkt_conventions import FinFXDeltaMethod
    from financepy.market.volatility.fx_vol_surface import solve_for_strike, g as g_obj
    from financepy.models.black_scholes import BlackScholes
    from financepy.utils.global_types import OptionTypes
    from financepy.utils.math import norminvcdf

    OT = {1: OptionTypes.EUROPEAN_CALL, 2: OptionTypes.EUROPEAN_PUT}
    DT = {5: OptionTypes.DIGITAL_CALL, 6: OptionTypes.DIGITAL_PUT}
    assert all(DT[k].value == k for k in DT)
    quick = ctx.quick()
    rng = ctx.rng('main')
    n_cases = 1800 if quick else 9000
    corr = Corr(ctx)
    rx = ctx.rng('extra')       # draws of the oracles added later (own stream: the 'main' cases stay what they were)
    cnt = {k: 0 for k in ['cip', 'par0', 'fwdval', 'parity', 'parity_nt', 'cross', 'sym', 'views', 'delta', 'delta_inf',
                          'bump', 'dates', 'texp_ne_tdel', 'fwd_reuse', 'cls_round', 'cls_noconv', 'digi']}
    METH = {1: FinFXDeltaMethod.SPOT_DELTA, 2: FinFXDeltaMethod.FORWARD_DELTA, 3: FinFXDeltaMethod.SPOT_DELTA_PREM_ADJ,
            4: FinFXDeltaMethod.FORWARD_DELTA_PREM_ADJ}
    assert all(METH[m].value == m for m in METH)

    def solve_strike(S_, t_, rd_, rf_, ty_, tg_, m_, vol_, case):
        """solve_for_strike, a raise classified exactly as in the strike section below (known solver divergence only if
        the harness's replay of the documented secant recursion on target - fast_delta does not converge either)"""
        try:
            return float(solve_for_strike(S_, t_, rd_, rf_, ty_, tg_, m_, vol_))
        except Exception as e:  # noqa: BLE001
            rep = secant_replay(lambda x: tg_ - float(fast_delta(S_, t_, x, rd_, rf_, vol_, m_, ty_)), S_)
            fnd = F_SOLVER if (m_ in (3, 4) and err_kind(e) == 'E:FinError' and rep[0] != 'converged'
                               and str(e.args[0] if e.args else e) in ('Tolerance reached', 'Failed to converge')) else None
            viol(ctx, 'solve_for_strike raised for a delta quoted by FXVanillaOption.delta at a strike within 1.2 std-devs of the forward',
                 {**case, 'method': m_, 'target': tg_, 'error': repr(e)[:200], 'secant_replay': rep[0]},
                 'strike-from-delta:defined', finding=fnd)
            return None
    PAIRS = [('EUR', 'USD'), ('USD', 'JPY'), ('GBP', 'USD'), ('AUD', 'JPY'), ('USD', 'ZAR')]

    def make_curve(vd, r, kind, rr):
        if kind == 'flat':
            return DiscountCurveFlat(vd, r)
        # pillar curve: zero rates around r (all within [-2%, 20%]), FLAT_FWD interpolation of dfs
        days = [30, 182, 365, 730, 1826, 4000]
        dts, dfs = [], []
        for dd in days:
            z = min(0.20, max(-0.02, r + rr.uniform(-0.015, 0.015)))
            dts.append(vd.add_days(dd))
            dfs.append(math.exp(-z * dd / 365.0))
        return DiscountCurve(vd, dts, np.array(dfs))

    for ci in range(n_cases):
        # ------------------------------------------------------------------ one seeded case
        pyd = datetime.date(2016, 1, 1) + datetime.timedelta(days=rng.randrange(0, 3650))
        vd = Date(pyd.day, pyd.month, pyd.year)
        u = rng.random()
        if u < 0.12:
            days = rng.choice([1, 2, 3, 4, 7, 30, 365, 3650])
        else:
            days = int(round(math.exp(rng.uniform(0.0, math.log(3650.0)))))
        days = max(1, min(3650, days))
        sd = rng.choice([0, 0, 1, 2, 2, 3])
        ed = vd.add_days(days)
        py_ed = pyd + datetime.timedelta(days=days)
        py_del = own_add_weekdays(py_ed, sd)
        py_spot = own_add_weekdays(pyd, sd)
        t_exp = days / 365.0
        t_del = ((py_del - py_spot).days) / 365.0           # option: delivery - spot date
        t_fwd = ((py_del - pyd).days) / 365.0               # FXForward.forward: delivery - value date
        S = math.exp(rng.uniform(math.log(0.005), math.log(500.0)))
        r_d, r_f = rng.uniform(-0.02, 0.20), rng.uniform(-0.02, 0.20)
        vol = math.exp(rng.uniform(math.log(0.01), math.log(1.0)))
        kind = 'flat' if rng.random() < 0.5 else 'pillar'
        dom = make_curve(vd, r_d, kind, rng)
        forc = make_curve(vd, r_f, kind, rng)
        tdc = max(t_del, 1e-10)
        dd_, fd_ = float(dom.df_t(tdc)), float(forc.df_t(tdc))
        rd_i, rf_i = -math.log(dd_) / tdc, -math.log(fd_) / tdc        # the rates the option implies
        sdv = vol * math.sqrt(t_exp)
        Fo = S * fd_ / dd_
        u = rng.random()
        if u < 0.6:
            K = Fo * math.exp(max(-8.0, min(8.0, rng.gauss(0.0, 1.2) * sdv)))
        elif u < 0.75:
            K = Fo * math.exp(max(-8.0, min(8.0, rng.uniform(-1, 1) * rng.choice([4, 8]) * sdv)))
        elif u < 0.9:
            K = S * math.exp(rng.uniform(-1.0, 1.0))
        else:
            K = rng.choice([S, Fo])
        notional = rng.choice([1.0, 1.0e6, 2.5e5])
        fccy, dccy = rng.choice(PAIRS)
        pair = fccy + dccy
        prem_is_dom = rng.random() < 0.5
        prem = dccy if prem_is_dom else fccy
        pc = DOM if prem_is_dom else FOR
        model = BlackScholes(vol)
        base = {'value_dt': str(vd), 'expiry_days': days, 'spot_days': sd, 'spot': S, 'strike': K, 'r_d': r_d, 'r_f': r_f,
                'curves': kind, 'vol': vol, 'pair': pair, 'prem_ccy': prem, 'notional': notional}
        if t_exp != tdc:
            cnt['texp_ne_tdel'] += 1

        # ------------------------------------------------------------------ dates (spot lag) as the property reads them
        opt = {ty: FXVanillaOption(ed, K, pair, OT[ty], notional, prem, sd) for ty in (1, 2)}
        cnt['dates'] += 1
        dl = opt[1].delivery_dt
        if (dl.d, dl.m, dl.y) != (py_del.day, py_del.month, py_del.year):
            viol(ctx, 'delivery date is not expiry + spot_days weekdays', {**base, 'delivery_dt': str(dl), 'expected': str(py_del)},
                 'spot-lag:delivery-date')

        # ------------------------------------------------------------------ value / delta: correspondence + oracles
        vals, dels = {}, {}
        Pn = {'s': np.array([S]), 't': np.array([t_exp]), 'k': np.array([K]), 'r': np.array([rd_i]), 'q': np.array([rf_i]),
              'v': np.array([vol])}
        ax = K5.aux({**Pn, 'ty': np.array([1])})
        ss, kk, dq = float(ax['ss'][0]), float(ax['kk'][0]), float(ax['dq'][0])
        vsc = ss + kk
        for ty in (1, 2):
            try:
                r = opt[ty].value(vd, S, dom, forc, model)
                vals[ty] = r
                impl = [float(r[k]) for k in VALUE_KEYS]
                if r['ccy_dom'] != dccy or r['ccy_for'] != fccy:
                    viol(ctx, 'value(...) reports the wrong currency names', {**base, 'ccy_dom': r['ccy_dom'], 'ccy_for': r['ccy_for']},
                         'views:currency-names')
            except Exception as e:  # noqa: BLE001
                impl = err_kind(e)
                viol(ctx, 'FXVanillaOption.value raised inside the domain', {**base, 'ty': ty, 'error': repr(e)[:200]},
                     'defined-on-domain:value')
            nd = notional if prem_is_dom else notional * K
            nf = notional / K if prem_is_dom else notional
            sc9 = [vsc, vsc * nf, vsc * nf / S, vsc, vsc / (S * K), vsc / K, vsc / S, nd, nf]
            corr.add('FXVanillaOption.value (9 keys)',
                     'val ' + fl([t_del, t_exp, S, dd_, fd_, K, notional, vol]) + f' {ty} {pc} {DOM} {FOR}', impl, sc9, base)
            try:
                r = opt[ty].delta(vd, S, dom, forc, model)
                dels[ty] = r
                impl = [float(r[k]) for k in DELTA_KEYS]
            except Exception as e:  # noqa: BLE001
                impl = err_kind(e)
                viol(ctx, 'FXVanillaOption.delta raised inside the domain', {**base, 'ty': ty, 'error': repr(e)[:200]},
                     'defined-on-domain:delta')
            dsc = [dq, dq / fd_, dq + vsc / S, (dq + vsc / S) / fd_]
            corr.add('FXVanillaOption.delta (4 keys)',
                     'delta ' + fl([t_del, t_exp, S, dd_, fd_, K, vol]) + f' {ty}', impl, dsc, base)
        if len(vals) < 2 or len(dels) < 2:
            continue

        # ---- re-use: the option objects above have just been valued under (dom, forc, model); under OTHER market data
        # (same date and spot) they must give exactly what a fresh object gives — no premium/greek carried between calls
        if ci % 3 == 0:
            model2 = BlackScholes(vol * rng.choice([0.5, 0.8, 1.3, 1.9]))
            dom2 = make_curve(vd, min(0.20, r_d + rng.choice([-0.01, 0.015])), kind, rng)
            cnt['reuse'] = cnt.get('reuse', 0) + 2
            for ty in (1, 2):
                fresh = FXVanillaOption(ed, K, pair, OT[ty], notional, prem, sd)
                try:
                    du = opt[ty].delta(vd, S, dom2, forc, model2)
                    df_ = fresh.delta(vd, S, dom2, forc, model2)
                    vu = opt[ty].value(vd, S, dom2, forc, model2)
                    vf = fresh.value(vd, S, dom2, forc, model2)
                    a = [float(du[k]) for k in DELTA_KEYS] + [float(vu[k]) for k in VALUE_KEYS]
                    b = [float(df_[k]) for k in DELTA_KEYS] + [float(vf[k]) for k in VALUE_KEYS]
                except Exception as e:  # noqa: BLE001
                    a, b = err_kind(e), None
                if a != b:
                    viol(ctx, 'a re-used FXVanillaOption (valued before under other market data) differs from a fresh object',
                         {**base, 'ty': ty, 'vol_second_call': float(model2.volatility) if hasattr(model2, 'volatility') else None,
                          'reused': a, 'fresh': b, 'keys': DELTA_KEYS + VALUE_KEYS}, 'reuse:fresh-object')

        # ---- strike re-set on an existing object: the library's own surface code (FXVolSurface / FXVolSurfacePlus
        # check_calibration and the strangle solvers) builds one call / put and assigns `strike_fx_rate` before each
        # valuation; the premium views must then be those of an option constructed with that strike (seed C10-11: the
        # notional split computed once in the constructor)
        if ci % 3 == 1:
            K2 = K * rng.choice([0.7, 0.9, 1.1, 1.6])
            cnt['reuse'] = cnt.get('reuse', 0) + 2
            for ty in (1, 2):
                moved = FXVanillaOption(ed, K, pair, OT[ty], notional, prem, sd)
                fresh = FXVanillaOption(ed, K2, pair, OT[ty], notional, prem, sd)
                try:
                    moved.value(vd, S, dom, forc, model)
                    moved.strike_fx_rate = K2
                    vu, vf = moved.value(vd, S, dom, forc, model), fresh.value(vd, S, dom, forc, model)
                    du, df_ = moved.delta(vd, S, dom, forc, model), fresh.delta(vd, S, dom, forc, model)
                    a = [float(du[k]) for k in DELTA_KEYS] + [float(vu[k]) for k in VALUE_KEYS]
                    b = [float(df_[k]) for k in DELTA_KEYS] + [float(vf[k]) for k in VALUE_KEYS]
                except Exception as e:  # noqa: BLE001
                    a, b = err_kind(e), None
                if a != b:
                    viol(ctx, 'an FXVanillaOption whose strike_fx_rate was re-assigned (as the vol-surface code does) differs from an '
                              'option constructed with that strike: premium views not converted at the current strike',
                         {**base, 'ty': ty, 'strike_at_construction': K, 'strike_assigned': K2, 'reassigned': a, 'fresh': b,
                          'keys': DELTA_KEYS + VALUE_KEYS}, 'reuse:strike-reassigned')

        # ---- premium views are one number (pure relations between the returned keys)
        for ty in (1, 2):
            r = vals[ty]
            v = float(r['v'])
            cnt['views'] += 7
            rel = [
                ('pips_dom = v', float(r['pips_dom']), v, vsc),
                ('not_dom = not_for * strike', float(r['not_dom']), float(r['not_for']) * K, float(r['not_dom'])),
                ('cash_dom = pips_dom * not_for', float(r['cash_dom']), float(r['pips_dom']) * float(r['not_for']), vsc * float(r['not_for'])),
                ('cash_for * spot = cash_dom', float(r['cash_for']) * S, float(r['cash_dom']), vsc * float(r['not_for'])),
                ('pct_dom * not_dom = cash_dom', float(r['pct_dom']) * float(r['not_dom']), float(r['cash_dom']), vsc * float(r['not_for'])),
                ('pct_for * not_for = cash_for', float(r['pct_for']) * float(r['not_for']), float(r['cash_for']), vsc * float(r['not_for']) / S),
                ('pips_for * not_dom = cash_for', float(r['pips_for']) * float(r['not_dom']), float(r['cash_for']), vsc * float(r['not_for']) / S),
            ]
            for nm, a, b, sc in rel:
                if not abs(a - b) <= 1e-12 * sc + 1e-13 * max(abs(a), abs(b)):
                    viol(ctx, f'premium views inconsistent: {nm}', {**base, 'ty': ty, 'lhs': a, 'rhs': b,
                                                                    **{k: float(r[k]) for k in VALUE_KEYS}}, f'views:{nm}')
            # the notional in the premium currency is the trade notional
            own = float(r['not_dom']) if prem_is_dom else float(r['not_for'])
            if own != notional:
                viol(ctx, 'notional in the premium currency is not the trade notional', {**base, 'ty': ty, 'reported': own},
                     'views:own-notional')

        # ---- call - put = value of the forward struck at K (own curves, at the delivery time the option itself uses)
        c_, p_ = float(vals[1]['v']), float(vals[2]['v'])
        fwd_val = S * fd_ - K * dd_
        ptol = 4e-9 * vsc
        cnt['parity'] += 1
        res = (c_ - p_) - fwd_val
        if not abs(res) <= ptol + 1e-9 * (S * fd_ + K * dd_):
            as_coded = S * math.exp(-rf_i * t_exp) - K * math.exp(-rd_i * t_exp)
            fnd = F_PARITY if (t_exp != tdc and abs((c_ - p_) - as_coded) <= ptol) else None
            viol(ctx, 'call - put != S df_for - K df_dom (value of the forward at the strike)',
                 {**base, 't_exp': t_exp, 't_del': t_del, 'call': c_, 'put': p_, 'forward_value': fwd_val, 'residual': res,
                  'as_coded(rates at t_del, time t_exp)': as_coded}, 'parity:call-put=forward', finding=fnd)
        else:
            cnt['parity_nt'] += 1

        # ---- FXForward: CIP, at par, value; cross-class parity
        try:
            fw = FXForward(ed, K, pair, 1.0, fccy, sd)
            F_impl = float(fw.forward(vd, S, dom, forc))
            tfc = max(t_fwd, 1e-10)
            ffw, dfw = float(forc.df_t(tfc)), float(dom.df_t(tfc))
            F_spec = S * ffw / dfw
            cnt['cip'] += 1
            corr.add('FXForward.forward', 'fwd ' + fl([t_fwd, S, ffw, dfw]), [F_impl], [F_spec], base)
            if not abs(F_impl - F_spec) <= 1e-12 * F_spec:
                viol(ctx, 'forward != spot * df_for / df_dom at the delivery date (covered interest parity)',
                     {**base, 'forward': F_impl, 'cip': F_spec, 'df_for': ffw, 'df_dom': dfw, 't_delivery': t_fwd}, 'cip:forward')
            dex = float(dom.df_t(max(t_exp, 1e-10)))
            for ncur, ncode in ((fccy, FOR), (dccy, DOM)):
                nn = rng.choice([1.0, 1.0e6])
                fwk = FXForward(ed, K, pair, nn, ncur, sd)
                rv = fwk.value(vd, S, dom, forc)
                impl = [float(rv[k]) for k in FWD_KEYS]
                nd = nn if ncode == DOM else nn * K
                nf = nn / K if ncode == DOM else nn
                fsc = dex * (F_spec + K) * nf
                corr.add('FXForward.value (5 keys)', 'fwdval ' + fl([t_exp, S, dex, t_fwd, ffw, dfw, K, nn]) + f' {ncode} {DOM} {FOR}',
                         impl, [fsc, fsc * nd / K, fsc * nf / S, nd, nf], base)
                cnt['fwdval'] += 2
                spec_v = nf * dex * (F_spec - K)           # DOM value of the contract on nf units of FOR
                fcase = {**base, 'notional_ccy': ncur, 'fwd_notional': nn, 'value': impl[0], 'cash_dom': impl[1], 'cash_for': impl[2],
                         'spec_value(not_for*df*(F-K))': spec_v}
                vt = 1e-10 * dex * (F_spec + K) * nf
                if not abs(impl[0] - spec_v) <= vt:
                    viol(ctx, 'FXForward.value != notional_for * df_dom * (F - K)', fcase, 'forward:value')
                # the cash views of the value: cash_dom = value, cash_for = value / spot
                if not (abs(impl[1] - impl[0]) <= 1e-10 * abs(impl[0]) + vt and abs(impl[2] * S - impl[0]) <= 1e-10 * abs(impl[0]) + vt):
                    fnd = F_CASH if (abs(impl[1] - impl[0] * nd / K) <= 1e-9 * abs(impl[1]) + vt
                                     and abs(impl[2] - impl[0] * nf / S) <= 1e-9 * abs(impl[2]) + vt / S) else None
                    viol(ctx, 'FXForward.value: cash_dom / cash_for are not the value in DOM / FOR cash', fcase, 'forward:cash',
                         finding=fnd)
                # struck at the forward: worth zero (value and cash), both notional currencies
                fw0 = FXForward(ed, F_impl, pair, nn, ncur, sd)
                r0 = fw0.value(vd, S, dom, forc)
                cnt['par0'] += 1
                z = max(abs(float(r0['value'])), abs(float(r0['cash_dom'])), abs(float(r0['cash_for'])))
                if not z <= 1e-12 * nn * nn * (1 + F_impl) * (1 + 1 / S):
                    viol(ctx, 'forward struck at the forward rate is not worth zero',
                         {**base, 'notional_ccy': ncur, 'strike=forward': F_impl, **{k: float(r0[k]) for k in FWD_KEYS}}, 'forward:at-par-zero')
            # cross-class: option call - put vs FXForward.value at the strike (unit FOR notional)
            fv1 = float(fw.value(vd, S, dom, forc)['value'])
            cnt['cross'] += 1
            if not abs((c_ - p_) - fv1) <= ptol + 1e-9 * (S * fd_ + K * dd_):
                fnd = None
                if sd > 0 and (t_fwd != tdc or t_exp != tdc):
                    fnd = F_LAG
                elif t_exp != tdc:
                    fnd = F_PARITY
                viol(ctx, 'call - put != FXForward(strike).value (unit foreign notional)',
                     {**base, 'call': c_, 'put': p_, 'FXForward.value': fv1, 't_exp': t_exp, 't_del(option)': t_del,
                      't_delivery(forward)': t_fwd}, 'parity:cross-class', finding=fnd)
            # ---- re-use of an FXForward: `fw` has just answered under (dom, forc); under OTHER curves at the SAME valuation
            # date and spot it must obey CIP with THOSE curves and give what a fresh object gives, and asked again under the
            # first curves it must repeat its first answer (nothing may be carried between calls)
            if ci % 3 == 0:
                dom3 = make_curve(vd, max(-0.02, min(0.20, r_d + rx.choice([-0.012, 0.017]))), kind, rx)
                for3 = make_curve(vd, max(-0.02, min(0.20, r_f + rx.choice([-0.015, 0.011]))), kind, rx)
                cnt['fwd_reuse'] += 3
                F3 = float(fw.forward(vd, S, dom3, for3))
                F3_spec = S * float(for3.df_t(tfc)) / float(dom3.df_t(tfc))
                v3 = [float(fw.value(vd, S, dom3, for3)[k]) for k in FWD_KEYS]
                fresh = FXForward(ed, K, pair, 1.0, fccy, sd)
                f3 = [float(fresh.value(vd, S, dom3, for3)[k]) for k in FWD_KEYS]
                rcase = {**base, 'second_r_d': float(-math.log(float(dom3.df_t(1.0)))), 'second_r_f': float(-math.log(float(for3.df_t(1.0)))),
                         'forward_first_curves': F_impl, 'forward_second_curves': F3, 'cip_second_curves': F3_spec}
                if not abs(F3 - F3_spec) <= 1e-12 * F3_spec:
                    viol(ctx, 'a re-used FXForward asked under other curves (same date) does not return spot * df_for / df_dom of THOSE curves',
                         rcase, 'reuse:forward-cip')
                if v3 != f3:
                    viol(ctx, 'a re-used FXForward valued under other curves (same date) differs from a fresh object',
                         {**rcase, 'reused': v3, 'fresh': f3, 'keys': FWD_KEYS}, 'reuse:forward-fresh-object')
                F1b = float(fw.forward(vd, S, dom, forc))
                if F1b != F_impl:
                    viol(ctx, 'FXForward.forward asked again under the first curves does not repeat its first answer',
                         {**rcase, 'forward_first_curves_again': F1b}, 'reuse:forward-repeat')
        except Exception as e:  # noqa: BLE001
            viol(ctx, 'FXForward raised inside the domain', {**base, 'error': repr(e)[:200]}, 'defined-on-domain:forward')

        # ---- FOR/DOM symmetry: DOM/FOR put at (1/S, 1/K), curves exchanged
        try:
            rec = FXVanillaOption(ed, 1.0 / K, dccy + fccy, OT[2], notional, rng.choice([dccy, fccy]), sd)
            pr = float(rec.value(vd, 1.0 / S, forc, dom, model)['v'])
            cnt['sym'] += 1
            if not abs(c_ - S * K * pr) <= 1e-9 * vsc + 1e-9 * abs(c_):
                viol(ctx, 'FOR/DOM symmetry: call(S,K,dom,for) != S*K*put(1/S,1/K,for,dom)',
                     {**base, 'call': c_, 'reciprocal_put': pr, 'S*K*put': S * K * pr}, 'symmetry:for-dom')
            rec2 = FXVanillaOption(ed, 1.0 / K, dccy + fccy, OT[1], notional, dccy, sd)
            cr = float(rec2.value(vd, 1.0 / S, forc, dom, model)['v'])
            if not abs(p_ - S * K * cr) <= 1e-9 * vsc + 1e-9 * abs(p_):
                viol(ctx, 'FOR/DOM symmetry: put(S,K,dom,for) != S*K*call(1/S,1/K,for,dom)',
                     {**base, 'put': p_, 'reciprocal_call': cr, 'S*K*call': S * K * cr}, 'symmetry:for-dom')
        except Exception as e:  # noqa: BLE001
            viol(ctx, 'reciprocal option raised inside the domain', {**base, 'error': repr(e)[:200]}, 'defined-on-domain:reciprocal')

        # ---- deltas = bump derivatives of the reported value (central differences, per-point tolerance)
        h = S * 1e-3 * min(1.0, sdv)
        for ty in (1, 2):
            Pt = {**Pn, 'ty': np.array([ty])}
            xs = [S + h, S - h, S + 2 * h, S - 2 * h]
            try:
                vv = [float(opt[ty].value(vd, x, dom, forc, model)['v']) for x in xs]
            except Exception as e:  # noqa: BLE001
                viol(ctx, 'value raised at a bumped spot', {**base, 'ty': ty, 'error': repr(e)[:200]}, 'defined-on-domain:value')
                continue
            n1 = float(K5.value_noise(K5.bump(Pt, 's', h), K5.bump(Pt, 's', -h))[0])
            n2 = float(K5.value_noise(K5.bump(Pt, 's', 2 * h), K5.bump(Pt, 's', -2 * h))[0])
            dV1, dV2 = (vv[0] - vv[1]) / (2 * h), (vv[2] - vv[3]) / (4 * h)
            errV = 1.5 * n1 / (2 * h) + n2 / (4 * h) + 2.0 * abs(dV1 - dV2)
            w = [vv[i] / xs[i] for i in range(4)]
            dW1, dW2 = (w[0] - w[1]) / (2 * h), (w[2] - w[3]) / (4 * h)
            errW = (1.5 * n1 / (2 * h) + n2 / (4 * h)) / (S - 2 * h) + 2.0 * abs(dW1 - dW2)
            d = dels[ty]
            checks = [
                ('pips_spot_delta', float(d['pips_spot_delta']), dV1, errV + 1.2 * E0 * dq, 'dV/dS'),
                ('pips_fwd_delta', float(d['pips_fwd_delta']), dV1 / fd_, (errV + 1.2 * E0 * dq) / fd_, '(dV/dS)/df_for'),
                ('pct_spot_delta_prem_adj', float(d['pct_spot_delta_prem_adj']), S * dW1, S * errW + 1.2 * E0 * (dq + vsc / S), 'S d(V/S)/dS'),
                ('pct_fwd_delta_prem_adj', float(d['pct_fwd_delta_prem_adj']), S * dW1 / fd_,
                 (S * errW + 1.2 * E0 * (dq + vsc / S)) / fd_, 'S d(V/S)/dS / df_for'),
            ]
            for nm, got, ref, tol, meaning in checks:
                tol = tol + 1e-9 * abs(got)
                cnt['delta'] += 1
                if tol < 1e-2 * (abs(ref) + 1e-300):
                    cnt['delta_inf'] += 1
                if not abs(got - ref) <= tol:
                    viol(ctx, f'{nm} is not {meaning} of the reported value (central difference)',
                         {**base, 'ty': ty, nm: got, 'bump_derivative': ref, 'tol': tol, 'h': h, 'df_for(t_del)': fd_},
                         f'delta=bump:{nm}')
            # the library's own delta_bump (forward difference, bump = 1e-4 x spot) against (a) the same difference quotient
            # formed by the harness from the reported values, (b) the analytic pips spot delta, (c) the harness's central difference
            cnt['bump'] += 3
            try:
                db = float(opt[ty].delta_bump(vd, S, dom, forc, model))
            except Exception as e:  # noqa: BLE001   (was the known finding C10/delta-bump-keyerror; fixed in /repo 3de63ed)
                viol(ctx, 'FXVanillaOption.delta_bump raises', {**base, 'ty': ty, 'error': repr(e)[:200]},
                     'delta=bump:delta_bump-defined')
                continue
            bsz = 0.0001 * S
            v0 = float(vals[ty]['v'])
            v1 = float(opt[ty].value(vd, S + bsz, dom, forc, model)['v'])
            own_fd = (v1 - v0) / bsz
            bcase = {**base, 'ty': ty, 'delta_bump': db, 'own_forward_difference': own_fd,
                     'pips_spot_delta': float(d['pips_spot_delta']), 'central_difference': dV1}
            if not abs(db - own_fd) <= 1e-9 * abs(own_fd) + 1e-13 * vsc / bsz:
                viol(ctx, 'delta_bump is not (v(S + 1e-4 S) - v(S)) / (1e-4 S) of the reported value', bcase,
                     'delta=bump:delta_bump=own-difference')
            nb = float(K5.value_noise(K5.bump(Pt, 's', bsz), Pt)[0]) / bsz
            gam = abs(dV1 - dV2) / h + 2.0 * dq / (S * max(sdv, 1e-3))       # bound on |gamma| near S (phi(d1) <= 0.4)
            tolb = gam * bsz + nb + 1.2 * E0 * dq + 1e-9
            if not abs(db - float(d['pips_spot_delta'])) <= tolb:
                viol(ctx, 'delta_bump differs from pips_spot_delta beyond the forward-difference error', {**bcase, 'tol': tolb},
                     'delta=bump:delta_bump=pips_spot_delta')
            if not abs(db - dV1) <= tolb + errV:
                viol(ctx, 'delta_bump differs from the central difference of the reported value', {**bcase, 'tol': tolb + errV},
                     'delta=bump:delta_bump=central')

        # ---- gamma / vega / theta of the class (inline closed forms: ONE time t_exp, rates implied at max(t_exp, 1e-10)) and
        # the FX digital: correspondence with the generated kernels; digital cash call + put = notional x df (DOM premium)
        if ci % 2 == 0:
            tec = max(t_exp, 1e-10)
            dde, fde = float(dom.df_t(tec)), float(forc.df_t(tec))
            rde, rfe = -math.log(dde) / tec, -math.log(fde) / tec
            sse, kke = S * math.exp(-rfe * tec), K * math.exp(-rde * tec)
            we = max(vol, 1e-10) * math.sqrt(tec)
            for nm, sc in (('gamma', 0.4 * sse / (S * S * we)), ('vega', 0.4 * sse * math.sqrt(tec))):
                try:
                    impl = [float(getattr(opt[1], nm)(vd, S, dom, forc, model))]
                except Exception as e:  # noqa: BLE001
                    impl = err_kind(e)
                    viol(ctx, f'FXVanillaOption.{nm} raised inside the domain', {**base, 'error': repr(e)[:200]}, f'defined-on-domain:{nm}')
                corr.add(f'FXVanillaOption.{nm}', f'{nm} ' + fl([t_exp, S, dde, fde, K, vol]), impl, [sc], base)
            for ty in (1, 2):
                try:
                    impl = [float(opt[ty].theta(vd, S, dom, forc, model))]
                except Exception as e:  # noqa: BLE001
                    impl = err_kind(e)
                    viol(ctx, 'FXVanillaOption.theta raised inside the domain', {**base, 'ty': ty, 'error': repr(e)[:200]}, 'defined-on-domain:theta')
                corr.add('FXVanillaOption.theta', 'theta ' + fl([t_exp, S, dde, fde, K, vol]) + f' {ty}', impl,
                         [(sse + kke) * (max(vol, 1e-10) / math.sqrt(tec) + abs(rde) + abs(rfe))], base)
            dg = {}
            for dty in (5, 6):
                try:
                    dopt = FXDigitalOption(ed, K, pair, DT[dty], notional, prem, sd)
                    dg[dty] = float(dopt.value(vd, S, dom, forc, model))
                    impl = [dg[dty]]
                except Exception as e:  # noqa: BLE001
                    impl = err_kind(e)
                    viol(ctx, 'FXDigitalOption.value raised inside the domain', {**base, 'digital_type': dty, 'error': repr(e)[:200]},
                         'defined-on-domain:digital')
                corr.add('FXDigitalOption.value', 'digi ' + fl([t_del, t_exp, S, dd_, fd_, K, notional, vol]) + f' {dty} {pc} {DOM} {FOR}',
                         impl, [notional * (dd_ if prem_is_dom else S * fd_)], base)
            if len(dg) == 2:
                cnt['digi'] += 1
                unit = notional * (dd_ if prem_is_dom else S * fd_)
                if not abs(dg[5] + dg[6] - unit) <= 4e-9 * unit:
                    viol(ctx, 'FX digital call + digital put != notional x discounted unit of the premium currency',
                         {**base, 'digital_call': dg[5], 'digital_put': dg[6], 'expected_sum': unit}, 'digital:call+put=df')

        # ---- strike from a delta QUOTED BY THE CLASS returns that delta (all four conventions): the delta dictionary of
        # FXVanillaOption.delta is the definition, solve_for_strike the inverse, the class again the check.  Only where the
        # option time is the delivery time (then the class's forward conventions are the solver's, Props/C10e) and in the
        # region where the secant postcondition of the strike section was calibrated.
        if ci % 4 == 1 and t_exp == tdc and 0.02 <= vol <= 0.6 and t_exp >= 2.0 / 365 and abs(math.log(K / Fo)) <= 1.2 * sdv:
            for ty in (1, 2):
                for m in (1, 2, 3, 4):
                    tg = float(dels[ty][DELTA_KEYS[m - 1]])
                    if not (1e-3 * math.exp(-rf_i * t_exp) < abs(tg)):
                        continue
                    if m in (1, 2):
                        arg = tg * (1 if ty == 1 else -1) / (math.exp(-rf_i * t_exp) if m == 1 else 1.0)
                        if not (1e-6 < arg < 1 - 1e-6):
                            continue
                    rc_case = {**base, 'ty': ty, 'r_d(implied)': rd_i, 'r_f(implied)': rf_i, 't': t_exp}
                    Ks = solve_strike(S, t_exp, rd_i, rf_i, ty, tg, m, vol, rc_case)
                    if Ks is None:
                        cnt['cls_noconv'] += 1
                        continue
                    cnt['cls_round'] += 1
                    if m in (1, 2):
                        tol = (2.5 * E0 + 3e-9) * math.exp(-rf_i * t_exp) * (math.exp(rf_i * t_exp) if m == 2 else 1.0)
                    else:
                        hk = abs(Ks) * 1e-5
                        slope = abs(float(fast_delta(S, t_exp, Ks + hk, rd_i, rf_i, vol, m, ty))
                                    - float(fast_delta(S, t_exp, Ks - hk, rd_i, rf_i, vol, m, ty))) / (2 * hk) if hk > 0 else 0.0
                        tol = 3e-7 * slope + 2.5 * E0 * (1 + math.exp(rf_i * t_exp)) + 1e-9
                    back = None
                    if Ks > 0:
                        try:
                            o2 = FXVanillaOption(ed, Ks, pair, OT[ty], notional, prem, sd)
                            back = float(o2.delta(vd, S, dom, forc, model)[DELTA_KEYS[m - 1]])
                        except Exception as e:  # noqa: BLE001
                            back = repr(e)[:120]
                    if not (isinstance(back, float) and abs(back - tg) <= tol + 1e-9 * abs(tg)):
                        viol(ctx, 'strike solved from a delta quoted by FXVanillaOption.delta does not return that delta '
                                  '(FXVanillaOption.delta at the solved strike)',
                             {**rc_case, 'method': m, 'key': DELTA_KEYS[m - 1], 'target_delta': tg, 'solved_strike': Ks,
                              'class_delta_at_solved_strike': back, 'tol': tol}, f'strike-from-delta:class-method{m}')

    ctx.count('O:delivery date = expiry + spot-day lag (own weekday arithmetic)', cnt['dates'], sample={'cases': n_cases})
    ctx.count('O:premium views are one number', cnt['views'])
    ctx.count('O:call - put = forward value (own curves)', cnt['parity'], cnt['parity_nt'],
              sample={'cases_with_t_exp != t_del': cnt['texp_ne_tdel']})
    ctx.count('O:CIP forward; forward value / cash; forward at par = 0', cnt['cip'] + cnt['fwdval'] + cnt['par0'])
    ctx.count('O:call - put = FXForward.value (cross-class)', cnt['cross'])
    ctx.count('O:FOR/DOM symmetry through the reciprocal option', 2 * cnt['sym'])
    ctx.count('O:deltas = central-difference derivatives', cnt['delta'], cnt['delta_inf'])
    ctx.count('O:delta_bump', cnt['bump'])
    ctx.count('O:re-used FXForward under other curves (CIP, fresh object, repeat)', cnt['fwd_reuse'])
    ctx.count('O:strike from a class-quoted delta returns it through FXVanillaOption.delta (4 conventions)', cnt['cls_round'],
              sample={'solver_raised_no_convergence': cnt['cls_noconv']})
    ctx.count('O:FX digital call + put = discounted unit', cnt['digi'])

    # ====================================================================== degenerate corners of the quantifier: zero /
    # tiny volatility (BlackScholes(0.0) is accepted by the library) and expiry = valuation date / next day.  As coded there
    # is no separate branch (Props/C10g: vanilla_value_vol_below_clamp, vanilla_value_time_below_clamp); the limit of the
    # closed form as vol -> 0 is the DISCOUNTED FORWARD intrinsic max(+-(S df_for - K df_dom), 0)
    # (zero_vol_limit_is_forward_value_intrinsic), not the spot intrinsic.  Oracles: defined and finite, correspondence,
    # call - put = forward value (own curves and through FXForward), value within the time-value bound of the discounted
    # forward intrinsic, FOR/DOM symmetry.
    rz = ctx.rng('degenerate')
    n_z = 300 if quick else 1500
    cz = {k: 0 for k in ['cases', 'parity', 'intrinsic', 'cross', 'sym', 'finite', 'vol0', 'today']}
    for zi in range(n_z):
        pyd = datetime.date(2016, 1, 1) + datetime.timedelta(days=rz.randrange(0, 3650))
        vd = Date(pyd.day, pyd.month, pyd.year)
        days = rz.choice([0, 0, 1, 1, 2, 7, 30, 182, 365, 1826, 3650])
        if days <= 1 and rz.random() < 0.35:
            vol = math.exp(rz.uniform(math.log(0.01), math.log(1.0)))        # ordinary volatility, expiry today / tomorrow
        else:
            vol = rz.choice([0.0, 0.0, 1e-12, 1e-6, 1e-4])
        sd = rz.choice([0, 0, 1, 2, 3])
        ed = vd.add_days(days)
        py_ed = pyd + datetime.timedelta(days=days)
        py_del = own_add_weekdays(py_ed, sd)
        py_spot = own_add_weekdays(pyd, sd)
        t_exp = days / 365.0
        t_del = ((py_del - py_spot).days) / 365.0
        t_fwd = ((py_del - pyd).days) / 365.0
        S = math.exp(rz.uniform(math.log(0.005), math.log(500.0)))
        r_d, r_f = rz.uniform(-0.02, 0.20), rz.uniform(-0.02, 0.20)
        kind = 'flat' if rz.random() < 0.5 else 'pillar'
        dom = make_curve(vd, r_d, kind, rz)
        forc = make_curve(vd, r_f, kind, rz)
        tdc = max(t_del, 1e-10)
        dd_, fd_ = float(dom.df_t(tdc)), float(forc.df_t(tdc))
        rd_i, rf_i = -math.log(dd_) / tdc, -math.log(fd_) / tdc
        Fo = S * fd_ / dd_
        u = rz.random()
        if u < 0.55:
            K = Fo * math.exp(rz.uniform(-0.5, 0.5))
        elif u < 0.70:
            K = Fo
        elif u < 0.80:
            K = S
        elif u < 0.90:
            K = Fo * (1.0 + rz.choice([-1, 1]) * rz.choice([1e-12, 1e-9, 1e-6]))
        else:
            K = S * (1.0 + rz.choice([-1, 1]) * rz.choice([1e-9, 1e-4]))
        notional = rz.choice([1.0, 1.0e6])
        fccy, dccy = rz.choice(PAIRS)
        pair = fccy + dccy
        prem_is_dom = rz.random() < 0.5
        prem = dccy if prem_is_dom else fccy
        pc = DOM if prem_is_dom else FOR
        model = BlackScholes(vol)
        base = {'value_dt': str(vd), 'expiry_days': days, 'spot_days': sd, 'spot': S, 'strike': K, 'r_d': r_d, 'r_f': r_f,
                'curves': kind, 'vol': vol, 'pair': pair, 'prem_ccy': prem, 'notional': notional, 't_exp': t_exp, 't_del': t_del}
        cz['cases'] += 1
        cz['vol0'] += (vol == 0.0)
        cz['today'] += (days == 0)
        a_, b_ = S * fd_, K * dd_                                # the discounted legs at the option's own delivery time
        vsc = a_ + b_
        vals, dels = {}, {}
        for ty in (1, 2):
            try:
                o = FXVanillaOption(ed, K, pair, OT[ty], notional, prem, sd)
                r = o.value(vd, S, dom, forc, model)
                vals[ty] = r
                impl = [float(r[k]) for k in VALUE_KEYS]
            except Exception as e:  # noqa: BLE001
                impl = err_kind(e)
                viol(ctx, 'FXVanillaOption.value raised at zero / tiny volatility or expiry = valuation date',
                     {**base, 'ty': ty, 'error': repr(e)[:200]}, 'defined-on-domain:value-degenerate')
            nd = notional if prem_is_dom else notional * K
            nf = notional / K if prem_is_dom else notional
            corr.add('FXVanillaOption.value (9 keys), zero vol / zero time',
                     'val ' + fl([t_del, t_exp, S, dd_, fd_, K, notional, vol]) + f' {ty} {pc} {DOM} {FOR}', impl,
                     [vsc, vsc * nf, vsc * nf / S, vsc, vsc / (S * K), vsc / K, vsc / S, nd, nf], base)
            try:
                r = o.delta(vd, S, dom, forc, model)
                dels[ty] = r
                impl = [float(r[k]) for k in DELTA_KEYS]
            except Exception as e:  # noqa: BLE001
                impl = err_kind(e)
                viol(ctx, 'FXVanillaOption.delta raised at zero / tiny volatility or expiry = valuation date',
                     {**base, 'ty': ty, 'error': repr(e)[:200]}, 'defined-on-domain:delta-degenerate')
            dq = math.exp(-rf_i * max(t_exp, 1e-12))
            corr.add('FXVanillaOption.delta (4 keys), zero vol / zero time',
                     'delta ' + fl([t_del, t_exp, S, dd_, fd_, K, vol]) + f' {ty}', impl,
                     [dq, dq / fd_, dq + vsc / S, (dq + vsc / S) / fd_], base)
        if len(vals) < 2 or len(dels) < 2:
            continue
        # every reported number is finite (no division by a zero total volatility, no NaN delta)
        cz['finite'] += 1
        bad = [(ty, k) for ty in (1, 2) for k in VALUE_KEYS if not math.isfinite(float(vals[ty][k]))] \
            + [(ty, k) for ty in (1, 2) for k in DELTA_KEYS if not math.isfinite(float(dels[ty][k]))]
        if bad:
            viol(ctx, 'value / delta reports a non-finite number at zero / tiny volatility or expiry = valuation date',
                 {**base, 'non_finite_keys': bad[:6]}, 'defined-on-domain:finite-degenerate')
            continue
        c_, p_ = float(vals[1]['v']), float(vals[2]['v'])
        as_a, as_b = S * math.exp(-rf_i * max(t_exp, 1e-12)), K * math.exp(-rd_i * max(t_exp, 1e-12))   # the legs as coded
        ptol = 4e-9 * vsc + 1e-9 * vsc
        # call - put = value of the forward at the strike (own curves)
        cz['parity'] += 1
        res = (c_ - p_) - (a_ - b_)
        if not abs(res) <= ptol:
            fnd = F_PARITY if (t_exp != tdc and abs((c_ - p_) - (as_a - as_b)) <= ptol) else None
            viol(ctx, 'call - put != S df_for - K df_dom (value of the forward at the strike) at zero / tiny volatility',
                 {**base, 'call': c_, 'put': p_, 'forward_value': a_ - b_, 'residual': res, 'as_coded(rates at t_del, time t_exp)': as_a - as_b},
                 'parity:call-put=forward', finding=fnd)
        # value -> discounted forward intrinsic as the total volatility -> 0: time value <= 0.4 w min(a, b) (attained at the
        # money forward), w = max(vol, 1e-10) sqrt(max(t_exp, 1e-12)) as coded
        w_ = max(vol, 1e-10) * math.sqrt(max(t_exp, 1e-12))
        for ty, got in ((1, c_), (2, p_)):
            sgn = 1.0 if ty == 1 else -1.0
            intr = max(sgn * (a_ - b_), 0.0)
            itol = 0.4 * w_ * min(a_, b_) + ptol
            cz['intrinsic'] += 1
            if not abs(got - intr) <= itol:
                intr_c = max(sgn * (as_a - as_b), 0.0)
                fnd = F_PARITY if (t_exp != tdc and abs(got - intr_c) <= 0.4 * w_ * min(as_a, as_b) + ptol) else None
                viol(ctx, 'value at (near-)zero total volatility is not the discounted forward intrinsic max(+-(S df_for - K df_dom), 0) '
                          'within the time-value bound',
                     {**base, 'ty': ty, 'value': got, 'discounted_forward_intrinsic': intr, 'spot_intrinsic': max(sgn * (S - K), 0.0),
                      'time_value_bound': itol, 'total_vol': w_, 'as_coded_intrinsic(rates at t_del, time t_exp)': intr_c},
                     'zero-vol:value=discounted-forward-intrinsic', finding=fnd)
        # cross-class: FXForward struck at K (unit foreign notional)
        try:
            fw = FXForward(ed, K, pair, 1.0, fccy, sd)
            fv1 = float(fw.value(vd, S, dom, forc)['value'])
            cz['cross'] += 1
            if not abs((c_ - p_) - fv1) <= ptol:
                fnd = None
                if sd > 0 and (t_fwd != tdc or t_exp != tdc):
                    fnd = F_LAG
                elif t_exp != tdc:
                    fnd = F_PARITY
                viol(ctx, 'call - put != FXForward(strike).value (unit foreign notional) at zero / tiny volatility',
                     {**base, 'call': c_, 'put': p_, 'FXForward.value': fv1, 't_delivery(forward)': t_fwd}, 'parity:cross-class',
                     finding=fnd)
        except Exception as e:  # noqa: BLE001
            viol(ctx, 'FXForward raised inside the domain', {**base, 'error': repr(e)[:200]}, 'defined-on-domain:forward')
        # FOR/DOM symmetry
        try:
            rec = FXVanillaOption(ed, 1.0 / K, dccy + fccy, OT[2], notional, dccy, sd)
            pr = float(rec.value(vd, 1.0 / S, forc, dom, model)['v'])
            cz['sym'] += 1
            if not abs(c_ - S * K * pr) <= 1e-9 * vsc + 1e-9 * abs(c_):
                viol(ctx, 'FOR/DOM symmetry at zero / tiny volatility: call(S,K,dom,for) != S*K*put(1/S,1/K,for,dom)',
                     {**base, 'call': c_, 'reciprocal_put': pr, 'S*K*put': S * K * pr}, 'symmetry:for-dom')
        except Exception as e:  # noqa: BLE001
            viol(ctx, 'reciprocal option raised inside the domain', {**base, 'error': repr(e)[:200]}, 'defined-on-domain:reciprocal')
    ctx.count('O:zero / tiny volatility and expiry = valuation date: defined, parity, forward intrinsic, cross-class, symmetry',
              cz['finite'] + cz['parity'] + cz['intrinsic'] + cz['cross'] + cz['sym'], cz['intrinsic'],
              sample={'cases': cz['cases'], 'vol_exactly_0': cz['vol0'], 'expiry=valuation_date': cz['today']})

    # ====================================================================== fast_delta, g, solve_for_strike, norminvcdf
    rs = ctx.rng('strike')
    n_s = 1200 if quick else 6000
    METH = {1: FinFXDeltaMethod.SPOT_DELTA, 2: FinFXDeltaMethod.FORWARD_DELTA, 3: FinFXDeltaMethod.SPOT_DELTA_PREM_ADJ,
            4: FinFXDeltaMethod.FORWARD_DELTA_PREM_ADJ}
    assert all(METH[m].value == m for m in METH)
    n_round, n_post_bad, n_noconv = 0, 0, 0
    for i in range(n_s):
        S = math.exp(rs.uniform(math.log(0.01), math.log(300.0)))
        t = math.exp(rs.uniform(math.log(2.0 / 365), math.log(10.0)))
        rd, rf = rs.uniform(-0.02, 0.20), rs.uniform(-0.02, 0.20)
        vol = math.exp(rs.uniform(math.log(0.02), math.log(0.6)))
        w = vol * math.sqrt(t)
        F = S * math.exp((rd - rf) * t)
        ty = rs.choice([1, 2])
        K0 = F * math.exp(rs.uniform(-1.2, 1.2) * w)
        base = {'spot': S, 't': t, 'r_d': rd, 'r_f': rf, 'vol': vol, 'ty': ty}
        # correspondence of fast_delta (module) for the 4 conventions + an unknown one, and the class method's dictionary
        fd = {}
        for m in (1, 2, 3, 4):
            fd[m] = float(fast_delta(S, t, K0, rd, rf, vol, m, ty))
            corr.add('fast_delta (module)', 'fast ' + fl([S, t, K0, rd, rf, vol]) + f' {m} {ty}', [fd[m]],
                     [math.exp(-rf * t) * (1 + math.exp(rf * t)) * (1 + K0 / S)], base)
        if i < 40:
            try:
                x = [float(fast_delta(S, t, K0, rd, rf, vol, 9, ty))]
            except Exception as e:  # noqa: BLE001
                x = err_kind(e)
            corr.add('fast_delta (module)', 'fast ' + fl([S, t, K0, rd, rf, vol]) + f' 9 {ty}', x, [1.0], base)
        o = FXVanillaOption(Date(15, 6, 2027), K0, 'EURUSD', OT[ty], 1.0, 'USD', 0)
        dct = o.fast_delta(t, S, rd, rf, vol)
        impl = [float(dct[k]) for k in DELTA_KEYS]
        corr.add('FXVanillaOption.fast_delta (4 keys)', 'fastdict ' + fl([t, S, rd, rf, vol, K0]) + f' {ty}', impl,
                 [1 + math.exp(rf * t)] * 4, base)
        for m in (1, 2, 3, 4):
            if not abs(impl[m - 1] - fd[m]) <= 1e-12 * (1 + abs(fd[m])):
                viol(ctx, 'module fast_delta and FXVanillaOption.fast_delta disagree', {**base, 'K': K0, 'method': m,
                     'module': fd[m], 'method_dict': impl[m - 1]}, 'fast-delta:module=method')
        # strike from delta: target = the delta of a real strike, then solve and re-evaluate
        for m in (1, 2, 3, 4):
            tg = fd[m]
            if not (1e-3 * math.exp(-rf * t) < abs(tg)):
                continue
            if m in (1, 2):
                arg = tg * (1 if ty == 1 else -1) / (math.exp(-rf * t) if m == 1 else 1.0)
                if not (1e-6 < arg < 1 - 1e-6):
                    continue
            try:
                Ks = float(solve_for_strike(S, t, rd, rf, ty, tg, m, vol))
            except Exception as e:  # noqa: BLE001
                # narrow classifier of the known solver defect: the documented secant recursion from x0 = spot, replayed by
                # the harness on the objective the property defines (target - fast_delta, NOT the library's g), does not
                # converge either (it leaves the region where the delta moves); any other exception, or a raise where the
                # replay converges, is a VIOLATION
                n_noconv += 1
                rep = secant_replay(lambda x: tg - float(fast_delta(S, t, x, rd, rf, vol, m, ty)), S)
                fnd = F_SOLVER if (m in (3, 4) and err_kind(e) == 'E:FinError' and rep[0] != 'converged'
                                   and str(e.args[0] if e.args else e) in ('Tolerance reached', 'Failed to converge')) else None
                viol(ctx, 'solve_for_strike raised for a delta attained by a strike within 1.2 std-devs of the forward',
                     {**base, 'method': m, 'target': tg, 'K0': K0, 'error': repr(e)[:200], 'secant_replay': rep[0],
                      'start_std_devs_from_forward': math.log(S / F) / w}, 'strike-from-delta:defined', finding=fnd)
                continue
            corr.add('solve_for_strike', 'strike ' + fl([S, t, rd, rf, tg, vol, Ks]) + f' {ty} {m}', [Ks], [K0], base)
            gk = float(g_obj(Ks, S, t, rd, rf, vol, m, ty, tg))
            corr.add('strike objective g', 'gobj ' + fl([Ks, S, t, rd, rf, vol, tg]) + f' {m} {ty}', [gk], [1 + abs(tg)], base)
            back = float(fast_delta(S, t, Ks, rd, rf, vol, m, ty))
            n_round += 1
            if m in (1, 2):
                # N(norminvcdf(p)) = p up to the accuracy of the two approximations (Hull N 7.5e-8, Acklam 1.2e-9 relative)
                tol = (2.5 * E0 + 3e-9) * math.exp(-rf * t) * (math.exp(rf * t) if m == 2 else 1.0)
            else:
                # solver postcondition as coded: secant step < 1e-7 in strike => |g| <= slope * 1e-7 (+ N noise)
                hk = Ks * 1e-5
                slope = abs(float(fast_delta(S, t, Ks + hk, rd, rf, vol, m, ty)) - float(fast_delta(S, t, Ks - hk, rd, rf, vol, m, ty))) / (2 * hk)
                tol = 3e-7 * slope + 2.5 * E0 * (1 + math.exp(rf * t)) + 1e-9
                if not abs(gk) <= tol:
                    n_post_bad += 1
            if not (Ks > 0 and abs(back - tg) <= tol):
                viol(ctx, 'strike solved from a delta does not return that delta',
                     {**base, 'method': m, 'target_delta': tg, 'solved_strike': Ks, 'delta_at_solved_strike': back, 'tol': tol,
                      'K0': K0}, f'strike-from-delta:method{m}')
    xs = [rs.random() for _ in range(300)] + [0.0, 1.0, 0.02425, 1 - 0.02425, 1e-300, 0.5, -0.1, 1.5]
    for x in xs:
        try:
            y = [float(norminvcdf(x))]
        except Exception as e:  # noqa: BLE001
            y = err_kind(e)
        corr.add('norminvcdf', f'ninv {f2b(x)}', y, [1.0], {'p': x})
    ctx.count('O:strike from delta returns the delta (4 conventions)', n_round,
              sample={'solver_postcondition_failures': n_post_bad, 'solver_raised_no_convergence': n_noconv})

    corr.run(drivers_ok)

    # ====================================================================== witnesses of the known findings (always replayed)
    vd = Date(17, 6, 2021)                       # a Thursday: +2 weekdays = Monday (4 calendar days)
    ed = Date(20, 6, 2022)                       # a Monday:   +2 weekdays = Wednesday (2 calendar days)
    dom, forc = DiscountCurveFlat(vd, 0.05), DiscountCurveFlat(vd, 0.01)
    m_ = BlackScholes(0.10)
    oc = FXVanillaOption(ed, 1.25, 'EURUSD', OT[1], 1.0, 'EUR', 2)
    op = FXVanillaOption(ed, 1.25, 'EURUSD', OT[2], 1.0, 'EUR', 2)
    cmp_ = float(oc.value(vd, 1.2, dom, forc, m_)['v']) - float(op.value(vd, 1.2, dom, forc, m_)['v'])
    t_del = (oc.delivery_dt - vd.add_weekdays(2)) / 365.0
    t_exp = (ed - vd) / 365.0
    fwdv = 1.2 * float(forc.df_t(t_del)) - 1.25 * float(dom.df_t(t_del))
    ctx.cov['parity_witness'] = {'input': 'EURUSD S=1.2 K=1.25 value 17-JUN-2021 (Thu) expiry 20-JUN-2022 (Mon) spot_days=2 r_d=5% r_f=1% vol=10%',
                                 't_exp': t_exp, 't_del': t_del, 'call-put': cmp_, 'forward_value(t_del)': fwdv,
                                 'deviation': cmp_ - fwdv}
    if abs(cmp_ - fwdv) > 1e-7 and F_PARITY not in ctx.known_hits:
        ctx.violation('parity witness', ctx.cov['parity_witness'], finding=F_PARITY, clause='parity:call-put=forward')

    # Theorems that state a known defect stop building when the defect is repaired.  That is a stale finding, not a
    # violation — but only if the direct oracle confirms on this run that the clause holds everywhere it was tested.
    for mod, (fid, clause) in DEFECT_PROPS.items():
        mine = [b for b in ctx.broken if mod in b and b.startswith('proof:') and 'failing dependencies' not in b]
        if mine and ctx.known_hits.get(fid, 0) == 0 and not any((v.get('clause') or '') == clause for v in ctx.violations) \
                and cnt['fwdval'] > 0:
            ctx.broken = [b for b in ctx.broken if b not in mine]
            ctx.obligations = [o for o in ctx.obligations if not o.startswith(mod + ':')]
            ctx.notes.append(f'{mod} (theorems stating the known defect {fid}) no longer builds and the oracle `{clause}` holds on all '
                             f'{cnt["fwdval"]} forward valuations of this run: the defect is repaired; retire the module and mark '
                             'the finding fixed')

    ctx.assumptions += [
        'theorems are about the real-number reading of the generated formulas; IEEE rounding is covered only by the tolerances '
        'of the correspondence (rtol 1e-9 + 1e-10 x natural scale) and of the oracles',
        'deltas = derivatives are proved with (N) replaced by any Phi with Phi\' = phi = c exp(-x^2/2); the coded Hull N is only '
        'piecewise smooth and within 7.5e-8 of the normal cdf (measured by C05 every run); bump oracles carry that noise model',
        'the date/curve glue of the methods (year fractions, spot-date shift, df_t reads) is outside the generated kernels: '
        'year fractions are recomputed by the harness with its own weekday arithmetic, df_t is read from the implementation\'s curve '
        '(curves are property C02)',
        'solve_for_strike: norminvcdf and newton_secant are parameters with postconditions (Phi(Ninv p) = p; |g(K)| <= tol); the '
        'postconditions are checked per case, convergence itself is not proved',
        'generated kernels cover the BlackScholes model and European option types (SABR vol and the CRR tree branches are cut)',
        'limits (zero volatility / zero time) are proved for the closed form with the clamps removed, under Phi -> 1 at +inf and '
        'Phi -> 0 at -inf; the coded function itself is constant below its clamps (vol 1e-10, t_exp 1e-12: theorems) and equals the '
        'closed form above them (theorem); uniqueness of the strike needs Phi strictly increasing (pips) / monotone positive '
        '(premium-adjusted puts); for premium-adjusted calls the delta is not monotone in the strike and no uniqueness is claimed',
        'gamma / vega / theta of the class imply their rates at t_exp: they are derivatives of value / delta only when t_exp = t_del '
        '(partial theorems); the dead guard `np.any(vol) < 0.0` of those methods is dropped by exact text',
    ]
    return C.finish(ctx, 'proof',
                    'lake build ' + ' '.join(PROPS) + ' && lake env lean .cache/audit/Audit_C10.lean',
                    C.TRUSTED_BASE_COMMON + ['Mathlib real analysis (HasDerivAt, Real.exp/log/sqrt) as compiled',
                                             'registry/fx.py: method slicing (textual guards on the dropped glue), isinstance '
                                             'specialisation to the BlackScholes model, dict->tuple, binding of fallible kernel calls'],
                    RULE)


def replay(ctx, path):
    rp = json.load(open(path))
    v = rp.get('violation')
    if not v:
        print('replay: no concrete input in this file:', rp.get('broken'))
        return 1
    print('replay: re-running the check with the recorded seed/tier; recorded case:')
    print(json.dumps(v, indent=1, default=str)[:1500])
    ctx2 = C.Ctx(ctx.prop, rp.get('tier', 'quick'), rp.get('seed', 0))
    return run(ctx2)
