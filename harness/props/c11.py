"""C11 — closed-form exotic option prices.

Theorems (FinVerif/Props/C11*.lean) are about the GENERATED real model (Gen/ExoticR.lean, regenerated from
/repo on every run): knock-in + knock-out = vanilla on every branch of `value_barrier` and of
`FXBarrierOption.value`, touch + no-touch = df / forward-discounted asset, digital call + put, compound and
rainbow parities (given the bivariate-normal symmetry), lookback strike identities.
Correspondence: the implementation (compiled `value_barrier` and the product classes) vs the Float
instantiation of the same generated code (Driver/C11).
Growth round (Props/C11d..C11h, Gen/Exotic2*, Model/C11, Driver/C11x, props/c11_grow.py): barrier-shift direction per type,
far-side-of-strike branches, one-touch dead side / asset-at-hit / zero-rate consistency, rainbow put identities, compound
on-put parity, simple chooser, lookback branch identities / parities / special-case = general shape (equity and FX), geometric
Asian = Black–Scholes with adjusted drift and vol, FX (double) digital, cliquet loop, variance-swap replication identity.
Direct oracles on the implementation (the executable reading of the property), run on every check:
parities, non-negativity, domination by the vanilla, continuity at the barrier, and value = discounted
risk-neutral expectation of the documented payoff by quadrature against the killed / first-passage / running
extremum densities (not proved: reflection-principle integrals), plus Monte-Carlo cross-checks."""
import math
import os
import sys

sys.path.insert(0, os.path.dirname(os.path.dirname(os.path.abspath(__file__))))
import common as C  # noqa: E402
from floatcmp import f2b, b2f, close  # noqa: E402

GEN = ['ExoticF', 'ExoticR', 'Exotic2F', 'Exotic2R']
PROPS = ['FinVerif.Props.C11a', 'FinVerif.Props.C11b', 'FinVerif.Props.C11c', 'FinVerif.Props.C11d', 'FinVerif.Props.C11e',
         'FinVerif.Props.C11f', 'FinVerif.Props.C11g', 'FinVerif.Props.C11h']
DRIVERS = ['FinVerif.Driver.C11', 'FinVerif.Driver.C11x']

RULE = ('each case = one seeded parameter set (spot, strike, barrier, expiry date, rates, vol, observation frequency) '
        'x one enum member; configurations are stratified over barrier above/below/at strike, spot above/below/at '
        'barrier and every enum member of every product. Non-trivial = the implementation returned a number on a '
        'live (not short-circuited) branch. Counts are measured per component; all cases are distinct draws.')

NEG_TOL = 2e-6          # allowed negative value per unit of scale: |N - Phi| <= 7.5e-8 per term, a few terms
PAR_TOL = 1e-9          # parity identities are exact algebra of the coded formulas: only rounding
EXP_TOL = 6e-6          # value vs quadrature of the payoff: limited by the Hull polynomial N (7.5e-8 abs per term)


def gl_nodes(n=200):
    import numpy as np
    return np.polynomial.legendre.leggauss(n)


def run(ctx):
    drivers_ok = C.lean_stage(ctx, GEN, PROPS, DRIVERS, extra_files=['FinVerif/Model/C11.lean', 'FinVerif/Lemmas/C11.lean', 'FinVerif/Spec/Exotics.lean'])
    C.import_financepy()
    import numpy as np
    from scipy.stats import norm
    from financepy.utils.date import Date
    from financepy.utils.error import FinError
    from financepy.utils.day_count import DayCountTypes
    from financepy.utils.frequency import FrequencyTypes
    from financepy.utils.global_types import EquityBarrierTypes, TouchOptionTypes, OptionTypes
    from financepy.market.curves.discount_curve_flat import DiscountCurveFlat
    from financepy.models.black_scholes import BlackScholes
    from financepy.models.black_scholes_analytic import bs_value
    from financepy.models.equity_barrier_models import value_barrier
    from financepy.products.equity.equity_vanilla_option import EquityVanillaOption
    from financepy.products.equity.equity_barrier_option import EquityBarrierOption
    from financepy.products.equity.equity_one_touch_option import EquityOneTouchOption
    from financepy.products.equity.equity_digital_option import EquityDigitalOption, FinDigitalOptionTypes
    from financepy.products.equity.equity_fixed_lookback_option import EquityFixedLookbackOption
    from financepy.products.equity.equity_float_lookback_option import EquityFloatLookbackOption
    from financepy.products.fx.fx_barrier_option import FXBarrierOption, FinFXBarrierTypes
    from financepy.products.fx.fx_one_touch_option import FXOneTouchOption

    quick = ctx.quick()
    X, W = gl_nodes(200)
    CALL, PUT = OptionTypes.EUROPEAN_CALL, OptionTypes.EUROPEAN_PUT
    corr_ops, corr_impl, corr_meta = [], [], []      # correspondence: op line, implementation answer, (component, scale, case)

    def err_kind(e):
        return 'E:FinError' if isinstance(e, FinError) else 'E:Other'

    def add_corr(comp, op, fn, scale, case):
        try:
            v = float(fn())
            r = v
        except Exception as e:  # noqa: BLE001
            r = err_kind(e)
        corr_ops.append(op)
        corr_impl.append(r)
        corr_meta.append((comp, scale, case))
        return r

    def fl(*xs):
        return ' '.join(f2b(float(x)) for x in xs)

    def curves(vd, r, q, dc):
        return (DiscountCurveFlat(vd, r, FrequencyTypes.CONTINUOUS, dc),
                DiscountCurveFlat(vd, q, FrequencyTypes.CONTINUOUS, dc))

    def draw_dates(rng, lo=20, hi=2600):
        vd = Date(rng.randint(1, 28), rng.randint(1, 12), rng.randint(2005, 2035))
        days = rng.choice([rng.randint(lo, hi), rng.randint(lo, 400), 365, 730])
        return vd, vd.add_days(days), days / 365.0

    def draw_mkt(rng):
        r = rng.choice([rng.uniform(-0.02, 0.12), rng.uniform(0.0, 0.06)])
        q = rng.choice([rng.uniform(0.0, 0.07), 0.0, rng.uniform(-0.01, 0.03)])
        v = rng.choice([rng.uniform(0.08, 0.6), rng.uniform(0.15, 0.35)])
        dc = rng.choice([DayCountTypes.ACT_365F, DayCountTypes.ACT_365F, DayCountTypes.ACT_ACT_ISDA])
        return r, q, v, dc

    def viol(what, case, clause, finding=None):
        ctx.violation(what, case, finding=finding, clause=clause)

    # ------------------------------------------------------------------ quadrature oracles (exact Phi)
    def bs_exact(s, k, t, r, q, v, call):
        sd = v * math.sqrt(t)
        d1 = (math.log(s / k) + (r - q + v * v / 2) * t) / sd
        d2 = d1 - sd
        if call:
            return s * math.exp(-q * t) * norm.cdf(d1) - k * math.exp(-r * t) * norm.cdf(d2)
        return k * math.exp(-r * t) * norm.cdf(-d2) - s * math.exp(-q * t) * norm.cdf(-d1)

    def integrate(f, a, b, breaks=()):
        pts = sorted({a, b, *[p for p in breaks if a < p < b]})
        tot = 0.0
        for lo, hi in zip(pts[:-1], pts[1:]):
            xm, xr = 0.5 * (lo + hi), 0.5 * (hi - lo)
            tot += xr * float(np.sum(W * f(xm + xr * X)))
        return tot

    def knock_out_expectation(s, k, h, t, r, q, v, call, up):
        """e^{-rT} E[payoff(S_T); barrier not touched], continuous monitoring: integral of the payoff against the
        density of the log-price killed at the barrier (reflection principle)."""
        if (up and s >= h) or ((not up) and s <= h):
            return 0.0
        nu = r - q - 0.5 * v * v
        sd = v * math.sqrt(t)
        b = math.log(h / s)
        lo, hi = nu * t - 9.5 * sd, nu * t + 9.5 * sd
        if up:
            hi = min(hi, b)
        else:
            lo = max(lo, b)
        if hi <= lo:
            return 0.0

        def dens(x):
            return (np.exp(-0.5 * ((x - nu * t) / sd) ** 2)
                    - math.exp(2 * nu * b / (v * v)) * np.exp(-0.5 * ((x - 2 * b - nu * t) / sd) ** 2)) / (sd * math.sqrt(2 * math.pi))

        def f(x):
            st = s * np.exp(x)
            pay = np.maximum(st - k, 0.0) if call else np.maximum(k - st, 0.0)
            return pay * dens(x)
        lk = math.log(k / s)
        brk = [lk, nu * t, nu * t - 3 * sd, nu * t + 3 * sd, 2 * b + nu * t]
        return math.exp(-r * t) * integrate(f, lo, hi, brk)

    def first_passage(s, h, t, r, drift, v, disc_rate):
        """E[exp(-disc_rate * tau); tau <= T] for the first passage of S (log-drift `drift`) to h, by quadrature of
        the first-passage density (substitution tau = u^2 removes the endpoint singularity)."""
        b = abs(math.log(h / s))
        sgn = 1.0 if h > s else -1.0
        nu = sgn * drift

        def f(u):
            tau = u * u
            tau = np.maximum(tau, 1e-300)
            g = b / (v * np.sqrt(2 * math.pi) * tau ** 1.5) * np.exp(-(b - nu * tau) ** 2 / (2 * v * v * tau))
            return np.exp(-disc_rate * tau) * g * 2 * u
        um = math.sqrt(t)
        peak = math.sqrt(min(t, b * b / (3 * v * v)))
        return integrate(f, 0.0, um, [peak * 0.25, peak * 0.5, peak, min(um, 2 * peak), min(um, 4 * peak)])

    # ================================================================== 1. barriers (equity)
    rng = ctx.rng('barrier')
    n_cfg = 350 if quick else 6000
    BT = list(EquityBarrierTypes)
    pairs = [(EquityBarrierTypes.DOWN_AND_IN_CALL, EquityBarrierTypes.DOWN_AND_OUT_CALL, CALL, False),
             (EquityBarrierTypes.UP_AND_IN_CALL, EquityBarrierTypes.UP_AND_OUT_CALL, CALL, True),
             (EquityBarrierTypes.UP_AND_IN_PUT, EquityBarrierTypes.UP_AND_OUT_PUT, PUT, True),
             (EquityBarrierTypes.DOWN_AND_IN_PUT, EquityBarrierTypes.DOWN_AND_OUT_PUT, PUT, False)]
    hist = {}
    n_live = 0
    n_exp = 0
    n_ladder = 0
    for i in range(n_cfg):
        vd, ed, t = draw_dates(rng, 10)
        r, q, v, dc = draw_mkt(rng)
        s = round(100 * math.exp(rng.gauss(0, 0.4)), 4)
        k = s * math.exp(rng.gauss(0, 0.15))
        hk = rng.choice(['above', 'below', 'equal'] if i % 7 == 0 else ['above', 'below'])
        sh = rng.choice(['above', 'below', 'at'] if i % 5 == 0 else ['above', 'below'])
        dist = rng.choice([rng.uniform(0.005, 0.3), rng.uniform(0.01, 0.1)])
        h = s * (1 + dist) if sh == 'below' else (s * (1 - dist) if sh == 'above' else s)   # sh = spot relative to barrier
        if hk == 'equal':
            k = h
        elif (hk == 'above') != (h > k):
            k = h * (1 - rng.uniform(0.01, 0.2)) if hk == 'above' else h * (1 + rng.uniform(0.01, 0.2))
        nobs = rng.choice([0, 1, 12, 52, 252, 10 ** 6, 10 ** 12])
        notional = rng.choice([1.0, 1.0, 250.0])
        scale = max(s, k)
        dcv, qcv = curves(vd, r, q, dc)
        model = BlackScholes(v)
        r_cc, q_cc = dcv.cc_rate(ed), qcv.cc_rate(ed)
        case0 = {'value_dt': str(vd), 'expiry_dt': str(ed), 's': s, 'k': k, 'h': h, 'r': r, 'q': q, 'vol': v,
                 'nobs': nobs, 'day_count': dc.name, 'notional': notional}
        hist[(hk, sh)] = hist.get((hk, sh), 0) + 1
        vals = {}
        for ty in BT:
            case = dict(case0, type=ty.name)
            opt = EquityBarrierOption(ed, k, ty, h, nobs, notional)
            # compiled kernel vs model, product class vs model (the glue: t, cc rates, notional)
            op = f'VB {fl(t, k, h, s, r_cc, q_cc, v)} {ty.value} {nobs}'
            add_corr('value_barrier', op, lambda: value_barrier(t, k, h, s, r_cc, q_cc, v, ty.value, nobs), scale, case)
            pv = add_corr('EquityBarrierOption.value', op, lambda: opt.value(vd, s, dcv, qcv, model) / notional, scale, case)
            vals[ty] = pv
            if isinstance(pv, float):
                if not (pv >= -NEG_TOL * scale):
                    viol('barrier option value is negative', dict(case, value=pv), 'non-negative')
            # a spot ladder (ndarray / list of spots on BOTH sides of the barrier) is the element-wise scalar valuation:
            # the price at one spot does not depend on which other spots are asked for in the same call (seed C11-11: an
            # 'already knocked out' early return that tests np.any over the ladder)
            if i % 4 == 0:
                ladder = [s, h * 0.97, h * 1.03, s * 1.1, h]
                try:
                    one = [float(opt.value(vd, float(x), dcv, qcv, model)) for x in ladder]
                    arr = [float(x) for x in opt.value(vd, np.array(ladder), dcv, qcv, model)]
                    lst = [float(x) for x in opt.value(vd, list(ladder), dcv, qcv, model)] if i % 8 == 0 else arr
                except Exception as e:  # noqa: BLE001
                    one, arr, lst = None, repr(e)[:120], None
                n_ladder += 1
                if one is None or any(abs(a - b) > 1e-12 * scale * notional or abs(c - b) > 1e-12 * scale * notional
                                      for a, b, c in zip(arr, one, lst)):
                    viol('barrier option valued on a ladder of spots differs from the same spots valued one at a time',
                         dict(case, spots=ladder, ladder_values=arr, list_values=lst, one_at_a_time=one), 'ladder-is-elementwise')
        van = {CALL: EquityVanillaOption(ed, k, CALL).value(vd, s, dcv, qcv, model),
               PUT: EquityVanillaOption(ed, k, PUT).value(vd, s, dcv, qcv, model)}
        for tin, tout, cp, up in pairs:
            a, b = vals[tin], vals[tout]
            if not (isinstance(a, float) and isinstance(b, float)):
                viol('barrier value raised', dict(case0, pair=[tin.name, tout.name], values=[a, b]), 'in+out=vanilla')
                continue
            live = (s < h) if up else (s > h)
            n_live += live
            if abs(a + b - van[cp]) > PAR_TOL * scale + 1e-9 * abs(van[cp]):
                viol('knock-in + knock-out != vanilla', dict(case0, knock_in=tin.name, knock_out=tout.name, v_in=a, v_out=b,
                                                             vanilla=float(van[cp]), diff=a + b - float(van[cp])), 'in+out=vanilla')
            for nm, x in ((tin.name, a), (tout.name, b)):
                if x > van[cp] + NEG_TOL * scale:
                    viol('barrier option worth more than the dominating vanilla',
                         dict(case0, type=nm, value=x, vanilla=float(van[cp])), 'bounded-by-vanilla')
            # value = discounted expectation of the payoff (continuous monitoring): quadrature vs nobs = 10^12
            if live and nobs == 10 ** 12 and t >= 0.08 and v >= 0.1 and abs((r_cc - q_cc) / (v * v)) < 8 and dist > 0.01:
                ko = knock_out_expectation(s, k, h, t, r_cc, q_cc, v, cp == CALL, up)
                vex = bs_exact(s, k, t, r_cc, q_cc, v, cp == CALL)
                n_exp += 1
                tol = EXP_TOL * scale + 2e-4 * max(ko, vex - ko, 1e-3 * scale)   # 2nd term: residual BGK shift at 1e12 obs/yr
                if abs(b - ko) > tol:
                    viol('knock-out value != discounted expectation of the payoff under the killed density',
                         dict(case0, type=tout.name, value=b, expectation=ko), 'value=expectation')
                if abs(a - (vex - ko)) > tol:
                    viol('knock-in value != discounted expectation of the payoff (vanilla - killed)',
                         dict(case0, type=tin.name, value=a, expectation=vex - ko), 'value=expectation')
    ctx.count('barrier/equity: parity, sign, bound (8 types x configuration)', n_cfg * 8, n_live * 2,
              sample={'configs (barrier vs strike, spot vs barrier)': {f'{a}/{b}': n for (a, b), n in sorted(hist.items())}})
    ctx.count('barrier/equity: value vs quadrature of payoff x killed density', n_exp * 2, n_exp * 2)
    ctx.count('barrier/equity: spot ladder (ndarray / list) = element-wise scalar valuation', n_ladder, n_ladder)

    # ---- continuity at the barrier from the live side (continuous monitoring approximated by 10^12 obs/yr)
    rng = ctx.rng('barrier-cont')
    n_c = 60 if quick else 1500
    for i in range(n_c):
        vd, ed, t = draw_dates(rng, 60)
        r, q, v, dc = draw_mkt(rng)
        v = max(v, 0.12)
        h = round(100 * math.exp(rng.gauss(0, 0.3)), 3)
        k = h * math.exp(rng.gauss(0, 0.15)) if i % 6 else h
        dcv, qcv = curves(vd, r, q, dc)
        model = BlackScholes(v)
        for tin, tout, cp, up in pairs:
            eps = 2e-6
            s = h * (1 - eps) if up else h * (1 + eps)
            van = float(EquityVanillaOption(ed, k, cp).value(vd, s, dcv, qcv, model))
            a = float(EquityBarrierOption(ed, k, tin, h, 10 ** 12).value(vd, s, dcv, qcv, model))
            b = float(EquityBarrierOption(ed, k, tout, h, 10 ** 12).value(vd, s, dcv, qcv, model))
            # |dV/ds| near the barrier is at most ~ scale / (h sigma sqrt t) * O(1); distance eps*h
            tol = 40 * eps * max(h, k) / (v * math.sqrt(t)) + NEG_TOL * max(h, k)
            case = {'value_dt': str(vd), 'expiry_dt': str(ed), 's': s, 'k': k, 'h': h, 'r': r, 'q': q, 'vol': v,
                    'nobs': 10 ** 12, 'day_count': dc.name}
            if abs(b) > tol:
                viol('knock-out value does not tend to 0 as spot approaches the barrier from the live side',
                     dict(case, type=tout.name, value=b, tol=tol), 'continuity-at-barrier')
            if abs(a - van) > tol:
                viol('knock-in value does not tend to the vanilla as spot approaches the barrier from the live side',
                     dict(case, type=tin.name, value=a, vanilla=van, tol=tol), 'continuity-at-barrier')
    ctx.count('barrier/equity: continuity at the barrier', n_c * 8, n_c * 8)

    # ---- discrete monitoring: Monte-Carlo with the exact observation dates (Broadie-Glasserman-Kou shift is an approximation)
    rng = ctx.rng('barrier-mc')
    n_mc = 6 if quick else 60
    npaths = 40000 if quick else 200000
    for i in range(n_mc):
        t = rng.choice([0.5, 1.0, 2.0])
        nobs = rng.choice([12, 52])
        r, q, v = rng.uniform(0.0, 0.06), rng.uniform(0.0, 0.03), rng.uniform(0.2, 0.4)
        s = 100.0
        tin, tout, cp, up = pairs[i % 4]
        h = s * (1 + rng.uniform(0.08, 0.2)) if up else s * (1 - rng.uniform(0.08, 0.2))
        k = s * rng.uniform(0.9, 1.1)
        n = int(round(t * nobs))
        g = np.random.RandomState(rng.randrange(2 ** 31))
        z = g.standard_normal((npaths // 2, n))
        z = np.concatenate([z, -z])
        dt = t / n
        x = np.cumsum((r - q - 0.5 * v * v) * dt + v * math.sqrt(dt) * z, axis=1)
        st = s * np.exp(x)
        hit = (st.max(axis=1) >= h) if up else (st.min(axis=1) <= h)
        pay = np.maximum(st[:, -1] - k, 0) if cp == CALL else np.maximum(k - st[:, -1], 0)
        for ty, sel in ((tin, hit), (tout, ~hit)):
            smp = pay * sel * math.exp(-r * t)
            mc, se = float(smp.mean()), float(smp.std() / math.sqrt(npaths))
            an = float(value_barrier(t, k, h, s, r, q, v, ty.value, nobs))
            van = bs_exact(s, k, t, r, q, v, cp == CALL)
            tol = 5 * se + 0.02 * van + 0.01
            if abs(an - mc) > tol:
                viol('discretely monitored barrier value disagrees with Monte-Carlo on the observation dates',
                     {'t': t, 'k': k, 'h': h, 's': s, 'r': r, 'q': q, 'vol': v, 'nobs': nobs, 'type': ty.name,
                      'analytic': an, 'mc': mc, 'se': se, 'tol': tol}, 'value=expectation(discrete)')
    ctx.count('barrier/equity: discrete monitoring vs Monte-Carlo', n_mc * 2, n_mc * 2)

    # ================================================================== 2. FX barrier
    rng = ctx.rng('fxbarrier')
    n_fx = 150 if quick else 3000
    FXT = list(FinFXBarrierTypes)
    fxpairs = [('DOWN_AND_IN_CALL', 'DOWN_AND_OUT_CALL', True, False), ('UP_AND_IN_CALL', 'UP_AND_OUT_CALL', True, True),
               ('UP_AND_IN_PUT', 'UP_AND_OUT_PUT', False, True), ('DOWN_AND_IN_PUT', 'DOWN_AND_OUT_PUT', False, False)]
    n_live = n_exp = 0
    for i in range(n_fx):
        vd, ed, t = draw_dates(rng, 10)
        r, q, v, dc = draw_mkt(rng)
        s = round(rng.choice([1.1, 0.8, 1.35, 110.0]) * math.exp(rng.gauss(0, 0.1)), 5)
        sh = rng.choice(['above', 'below', 'at'] if i % 5 == 0 else ['above', 'below'])
        dist = rng.uniform(0.01, 0.25)
        h = s * (1 + dist) if sh == 'below' else (s * (1 - dist) if sh == 'above' else s)
        k = h if i % 7 == 0 else h * math.exp(rng.gauss(0, 0.12))
        nobs = rng.choice([1, 12, 52, 252, 10 ** 6, 10 ** 12])
        dcv, fcv = curves(vd, r, q, dc)
        model = BlackScholes(v)
        df, dq = dcv.df_t(t), fcv.df_t(t)
        rd, rf = -math.log(df) / t, -math.log(dq) / t
        scale = max(s, k)
        case0 = {'value_dt': str(vd), 'expiry_dt': str(ed), 's': s, 'k': k, 'h': h, 'r_dom': r, 'r_for': q, 'vol': v,
                 'nobs': nobs, 'day_count': dc.name}
        vals = {}
        for ty in FXT:
            code = ty.value if isinstance(ty.value, int) else FXT.index(ty) + 1
            opt = FXBarrierOption(ed, k, 'EURUSD', ty, h, nobs, 1.0, 'EUR')
            op = f'FXB {fl(t, s, dq, df, k, h, v)} {code} {nobs}'
            pv = add_corr('FXBarrierOption.value', op, lambda: opt.value(vd, s, dcv, fcv, model), scale, dict(case0, type=ty.name))
            vals[ty.name] = pv
            if isinstance(pv, float) and not (pv >= -NEG_TOL * scale):
                viol('FX barrier option value is negative', dict(case0, type=ty.name, value=pv), 'non-negative')
        van = {True: float(bs_value(s, t, k, rd, rf, v, CALL.value)), False: float(bs_value(s, t, k, rd, rf, v, PUT.value))}
        for tin, tout, call, up in fxpairs:
            a, b = vals[tin], vals[tout]
            if not (isinstance(a, float) and isinstance(b, float)):
                viol('FX barrier value raised', dict(case0, pair=[tin, tout], values=[a, b]), 'in+out=vanilla')
                continue
            live = (s < h) if up else (s > h)
            n_live += live
            if abs(a + b - van[call]) > PAR_TOL * scale:
                viol('FX knock-in + knock-out != vanilla', dict(case0, knock_in=tin, knock_out=tout, v_in=a, v_out=b, vanilla=van[call]),
                     'in+out=vanilla')
            for nm, x in ((tin, a), (tout, b)):
                if x > van[call] + NEG_TOL * scale:
                    viol('FX barrier option worth more than the dominating vanilla', dict(case0, type=nm, value=x, vanilla=van[call]),
                         'bounded-by-vanilla')
            if live and nobs == 10 ** 12 and t >= 0.08 and v >= 0.1 and abs((rd - rf) / (v * v)) < 8 and dist > 0.01:
                ko = knock_out_expectation(s, k, h, t, rd, rf, v, call, up)
                vex = bs_exact(s, k, t, rd, rf, v, call)
                n_exp += 1
                tol = EXP_TOL * scale + 2e-4 * max(ko, vex - ko, 1e-3 * scale)
                if abs(b - ko) > tol or abs(a - (vex - ko)) > tol:
                    viol('FX barrier value != discounted expectation of the payoff (killed density)',
                         dict(case0, knock_in=tin, knock_out=tout, v_in=a, v_out=b, exp_out=ko, exp_in=vex - ko), 'value=expectation')
    ctx.count('barrier/FX: parity, sign, bound, expectation', n_fx * 8, n_live * 2 + n_exp)

    # ================================================================== 3. one-touch (equity and FX)
    def at_hit_classifier(type_name, r_cc, q_cc, vol, result):
        """C11/one-touch-at-hit-negative-discriminant: pay-at-hit types, rate negative enough that mu^2 + 2r/sigma^2 < 0
        (lam = sqrt(negative) = nan, n_vect(nan) raises ZeroDivisionError), failing clause = value defined on the live side."""
        vv = max(vol, 1e-6)
        mu = (r_cc - q_cc - vv * vv / 2.0) / vv / vv
        if type_name.endswith('_AT_HIT') and result == 'E:Other' and mu * mu + 2.0 * r_cc / vv / vv < 0:
            return 'C11/one-touch-at-hit-negative-discriminant'
        return None

    # witness of the known finding, replayed on every run (a stale entry is reported by finish())
    wvd = Date(16, 6, 2005)
    wed = Date(16, 6, 2007)
    wd, wq = curves(wvd, -0.017814, -0.003975, DayCountTypes.ACT_365F)
    try:
        EquityOneTouchOption(wed, TouchOptionTypes.DOWN_AND_IN_CASH_AT_HIT, 83.07, 1.0).value(wvd, 118.6171, wd, wq, BlackScholes(0.158725))
    except Exception as e:  # noqa: BLE001
        viol('one-touch value raised on a live configuration', {'witness': True, 's': 118.6171, 'h': 83.07, 'r': -0.017814, 'q': -0.003975,
             'vol': 0.158725, 'type': 'DOWN_AND_IN_CASH_AT_HIT', 'error': type(e).__name__}, 'defined-on-live-side',
             finding=at_hit_classifier('DOWN_AND_IN_CASH_AT_HIT', wd.cc_rate(wed), wq.cc_rate(wed), 0.158725, err_kind(e)))

    rng = ctx.rng('touch')
    n_t = 250 if quick else 4000
    TT = list(TouchOptionTypes)
    T = TouchOptionTypes
    n_exp = 0
    for i in range(n_t):
        vd, ed, t = draw_dates(rng, 5)
        r, q, v, dc = draw_mkt(rng)
        s = round(100 * math.exp(rng.gauss(0, 0.3)), 4)
        dist = rng.choice([rng.uniform(0.002, 0.3), rng.uniform(0.02, 0.15)])
        pay = rng.choice([1.0, 1.0, 15.0])
        dcv, qcv = curves(vd, r, q, dc)
        model = BlackScholes(v)
        df, r_cc, q_cc = dcv.df(ed), dcv.cc_rate(ed), qcv.cc_rate(ed)
        for fx in (False, True):
            val = {}
            for ty in TT:
                down = ty.name.startswith('DOWN')
                h = s * (1 - dist) if down else s * (1 + dist)
                if i % 11 == 0:
                    h = s * (1 + dist) if down else s * (1 - dist)     # spot already beyond the barrier: must raise FinError
                if i % 13 == 0:
                    h = s
                case = {'value_dt': str(vd), 'expiry_dt': str(ed), 's': s, 'h': h, 'r': r, 'q': q, 'vol': v, 'payment': pay,
                        'type': ty.name, 'fx': fx, 'day_count': dc.name}
                if fx:
                    opt = FXOneTouchOption(ed, ty, h, pay)
                    comp, tag = 'FXOneTouchOption.value', 'FOT'
                else:
                    opt = EquityOneTouchOption(ed, ty, h, pay)
                    comp, tag = 'EquityOneTouchOption.value', 'EOT'
                op = f'{tag} {fl(t, s, df, r_cc, q_cc, h, pay, v)} {ty.value}'
                pv = add_corr(comp, op, lambda: opt.value(vd, s, dcv, qcv, model), max(s, pay), case)
                val[ty] = (pv, h)
                if not isinstance(pv, float):
                    if (down and s > h) or ((not down) and s < h):
                        viol('one-touch value raised on a live configuration', dict(case, result=pv, r_cc=r_cc, q_cc=q_cc),
                             'defined-on-live-side', finding=at_hit_classifier(ty.name, r_cc, q_cc, v, pv))
                    continue
                if (down and s <= h) or ((not down) and s >= h):
                    viol('one-touch value returned although spot is at/beyond the barrier (documented to raise)', dict(case, value=pv),
                         'rejects-dead-side')
                    continue
                if pv < -NEG_TOL * max(s, pay):
                    viol('one-touch value is negative', dict(case, value=pv), 'non-negative')
                # expectation of the documented payoff by quadrature of the first-passage density
                if t >= 0.02 and v >= 0.1 and i % 3 == 0:
                    drift = r_cc - q_cc - 0.5 * v * v
                    nm = ty.name
                    if nm.endswith('CASH_AT_HIT'):
                        ex = pay * first_passage(s, h, t, r_cc, drift, v, r_cc)
                    elif nm.endswith('ASSET_AT_HIT'):
                        ex = h * first_passage(s, h, t, r_cc, drift, v, r_cc)
                    elif nm.endswith('CASH_AT_EXPIRY'):
                        ex = pay * df * first_passage(s, h, t, r_cc, drift, v, 0.0)
                    elif nm.endswith('CASH_OR_NOTHING'):
                        ex = pay * df * (1 - first_passage(s, h, t, r_cc, drift, v, 0.0))
                    elif nm.endswith('ASSET_AT_EXPIRY'):      # share measure: drift + sigma^2
                        ex = s * math.exp(-q_cc * t) * first_passage(s, h, t, r_cc, drift + v * v, v, 0.0)
                    else:
                        ex = s * math.exp(-q_cc * t) * (1 - first_passage(s, h, t, r_cc, drift + v * v, v, 0.0))
                    n_exp += 1
                    sc = max(s, pay) if 'ASSET' in nm else pay
                    if abs(pv - ex) > EXP_TOL * sc + 1e-7 * abs(ex):
                        viol('one-touch value != expectation of the documented payoff (first-passage density quadrature)',
                             dict(case, value=pv, expectation=ex), 'value=expectation')
            # touch + no-touch
            for tin, tout, kind in ((T.DOWN_AND_IN_CASH_AT_EXPIRY, T.DOWN_AND_OUT_CASH_OR_NOTHING, 'cash'),
                                    (T.UP_AND_IN_CASH_AT_EXPIRY, T.UP_AND_OUT_CASH_OR_NOTHING, 'cash'),
                                    (T.DOWN_AND_IN_ASSET_AT_EXPIRY, T.DOWN_AND_OUT_ASSET_OR_NOTHING, 'asset'),
                                    (T.UP_AND_IN_ASSET_AT_EXPIRY, T.UP_AND_OUT_ASSET_OR_NOTHING, 'asset')):
                (a, h), (b, _) = val[tin], val[tout]
                if not (isinstance(a, float) and isinstance(b, float)):
                    continue
                want = pay * df if kind == 'cash' else s * math.exp(-q_cc * t)
                if abs(a + b - want) > PAR_TOL * max(s, pay):
                    viol('one-touch(at expiry) + no-touch != ' + ('payment x discount factor' if kind == 'cash' else 'forward-discounted asset'),
                         {'value_dt': str(vd), 'expiry_dt': str(ed), 's': s, 'h': h, 'r': r, 'q': q, 'vol': v, 'payment': pay, 'fx': fx,
                          'touch': tin.name, 'no_touch': tout.name, 'v_touch': a, 'v_no_touch': b, 'expected_sum': want}, 'touch+no-touch')
                # bounds
                if a > want + NEG_TOL * max(s, pay) or b > want + NEG_TOL * max(s, pay):
                    viol('touch / no-touch worth more than the unconditional payment', {'s': s, 'h': h, 'fx': fx, 'touch': tin.name,
                         'v_touch': a, 'v_no_touch': b, 'bound': want}, 'bounded')
            for ty in (T.DOWN_AND_IN_CASH_AT_HIT, T.UP_AND_IN_CASH_AT_HIT, T.DOWN_AND_IN_ASSET_AT_HIT, T.UP_AND_IN_ASSET_AT_HIT):
                a, h = val[ty]
                bound = (pay if 'CASH' in ty.name else h) * (1.0 if r_cc >= 0 else math.exp(-r_cc * t))
                if isinstance(a, float) and a > bound + NEG_TOL * max(s, pay):
                    viol('pay-at-hit value exceeds the undiscounted payment', {'s': s, 'h': h, 'fx': fx, 'type': ty.name, 'value': a,
                         'bound': bound}, 'bounded')
    ctx.count('one-touch equity+FX: 12 types x configuration (parity, sign, bounds, error on dead side)', n_t * 24, n_t * 20)
    ctx.count('one-touch: value vs first-passage quadrature', n_exp, n_exp)

    # ---- value_mc cross-check (loose: discrete observation of a continuous barrier, slow convergence)
    rng = ctx.rng('touch-mc')
    for i in range(4 if quick else 24):
        ty = TT[(i * 5 + rng.randrange(12)) % 12]
        vd = Date(1, 6, 2020)
        ed = vd.add_days(365)
        r, q, v, s = 0.04, 0.01, 0.25, 100.0
        h = 85.0 if ty.name.startswith('DOWN') else 117.0
        dcv, qcv = curves(vd, r, q, DayCountTypes.ACT_365F)
        opt = EquityOneTouchOption(ed, ty, h, 1.0)
        an = float(opt.value(vd, s, dcv, qcv, BlackScholes(v)))
        mc = float(opt.value_mc(vd, s, dcv, qcv, BlackScholes(v), num_paths=8000, num_steps_per_year=252, seed=rng.randrange(1, 10 ** 6)))
        sc = h if 'ASSET_AT_HIT' in ty.name else (s if 'ASSET' in ty.name else 1.0)
        fid = 'C11/one-touch-mc-asset-at-expiry' if ty.name.endswith('IN_ASSET_AT_EXPIRY') else None
        if abs(an - mc) > 0.06 * sc:
            viol('EquityOneTouchOption.value_mc disagrees with the analytical value', {'type': ty.name, 's': s, 'h': h, 'r': r, 'q': q,
                 'vol': v, 't': 1.0, 'analytic': an, 'value_mc': mc}, 'value_mc', finding=fid)
        ctx.count('one-touch: value_mc cross-check', 1, 1)

    # ================================================================== 4. digital (equity)
    rng = ctx.rng('digital')
    n_d = 200 if quick else 3000
    DT = list(FinDigitalOptionTypes)
    for i in range(n_d):
        vd, ed, t = draw_dates(rng, 3)
        r, q, v, dc = draw_mkt(rng)
        s = round(100 * math.exp(rng.gauss(0, 0.3)), 4)
        xb = s * math.exp(rng.gauss(0, 0.2)) if i % 9 else s
        dcv, qcv = curves(vd, r, q, dc)
        model = BlackScholes(v)
        df, dq = dcv.df(ed), qcv.df(ed)
        val = {}
        for dty in DT:
            dcode = dty.value if isinstance(dty.value, int) else DT.index(dty) + 1
            for cp in (CALL, PUT):
                opt = EquityDigitalOption(ed, xb, cp, dty)
                case = {'value_dt': str(vd), 'expiry_dt': str(ed), 's': s, 'barrier': xb, 'r': r, 'q': q, 'vol': v,
                        'call_put': cp.name, 'digital_type': dty.name, 'day_count': dc.name}
                op = f'DIG {fl(t, s, df, dq, xb, v)} {cp.value} {dcode}'
                pv = add_corr('EquityDigitalOption.value', op, lambda: opt.value(vd, s, dcv, qcv, model), max(s, 1.0), case)
                val[(dty, cp)] = pv
                if isinstance(pv, float):
                    # expectation of the payoff: exact lognormal probabilities
                    sd = v * math.sqrt(t)
                    rr, qq = -math.log(df) / t, -math.log(dq) / t
                    d1 = (math.log(s / xb) + (rr - qq + v * v / 2) * t) / sd
                    sg = 1 if cp == CALL else -1
                    ex = df * norm.cdf(sg * (d1 - sd)) if dty == FinDigitalOptionTypes.CASH_OR_NOTHING else s * dq * norm.cdf(sg * d1)
                    if abs(pv - ex) > 2e-7 * max(s, 1.0) or pv < 0:
                        viol('digital value != discounted probability / expectation of the payoff', dict(case, value=pv, expectation=ex),
                             'value=expectation')
                else:
                    viol('digital value raised', dict(case, result=pv), 'defined')
        for dty in DT:
            a, b = val[(dty, CALL)], val[(dty, PUT)]
            if isinstance(a, float) and isinstance(b, float):
                want = df if dty == FinDigitalOptionTypes.CASH_OR_NOTHING else s * dq
                if abs(a + b - want) > PAR_TOL * max(s, 1.0):
                    viol('digital call + digital put != ' + ('discount factor' if want == df else 'forward-discounted asset'),
                         {'value_dt': str(vd), 'expiry_dt': str(ed), 's': s, 'barrier': xb, 'r': r, 'q': q, 'vol': v,
                          'digital_type': dty.name, 'call': a, 'put': b, 'expected_sum': want}, 'digital call+put')
    ctx.count('digital equity: 2 types x call/put (parity, expectation)', n_d * 4, n_d * 4)

    run_more(ctx, locals())
    from props import c11_reuse
    c11_reuse.run(ctx, locals())      # one object, several markets: value must not depend on pricing history
    from props import c11_grow
    c11_grow.run(ctx, locals(), drivers_ok)   # growth round: Exotic2 / loop models (Driver/C11x), FX lookbacks, FX digitals, large carry

    # ================================================================== correspondence: one driver run for all ops
    model_out = None
    if drivers_ok:
        try:
            model_out = C.run_driver('C11', corr_ops)
        except C.DriverError as e:
            ctx.broke(f'model driver failed: {str(e)[:300]}')
    per = {}
    if model_out is not None:
        for op, im, mo, (comp, scale, case) in zip(corr_ops, corr_impl, model_out, corr_meta):
            st = per.setdefault(comp, {'n': 0, 'bad': 0, 'num': 0, 'maxerr': 0.0})
            st['n'] += 1
            if isinstance(im, str) or mo.startswith('E:') or mo == 'bad-op':
                mk = 'E:FinError' if mo == 'E:FinError' else ('E:Other' if mo.startswith('E:') else mo)
                ok = isinstance(im, str) and im == mk
                if not ok and im == 'E:Other' and not mo.startswith('E:') and mo != 'bad-op' and math.isnan(b2f(mo)):
                    ok = True       # NaN in the model, exception from NaN in NumPy/Numba: both 'undefined' (kinds compared)
                    st['nan_kind'] = st.get('nan_kind', 0) + 1
            else:
                mv = b2f(mo)
                st['num'] += 1
                ok = close(im, mv, rtol=1e-9, atol=1e-9 * scale)
                if ok and not (math.isnan(im) or math.isinf(im)):
                    st['maxerr'] = max(st['maxerr'], abs(im - mv) / scale)
            if not ok:
                st['bad'] += 1
                if st['bad'] <= 2:
                    ctx.broke(f'correspondence {comp}: model != implementation on `{op}` '
                              f'(model {mo if mo.startswith("E:") or mo == "bad-op" else b2f(mo)}, impl {im}); case {case}')
        for comp, st in per.items():
            ctx.count('correspondence ' + comp, st['n'], st['num'])
            ctx.cov['components']['correspondence ' + comp].update({'disagree_model': st['bad'], 'max_scaled_error': st['maxerr']})

    ctx.assumptions += [
        'theorems are about the formulas of the source read over the real numbers (Gen/ExoticR.lean); the gap to IEEE doubles is '
        'covered by the tolerances of the correspondence (1e-9 relative to max(spot, strike)) and of the oracles',
        'N is the Hull polynomial of utils/math.py: |N - Phi| <= 7.5e-8 is NOT proved; oracles against exact Phi use 6e-6 x scale',
        '"analytical value = discounted risk-neutral expectation of the documented payoff" is validated numerically only '
        '(quadrature against killed / first-passage / running-extremum densities, Monte-Carlo); not proved',
        'continuous monitoring is not reachable through num_obs_per_year (the BGK shift is always applied); it is approximated by '
        '10^12 observations per year in the continuity and expectation oracles',
        'slices of product methods: argument guards, year fractions and curve reads before/inside the numerical part are not in '
        'the generated model; they are exercised by the product-class correspondence',
        'bivariate-normal symmetries (M(a,b,c)+M(a,-b,-c)=N(a), M(a,b,c)-M(-a,-b,c)=N(a)+N(b)-1, phi2(a,b,c)+phi2(-a,b,-c)=N(b)) are '
        'HYPOTHESES of the rainbow / compound / chooser theorems (true of the exact bivariate normal; validated numerically for the '
        'coded Drezner approximation); identities that use N(x)+N(-x)=1 carry the hypothesis x != 0 (the coded polynomial is off by '
        '1e-9 at 0)',
        'Gen/Exotic2*: `isinstance(model, BlackScholes)` is unwrapped (the model is a BlackScholes object), the string tests '
        'prem_currency == for_name / dom_name become two integer flags, accrued_average is a number; hand models of the cliquet and '
        'variance-swap loops (Model/C11.lean) take the curve reads and the per-option values as inputs — all compared with the '
        'implementation through Driver/C11x on every run',
        'lookback oracles in the large-carry region judge a case only where the power (s/x)^|w| times the absolute accuracy of the '
        'coded N (7.5e-8) stays below 1e-4 x scale',
    ]
    return C.finish(ctx, 'proof',
                    'lake build ' + ' '.join(PROPS) + ' && lake env lean .cache/audit/Audit_C11.lean',
                    C.TRUSTED_BASE_COMMON + ['registry/exotics.py, registry/exotics2.py source rewrites (np.any on scalars, constant-false if, '
                                             'elif-assignment chains, literal-range loop unrolling, isinstance(model, BlackScholes) unwrapping, '
                                             'premium-currency string tests as integer flags) preserve meaning on the shapes they accept'],
                    RULE)


def run_more(ctx, env):
    """lookbacks, chooser, compound, rainbow, cliquet, Asian, variance swap, basket (filled in below)."""
    from props import c11_more
    c11_more.run(ctx, env)


def replay(ctx, path):
    import json
    rp = json.load(open(path))
    v = rp.get('violation')
    if not v:
        print('replay: no concrete input in this file:', rp.get('broken'))
        return 1
    print('replay case:', json.dumps(v, indent=1, default=str))
    from props import c11_replay
    return c11_replay.replay(ctx, v, path)
