"""C11, growth round: correspondence and oracles for the models added with Props/C11g, C11h
(Gen/Exotic2F: geometric Asian, FX double digital, FX digital, FX lookbacks; Model/C11: cliquet loop, variance-swap weights)
and the large-carry region of the lookback formulas (|2(r-q)/sigma^2| > 100) that the first round did not sample.
Called from c11.run with its local environment.  Its own driver run (Driver/C11x)."""
import math


def run(ctx, env, drivers_ok):
    import numpy as np
    from scipy.stats import norm
    import common as C
    from floatcmp import f2b, b2f, close
    fl, curves, draw_dates, draw_mkt, viol, err_kind = (env[k] for k in ('fl', 'curves', 'draw_dates', 'draw_mkt', 'viol', 'err_kind'))
    bs_exact, quick = env['bs_exact'], env['quick']
    Date, DayCountTypes, OptionTypes, BlackScholes = env['Date'], env['DayCountTypes'], env['OptionTypes'], env['BlackScholes']
    FrequencyTypes = env['FrequencyTypes']
    EquityVanillaOption = env['EquityVanillaOption']
    EquityFixedLookbackOption, EquityFloatLookbackOption = env['EquityFixedLookbackOption'], env['EquityFloatLookbackOption']
    from financepy.products.fx.fx_fixed_lookback_option import FXFixedLookbackOption
    from financepy.products.fx.fx_float_lookback_option import FXFloatLookbackOption
    from financepy.products.fx.fx_double_digital_option import FXDoubleDigitalOption
    from financepy.products.fx.fx_digital_option import FXDigitalOption
    from financepy.products.equity.equity_asian_option import EquityAsianOption, AsianOptionValuationMethods
    from financepy.products.equity.equity_cliquet_option import EquityCliquetOption
    from financepy.products.equity.equity_variance_swap import EquityVarianceSwap
    from financepy.market.volatility.equity_vol_curve import EquityVolCurve
    CALL, PUT = OptionTypes.EUROPEAN_CALL, OptionTypes.EUROPEAN_PUT
    NEG_TOL = 2e-6

    ops, impl, meta = [], [], []      # correspondence with Driver/C11x: op line, implementation answer, (component, scale, case)
    nan_path = set()

    def add(comp, op, fn, scale, case):
        try:
            r = fn()
            r = [float(x) for x in r] if isinstance(r, (list, tuple, np.ndarray)) else float(r)
        except Exception as e:  # noqa: BLE001
            r = err_kind(e)
        ops.append(op)
        impl.append(r)
        meta.append((comp, scale, case))
        return r

    # ================================================================== lookbacks: the truncated power term (|w| > 100)
    def lookback_exact(kind, cp, s, k, m, t, r, q, v):
        """Conze-Viswanathan / Goldman-Sosin-Gatto closed forms with exact Phi and WITHOUT the `|w| > 100` truncation."""
        b = r - q
        df, dq = math.exp(-r * t), math.exp(-q * t)
        u, w, eb, st = v * v / 2 / b, 2 * b / v / v, math.exp(b * t), math.sqrt(t)
        N = norm.cdf

        def d(x):
            return (math.log(s / x) + (b + v * v / 2) * t) / v / st

        def pw(x):          # (s/x)^(-w), in logs to avoid overflow
            return math.exp(-w * math.log(s / x))
        if kind == 'fix' and cp == CALL:
            x = max(k, m)
            d1 = d(x)
            term = -pw(x) * N(d1 - 2 * b * st / v) + eb * N(d1)
            return (df * (x - k) if k <= m else 0.0) + s * dq * N(d1) - x * df * N(d1 - v * st) + s * df * u * term
        if kind == 'fix' and cp == PUT:
            x = min(k, m)
            d1 = d(x)
            term = pw(x) * N(-d1 + 2 * b * st / v) - eb * N(-d1)
            return (df * (k - x) if k >= m else 0.0) - s * dq * N(-d1) + x * df * N(-(d1 - v * st)) + s * df * u * term
        if kind == 'flt' and cp == CALL:
            a1 = d(m)
            term = pw(m) * N(-a1 + 2 * b * st / v) - eb * N(-a1)
            return s * dq * N(a1) - m * df * N(a1 - v * st) + s * df * u * term
        b1 = d(m)
        term = -pw(m) * N(b1 - 2 * b * st / v) + eb * N(b1)
        return m * df * N(-(b1 - v * st)) - s * dq * N(-b1) + s * df * u * term

    def trunc_classifier(kind, cp, s, k, m, w):
        """C11/lookback-truncated-power-term: the branch that replaces `term` by its second summand is taken
        (fixed call / floating put: s below the reference level and w > 100; fixed put: s above it and w < -100)."""
        if kind == 'fix' and cp == CALL and w > 100 and s < max(k, m):
            return 'C11/lookback-truncated-power-term'
        if kind == 'fix' and cp == PUT and w < -100 and s > min(k, m):
            return 'C11/lookback-truncated-power-term'
        if kind == 'flt' and cp == PUT and w > 100 and s < m:
            return 'C11/lookback-truncated-power-term'
        return None

    skipped, judged = [0], [0]

    def lookback_case(fx, vd, ed, t, r, q, v, s, k, smin, smax, dc, tag):
        dcv, qcv = curves(vd, r, q, dc)
        r_cc, q_cc = -math.log(dcv.df(ed)) / t, -math.log(qcv.df(ed)) / t
        w = 2 * (r_cc - q_cc) / v / v
        out = {}
        for kind, cp, mm in (('fix', CALL, smax), ('fix', PUT, smin), ('flt', CALL, smin), ('flt', PUT, smax)):
            if fx:
                o = FXFixedLookbackOption(ed, cp, k) if kind == 'fix' else FXFloatLookbackOption(ed, cp)
            else:
                o = EquityFixedLookbackOption(ed, cp, k) if kind == 'fix' else EquityFloatLookbackOption(ed, cp)
            case = {'fx': fx, 'kind': kind, 'type': cp.name, 'value_dt': str(vd), 'expiry_dt': str(ed), 's': s, 'k': k, 'smin': smin,
                    'smax': smax, 'r': r, 'q': q, 'vol': v, 'w=2(r-q)/vol^2': w, 'day_count': dc.name, 'region': tag}
            try:
                pv = float(o.value(vd, s, dcv, qcv, v, mm))
            except Exception as e:  # noqa: BLE001
                viol('lookback value raised on valid inputs', dict(case, error=type(e).__name__), 'defined')
                continue
            out[(kind, cp)] = pv
            ex = lookback_exact(kind, cp, s, k, mm, t, r_cc, q_cc, v)
            sc = max(s, k)
            # the power term is (s/x)^(-w) N(.) with the CODED N (Hull polynomial, |N - Phi| <= 7.5e-8 absolute): its error is
            # multiplied by the power.  Derived tolerance; where the power makes the oracle powerless the case is not judged.
            x = (max(k, mm) if cp == CALL else min(k, mm)) if kind == 'fix' else mm
            lev = math.exp(min(-w * math.log(s / x), 700.0))
            tol = 6e-6 * sc + 2 * 7.5e-8 * lev * s * abs(v * v / 2 / (r_cc - q_cc))
            if tol > 1e-4 * sc:
                skipped[0] += 1
                continue
            judged[0] += 1
            if abs(pv - ex) > tol + 1e-6 * abs(ex):
                viol('lookback value != closed form of the discounted expectation (Conze-Viswanathan / Goldman-Sosin-Gatto, exact Phi, '
                     'no truncation of the power term)', dict(case, value=pv, expected=ex, diff=pv - ex), 'value=expectation',
                     finding=trunc_classifier(kind, cp, s, k, mm, w))
        return out

    # witnesses of the finding, replayed on every run
    wvd = Date(1, 1, 2021)
    wed = wvd.add_days(365)
    lookback_case(False, wvd, wed, 1.0, 0.0, 0.025, 0.02, 102.55, 100.0, 100.0, 102.55, DayCountTypes.ACT_365F, 'witness w=-125')
    lookback_case(False, wvd, wed, 1.0, 0.025, 0.0, 0.02, 100.0, 100.0, 100.0, 102.55, DayCountTypes.ACT_365F, 'witness w=+125')

    rng = ctx.rng('lookback-large-carry')
    n_lc = 60 if quick else 1000
    for i in range(n_lc):
        vd, ed, t = draw_dates(rng, 30)
        _, _, _, dc = draw_mkt(rng)
        dc = DayCountTypes.ACT_365F
        t = (ed - vd) / 365.0
        v = rng.uniform(0.01, 0.05)
        wt = rng.choice([-1, 1]) * rng.uniform(60, 400)            # both sides of the |w| = 100 switch
        b = wt * v * v / 2
        r = rng.uniform(0.0, 0.03) + max(b, 0.0)
        q = r - b
        s = round(100 * math.exp(rng.gauss(0, 0.1)), 4)
        # distances chosen so that the power (s/x)^|w| stays below e^6 (beyond that the coded N's absolute error, multiplied by the
        # power, makes any comparison meaningless): log-distance = U(0, 6)/|w|
        far = rng.choice([0.0, rng.uniform(0, 6) / abs(wt), rng.uniform(0, 2) / abs(wt)])
        smax, smin = s * math.exp(far), s * math.exp(-far)
        k = s * math.exp(rng.choice([-1, 1]) * rng.uniform(0, 6) / abs(wt))
        for fx in (False, True):
            lookback_case(fx, vd, ed, t, r, q, v, s, k, smin, smax, dc, 'large carry')
    ctx.count('lookbacks equity+FX, |2(r-q)/vol^2| in [60, 400]: value vs untruncated closed form', n_lc * 8 + 8, judged[0])
    ctx.cov['components']['lookbacks equity+FX, |2(r-q)/vol^2| in [60, 400]: value vs untruncated closed form']['not_judged_power_too_large'] = skipped[0]

    # ================================================================== FX lookbacks (own copies of the formulas)
    rng = ctx.rng('fx-lookback')
    n_l = 120 if quick else 2000
    for i in range(n_l):
        vd, ed, t = draw_dates(rng, 10)
        r, q, v, dc = draw_mkt(rng)
        if abs(r - q) / (v * v) > 20:
            v = max(v, math.sqrt(abs(r - q) / 20) + 0.01)
        s = round(rng.choice([1.1, 0.8, 110.0]) * math.exp(rng.gauss(0, 0.2)), 5)
        smax = s * (1 + rng.choice([0.0, rng.uniform(0, 0.3)]))
        smin = s * (1 - rng.choice([0.0, rng.uniform(0, 0.3)]))
        k = s * math.exp(rng.gauss(0, 0.2))
        dcv, fcv = curves(vd, r, q, dc)
        tt = (ed - vd) / 365.0
        case0 = {'value_dt': str(vd), 'expiry_dt': str(ed), 's': s, 'k': k, 'smin': smin, 'smax': smax, 'r_dom': r, 'r_for': q, 'vol': v,
                 'day_count': dc.name}
        val = {}
        sc = max(s, k)
        for cp, mm in ((CALL, smax), (PUT, smin)):
            o = FXFixedLookbackOption(ed, cp, k)
            op = f'FXFIX {fl(tt, s, dcv.df(ed), fcv.df(ed), v, mm, k)} {cp.value}'
            val[('fix', cp)] = add('FXFixedLookbackOption.value', op, lambda: o.value(vd, s, dcv, fcv, v, mm), sc, dict(case0, type=cp.name))
        for cp, mm in ((CALL, smin), (PUT, smax)):
            o = FXFloatLookbackOption(ed, cp)
            op = f'FXFLT {fl(tt, s, dcv.df_t(tt), fcv.df_t(tt), v, mm)} {cp.value}'
            val[('flt', cp)] = add('FXFloatLookbackOption.value', op, lambda: o.value(vd, s, dcv, fcv, v, mm), sc, dict(case0, type=cp.name))
        if not all(isinstance(x, float) for x in val.values()):
            viol('FX lookback value raised on valid inputs', dict(case0, values={f'{a}/{b.name}': x for (a, b), x in val.items()}), 'defined')
            continue
        r_cc, q_cc = -math.log(dcv.df(ed)) / tt, -math.log(fcv.df(ed)) / tt
        dfe, dqe = math.exp(-r_cc * tt), math.exp(-q_cc * tt)
        for key, x in val.items():
            if x < -NEG_TOL * sc:
                viol('FX lookback value is negative', dict(case0, which=f'{key[0]}/{key[1].name}', value=x), 'non-negative')
        van_c = bs_exact(s, k, tt, r_cc, q_cc, v, True)
        van_p = bs_exact(s, k, tt, r_cc, q_cc, v, False)
        if val[('fix', CALL)] < van_c - NEG_TOL * sc or val[('fix', PUT)] < van_p - NEG_TOL * sc:
            viol('FX fixed-strike lookback worth less than the vanilla it dominates',
                 dict(case0, fixed_call=val[('fix', CALL)], call=van_c, fixed_put=val[('fix', PUT)], put=van_p), 'dominates-vanilla')
        # FXFixedLookbackOption reads the curves by DATE (df(expiry_dt)), FXFloatLookbackOption by YEAR FRACTION (df_t(days/365)):
        # the two see the same rates only for an ACT/365F curve, so the fixed-floating parity is judged there only (observation in notes)
        same_rates = dc == DayCountTypes.ACT_365F
        if same_rates and k <= smax and abs(r_cc - q_cc) >= 1e-9:
            d = val[('fix', CALL)] - val[('flt', PUT)] - (s * dqe - k * dfe)
            if abs(d) > 1e-7 * sc:
                viol('FX fixed lookback call - floating lookback put != S dq - K df (K <= Smax)', dict(case0, diff=d), 'lookback-parity')
        if same_rates and k >= smin and abs(r_cc - q_cc) >= 1e-9:
            d = val[('fix', PUT)] - val[('flt', CALL)] - (k * dfe - s * dqe)
            if abs(d) > 1e-7 * sc:
                viol('FX fixed lookback put - floating lookback call != K df - S dq (K >= Smin)', dict(case0, diff=d), 'lookback-parity')
        if k > smax and k >= s:
            a = float(FXFixedLookbackOption(ed, CALL, k).value(vd, s, dcv, fcv, v, smax))
            b = float(FXFixedLookbackOption(ed, CALL, k).value(vd, s, dcv, fcv, v, k))
            if abs(a - b) > 1e-7 * sc:
                viol('FX fixed lookback call with K > Smax differs from the same option valued with running max = K',
                     dict(case0, value=a, value_with_smax_eq_k=b), 'lookback-branch-identity')
        if k < smin and k <= s:
            a = float(FXFixedLookbackOption(ed, PUT, k).value(vd, s, dcv, fcv, v, smin))
            b = float(FXFixedLookbackOption(ed, PUT, k).value(vd, s, dcv, fcv, v, k))
            if abs(a - b) > 1e-7 * sc:
                viol('FX fixed lookback put with K < Smin differs from the same option valued with running min = K',
                     dict(case0, value=a, value_with_smin_eq_k=b), 'lookback-branch-identity')
    ctx.count('lookbacks FX: fixed/floating x call/put (sign, domination, fixed-floating parity, branch identity)', n_l * 4, n_l * 4)

    # ================================================================== lookbacks: running extreme AT the spot (the `==` branches)
    # Every lookback formula has a separate special-case branch for `extreme == spot` (a freshly struck lookback / spot on its
    # high or low).  All eight classes x types, extreme exactly equal to spot, one ulp away and 1e-9 relative away, maturities
    # away from one year (t = sqrt(t) only at t = 1).  Oracles: continuity in the running extreme at the spot, closed form with
    # exact Phi, fixed/floating relation, equity twin = FX twin; plus the Lean correspondence on exactly these inputs
    # (theorems C11f.*_shape / C11g.fx_*_shape: special case and general branch are one formula).
    add_corr = env['add_corr']
    rng = ctx.rng('lookback-at-extreme')
    n_b = 40 if quick else 600
    n_be = 0
    for i in range(n_b):
        vd = Date(rng.randint(1, 28), rng.randint(1, 12), rng.randint(2012, 2030))
        days = rng.choice([30, 91, 182, 200, 364, 366, 400, 730, 1095, rng.randint(10, 2000)])
        ed = vd.add_days(days)
        t = days / 365.0
        r, q, v, _ = draw_mkt(rng)
        if abs(r - q) / (v * v) > 20:
            v = max(v, math.sqrt(abs(r - q) / 20) + 0.01)
        dc = DayCountTypes.ACT_365F
        s = round(rng.choice([1.1, 100.0, 0.8, 110.0]) * math.exp(rng.gauss(0, 0.2)), 5)
        dcv, qcv = curves(vd, r, q, dc)
        r_cc, q_cc = -math.log(dcv.df(ed)) / t, -math.log(qcv.df(ed)) / t
        dfe, dqe = math.exp(-r_cc * t), math.exp(-q_cc * t)
        for cp in (CALL, PUT):
            for kind in ('fix', 'flt'):
                up = (kind == 'fix') == (cp == CALL)          # fixed call / floating put look at the maximum
                sgn = 1.0 if up else -1.0
                exts = [('equal', s), ('one-ulp', float(np.nextafter(s, s + sgn))), ('rel-1e-9', s * (1 + sgn * 1e-9))]
                strikes = [s * rng.uniform(0.7, 0.999), s, s * rng.uniform(1.001, 1.3)] if kind == 'fix' else [None]
                for k in strikes:
                    sc = max(s, k or s)
                    vals = {}
                    for nm, mm in exts:
                        for fx in (False, True):
                            case = {'fx': fx, 'kind': kind, 'type': cp.name, 'value_dt': str(vd), 'expiry_dt': str(ed), 't': t, 's': s, 'k': k,
                                    'extreme': mm, 'extreme_vs_spot': nm, 'r': r, 'q': q, 'vol': v, 'day_count': dc.name}
                            if kind == 'fix':
                                o = (FXFixedLookbackOption if fx else EquityFixedLookbackOption)(ed, cp, k)
                                if fx:
                                    op = f'FXFIX {fl(t, s, dcv.df(ed), qcv.df(ed), v, mm, k)} {cp.value}'
                                    pv = add('FXFixedLookbackOption.value', op, lambda: o.value(vd, s, dcv, qcv, v, mm), sc, case)
                                else:
                                    op = f'FIX {fl(t, s, dcv.df(ed), qcv.df(ed), v, mm, k)} {cp.value}'
                                    pv = add_corr('EquityFixedLookbackOption.value', op, lambda: o.value(vd, s, dcv, qcv, v, mm), sc, case)
                            else:
                                o = (FXFloatLookbackOption if fx else EquityFloatLookbackOption)(ed, cp)
                                if fx:
                                    op = f'FXFLT {fl(t, s, dcv.df_t(t), qcv.df_t(t), v, mm)} {cp.value}'
                                    pv = add('FXFloatLookbackOption.value', op, lambda: o.value(vd, s, dcv, qcv, v, mm), sc, case)
                                else:
                                    op = f'FLT {fl(t, s, dcv.cc_rate(ed), qcv.cc_rate(ed), v, mm)} {cp.value}'
                                    pv = add_corr('EquityFloatLookbackOption.value', op, lambda: o.value(vd, s, dcv, qcv, v, mm), sc, case)
                            n_be += 1
                            if not isinstance(pv, float):
                                viol('lookback value raised with the running extreme at the spot', dict(case, result=pv), 'defined')
                                continue
                            vals[(nm, fx)] = pv
                            ex = lookback_exact(kind, cp, s, k if k is not None else s, mm, t, r_cc, q_cc, v)
                            if abs(pv - ex) > 6e-6 * sc + 1e-6 * abs(ex):
                                viol('lookback value != closed form of the discounted expectation with the running extreme at / next to the spot',
                                     dict(case, value=pv, expected=ex, diff=pv - ex), 'value=expectation')
                    for fx in (False, True):
                        a = vals.get(('equal', fx))
                        for nm in ('one-ulp', 'rel-1e-9'):
                            b = vals.get((nm, fx))
                            if a is not None and b is not None and abs(a - b) > 1e-7 * sc:
                                viol('lookback value is discontinuous in the running extreme at extreme = spot',
                                     {'fx': fx, 'kind': kind, 'type': cp.name, 'value_dt': str(vd), 'expiry_dt': str(ed), 't': t, 's': s, 'k': k,
                                      'r': r, 'q': q, 'vol': v, 'value_at_extreme_eq_spot': a, 'value_next_to_it': b, 'distance': nm, 'jump': a - b},
                                     'continuity-in-running-extreme')
                    for nm, _ in exts:
                        a, b = vals.get((nm, False)), vals.get((nm, True))
                        if a is not None and b is not None and abs(a - b) > 1e-9 * sc:
                            viol('equity and FX lookback twins disagree under the same rates (q = r_foreign)',
                                 {'kind': kind, 'type': cp.name, 'value_dt': str(vd), 'expiry_dt': str(ed), 't': t, 's': s, 'k': k, 'extreme_vs_spot': nm,
                                  'r': r, 'q': q, 'vol': v, 'equity': a, 'fx': b, 'diff': a - b}, 'equity=fx-twin')
        # fixed/floating relation with the running extreme exactly at the spot (and next to it): needs K on the right side of it
        if abs(r_cc - q_cc) >= 1e-9:
            for fx in (False, True):
                Fix = FXFixedLookbackOption if fx else EquityFixedLookbackOption
                Flt = FXFloatLookbackOption if fx else EquityFloatLookbackOption
                for nm, rel in (('equal', 0.0), ('rel-1e-9', 1e-9)):
                    kc, kp = s * rng.uniform(0.7, 1.0), s * rng.uniform(1.0, 1.3)
                    smax, smin = s * (1 + rel), s * (1 - rel)
                    try:
                        d1 = float(Fix(ed, CALL, kc).value(vd, s, dcv, qcv, v, smax)) - float(Flt(ed, PUT).value(vd, s, dcv, qcv, v, smax)) - (s * dqe - kc * dfe)
                        d2 = float(Fix(ed, PUT, kp).value(vd, s, dcv, qcv, v, smin)) - float(Flt(ed, CALL).value(vd, s, dcv, qcv, v, smin)) - (kp * dfe - s * dqe)
                    except Exception as e:  # noqa: BLE001
                        viol('lookback value raised with the running extreme at the spot', {'fx': fx, 's': s, 'error': type(e).__name__}, 'defined')
                        continue
                    n_be += 4
                    if abs(d1) > 1e-7 * s or abs(d2) > 1e-7 * s:
                        viol('fixed - floating lookback relation fails with the running extreme at the spot',
                             {'fx': fx, 'value_dt': str(vd), 'expiry_dt': str(ed), 't': t, 's': s, 'k_call': kc, 'k_put': kp, 'extreme_vs_spot': nm,
                              'r': r, 'q': q, 'vol': v, 'fixed_call-float_put-(S dq-K df)': d1, 'fixed_put-float_call-(K df-S dq)': d2}, 'lookback-parity')
    ctx.count('lookbacks equity+FX with the running extreme at the spot (equal / one ulp / 1e-9): continuity, closed form, parity, twins',
              n_be, n_be)

    # ================================================================== FX double digital and FX digital
    # regression witness of the FIXED finding C11/fx-double-digital-domestic-payout-foreign-discount (must PASS; on a tree without the
    # fix it is a VIOLATION): EURUSD, USD premium, S=1.20, K=[1.10, 1.30], r_d=5 %, r_f=1 %, vol 15 %, 1y -> 0.393497727852
    wvd = Date(1, 6, 2021)
    wdd, wff = curves(wvd, 0.05, 0.01, DayCountTypes.ACT_365F)
    wo = FXDoubleDigitalOption(Date(1, 6, 2022), 1.30, 1.10, 'EURUSD', 1.0, 'USD')
    wv = float(wo.value(wvd, 1.20, wdd, wff, BlackScholes(0.15)))
    wsd = 0.15
    wd2 = [(math.log(1.20 / kk) + (0.05 - 0.01 - 0.15 * 0.15 / 2)) / wsd for kk in (1.10, 1.30)]
    wex = math.exp(-0.05) * (norm.cdf(-wd2[1]) - norm.cdf(-wd2[0]))
    if abs(wv - wex) > 2e-7:
        viol('FX double digital value != discounted probability-weighted payout in the premium currency',
             {'witness': True, 'value_dt': '01-JUN-2021', 'expiry_dt': '01-JUN-2022', 's': 1.20, 'k_lower': 1.10, 'k_upper': 1.30, 'r_dom': 0.05,
              'r_for': 0.01, 'vol': 0.15, 'notional': 1.0, 'prem_currency': 'USD', 'pair': 'EURUSD', 'value': wv, 'expectation': wex},
             'value=expectation',
             finding=('C11/fx-double-digital-domestic-payout-foreign-discount'
                      if abs(wv - math.exp(-0.01) * (norm.cdf(-wd2[1]) - norm.cdf(-wd2[0]))) <= 2e-7 else None))
    ctx.count('FX double digital: regression witness of the repaired domestic-discount finding', 1, 1)
    rng = ctx.rng('fx-digital')
    n_d = 120 if quick else 2000
    for i in range(n_d):
        vd, ed, t = draw_dates(rng, 10)
        rd, rf, v, dc = draw_mkt(rng)
        if i % 10 == 0:
            rf = rd
        s = round(rng.choice([1.1, 0.8, 1.35, 110.0]) * math.exp(rng.gauss(0, 0.1)), 5)
        k1 = s * math.exp(rng.gauss(-0.08, 0.08))
        k2 = k1 * math.exp(abs(rng.gauss(0, 0.15)) + 0.01)
        notional = rng.choice([1.0, 1000.0])
        dcv, fcv = curves(vd, rd, rf, dc)
        model = BlackScholes(v)
        for prem in ('USD', 'EUR'):        # pair EURUSD: EUR foreign, USD domestic
            pf, pd = int(prem == 'EUR'), int(prem == 'USD')
            o = FXDoubleDigitalOption(ed, k2, k1, 'EURUSD', notional, prem)
            t_del = (o.delivery_dt - vd.add_weekdays(o.spot_days)) / 365.0
            t_exp = (o.expiry_dt - vd) / 365.0
            tdc = max(t_del, 1e-10)
            dom_df, for_df = dcv.df_t(tdc), fcv.df_t(tdc)
            case = {'value_dt': str(vd), 'expiry_dt': str(ed), 's': s, 'k_lower': k1, 'k_upper': k2, 'r_dom': rd, 'r_for': rf, 'vol': v,
                    'notional': notional, 'prem_currency': prem, 'pair': 'EURUSD', 'day_count': dc.name}
            sc = notional * (s if pf else 1.0)
            op = f'FDD {fl(t_del, t_exp, s, dom_df, for_df, v, notional, k1, k2)} {pf} {pd}'
            pv = add('FXDoubleDigitalOption.value', op, lambda: o.value(vd, s, dcv, fcv, model), sc, case)
            dig = {}
            for cp in (OptionTypes.DIGITAL_CALL, OptionTypes.DIGITAL_PUT):
                for kk in (k1, k2):
                    og = FXDigitalOption(ed, kk, 'EURUSD', cp, notional, prem)
                    opg = f'FDG {fl(t_del, t_exp, s, dom_df, for_df, v, notional, kk)} {pf} {pd} {cp.value}'
                    dig[(cp, kk)] = add('FXDigitalOption.value', opg, lambda: og.value(vd, s, dcv, fcv, model), sc, dict(case, strike=kk, type=cp.name))
            if not isinstance(pv, float) or not all(isinstance(x, float) for x in dig.values()):
                viol('FX (double) digital value raised', dict(case, value=pv), 'defined')
                continue
            r_d, r_f = -math.log(dom_df) / tdc, -math.log(for_df) / tdc
            sd = v * math.sqrt(t_exp)

            def d2(kk):
                return (math.log(s / kk) + (r_d - r_f - v * v / 2) * tdc) / sd
            p2 = norm.cdf(-d2(k2)) - norm.cdf(-d2(k1))
            p1 = norm.cdf(-(d2(k2) + sd)) - norm.cdf(-(d2(k1) + sd))
            # expectation of the documented payoff: notional in the premium currency if K1 < S_T < K2
            ex = notional * (dom_df * p2 if pd else s * for_df * p1)
            fid = None
            if abs(pv - ex) > 2e-7 * sc:
                if pd and abs(pv - notional * for_df * p2) <= 2e-7 * sc:
                    fid = 'C11/fx-double-digital-domestic-payout-foreign-discount'
                if pf and abs(pv - notional * s * for_df * p2) <= 2e-7 * sc:
                    fid = 'C11/fx-double-digital-foreign-payout-d2'
                viol('FX double digital value != discounted probability-weighted payout in the premium currency',
                     dict(case, value=pv, expectation=ex, t_del=t_del), 'value=expectation', finding=fid)
            if pv < -NEG_TOL * sc:
                viol('FX double digital value is negative', dict(case, value=pv), 'non-negative')
            # the class's own digitals: call + put = unconditional payment (as coded: df_dom, resp. S df_for)
            for kk in (k1, k2):
                tot = dig[(OptionTypes.DIGITAL_CALL, kk)] + dig[(OptionTypes.DIGITAL_PUT, kk)]
                want = notional * (dom_df if pd else s * for_df)
                if abs(tot - want) > 1e-9 * sc:
                    viol('FX digital call + put != unconditional payment', dict(case, strike=kk, call_plus_put=tot, expected=want), 'digital call+put')
    ctx.count('FX double digital (2 premium currencies) and FX digital (call/put x 2 strikes): expectation, call+put', n_d * 10, n_d * 10)

    # ================================================================== geometric Asian: correspondence (both sides of the averaging start)
    # witness of C11/asian-geometric-negative-variance-few-observations, replayed on every run
    wvd, wsd, wed2 = Date(8, 4, 2017), Date(27, 10, 2016), Date(24, 7, 2017)
    wdc, wqc = curves(wvd, -0.0056, 0.0, DayCountTypes.ACT_365F)
    try:
        EquityAsianOption(wsd, wed2, 93.9958, CALL, 1).value(wvd, 96.94, wdc, wqc, BlackScholes(0.199), AsianOptionValuationMethods.GEOMETRIC, 102.18)
    except Exception as e:  # noqa: BLE001
        te_, tau_ = (wed2 - wvd) / 365.0, (wed2 - wsd) / 365.0
        viol('geometric Asian value raised on valid inputs', {'witness': True, 'value_dt': str(wvd), 'start_avg': str(wsd), 'expiry': str(wed2),
             's': 96.94, 'k': 93.9958, 'r': -0.0056, 'q': 0.0, 'vol': 0.199, 'n_obs': 1, 'accrued_average': 102.18, 'error': type(e).__name__},
             'defined', finding=('C11/asian-geometric-negative-variance-few-observations'
                                 if err_kind(e) == 'E:Other' and 1 * te_ / tau_ < 0.5 else None))
    rng = ctx.rng('asian-geo')
    n_a = 80 if quick else 1200
    for i in range(n_a):
        vd = Date(rng.randint(1, 28), rng.randint(1, 12), rng.randint(2012, 2028))
        r, q, v, dc = draw_mkt(rng)
        s = round(100 * math.exp(rng.gauss(0, 0.2)), 3)
        inside = i % 3 == 0
        sd = vd.add_days(-rng.randint(1, 200)) if inside else vd.add_days(rng.randint(0, 200))
        ed = (vd if inside else sd).add_days(rng.randint(30, 900))
        k = s * math.exp(rng.gauss(0, 0.1))
        n = rng.choice([1, 2, 12, 52, 252, 100000])
        acc = s * math.exp(rng.gauss(0, 0.05)) if inside else None
        dcv, qcv = curves(vd, r, q, dc)
        model = BlackScholes(v)
        t0, te, tau = (sd - vd) / 365.0, (ed - vd) / 365.0, (ed - sd) / 365.0
        for cp in (CALL, PUT):
            o = EquityAsianOption(sd, ed, k, cp, n)
            case = {'value_dt': str(vd), 'start_avg': str(sd), 'expiry': str(ed), 's': s, 'k': k, 'r': r, 'q': q, 'vol': v, 'n_obs': n,
                    'accrued_average': acc, 'type': cp.name, 'day_count': dc.name}
            op = f'AGEO {fl(t0, te, tau, dcv.cc_rate(ed), qcv.cc_rate(ed), s, acc if acc is not None else 0.0, v, k, float(n))} {cp.value}'
            pv = add('EquityAsianOption.value[GEOMETRIC]', op,
                     lambda: o.value(vd, s, dcv, qcv, model, AsianOptionValuationMethods.GEOMETRIC, acc), max(s, k), case)
            # inside the averaging period the code rescales n to n*t_exp/tau; below 1/2 the coded variance
            # sigma^2 t_exp (2n' - 1)/(6n') is negative, sqrt gives nan and the compiled N(nan) raises ZeroDivisionError
            n_eff = n * te / tau if t0 < 0 else float(n)
            var_geo = v * v * (max(t0, 0.0) + (te - max(t0, 0.0)) * (2 * n_eff - 1) / (6 * n_eff))
            if not isinstance(pv, float):
                fid = None
                if pv == 'E:Other' and var_geo < 0 and t0 < 0:
                    fid = 'C11/asian-geometric-negative-variance-few-observations'
                    nan_path.add(len(ops) - 1)       # the model's N(nan) is a number (fuel runs out): not comparable
                viol('geometric Asian value raised on valid inputs', dict(case, result=pv, rescaled_observations=n_eff, coded_variance=var_geo),
                     'defined', finding=fid)
    ctx.count('geometric Asian: model vs implementation (before / inside the averaging period)', n_a * 2, n_a * 2)

    # ================================================================== cliquet loop: correspondence
    rng = ctx.rng('cliquet')
    n_c = 40 if quick else 600
    for i in range(n_c):
        vd = Date(rng.randint(1, 28), rng.randint(1, 12), rng.randint(2012, 2028))
        r, q, v, dc = draw_mkt(rng)
        s = round(100 * math.exp(rng.gauss(0, 0.2)), 3)
        start = vd.add_days(-rng.choice([0, 0, rng.randint(1, 400)]))
        fe = vd.add_days(rng.randint(100, 1500))
        freq = rng.choice([FrequencyTypes.QUARTERLY, FrequencyTypes.SEMI_ANNUAL, FrequencyTypes.ANNUAL, FrequencyTypes.MONTHLY])
        dcv, qcv = curves(vd, r, q, dc)
        model = BlackScholes(v)
        for cp in (CALL, PUT):
            o = EquityCliquetOption(start, fe, cp, freq)
            per, tprev = [], 0.0
            for dt in o.expiry_dts:
                if dt > vd:
                    te = (dt - vd) / 365.0
                    per += [te, dcv.df(dt), qcv.df_t(tprev), qcv.df_t(te)]
                    tprev = te
            case = {'value_dt': str(vd), 'start': str(start), 'final_expiry': str(fe), 'freq': freq.name, 's': s, 'r': r, 'q': q, 'vol': v,
                    'type': cp.name, 'periods': len(per) // 4, 'day_count': dc.name}
            op = f'CLQ {cp.value} {fl(s, v, *per)}'
            add('EquityCliquetOption.value', op, lambda: o.value(vd, s, dcv, qcv, model), s, case)
    ctx.count('cliquet: loop model vs implementation', n_c * 2, n_c * 2)

    # ================================================================== variance swap: weights, portfolio, fair strike
    rng = ctx.rng('varswap')
    n_v = 30 if quick else 400
    n_id = 0
    for i in range(n_v):
        vd = Date(rng.randint(1, 28), rng.randint(1, 12), rng.randint(2012, 2028))
        r, q, v, dc = draw_mkt(rng)
        dc = DayCountTypes.ACT_365F
        s = round(100 * math.exp(rng.gauss(0, 0.2)), 3)
        md = vd.add_days(rng.randint(60, 900))
        dcv, qcv = curves(vd, r, q, dc)
        ncall, nput = rng.randint(1, 14), rng.randint(1, 14)
        spacing = s * rng.uniform(0.01, 0.06)
        use_fwd = rng.random() < 0.5
        ks = np.linspace(0.3, 2.0, 18) * s
        vols = v + 0.1 * (1.0 - ks / s) ** 2 + 0.05 * (1.0 - ks / s)
        vc = EquityVolCurve(vd, md, ks, vols)
        o = EquityVarianceSwap(vd, md, 0.04, 1.0e6, True)
        case = {'value_dt': str(vd), 'maturity': str(md), 's': s, 'r': r, 'q': q, 'atm_vol': v, 'num_calls': ncall, 'num_puts': nput,
                'strike_spacing': spacing, 'use_forward': use_fwd}
        try:
            fs = float(o.fair_strike(vd, s, qcv, vc, ncall, nput, spacing, dcv, use_fwd))
        except Exception as e:  # noqa: BLE001
            viol('variance swap fair_strike raised', dict(case, error=type(e).__name__ + ': ' + str(e)[:80]), 'defined')
            continue
        tm = (md - vd) / 365.0
        df, dq = dcv.df_t(tm), qcv.df_t(tm)
        rr, qq = -math.log(df) / tm, -math.log(dq) / tm
        g = math.exp((rr - qq) * tm)
        sstar = s * g if use_fwd else s
        npu = o.num_put_options                  # possibly truncated by the strike floor
        pk, ck = [float(x) for x in o.put_strikes], [float(x) for x in o.call_strikes]
        add('EquityVarianceSwap.fair_strike put_wts', f'VSW 0 {fl(tm, sstar, *pk[:npu + 1])}', lambda: list(o.put_wts[:npu]), 1.0 / (s * s), case)
        add('EquityVarianceSwap.fair_strike call_wts', f'VSW 1 {fl(tm, sstar, *ck[:ncall + 1])}', lambda: list(o.call_wts[:ncall]), 1.0 / (s * s), case)
        pv_p = [float(EquityVanillaOption(md, pk[n], PUT).value(vd, s, dcv, qcv, BlackScholes(vc.volatility(pk[n])))) for n in range(min(nput, len(pk)))]
        pv_c = [float(EquityVanillaOption(md, ck[n], CALL).value(vd, s, dcv, qcv, BlackScholes(vc.volatility(ck[n])))) for n in range(ncall)]
        pw = [float(x) for x in o.put_wts[:len(pv_p)]]
        cw = [float(x) for x in o.call_wts[:ncall]]
        pi_p = sum(a * b for a, b in zip(pv_p, pw))
        pi_c = sum(a * b for a, b in zip(pv_c, cw))
        add('EquityVarianceSwap.fair_strike pi_put', f'VSP {fl(*pv_p, *pw)}', lambda: pi_p, 1.0, case)
        add('EquityVarianceSwap.fair_strike total', f'VSF {fl(rr, tm, s, g, sstar, pi_c, pi_p)}', lambda: fs, 1.0, case)
        # replication identity (theorem C11h.vs_call_replicates / vs_put_replicates) on the implementation's own weights:
        # the option portfolio, held to expiry, pays exactly f at every strike of the grid
        def f(x):
            return (2.0 / tm) * ((x - sstar) / sstar - math.log(x / sstar))
        for m in range(1, ncall + 1):
            pay = sum(cw[j] * (ck[m] - ck[j]) for j in range(m))
            n_id += 1
            if abs(pay - f(ck[m])) > 1e-9 * max(1.0, abs(f(ck[m]))):
                viol('variance swap: call replication portfolio does not reproduce the log-contract payoff f at a grid strike',
                     dict(case, strike=ck[m], portfolio=pay, f=f(ck[m])), 'replication-identity')
        for m in range(1, npu + 1):
            pay = sum(float(o.put_wts[j]) * (pk[j] - pk[m]) for j in range(m))
            n_id += 1
            if abs(pay - f(pk[m])) > 1e-9 * max(1.0, abs(f(pk[m]))):
                viol('variance swap: put replication portfolio does not reproduce the log-contract payoff f at a grid strike',
                     dict(case, strike=pk[m], portfolio=pay, f=f(pk[m])), 'replication-identity')
        if any(float(x) < 0 for x in list(o.put_wts[:npu]) + cw):
            viol('variance swap: negative replication weight (f is convex)', dict(case, put_wts=[float(x) for x in o.put_wts[:npu]], call_wts=cw),
                 'weights-non-negative')
    ctx.count('variance swap: weights / portfolio / fair strike vs loop model; replication identity at the grid strikes', n_v * 4 + n_id, n_v * 4 + n_id)

    # ================================================================== correspondence with Driver/C11x
    out = None
    if drivers_ok and ops:
        try:
            out = C.run_driver('C11x', ops)
        except C.DriverError as e:
            ctx.broke(f'model driver C11x failed: {str(e)[:300]}')
    if out is not None:
        per = {}
        for idx, (op, im, mo, (comp, scale, case)) in enumerate(zip(ops, impl, out, meta)):
            st = per.setdefault(comp, {'n': 0, 'bad': 0, 'num': 0, 'maxerr': 0.0})
            st['n'] += 1
            if idx in nan_path:
                st['nan_kind'] = st.get('nan_kind', 0) + 1
                continue
            if isinstance(im, str) or mo.startswith('E:') or mo == 'bad-op':
                mk = 'E:FinError' if mo == 'E:FinError' else ('E:Other' if mo.startswith('E:') else mo)
                ok = isinstance(im, str) and im == mk
            elif isinstance(im, list):
                mv = [b2f(x) for x in mo.split()] if mo else []
                st['num'] += 1
                ok = len(mv) == len(im) and all(close(a, b, rtol=1e-9, atol=1e-9 * scale) for a, b in zip(im, mv))
                if ok and im:
                    st['maxerr'] = max(st['maxerr'], max(abs(a - b) for a, b in zip(im, mv)) / scale)
            else:
                mv = b2f(mo)
                st['num'] += 1
                ok = close(im, mv, rtol=1e-9, atol=1e-9 * scale)
                if ok and not (math.isnan(im) or math.isinf(im)):
                    st['maxerr'] = max(st['maxerr'], abs(im - mv) / scale)
            if not ok:
                st['bad'] += 1
                if st['bad'] <= 2:
                    shown = mo if (mo.startswith('E:') or mo == 'bad-op') else [b2f(x) for x in mo.split()]
                    ctx.broke(f'correspondence {comp}: model != implementation on `{op[:200]}` (model {shown}, impl {im}); case {case}')
        for comp, st in per.items():
            ctx.count('correspondence ' + comp, st['n'], st['num'])
            ctx.cov['components']['correspondence ' + comp].update({'disagree_model': st['bad'], 'max_scaled_error': st['maxerr']})
