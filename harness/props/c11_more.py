"""C11, second half: lookbacks, compound, chooser, rainbow, cliquet, geometric Asian.
Called from c11.run with its local environment (helpers, correspondence collectors)."""
import math


def run(ctx, env):
    import numpy as np
    from scipy import optimize
    from scipy.stats import norm
    add_corr, fl, curves, draw_dates, draw_mkt, viol = (env[k] for k in ('add_corr', 'fl', 'curves', 'draw_dates', 'draw_mkt', 'viol'))
    bs_exact, quick = env['bs_exact'], env['quick']
    Date, DayCountTypes, OptionTypes, BlackScholes = env['Date'], env['DayCountTypes'], env['OptionTypes'], env['BlackScholes']
    EquityVanillaOption, bs_value = env['EquityVanillaOption'], env['bs_value']
    EquityFixedLookbackOption, EquityFloatLookbackOption = env['EquityFixedLookbackOption'], env['EquityFloatLookbackOption']
    from financepy.products.equity.equity_compound_option import EquityCompoundOption
    from financepy.products.equity import equity_chooser_option as cho
    from financepy.products.equity.equity_rainbow_option import EquityRainbowOption, EquityRainbowOptionTypes
    from financepy.products.equity.equity_cliquet_option import EquityCliquetOption
    from financepy.products.equity.equity_asian_option import EquityAsianOption, AsianOptionValuationMethods
    from financepy.utils.frequency import FrequencyTypes
    from financepy.utils.global_vars import g_small
    CALL, PUT = OptionTypes.EUROPEAN_CALL, OptionTypes.EUROPEAN_PUT
    PAR_TOL, NEG_TOL = 1e-9, 2e-6

    # ================================================================== lookbacks (equity)
    rng = ctx.rng('lookback')
    n_l = 200 if quick else 3000
    for i in range(n_l):
        vd, ed, t = draw_dates(rng, 10)
        r, q, v, dc = draw_mkt(rng)
        if abs(r - q) / (v * v) > 20:          # |w| = 2|b|/v^2 > 100 switches to the truncated formulas: sampled separately below
            v = max(v, math.sqrt(abs(r - q) / 20) + 0.01)
        s = round(100 * math.exp(rng.gauss(0, 0.3)), 4)
        smax = s * (1 + rng.choice([0.0, rng.uniform(0, 0.3)]))
        smin = s * (1 - rng.choice([0.0, rng.uniform(0, 0.3)]))
        k = s * math.exp(rng.gauss(0, 0.2))
        dcv, qcv = curves(vd, r, q, dc)
        df, dq = dcv.df(ed), qcv.df(ed)
        r_cc, q_cc = dcv.cc_rate(ed), qcv.cc_rate(ed)
        case0 = {'value_dt': str(vd), 'expiry_dt': str(ed), 's': s, 'k': k, 'smin': smin, 'smax': smax, 'r': r, 'q': q, 'vol': v,
                 'day_count': dc.name}
        val = {}
        for cp, mm in ((CALL, smax), (PUT, smin)):
            o = EquityFixedLookbackOption(ed, cp, k)
            op = f'FIX {fl(t, s, df, dq, v, mm, k)} {cp.value}'
            val[('fix', cp)] = add_corr('EquityFixedLookbackOption.value', op, lambda: o.value(vd, s, dcv, qcv, v, mm), max(s, k),
                                        dict(case0, type=cp.name))
        for cp, mm in ((CALL, smin), (PUT, smax)):
            o = EquityFloatLookbackOption(ed, cp)
            op = f'FLT {fl(t, s, r_cc, q_cc, v, mm)} {cp.value}'
            val[('flt', cp)] = add_corr('EquityFloatLookbackOption.value', op, lambda: o.value(vd, s, dcv, qcv, v, mm), max(s, k),
                                        dict(case0, type=cp.name))
        if not all(isinstance(x, float) for x in val.values()):
            viol('lookback value raised on valid inputs', dict(case0, values={f'{a}/{b.name}': x for (a, b), x in val.items()}), 'defined')
            continue
        sc = max(s, k)
        van_c = float(EquityVanillaOption(ed, k, CALL).value(vd, s, dcv, qcv, BlackScholes(v)))
        van_p = float(EquityVanillaOption(ed, k, PUT).value(vd, s, dcv, qcv, BlackScholes(v)))
        for key, x in val.items():
            if x < -NEG_TOL * sc:
                viol('lookback value is negative', dict(case0, which=f'{key[0]}/{key[1].name}', value=x), 'non-negative')
        if val[('fix', CALL)] < van_c - NEG_TOL * sc or val[('fix', PUT)] < van_p - NEG_TOL * sc:
            viol('fixed-strike lookback worth less than the vanilla it dominates',
                 dict(case0, fixed_call=val[('fix', CALL)], call=van_c, fixed_put=val[('fix', PUT)], put=van_p), 'dominates-vanilla')
        # E[(M-K)+] - E[M - S_T] = S dq - K df  for K <= running max;  E[(K-m)+] - E[S_T - m] = K df - S dq  for K >= running min
        dfe, dqe = math.exp(-r_cc * t), math.exp(-q_cc * t)
        if k <= smax and abs(r_cc - q_cc) >= 1e-9:
            d = val[('fix', CALL)] - val[('flt', PUT)] - (s * dqe - k * dfe)
            if abs(d) > 1e-7 * sc:
                viol('fixed lookback call - floating lookback put != S dq - K df (K <= Smax)', dict(case0, diff=d,
                     fixed_call=val[('fix', CALL)], float_put=val[('flt', PUT)]), 'lookback-parity')
        if k >= smin and abs(r_cc - q_cc) >= 1e-9:
            d = val[('fix', PUT)] - val[('flt', CALL)] - (k * dfe - s * dqe)
            if abs(d) > 1e-7 * sc:
                viol('fixed lookback put - floating lookback call != K df - S dq (K >= Smin)', dict(case0, diff=d,
                     fixed_put=val[('fix', PUT)], float_call=val[('flt', CALL)]), 'lookback-parity')
        # Branch identity (exact, from the payoff): for K above the running maximum the payoff max(max(Smax, M_T) - K, 0)
        # does not depend on Smax, so V(K, Smax) = V(K, Smax := K), which the code computes in its OTHER branch
        # (K <= Smax); likewise for puts with K below the running minimum.  Ties the K > Smax branch to the parity above.
        if k > smax:
            a = float(EquityFixedLookbackOption(ed, CALL, k).value(vd, s, dcv, qcv, v, smax))
            b = float(EquityFixedLookbackOption(ed, CALL, k).value(vd, max(s, 0.0), dcv, qcv, v, k)) if k >= s else None
            if b is not None and abs(a - b) > 1e-7 * sc:
                viol('fixed lookback call with K > Smax differs from the same option valued with running max = K',
                     dict(case0, value=a, value_with_smax_eq_k=b), 'lookback-branch-identity')
        if k < smin:
            a = float(EquityFixedLookbackOption(ed, PUT, k).value(vd, s, dcv, qcv, v, smin))
            b = float(EquityFixedLookbackOption(ed, PUT, k).value(vd, s, dcv, qcv, v, k)) if k <= s else None
            if b is not None and abs(a - b) > 1e-7 * sc:
                viol('fixed lookback put with K < Smin differs from the same option valued with running min = K',
                     dict(case0, value=a, value_with_smin_eq_k=b), 'lookback-branch-identity')
    ctx.count('lookbacks equity: fixed/floating x call/put (sign, domination, fixed-floating parity, branch identity)', n_l * 4, n_l * 4)
    # expectation: value_mc with many steps (discretely observed extremum is biased towards smaller payoffs)
    rng = ctx.rng('lookback-mc')
    for i in range(4 if quick else 30):
        vd = Date(1, 3, 2021)
        ed = vd.add_days(365)
        r, q, v, s = rng.uniform(0.01, 0.06), rng.uniform(0.0, 0.03), rng.uniform(0.15, 0.35), 100.0
        dcv, qcv = curves(vd, r, q, DayCountTypes.ACT_365F)
        cp = (CALL, PUT)[i % 2]
        fixed = (i // 2) % 2 == 0
        if fixed:
            mm = s * (1.05 if cp == CALL else 0.95)
            o = EquityFixedLookbackOption(ed, cp, 100.0)
        else:
            mm = s * (0.95 if cp == CALL else 1.05)
            o = EquityFloatLookbackOption(ed, cp)
        an = float(o.value(vd, s, dcv, qcv, v, mm))
        mc = float(o.value_mc(vd, s, dcv, qcv, v, mm, num_paths=4000, num_steps_per_year=1000, seed=rng.randrange(1, 10 ** 6)))
        # bias of discrete monitoring ~ 0.5826 sigma sqrt(dt) S ~ 0.5 ; MC error ~ 0.5
        if not (-1.0 <= an - mc <= 2.5):
            viol('lookback analytical value disagrees with value_mc', {'fixed': fixed, 'type': cp.name, 's': s, 'r': r, 'q': q, 'vol': v,
                 'min_max': mm, 'analytic': an, 'value_mc': mc}, 'value_mc')
        ctx.count('lookbacks: value_mc cross-check', 1, 1)

    # ================================================================== compound
    rng = ctx.rng('compound')
    n_c = 120 if quick else 2000
    solver_failed = [0]
    for i in range(n_c):
        vd = Date(rng.randint(1, 28), rng.randint(1, 12), rng.randint(2010, 2030))
        d1 = rng.randint(30, 700)
        d2 = d1 + rng.randint(30, 900)
        cd, ud = vd.add_days(d1), vd.add_days(d2)
        r, q, v = rng.uniform(0.0, 0.08), rng.uniform(0.0, 0.04), rng.uniform(0.12, 0.5)
        dc = DayCountTypes.ACT_365F
        s = round(100 * math.exp(rng.gauss(0, 0.15)), 3)
        ku = s * math.exp(rng.gauss(0, 0.1))
        dcv, qcv = curves(vd, r, q, dc)
        model = BlackScholes(v)
        tc, tu = d1 / 365.0, d2 / 365.0
        df, dq = dcv.df(ud), qcv.df(ud)
        ru = -math.log(df) / tu
        qq = -math.log(dq) / max(max(tc, g_small), tu)
        und = {cp: float(bs_value(s, tu, ku, ru, qq, v, cp.value)) for cp in (CALL, PUT)}
        val = {}
        for ucp in (CALL, PUT):
            kc = und[ucp] * rng.uniform(0.3, 1.5) + 0.01
            for ccp in (CALL, PUT):
                o = EquityCompoundOption(cd, ccp, kc, ud, ucp, ku)
                case = {'value_dt': str(vd), 'c_expiry': str(cd), 'u_expiry': str(ud), 's': s, 'kc': kc, 'ku': ku, 'r': r, 'q': q,
                        'vol': v, 'c_type': ccp.name, 'u_type': ucp.name}
                try:
                    sstar = float(o._implied_stock_price(s, cd, ud, kc, ku, ucp, ru, qq, model))
                except Exception:  # noqa: BLE001
                    sstar = float('nan')
                if not math.isfinite(sstar):
                    # the critical-price Newton solve did not converge: the closed form is not defined (solver convergence is
                    # outside C11; the implementation raises).  Counted, not compared.
                    solver_failed[0] += 1
                    val[(ccp, ucp)] = 'solver-failed'
                    continue
                op = f'CMP {fl(tc, tu, s, df, dq, sstar, kc, ku, v)} {ccp.value} {ucp.value}'
                pv = add_corr('EquityCompoundOption.value', op, lambda: o.value(vd, s, dcv, qcv, model), s, case)
                val[(ccp, ucp)] = pv
                if isinstance(pv, float) and pv < -1e-5 * s:
                    viol('compound option value is negative', dict(case, value=pv), 'non-negative')
            a, b = val[(CALL, ucp)], val[(PUT, ucp)]
            if isinstance(a, float) and isinstance(b, float) and math.isfinite(a) and math.isfinite(b):
                want = und[ucp] - kc * math.exp(-ru * tc)
                if abs(a - b - want) > 2e-5 * s:          # Drezner bivariate approximation: ~1e-6 per term
                    viol('compound parity: call-on-X - put-on-X != X - strike x df(compound expiry)',
                         {'value_dt': str(vd), 'c_expiry': str(cd), 'u_expiry': str(ud), 's': s, 'kc': kc, 'ku': ku, 'r': r, 'q': q,
                          'vol': v, 'u_type': ucp.name, 'call_on': a, 'put_on': b, 'underlying': und[ucp], 'expected_diff': want},
                         'compound-parity')
                if a > und[ucp] + 1e-5 * s:
                    viol('call on an option worth more than the option', {'s': s, 'ku': ku, 'kc': kc, 'value': a, 'underlying': und[ucp]},
                         'bounded')
    ctx.count('compound: 4 type combinations (parity, sign, bound)', n_c * 4, n_c * 4 - solver_failed[0])
    ctx.cov['components']['compound: 4 type combinations (parity, sign, bound)']['critical_price_solver_failed'] = solver_failed[0]

    # ================================================================== chooser
    rng = ctx.rng('chooser')
    n_ch = 100 if quick else 1500
    for i in range(n_ch):
        vd = Date(rng.randint(1, 28), rng.randint(1, 12), rng.randint(2010, 2030))
        d0 = rng.randint(20, 500)
        same = i % 3 == 0
        dcall = d0 + rng.randint(20, 700)
        dput = dcall if same else d0 + rng.randint(20, 700)
        chd, ced, ped = vd.add_days(d0), vd.add_days(dcall), vd.add_days(dput)
        r, q, v = rng.uniform(0.0, 0.08), rng.uniform(0.0, 0.04), rng.uniform(0.12, 0.5)
        s = round(100 * math.exp(rng.gauss(0, 0.15)), 3)
        kc = s * math.exp(rng.gauss(0, 0.1))
        kp = kc if same else s * math.exp(rng.gauss(0, 0.1))
        dcv, qcv = curves(vd, r, q, DayCountTypes.ACT_365F)
        model = BlackScholes(v)
        o = cho.EquityChooserOption(chd, ced, ped, kc, kp)
        t, tc, tp = d0 / 365.0, dcall / 365.0, dput / 365.0
        rt, rtc, rtp, qq = dcv.cc_rate(chd), dcv.cc_rate(ced), dcv.cc_rate(ped), qcv.cc_rate(chd)
        case = {'value_dt': str(vd), 'choose_dt': str(chd), 'call_expiry': str(ced), 'put_expiry': str(ped), 's': s, 'kc': kc, 'kp': kp,
                'r': r, 'q': q, 'vol': v}
        try:
            istar = float(optimize.newton(cho._f, x0=s, args=(max(t, g_small), max(tc, g_small), max(tp, g_small), rtc, rtp, kc, kp,
                                                              max(v, g_small), qq), tol=1e-8, maxiter=50, fprime2=None))
        except Exception:  # noqa: BLE001
            istar = float('nan')
        op = f'CHO {fl(t, tc, tp, rt, rtc, rtp, qq, s, istar, kc, kp, v)}'
        pv = add_corr('EquityChooserOption.value', op, lambda: o.value(vd, s, dcv, qcv, model), s, case)
        if not isinstance(pv, float):
            viol('chooser value raised', dict(case, result=pv), 'defined')
            continue
        c = float(EquityVanillaOption(ced, kc, CALL).value(vd, s, dcv, qcv, model))
        p = float(EquityVanillaOption(ped, kp, PUT).value(vd, s, dcv, qcv, model))
        if pv < max(c, p) - 2e-5 * s or pv > c + p + 2e-5 * s:
            viol('chooser value outside [max(call, put), call + put]', dict(case, value=pv, call=c, put=p), 'chooser-bounds')
        if same:
            # simple chooser: max(C,P) at t = C + (K e^{-r(T-t)} - S_t e^{-q(T-t)})+  =>  call(K,T) + e^{-q(T-t)} put(K e^{-(r-q)(T-t)}, t)
            tau = tc - t
            want = bs_exact(s, kc, tc, r, q, v, True) + math.exp(-q * tau) * bs_exact(s, kc * math.exp(-(r - q) * tau), t, r, q, v, False)
            if abs(pv - want) > 2e-5 * s:
                viol('simple chooser parity: chooser != call(K,T) + e^{-q(T-t)} put(K e^{-(r-q)(T-t)}, t)', dict(case, value=pv, expected=want),
                     'chooser-parity')
    ctx.count('chooser: bounds and simple-chooser parity', n_ch, n_ch)

    # ================================================================== rainbow (two assets)
    rng = ctx.rng('rainbow')
    n_r = 120 if quick else 2000
    RT = EquityRainbowOptionTypes
    for i in range(n_r):
        vd, ed, t = draw_dates(rng, 20)
        r, q1, v1, dc = draw_mkt(rng)
        _, q2, v2, _ = draw_mkt(rng)
        dc = DayCountTypes.ACT_365F
        rho = rng.choice([rng.uniform(-0.9, 0.9), rng.uniform(-0.6, 0.6), 0.0])
        s1 = round(100 * math.exp(rng.gauss(0, 0.1)), 3)
        s2 = round(100 * math.exp(rng.gauss(0, 0.1)), 3)
        k = 100 * math.exp(rng.gauss(0, 0.1))
        dcv, q1c = curves(vd, r, q1, dc)
        _, q2c = curves(vd, r, q2, dc)
        rr, qq1, qq2 = dcv.zero_rate(ed), q1c.zero_rate(ed), q2c.zero_rate(ed)
        corr = np.array([[1.0, rho], [rho, 1.0]])
        vols = np.array([v1, v2])
        spots = np.array([s1, s2])
        val = {}
        for ty in (RT.CALL_ON_MAXIMUM, RT.PUT_ON_MAXIMUM, RT.CALL_ON_MINIMUM, RT.PUT_ON_MINIMUM):
            o = EquityRainbowOption(ed, ty, [k], 2)
            case = {'value_dt': str(vd), 'expiry_dt': str(ed), 's1': s1, 's2': s2, 'k': k, 'r': r, 'q1': q1, 'q2': q2, 'v1': v1, 'v2': v2,
                    'rho': rho, 'type': ty.name}
            op = f'RBW {fl(t, rr, qq1, qq2, rho, s1, s2, v1, v2, k)} {ty.value}'
            pv = add_corr('EquityRainbowOption.value', op, lambda: o.value(vd, spots, dcv, [q1c, q2c], vols, corr), max(s1, s2, k), case)
            val[ty] = pv
            if isinstance(pv, float) and pv < -2e-5 * k:
                viol('rainbow option value is negative', dict(case, value=pv), 'non-negative')
        if all(isinstance(x, float) for x in val.values()):
            c1 = bs_exact(s1, k, t, rr, qq1, v1, True)
            c2 = bs_exact(s2, k, t, rr, qq2, v2, True)
            d = val[RT.CALL_ON_MAXIMUM] + val[RT.CALL_ON_MINIMUM] - c1 - c2
            case = {'value_dt': str(vd), 'expiry_dt': str(ed), 's1': s1, 's2': s2, 'k': k, 'r': r, 'q1': q1, 'q2': q2, 'v1': v1, 'v2': v2,
                    'rho': rho}
            if abs(d) > 3e-5 * k:
                viol('call on max + call on min != sum of the two single-asset calls', dict(case, best=val[RT.CALL_ON_MAXIMUM],
                     worst=val[RT.CALL_ON_MINIMUM], call1=c1, call2=c2, diff=d), 'best+worst')
            # max + min = S1 + S2  =>  (k df - put_max + call_max) + (k df - put_min + call_min) = S1 dq1 + S2 dq2
            fw = (k * math.exp(-rr * t) - val[RT.PUT_ON_MAXIMUM] + val[RT.CALL_ON_MAXIMUM]) + \
                 (k * math.exp(-rr * t) - val[RT.PUT_ON_MINIMUM] + val[RT.CALL_ON_MINIMUM])
            want = s1 * math.exp(-qq1 * t) + s2 * math.exp(-qq2 * t)
            if abs(fw - want) > PAR_TOL * k * 10:
                viol('rainbow put-call parities: implied values of max(S1,S2) + min(S1,S2) != S1 dq1 + S2 dq2', dict(case, implied=fw,
                     expected=want), 'rainbow-put-call')
            for ty, single in ((RT.CALL_ON_MAXIMUM, max(c1, c2)), (RT.CALL_ON_MINIMUM, None)):
                if single is not None and val[ty] < single - 3e-5 * k:
                    viol('call on the maximum worth less than the dearer single-asset call', dict(case, value=val[ty], single=single), 'bounded')
            if val[RT.CALL_ON_MINIMUM] > min(c1, c2) + 3e-5 * k:
                viol('call on the minimum worth more than the cheaper single-asset call', dict(case, value=val[RT.CALL_ON_MINIMUM],
                     singles=[c1, c2]), 'bounded')
    ctx.count('rainbow: 4 two-asset types (best+worst, put-call, bounds, sign)', n_r * 4, n_r * 4)

    # ================================================================== cliquet and geometric Asian (oracles only)
    rng = ctx.rng('cliquet-asian')
    n_a = 40 if quick else 600
    for i in range(n_a):
        vd = Date(rng.randint(1, 28), rng.randint(1, 12), rng.randint(2012, 2028))
        r, q, v = rng.uniform(0.0, 0.08), rng.uniform(0.0, 0.04), rng.uniform(0.1, 0.5)
        s = round(100 * math.exp(rng.gauss(0, 0.2)), 3)
        dcv, qcv = curves(vd, r, q, DayCountTypes.ACT_365F)
        model = BlackScholes(v)
        # cliquet = sum of forward-start ATM options: S dq(t_prev) BS(1, tau, 1)
        fe = vd.add_days(rng.randint(200, 1500))
        for cp in (CALL, PUT):
            o = EquityCliquetOption(vd, fe, cp, FrequencyTypes.QUARTERLY)
            pv = float(o.value(vd, s, dcv, qcv, model))
            tot, tprev = 0.0, 0.0
            for dt in o.expiry_dts:
                if dt > vd:
                    te = (dt - vd) / 365.0
                    tau = te - tprev
                    tot += s * math.exp(-q * tprev) * bs_exact(1.0, 1.0, tau, r, q, v, cp == CALL)
                    tprev = te
            case = {'value_dt': str(vd), 'final_expiry': str(fe), 's': s, 'r': r, 'q': q, 'vol': v, 'type': cp.name}
            if abs(pv - tot) > 2e-6 * s * max(1, len(o.expiry_dts)) or pv < 0:
                viol('cliquet value != sum of discounted forward-start at-the-money options', dict(case, value=pv, expected=tot),
                     'value=expectation')
        # geometric Asian: exact lognormal law of the continuously averaged geometric mean (n large)
        sd = vd.add_days(rng.randint(0, 200))
        ed = sd.add_days(rng.randint(60, 900))
        k = s * math.exp(rng.gauss(0, 0.1))
        n = 100000
        t0, te = (sd - vd) / 365.0, (ed - vd) / 365.0
        m = (r - q - v * v / 2) * (t0 + (te - t0) / 2)
        var = v * v * (t0 + (te - t0) / 3)
        eg = s * math.exp(m + var / 2)
        d1 = (m + math.log(s / k) + var) / math.sqrt(var)
        cg = math.exp(-r * te) * (eg * norm.cdf(d1) - k * norm.cdf(d1 - math.sqrt(var)))
        vals = {}
        for cp in (CALL, PUT):
            o = EquityAsianOption(sd, ed, k, cp, n)
            vals[cp] = float(o.value(vd, s, dcv, qcv, model, AsianOptionValuationMethods.GEOMETRIC))
        case = {'value_dt': str(vd), 'start_avg': str(sd), 'expiry': str(ed), 's': s, 'k': k, 'r': r, 'q': q, 'vol': v, 'n_obs': n}
        if abs(vals[CALL] - cg) > 1e-5 * s or vals[CALL] < 0 or vals[PUT] < -1e-6 * s:
            viol('geometric Asian call != discounted expectation under the lognormal law of the geometric average',
                 dict(case, value=vals[CALL], expected=cg), 'value=expectation')
        if abs(vals[CALL] - vals[PUT] - (eg - k) * math.exp(-r * te)) > 1e-6 * s:
            viol('geometric Asian call - put != discounted (E[G] - K)', dict(case, call=vals[CALL], put=vals[PUT]), 'asian-parity')
    ctx.count('cliquet (call/put) and geometric Asian (call/put): value vs independent expectation', n_a * 4, n_a * 4)
