"""Replay of one C11 failing input: recompute the failing clause on the implementation.
Only the most common clauses are re-evaluated numerically; for the others the stored case is printed (it contains every
input needed to reproduce by hand) and the replay reports the violation as recorded."""
import math
import os
import sys

sys.path.insert(0, os.path.dirname(os.path.dirname(os.path.abspath(__file__))))
import common as C  # noqa: E402


def _date(s):
    from financepy.utils.date import Date
    mon = {m: i + 1 for i, m in enumerate(['JAN', 'FEB', 'MAR', 'APR', 'MAY', 'JUN', 'JUL', 'AUG', 'SEP', 'OCT', 'NOV', 'DEC'])}
    d, m, y = s.split('-')
    return Date(int(d), mon[m], int(y))


def replay(ctx, v, path):
    C.import_financepy()
    from financepy.utils.day_count import DayCountTypes
    from financepy.utils.frequency import FrequencyTypes
    from financepy.utils.global_types import EquityBarrierTypes, OptionTypes, TouchOptionTypes
    from financepy.market.curves.discount_curve_flat import DiscountCurveFlat
    from financepy.models.black_scholes import BlackScholes
    from financepy.products.equity.equity_vanilla_option import EquityVanillaOption
    from financepy.products.equity.equity_barrier_option import EquityBarrierOption
    from financepy.products.equity.equity_one_touch_option import EquityOneTouchOption
    from financepy.products.fx.fx_one_touch_option import FXOneTouchOption
    c, clause = v['case'], v.get('clause')
    bad = None
    if clause == 'in+out=vanilla' and 'knock_in' in c and 'r_dom' not in c:
        vd, ed = _date(c['value_dt']), _date(c['expiry_dt'])
        dc = DayCountTypes[c['day_count']]
        dcv = DiscountCurveFlat(vd, c['r'], FrequencyTypes.CONTINUOUS, dc)
        qcv = DiscountCurveFlat(vd, c['q'], FrequencyTypes.CONTINUOUS, dc)
        m = BlackScholes(c['vol'])
        a = EquityBarrierOption(ed, c['k'], EquityBarrierTypes[c['knock_in']], c['h'], c['nobs']).value(vd, c['s'], dcv, qcv, m)
        b = EquityBarrierOption(ed, c['k'], EquityBarrierTypes[c['knock_out']], c['h'], c['nobs']).value(vd, c['s'], dcv, qcv, m)
        cp = OptionTypes.EUROPEAN_CALL if 'CALL' in c['knock_in'] else OptionTypes.EUROPEAN_PUT
        van = EquityVanillaOption(ed, c['k'], cp).value(vd, c['s'], dcv, qcv, m)
        print(f'replay: {c["knock_in"]}={a} + {c["knock_out"]}={b} = {a + b}; vanilla={van}; diff={a + b - van}')
        bad = abs(a + b - van) > 1e-9 * max(c['s'], c['k'])
    elif clause == 'touch+no-touch':
        vd, ed = _date(c['value_dt']), _date(c['expiry_dt'])
        dcv = DiscountCurveFlat(vd, c['r'], FrequencyTypes.CONTINUOUS, DayCountTypes.ACT_365F)
        qcv = DiscountCurveFlat(vd, c['q'], FrequencyTypes.CONTINUOUS, DayCountTypes.ACT_365F)
        m = BlackScholes(c['vol'])
        cls = FXOneTouchOption if c.get('fx') else EquityOneTouchOption
        a = cls(ed, TouchOptionTypes[c['touch']], c['h'], c['payment']).value(vd, c['s'], dcv, qcv, m)
        b = cls(ed, TouchOptionTypes[c['no_touch']], c['h'], c['payment']).value(vd, c['s'], dcv, qcv, m)
        t = (ed - vd) / 365.0
        want = c['payment'] * dcv.df(ed) if 'CASH' in c['touch'] else c['s'] * math.exp(-qcv.cc_rate(ed) * t)
        print(f'replay: touch={a} + no-touch={b} = {a + b}; expected {want} (day count ACT_365F assumed in replay)')
        bad = abs(a + b - want) > 1e-7 * max(c['s'], c['payment'])
    if bad is None:
        print('replay: clause', clause, 'is not re-evaluated by the replay tool; the recorded case above holds every input')
        bad = True
    if bad:
        print(f'VIOLATION property=C11 replay={path}')
        return 1
    print('replay: the recorded input no longer violates the clause')
    return 0
